(* C18 — text and graph renderings encode the tree faithfully.
   Only the property theorems; models in Algo/Render.v, HRender.v, Dot.v, predicates in Spec/PC18.v,
   proofs in Algo/RenderProofs.v.  Trees: tag `Some 0` marks an empty BinaryNode slot (`is_hole`);
   `compact` = the tree of the existing nodes; `yield_lines st s` = what yield_tree emits for the
   already selected and depth-cut tree s (`yield_tree` = get_subtree + style check + yield_lines). *)
From BT Require Import Base.Prelude Base.Str Base.Rose Algo.Render Algo.HRender Algo.Dot Spec.PC18
     Algo.RenderProofs Corr.RenderCorr.

(* ---------------------------------------------------------------------------------------------- *)
(* vertical rendering (every style, built-in or custom; any fan-out and depth) *)

(* one line per node, names in pre-order *)
Theorem C18_v_lines_preorder : forall st t, v_lines_preorder t (yield_lines st t) = true.
Proof. exact v_lines_preorder_model. Qed.
Print Assumptions C18_v_lines_preorder.

(* the root line has no prefix; a node of depth d below the root has (d-1) cells of the style's
   width followed by one connector of that width.  Guard: the three style strings have one length
   (otherwise yield_tree raises ValueError, see C18_v_call) *)
Theorem C18_v_indent : forall st t, vstyle_ok st = true -> v_indent st t (yield_lines st t) = true.
Proof. exact v_indent_model. Qed.
Print Assumptions C18_v_indent.

(* the connector is the branch icon iff a sibling follows, the final icon otherwise *)
Theorem C18_v_fill : forall st t, v_fill st t (yield_lines st t) = true.
Proof. exact v_fill_model. Qed.
Print Assumptions C18_v_fill.

(* cell k is a stem iff the ancestor at level k has a following sibling, blank otherwise: the
   bookkeeping with the set `unclosed_depth` is correct *)
Theorem C18_v_stems : forall st t, v_stems st t (yield_lines st t) = true.
Proof. exact v_stems_model. Qed.
Print Assumptions C18_v_stems.

(* the explicit form of the three previous statements: the loop emits exactly the spec's rows *)
Theorem C18_v_rows : forall st t,
  yield_lines st t = ([], [], tname t) :: map (vline_of st) (vrows_root t).
Proof. exact yield_lines_spec. Qed.
Print Assumptions C18_v_rows.

(* the tree is decoded back from (indentation, name): `forest_of_pre` of Base/Rose.v.
   Guard: style of positive width *)
Theorem C18_v_decodable : forall st t,
  vstyle_ok st = true -> vs_width st <> 0 -> v_decodable st t (yield_lines st t) = true.
Proof. exact v_decodable_model. Qed.
Print Assumptions C18_v_decodable.

(* the call as a whole: start at an inner node, max_depth, style check, empty slots skipped *)
Theorem C18_v_call : forall st t start md out,
  yield_tree st t start md = Ret out ->
  exists s, get_subtree t start md = Some s /\ vstyle_ok st = true
            /\ out = yield_lines st (compact s) /\ prop_C18_v st (compact s) out = true.
Proof. exact yield_tree_prop. Qed.
Print Assumptions C18_v_call.

(* example trees (names as code points) *)
Local Open Scope N_scope.
Definition ex_tree_v : tree :=
  Nd [114] [Nd [97] [Nd [98] [Nd [99] [Nd [100] []]; Nd [101] []; Nd [102] [Nd [103] [Nd [104] []]]];
                     Nd [105] [Nd [106] []]]; Nd [107] []].
Definition ex_style_v : vstyle := VS [124; 32] [124; 45] [96; 45].
Definition ex_tree_g : tree :=
  Nd [97] [Nd [98] [Nd [97] []; Nd [99] []]; Nd [99] [Nd [97] []; Nd [98] [Nd [97] []]]].
(* K2: a node labelled a1 and eleven nodes labelled a below a root r *)
Definition k2_witness : tree :=
  Nd [114] [Nd [97; 49] [];
            Nd [97] [Nd [97] [Nd [97] [Nd [97] [Nd [97] [Nd [97] [Nd [97] [Nd [97] [Nd [97] [Nd [97] [Nd [97] []]]]]]]]]]]].
(* K5: names a:b, c, a:c *)
Definition k5_witness : tree := Nd [97; 58; 98] [Nd [99] []; Nd [97; 58; 99] []].
Definition k4_witness : tree := Nd [120] [].
Definition slash : str := [47].
Local Close Scope N_scope.

(* non-vacuity: a tree of depth 5 with fan-out 3, closed branches above deeper nodes, started at an
   inner node with max_depth 3, custom style of width 2 *)
Example C18_v_call_witness :
  exists out, yield_tree ex_style_v ex_tree_v [0] 3 = Ret out /\ length out = 7
              /\ vstyle_ok ex_style_v = true /\ vs_width ex_style_v <> 0.
Proof. eexists. split; [vm_compute; reflexivity|]. repeat split. discriminate. Qed.

(* ---------------------------------------------------------------------------------------------- *)
(* mermaid *)

(* the vertex names 0, 0-i, 0-i-j, ... are pairwise different, for every tree *)
Theorem C18_mermaid_ids_injective : forall t, graph_ids_distinct (mermaid_nodes t) = true.
Proof. exact mermaid_ids_distinct. Qed.
Print Assumptions C18_mermaid_ids_injective.

(* K4: for a one-node tree no flow line and hence no vertex is emitted *)
Example C18_mermaid_single_node_refuted :
  exists t, tsize (compact t) = 1 /\ prop_C18_g t (mermaid_nodes t) (mermaid_edges t) = false.
Proof. exists k4_witness. split; vm_compute; reflexivity. Qed.

(* ---------------------------------------------------------------------------------------------- *)
(* dot *)

(* one vertex per node with the node's name as label, in pre-order, and exactly one edge per
   parent-child link, joining the ids of the two nodes — for every tree, also with repeated names
   (ids as bigtree computes them and hands them to pydot) *)
Theorem C18_dot_edges_exact : forall sep t,
  graph_vertices_ok (compact t) (dot_raw_nodes sep t) = true
  /\ graph_edges_ok (compact t) (dot_raw_nodes sep t) (dot_edges sep t) = true.
Proof. exact dot_vertices_edges_exact. Qed.
Print Assumptions C18_dot_edges_exact.

(* Guards: no label ends in a decimal digit (K2), the nodes have pairwise different path names,
   no label contains ':' (K5).  Then the vertex names inside the pydot graph are pairwise different. *)
Theorem C18_dot_ids_injective_partial : forall sep t,
  no_label_ends_in_digit t = true -> paths_distinct sep t = true -> no_label_has_colon t = true ->
  graph_ids_distinct (dot_nodes sep t) = true.
Proof. exact dot_ids_injective_partial. Qed.
Print Assumptions C18_dot_ids_injective_partial.

(* under the same guards the whole graph clause holds *)
Theorem C18_dot_graph_partial : forall sep t,
  no_label_ends_in_digit t = true -> paths_distinct sep t = true -> no_label_has_colon t = true ->
  prop_C18_g t (dot_nodes sep t) (dot_edges sep t) = true.
Proof.
  intros sep t H1 H2 H3. unfold prop_C18_g.
  rewrite (dot_ids_injective_partial sep t H1 H2 H3), (dot_nodes_plain sep t H3).
  destruct (dot_vertices_edges_exact sep t) as [-> ->]. reflexivity.
Qed.
Print Assumptions C18_dot_graph_partial.

(* non-vacuity of the guards: repeated names across branches *)
Example C18_dot_guards_witness :
  no_label_ends_in_digit ex_tree_g = true /\ paths_distinct slash ex_tree_g = true
  /\ no_label_has_colon ex_tree_g = true /\ length (dot_nodes slash ex_tree_g) = 8.
Proof. vm_compute. repeat split. Qed.

(* K2: a node labelled a1 and eleven nodes labelled a: the id a10 is given twice *)
Example C18_dot_ids_refuted :
  exists t, tsize t = 13 /\ paths_distinct slash t = true /\ no_label_has_colon t = true
            /\ graph_ids_distinct (dot_nodes slash t) = false.
Proof. exists k2_witness. vm_compute. repeat split. Qed.

(* K5: a name with a colon: pydot cuts the vertex name, two vertices are called "a" and the edges
   end in names that are no vertices *)
Example C18_dot_colon_refuted :
  exists t, no_label_ends_in_digit t = true /\ paths_distinct slash t = true
            /\ graph_ids_distinct (dot_nodes slash t) = false
            /\ graph_edges_ok (compact t) (dot_nodes slash t) (dot_edges slash t) = false.
Proof. exists k5_witness. vm_compute. repeat split. Qed.
