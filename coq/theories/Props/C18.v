(* C18 — text and graph renderings encode the tree faithfully.
   Only the property theorems; models in Algo/Render.v, HRender.v, Dot.v, predicates in Spec/PC18.v,
   proofs in Algo/RenderProofs.v.  Trees: tag `Some 0` marks an empty BinaryNode slot (`is_hole`);
   `compact` = the tree of the existing nodes; `yield_lines st s` = what yield_tree emits for the
   already selected and depth-cut tree s (`yield_tree` = get_subtree + style check + yield_lines). *)
From BT Require Import Base.Prelude Base.Str Base.Rose Algo.Render Algo.HRender Algo.Dot Spec.PC18
     Algo.RenderProofs Corr.RenderCorr.

(* ---------------------------------------------------------------------------------------------- *)
(* vertical rendering (every style, built-in or custom; any fan-out and depth) *)

(* one line per node, names in pre-order *)
Theorem C18_v_lines_preorder : forall st t, v_lines_preorder t (yield_lines st t) = true.
Proof. exact v_lines_preorder_model. Qed.
Print Assumptions C18_v_lines_preorder.

(* the root line has no prefix; a node of depth d below the root has (d-1) cells of the style's
   width followed by one connector of that width.  Guard: the three style strings have one length
   (otherwise yield_tree raises ValueError, see C18_v_call) *)
Theorem C18_v_indent : forall st t, vstyle_ok st = true -> v_indent st t (yield_lines st t) = true.
Proof. exact v_indent_model. Qed.
Print Assumptions C18_v_indent.

(* the connector is the branch icon iff a sibling follows, the final icon otherwise *)
Theorem C18_v_fill : forall st t, v_fill st t (yield_lines st t) = true.
Proof. exact v_fill_model. Qed.
Print Assumptions C18_v_fill.

(* cell k is a stem iff the ancestor at level k has a following sibling, blank otherwise: the
   bookkeeping with the set `unclosed_depth` is correct *)
Theorem C18_v_stems : forall st t, v_stems st t (yield_lines st t) = true.
Proof. exact v_stems_model. Qed.
Print Assumptions C18_v_stems.

(* the explicit form of the three previous statements: the loop emits exactly the spec's rows *)
Theorem C18_v_rows : forall st t,
  yield_lines st t = ([], [], tname t) :: map (vline_of st) (vrows_root t).
Proof. exact yield_lines_spec. Qed.
Print Assumptions C18_v_rows.

(* the tree is decoded back from (indentation, name): `forest_of_pre` of Base/Rose.v.
   Guard: style of positive width *)
Theorem C18_v_decodable : forall st t,
  vstyle_ok st = true -> vs_width st <> 0 -> v_decodable st t (yield_lines st t) = true.
Proof. exact v_decodable_model. Qed.
Print Assumptions C18_v_decodable.

(* also from the printed text alone (print_tree's lines): every line is cut into cells of the
   style's width until the connector is met.  Guards: one length for the three strings; positive
   width and a connector that differs from the stem and from the blank cell (`vstyle_distinct`;
   true for the six built-in styles, see C18_v_builtin_styles_distinct) *)
Theorem C18_v_text_decodable : forall st,
  vstyle_ok st = true -> vstyle_distinct st = true ->
  forall t, v_text_decodable st t (print_lines st t) = true.
Proof. exact v_text_decodable_model. Qed.
Print Assumptions C18_v_text_decodable.

Example C18_v_builtin_styles_distinct :
  forallb (fun st => vstyle_ok st && vstyle_distinct st)
          [vs_ansi; vs_ascii; vs_const; vs_const_bold; vs_rounded; vs_double] = true.
Proof. vm_compute. reflexivity. Qed.

(* the call as a whole: start at an inner node, max_depth, style check, empty slots skipped *)
Theorem C18_v_call : forall st t start md out,
  yield_tree st t start md = Ret out ->
  exists s, get_subtree t start md = Some s /\ vstyle_ok st = true
            /\ out = yield_lines st (compact s) /\ prop_C18_v st (compact s) out = true.
Proof. exact yield_tree_prop. Qed.
Print Assumptions C18_v_call.

(* example trees (names as code points) *)
Local Open Scope N_scope.
Definition ex_tree_v : tree :=
  Nd [114] [Nd [97] [Nd [98] [Nd [99] [Nd [100] []]; Nd [101] []; Nd [102] [Nd [103] [Nd [104] []]]];
                     Nd [105] [Nd [106] []]]; Nd [107] []].
Definition ex_style_v : vstyle := VS [124; 32] [124; 45] [96; 45].
Definition ex_tree_g : tree :=
  Nd [97] [Nd [98] [Nd [97] []; Nd [99] []]; Nd [99] [Nd [97] []; Nd [98] [Nd [97] []]]].
(* K2: a node labelled a1 and eleven nodes labelled a below a root r *)
Definition k2_witness : tree :=
  Nd [114] [Nd [97; 49] [];
            Nd [97] [Nd [97] [Nd [97] [Nd [97] [Nd [97] [Nd [97] [Nd [97] [Nd [97] [Nd [97] [Nd [97] [Nd [97] []]]]]]]]]]]].
(* K5: names a:b, c, a:c *)
Definition k5_witness : tree := Nd [97; 58; 98] [Nd [99] []; Nd [97; 58; 99] []].
Definition k4_witness : tree := Nd [120] [].
Definition slash : str := [47].
Definition ex_chain_names : list str := [[114]; [97; 98]; [120; 32; 121]; [122]].
(* K6: a(b) and a(c) *)
Definition k6_tree1 : tree := Nd [97] [Nd [98] []].
Definition k6_tree2 : tree := Nd [97] [Nd [99] []].
(* a(b [edge label 1], c(d [edge color r])) *)
Definition ex_tree_s : tree :=
  Nd [97] [Na [98] [(101 :: s_label, VStr [49])] []; Nd [99] [Na [100] [(101 :: s_color, VStr [114])] []]].
Definition ex_tree_h : tree :=
  Nd [114] [Nd [97; 97; 97] [Nd [112] []; Nd [113] []];
            Nd [98] [Nd [99; 99; 99; 99; 99] [Nd [100] []]; Hole];
            Nd [101] [];
            Nd [102; 102] [Nd [103] []; Nd [104] [Nd [105] []; Nd [106] []]; Nd [107] []]].
Local Close Scope N_scope.

(* non-vacuity: a tree of depth 5 with fan-out 3, closed branches above deeper nodes, started at an
   inner node with max_depth 3, custom style of width 2 *)
Example C18_v_call_witness :
  exists out, yield_tree ex_style_v ex_tree_v [0] 3 = Ret out /\ length out = 7
              /\ vstyle_ok ex_style_v = true /\ vs_width ex_style_v <> 0.
Proof. eexists. split; [vm_compute; reflexivity|]. repeat split. discriminate. Qed.

(* ---------------------------------------------------------------------------------------------- *)
(* horizontal rendering (every style of seven one-character icons, intermediate names on or off) *)

(* number of rows: 1 for a leaf or an empty slot, the sum over the children for an inner node, plus one
   separating row exactly when it has two children of one row each (`hrows`); and the code's
   `assert len(result) == 2` can never fire (hyield_rows returns, it does not raise) *)
Theorem C18_h_rows : forall st inter t,
  exists rows, hyield_rows st inter t = Ret rows /\ h_rows t rows = true.
Proof. exact hyield_rows_spec. Qed.
Print Assumptions C18_h_rows.

(* for every block: the branch row lies inside the block and touches its first or last row only
   when the block has a single row — each parent sits strictly inside its children's span *)
Theorem C18_h_branch_row_inside : forall st inter ws t d,
  blk_good (hbranch st inter ws d t) /\ blk_rows (hbranch st inter ws d t) = hrows t.
Proof. intros st inter ws t d. apply hbranch_good. Qed.
Print Assumptions C18_h_branch_row_inside.

(* every row is some prefix followed by the cell of one leaf (or empty slot); read top to bottom the
   cells are those of the leaves in pre-order; the only rows without a leaf are the separating rows.
   (Model-level form of the clause; the boolean h_leaf_order, which first cuts the rows into column
   bands, is evaluated on every output.) *)
Theorem C18_h_leaf_order : forall st inter t,
  exists rows P, hyield_rows st inter t = Ret rows
    /\ rows = zip_with (@app N) P (hsuffixes st (padding_depths inter t) 1 t)
    /\ length rows = length (hsuffixes st (padding_depths inter t) 1 t)
    /\ filter nonempty (hsuffixes st (padding_depths inter t) 1 t)
       = hleaf_cells st (padding_depths inter t) 1 t.
Proof. exact hyield_leaf_order. Qed.
Print Assumptions C18_h_leaf_order.

(* column bands.  `hends` lists, per row, the leaf cell the row ends in and the depth of that leaf
   (relative to the root; a separating row ends right after its parent's band).  Every row is a
   prefix followed by that cell, and the prefix of a row whose leaf has depth 1+n is exactly
   colw 1 n = cellw 1 + ... + cellw n columns wide, where cellw d = (longest name of depth d) + 5
   with intermediate names (the name itself starts 2 columns into its band: c_1 = 2,
   c_(d+1) = c_d + w_d + 5) and 4 without.  Hence every cell of depth d — leaf, inner node text or
   blank — starts in the same column, for every tree, style and option. *)
Theorem C18_h_column_bands : forall st inter t,
  exists rows P, hyield_rows st inter t = Ret rows
    /\ rows = zip_with (@app N) P (map fst (hends st (padding_depths inter t) 1 t))
    /\ Forall2 (fun (p : str) e => length p = colw inter (padding_depths inter t) 1 (snd e))
               P (hends st (padding_depths inter t) 1 t).
Proof. exact hyield_bands. Qed.
Print Assumptions C18_h_column_bands.

(* the same for the block of any subtree at any depth, given that the names fit their bands
   (`fits`, which holds for the widths hyield_tree computes: padding_depths_fits) *)
Theorem C18_h_block_bands : forall st inter ws t d,
  (inter = true -> fits ws d t) -> exists P, band_ok st inter ws d t P.
Proof. exact hbranch_bands. Qed.
Print Assumptions C18_h_block_bands.

(* each parent is joined to exactly its children.  For the block of a node with children: in front
   of the children's rows stands exactly the column `hprefix_spec`: the node's text on its own
   row (`blk_mid`), blanks of the same width on every other row, then the connector icon `conn`:
   a child icon (first / subsequent / last, or middle when the child shares the parent's row, or
   the plain branch for an only child) on exactly the children's branch rows (`child_rows`: branch
   row of child j + rows of the children before it), a stem (or the split icon on the parent's
   row) on the other rows between the first and the last child, a blank outside.  Every style. *)
Theorem C18_h_connectors : forall st inter ws g n a ks d,
  is_hole (T g n a ks) = false -> existsb real ks = true ->
  let sub := map (hbranch st inter ws (S d)) ks in
  let b := hbranch st inter ws d (T g n a ks) in
  fst (fst b)
  = zip_with (@app N)
      (hprefix_spec st inter (center n (pad_at ws d)) (child_rows sub) (blk_mid b) (length (block_result sub)))
      (block_result sub).
Proof. exact hbranch_connectors. Qed.
Print Assumptions C18_h_connectors.

(* horizontal round trip, proved for chains (every node has one child; any length, any style whose
   branch icon is not a blank, intermediate names on or off).  Name guard `clean_name`: rstrip()
   and the trimming of blanks leave the name alone (no blank at either end, no trailing white
   space).  The model's text is decoded by the very decoder the check runs on the implementation's
   text (`h_decode` without guide = text and band widths only) and `h_match` accepts the result:
   exactly the clause `h_decodable`.  For trees that branch this is checked on every output, not
   proved: missing is the induction through `h_scan` over a connector column that carries several
   stacked blocks (the facts it would rest on are proved: C18_h_rows, C18_h_column_bands,
   C18_h_connectors). *)
Theorem C18_h_roundtrip_chain_partial : forall st inter n ns,
  hs_branch st <> 32%N -> forallb clean_name (n :: ns) = true ->
  exists rows dec,
    hyield_rows st inter (chain n ns) = Ret rows
    /\ h_decode (glyphs_of st) inter (band_widths inter (chain n ns)) None rows = Some dec
    /\ h_match inter dec (chain n ns) = true.
Proof. exact hroundtrip_chain. Qed.
Print Assumptions C18_h_roundtrip_chain_partial.

Example C18_h_roundtrip_chain_witness :
  hs_branch hs_double <> 32%N /\ forallb clean_name ex_chain_names = true /\ length ex_chain_names = 4
  /\ h_decodable (glyphs_of hs_double) false (chain [114%N] (tl ex_chain_names))
       (match hyield_rows hs_double false (chain [114%N] (tl ex_chain_names)) with Ret r => r | _ => [] end) = true.
Proof. vm_compute. repeat split. discriminate. Qed.

(* box_norm sends each of the four box-drawing styles, icon for icon, to the light characters the
   arm-based decoding uses (finite domain: the styles const, const_bold, rounded, double; seven
   icons each in the horizontal table, three strings each in the vertical one) *)
Theorem C18_box_norm_hstyles : forall st,
  In st [hs_const; hs_const_bold; hs_rounded; hs_double] ->
  map box_norm [hs_first st; hs_subseq st; hs_split st; hs_middle st; hs_last st; hs_stem st; hs_branch st]
  = [g_first arm_glyphs; g_subseq arm_glyphs; g_split arm_glyphs; g_middle arm_glyphs; g_last arm_glyphs;
     g_stem arm_glyphs; g_branch arm_glyphs].
Proof.
  intros st H. repeat (destruct H as [<-|H]; [vm_compute; reflexivity|]). destruct H.
Qed.
Print Assumptions C18_box_norm_hstyles.

Theorem C18_box_norm_vstyles : forall st,
  In st [vs_const; vs_const_bold; vs_rounded; vs_double] ->
  map box_norm (vs_stem st) = vs_stem arm_vstyle /\ map box_norm (vs_branch st) = vs_branch arm_vstyle
  /\ map box_norm (vs_final st) = vs_final arm_vstyle.
Proof.
  intros st H. repeat (destruct H as [<-|H]; [vm_compute; repeat split|]). destruct H.
Qed.
Print Assumptions C18_box_norm_vstyles.

(* the whole horizontal clause (bands, icons, connectors, decoding) on concrete inputs: a tree with
   fan-out 4, names of different lengths, a binary node with an empty slot, two single-row children *)
Example C18_h_witness :
  exists rows, hyield_tree (Some hs_const) true ex_tree_h [] 0 = Ret rows
               /\ length rows = 12 /\ prop_C18_h (glyphs_of hs_const) true ex_tree_h rows = true
               /\ prop_C18_h (glyphs_of hs_ascii) false ex_tree_h
                     (match hyield_tree (Some hs_ascii) false ex_tree_h [] 0 with Ret r => r | _ => [] end) = true.
Proof. eexists. split; [vm_compute; reflexivity|]. vm_compute. repeat split. Qed.

(* ---------------------------------------------------------------------------------------------- *)
(* mermaid *)

(* the vertex names 0, 0-i, 0-i-j, ... are pairwise different, for every tree *)
Theorem C18_mermaid_ids_injective : forall t, graph_ids_distinct (mermaid_nodes t) = true.
Proof. exact mermaid_ids_distinct. Qed.
Print Assumptions C18_mermaid_ids_injective.

(* exactly one vertex per node with the node's name as label and exactly one edge per parent-child
   link between the right names.  Guard: at least two (existing) nodes — see K4 below *)
Theorem C18_mermaid_graph_partial : forall t,
  2 <= tsize (compact t) -> prop_C18_g t (mermaid_nodes t) (mermaid_edges t) = true.
Proof. exact mermaid_graph_exact. Qed.
Print Assumptions C18_mermaid_graph_partial.

Example C18_mermaid_graph_witness :
  2 <= tsize (compact ex_tree_h) /\ length (mermaid_lines ex_tree_h) = 13.
Proof. vm_compute. split; [|reflexivity]. repeat constructor. Qed.

(* under every option (shapes, arrows, edge labels, style classes) the references, the edges and the
   labels are those of the plain chart, and the label written for a node is its name, character for
   character (tree_to_mermaid does not escape anything).  For dot the same is part of
   C18_dot_edges_exact (`graph_vertices_ok`: the labels of the vertices are the names in pre-order;
   pydot receives them unescaped). *)
Theorem C18_mermaid_labels_exact : forall o t,
  map mx_core (mermaid_flows_opt o (compact t)) = map mf_core (mermaid_flows t)
  /\ map mx_to_label (mermaid_flows_opt o (compact t)) = map tname (tl (pre (compact t))).
Proof. exact mermaid_opt_core. Qed.
Print Assumptions C18_mermaid_labels_exact.

(* K4: for a one-node tree no flow line and hence no vertex is emitted *)
Example C18_mermaid_single_node_refuted :
  exists t, tsize (compact t) = 1 /\ prop_C18_g t (mermaid_nodes t) (mermaid_edges t) = false.
Proof. exists k4_witness. split; vm_compute; reflexivity. Qed.

(* ---------------------------------------------------------------------------------------------- *)
(* dot *)

(* one vertex per node with the node's name as label, in pre-order, and exactly one edge per
   parent-child link, joining the ids of the two nodes — for every tree, also with repeated names
   (ids as bigtree computes them and hands them to pydot) *)
Theorem C18_dot_edges_exact : forall sep t,
  graph_vertices_ok (compact t) (dot_raw_nodes sep t) = true
  /\ graph_edges_ok (compact t) (dot_raw_nodes sep t) (dot_edges sep t) = true.
Proof. exact dot_vertices_edges_exact. Qed.
Print Assumptions C18_dot_edges_exact.

(* every vertex carries its node's name as label and exactly the style its own node prescribes (the
   node's own style dictionary when node_attr is given, over the defaults from node_colour /
   node_shape), every edge exactly the style of the node it leads to (edge_attr over edge_colour):
   nothing of another node or edge.  Guard: dictionaries have each key once and a node style has
   no `label` entry *)
Theorem C18_dot_attrs : forall o t,
  styles_wf t = true -> prop_C18_attrs o t (dot_vertex_attrs o t) (dot_edge_attrs o t) = true.
Proof. exact dot_attrs_exact. Qed.
Print Assumptions C18_dot_attrs.

Example C18_dot_attrs_witness :
  styles_wf ex_tree_s = true
  /\ dot_edge_attrs (DO None None (Some [98; 108; 117; 101]%N) false true) ex_tree_s
     = [[(s_color, [98; 108; 117; 101]%N); (s_label, [49]%N)]; [(s_color, [98; 108; 117; 101]%N)];
        [(s_color, [114]%N)]].
Proof. vm_compute. split; reflexivity. Qed.

(* Guards: no label ends in a decimal digit (K2), the nodes have pairwise different path names,
   no label contains ':' (K5).  Then the vertex names inside the pydot graph are pairwise different. *)
Theorem C18_dot_ids_injective_partial : forall sep t,
  no_label_ends_in_digit t = true -> paths_distinct sep t = true -> no_label_has_colon t = true ->
  graph_ids_distinct (dot_nodes sep t) = true.
Proof. exact dot_ids_injective_partial. Qed.
Print Assumptions C18_dot_ids_injective_partial.

(* under the same guards the whole graph clause holds *)
Theorem C18_dot_graph_partial : forall sep t,
  no_label_ends_in_digit t = true -> paths_distinct sep t = true -> no_label_has_colon t = true ->
  prop_C18_g t (dot_nodes sep t) (dot_edges sep t) = true.
Proof.
  intros sep t H1 H2 H3. unfold prop_C18_g.
  rewrite (dot_ids_injective_partial sep t H1 H2 H3), (dot_nodes_plain sep t H3).
  destruct (dot_vertices_edges_exact sep t) as [-> ->]. reflexivity.
Qed.
Print Assumptions C18_dot_graph_partial.

(* non-vacuity of the guards: repeated names across branches *)
Example C18_dot_guards_witness :
  no_label_ends_in_digit ex_tree_g = true /\ paths_distinct slash ex_tree_g = true
  /\ no_label_has_colon ex_tree_g = true /\ length (dot_nodes slash ex_tree_g) = 8.
Proof. vm_compute. repeat split. Qed.

(* K2: a node labelled a1 and eleven nodes labelled a: the id a10 is given twice *)
Example C18_dot_ids_refuted :
  exists t, tsize t = 13 /\ paths_distinct slash t = true /\ no_label_has_colon t = true
            /\ graph_ids_distinct (dot_nodes slash t) = false.
Proof. exists k2_witness. vm_compute. repeat split. Qed.

(* K6: a list of trees in one call: `name_dict` starts empty for every tree, so equal labels in
   different trees get the same id (here a0 twice), although each tree alone is fine *)
Example C18_dot_multi_tree_refuted :
  exists t1 t2,
    prop_C18_gf [t1] (dot_forest_nodes slash [t1]) (dot_forest_edges slash [t1]) = true
    /\ prop_C18_gf [t2] (dot_forest_nodes slash [t2]) (dot_forest_edges slash [t2]) = true
    /\ graph_ids_distinct (dot_forest_nodes slash [t1; t2]) = false
    /\ prop_C18_gf [t1; t2] (dot_forest_nodes slash [t1; t2]) (dot_forest_edges slash [t1; t2]) = false.
Proof. exists k6_tree1, k6_tree2. vm_compute. repeat split. Qed.

(* K5: a name with a colon: pydot cuts the vertex name, two vertices are called "a" and the edges
   end in names that are no vertices *)
Example C18_dot_colon_refuted :
  exists t, no_label_ends_in_digit t = true /\ paths_distinct slash t = true
            /\ graph_ids_distinct (dot_nodes slash t) = false
            /\ graph_edges_ok (compact t) (dot_nodes slash t) (dot_edges slash t) = false.
Proof. exists k5_witness. vm_compute. repeat split. Qed.
