(* C08 — shift/copy/replace perform exactly the documented edit and nothing else.
   Only statements here; the proofs are in Algo/ModifyProofs.v.  The model is Algo/Modify.v (a forest of
   tagged rose trees; piece 0 is the tree object handed to the call), the documented edit on path
   tables is Spec/PC08.v (edit_cs, prop_C08).

   Layers.  `run`/`run_seq` are whole calls on path *strings*.  `cs_core` is one pair after the strings have
   been resolved to references (from-node at reference 0::p of the forest [t]; destination = TDel | TNode |
   TNew comps); the resolution itself (rstrip / replace / split / find_path) is tied to the code by the
   correspondence only.  `rows t` is the path table of t; `tget`/`tpath` are subtree and name path at a
   reference; `wf_t` = sibling names unique (what Node guarantees, C03).

   Clauses without a theorem (decided by the correspondence and by prop_C08 evaluated on every
   implementation output): merge_leaves below depth 1, merge_children / merge_leaves onto an existing destination,
   replace from an unrelated branch of the same tree, delete_children combined with overriding/merge flags, the
   from==to / nested variants, partial from-paths and multi-character separators in the string layer. *)
From BT Require Import Base.Prelude Base.Str Base.StrSep Base.Rose Algo.Modify Spec.PC08 Corr.ModifyCorr Algo.ModifyProofs.

(* One call with several pairs = the same single-pair calls in sequence (stopping at the first exception),
   for every pair list that passes the argument checks, all five functions, all flags.
   (Holds after fix F5; before it `cs_pair` would have had to thread merge_children through the pairs.) *)
Theorem C08_multi_is_sequence : forall i, valid_call i = true -> run i = run_seq i.
Proof. exact multi_is_sequence. Qed.
Print Assumptions C08_multi_is_sequence.

(* Plain shift (no merge flag, no delete_children), destination absent and not inside the source subtree:
   the result is one tree whose table is the input table with the missing prefixes of the destination
   parent created (ensure), the rows of the addressed subtree removed (minus) and re-inserted unchanged
   — same tags, same attributes — as the last child block of the destination parent (insert_last);
   this is exactly Spec.edit_cs; every row not below the source path survives as a subsequence. *)
Theorem C08_shift_paths : forall sep tsep fl t p x comps PX,
  f_mc fl = false -> f_ml fl = false -> f_dc fl = false -> wf_t t ->
  p <> [] -> tget t p = Some x -> tpath t p = Some PX ->
  (forall cc, In cc comps -> cc <> []) ->
  pfx PX (tname t :: comps) = false ->
  has (rows t) ((tname t :: comps) ++ [tname x]) = false ->
  exists t2,
    cs_core (cfg_same false sep tsep fl) [t] (0 :: p) (TNew comps) = ([t2], None)
    /\ rows t2 = insert_last (minus (ensure (rows t) [tname t] comps) PX) (tname t :: comps)
                             (rows_from (tname t :: comps) x)
    /\ edit_cs false true fl (rows t) (rows t) PX (Some ((tname t :: comps) ++ [tname x])) = PNext (rows t2) (rows t2)
    /\ subseq (minus (rows t) PX) (rows t2).
Proof. exact C08_shift_paths_stmt. Qed.
Print Assumptions C08_shift_paths.

(* Plain copy, destination absent: all rows of the tree are still there, in order (subseq), the copy
   consists of new objects (retag: tag None) with the same names and attributes. *)
Theorem C08_copy_keeps_source : forall sep tsep fl t p x comps PX,
  f_mc fl = false -> f_ml fl = false -> f_dc fl = false -> wf_t t ->
  p <> [] -> tget t p = Some x -> tpath t p = Some PX ->
  (forall cc, In cc comps -> cc <> []) ->
  pfx PX (tname t :: comps) = false ->
  has (rows t) ((tname t :: comps) ++ [tname x]) = false ->
  exists t2 rest,
    cs_core (cfg_same true sep tsep fl) [t] (0 :: p) (TNew comps) = (t2 :: rest, None)
    /\ rows t2 = insert_last (ensure (rows t) [tname t] comps) (tname t :: comps)
                             (rows_from (tname t :: comps) (retag x))
    /\ edit_cs true true fl (rows t) (rows t) PX (Some ((tname t :: comps) ++ [tname x])) = PNext (rows t2) (rows t2)
    /\ subseq (rows t) (rows t2).
Proof. exact C08_copy_keeps_source_stmt. Qed.
Print Assumptions C08_copy_keeps_source.

(* Untouched nodes keep identity, path, attributes and relative order: whatever is created (ensure) and
   wherever the moved block goes (insert_last), the rows outside the source path form a subsequence of the
   result — (path, tag, attrs) triples, so "same object, same path, same attributes, same order". *)
Theorem C08_untouched_identity : forall (tb : table) PX d todo Q rs,
  subseq (minus tb PX) (insert_last (minus (ensure tb d todo) PX) Q rs)
  /\ subseq tb (insert_last (ensure tb d todo) Q rs)
  /\ subseq (minus tb PX) tb.
Proof. intros. split; [apply untouched_shift|split; [apply untouched_copy|apply untouched_delete]]. Qed.
Print Assumptions C08_untouched_identity.

(* overriding (no merge flag), destination D present, neither node inside the other: D is gone
   (it is piece 1 of the forest, no row at its path that is not the shifted node), F is the last child of
   D's former parent, with its tags. *)
Theorem C08_override : forall sep tsep fl t p d x D PX PD,
  f_over fl = true -> f_mc fl = false -> f_ml fl = false -> f_dc fl = false -> wf_t t ->
  p <> [] -> d <> [] -> tget t p = Some x -> tget t d = Some D ->
  tpath t p = Some PX -> tpath t d = Some PD ->
  pfx PX PD = false -> pfx PD PX = false -> tname D = tname x ->
  exists t2,
    cs_core (cfg_same false sep tsep fl) [t] (0 :: p) (TNode (0 :: d)) = ([t2; D], None)
    /\ rows t2 = insert_last (minus (minus (rows t) PD) PX) (removelast PD) (rows_from (removelast PD) x)
    /\ edit_cs false true fl (rows t) (rows t) PX (Some PD) = PNext (rows t2) (rows t2)
    /\ has (minus (rows t2) (removelast PD ++ [tname x])) PD = false
    /\ subseq (minus (minus (rows t) PD) PX) (rows t2).
Proof. exact C08_override_stmt. Qed.
Print Assumptions C08_override.

(* to_path None / empty: the addressed subtree is no longer in the tree, everything else is. *)
Theorem C08_delete : forall sep tsep fl t p x PX,
  f_mc fl = false -> f_ml fl = false -> f_dc fl = false -> wf_t t ->
  p <> [] -> tget t p = Some x -> tpath t p = Some PX ->
  exists t2,
    cs_core (cfg_same false sep tsep fl) [t] (0 :: p) TDel = ([t2; x], None)
    /\ rows t2 = minus (rows t) PX
    /\ edit_cs false true fl (rows t) (rows t) PX None = PNext (rows t2) (rows t2)
    /\ has (rows t2) PX = false
    /\ subseq (rows t2) (rows t).
Proof. exact C08_delete_stmt. Qed.
Print Assumptions C08_delete.

(* delete_children (starred in DESIGN.md): shift with delete_children=True, destination absent: the bare node —
   same object, same attributes, no children — is the last child of the destination parent; everything that
   was at or below the source path is gone from there; the rest is untouched. *)
Theorem C08_delete_children : forall sep tsep fl t p x comps PX,
  f_mc fl = false -> f_ml fl = false -> f_dc fl = true -> wf_t t ->
  p <> [] -> tget t p = Some x -> tpath t p = Some PX ->
  (forall cc, In cc comps -> cc <> []) ->
  pfx PX (tname t :: comps) = false ->
  has (rows t) ((tname t :: comps) ++ [tname x]) = false ->
  exists t2 rest,
    cs_core (cfg_same false sep tsep fl) [t] (0 :: p) (TNew comps) = (t2 :: rest, None)
    /\ rows t2 = insert_last (minus (ensure (rows t) [tname t] comps) PX) (tname t :: comps)
                             [((tname t :: comps) ++ [tname x], ttag x, tattrs x)]
    /\ edit_cs false true fl (rows t) (rows t) PX (Some ((tname t :: comps) ++ [tname x])) = PNext (rows t2) (rows t2)
    /\ subseq (minus (rows t) PX) (rows t2).
Proof. exact C08_delete_children_stmt. Qed.
Print Assumptions C08_delete_children.

(* copy_nodes_from_tree_to_tree / copy_and_replace_nodes_from_tree_to_tree: the source tree is the same
   value before and after — for every flag combination, every path list, and also when the call raises. *)
Theorem C08_tree_to_tree_source_untouched : forall i,
  is_tt (mi_op i) = true -> nth_error (fst (run i)) 0 = Some (mi_src i).
Proof. exact tt_source_untouched. Qed.
Print Assumptions C08_tree_to_tree_source_untouched.

(* merge_children (starred): shift with merge_children=True, destination absent, no name clash: the children of
   the source node are appended in order (ins_all = one insert_last per child, same tags) under the
   destination parent, the source node and everything that was below it is gone from where it was, the
   result is Spec.edit_cs and the untouched rows form a subsequence. *)
Theorem C08_merge_children : forall sep tsep fl t p x comps PX,
  f_mc fl = true -> f_ml fl = false -> f_dc fl = false -> wf_t t ->
  p <> [] -> tget t p = Some x -> tpath t p = Some PX ->
  (forall cc, In cc comps -> cc <> []) ->
  pfx PX (tname t :: comps) = false ->
  has (rows t) ((tname t :: comps) ++ [tname x]) = false ->
  (forall k, In k (tkids x) -> has (rows t) ((tname t :: comps) ++ [tname k]) = false) ->
  exists t2 rest,
    cs_core (cfg_same false sep tsep fl) [t] (0 :: p) (TNew comps) = (t2 :: rest, None)
    /\ rows t2 = minus (ins_all (tname t :: comps) (tkids x)
                                (minus_strict (ensure (rows t) [tname t] comps) PX)) PX
    /\ edit_cs false true fl (rows t) (rows t) PX (Some ((tname t :: comps) ++ [tname x])) = PNext (rows t2) (rows t2)
    /\ subseq (minus (rows t) PX) (rows t2).
Proof. exact C08_merge_children_stmt. Qed.
Print Assumptions C08_merge_children.

(* delete_children together with copy_nodes: the bare copy (tag None, same attributes) is attached, the
   original keeps its place and its children. *)
Theorem C08_delete_children_copy : forall sep tsep fl t p x comps PX,
  f_mc fl = false -> f_ml fl = false -> f_dc fl = true -> wf_t t ->
  p <> [] -> tget t p = Some x -> tpath t p = Some PX ->
  (forall cc, In cc comps -> cc <> []) ->
  pfx PX (tname t :: comps) = false ->
  has (rows t) ((tname t :: comps) ++ [tname x]) = false ->
  exists t2 rest,
    cs_core (cfg_same true sep tsep fl) [t] (0 :: p) (TNew comps) = (t2 :: rest, None)
    /\ rows t2 = insert_last (ensure (rows t) [tname t] comps) (tname t :: comps)
                             [((tname t :: comps) ++ [tname x], None, tattrs x)]
    /\ edit_cs true true fl (rows t) (rows t) PX (Some ((tname t :: comps) ++ [tname x])) = PNext (rows t2) (rows t2)
    /\ subseq (rows t) (rows t2).
Proof. exact C08_delete_children_copy_stmt. Qed.
Print Assumptions C08_delete_children_copy.

(* replace_position (starred), copy_and_replace_nodes_from_tree_to_tree: D is the child number |L| of the node at
   reference par of the destination tree (children L ++ D :: R); afterwards the children are L ++ copy :: R —
   the copy sits exactly at D's position, L and R keep their order — the source tree is piece 0, unchanged,
   and the destination table is Spec.edit_rp: rows before D's block ++ rows of the copy ++ rows after it. *)
Theorem C08_replace_position_tt : forall c fl s dt p x par L D R PX PQ,
  tt_replace c -> f_dc fl = false -> wf_t s -> wf_t dt ->
  p <> [] -> tget s p = Some x -> tpath s p = Some PX -> tpath dt par = Some PQ ->
  fkids par (tkids dt) = Some (L ++ D :: R) -> (forall k, In k (L ++ R) -> tname k <> tname x) ->
  let PD := PQ ++ [tname D] in
  let t2 := t_setk par (L ++ retag x :: R) dt in
  (exists rest, rp_core c [s; dt] (0 :: p) (1 :: par ++ [length L]) = (s :: t2 :: rest, None))
  /\ rows t2 = before_block (rows dt) PD ++ rows_from PQ (retag x) ++ after_block (rows dt) PD
  /\ edit_rp true false fl (rows s) (rows dt) PX (Some PD) = PNext (rows s) (rows t2).
Proof. exact C08_replace_position_tt_stmt. Qed.
Print Assumptions C08_replace_position_tt.

(* replace_position, shift_and_replace_nodes, the replacing node F is a LEFT sibling of D
   (children L1 ++ F :: L2 ++ D :: R): afterwards L1 ++ L2 ++ F :: R — F at D's position. *)
Theorem C08_replace_position_left_sibling : forall c fl t par L1 F L2 D R PQ,
  plain_replace c -> f_dc fl = false -> wf_t t -> tpath t par = Some PQ ->
  fkids par (tkids t) = Some (L1 ++ F :: L2 ++ D :: R) ->
  let PD := PQ ++ [tname D] in let PX := PQ ++ [tname F] in
  let t2 := t_setk par (L1 ++ L2 ++ F :: R) t in
  (exists rest, rp_core c [t] (0 :: par ++ [length L1]) (0 :: par ++ [length L1 + S (length L2)]) = (t2 :: rest, None))
  /\ rows t2 = minus (before_block (rows t) PD) PX ++ rows_from PQ F ++ minus (after_block (rows t) PD) PX
  /\ edit_rp false true fl (rows t) (rows t) PX (Some PD) = PNext (rows t2) (rows t2).
Proof. exact C08_replace_left_sibling_stmt. Qed.
Print Assumptions C08_replace_position_left_sibling.

(* replace_position, the case the code comment does not mention: the replacing node F is itself a RIGHT sibling
   of D (children L ++ D :: R1 ++ F :: R2).  D is detached, F is appended, then every right sibling of D —
   F included — is detached and re-appended: the children end as L ++ R1 ++ F :: R2, i.e. F does NOT move to
   D's slot relative to R1; the result is exactly the tree without D, and that is what Spec.edit_rp prescribes
   (its `listed_after` branch). *)
Theorem C08_replace_position_right_sibling : forall c fl t par L D R1 F R2 PQ,
  plain_replace c -> f_dc fl = false -> wf_t t -> tpath t par = Some PQ ->
  fkids par (tkids t) = Some (L ++ D :: R1 ++ F :: R2) ->
  let PD := PQ ++ [tname D] in let PX := PQ ++ [tname F] in
  (exists rest, rp_core c [t] (0 :: par ++ [length L + S (length R1)]) (0 :: par ++ [length L])
                = (t_remove (par ++ [length L]) t :: rest, None))
  /\ rows (t_remove (par ++ [length L]) t) = minus (rows t) PD
  /\ edit_rp false true fl (rows t) (rows t) PX (Some PD) = PNext (minus (rows t) PD) (minus (rows t) PD).
Proof. exact C08_replace_right_sibling_stmt. Qed.
Print Assumptions C08_replace_position_right_sibling.

(* merge_leaves (starred), PARTIAL.  Guard: every child of the source node is a leaf (and it has at least one
   child), destination absent, no name clash.  Then the leaves (= the children, same objects) are appended in
   order under the destination parent and the source node itself stays where it is, without children; the
   result is Spec.edit_cs.  (For deeper source subtrees the loop runs over a snapshot of references whose
   relation to the shrinking tree is not proved; that case is decided by the correspondence + prop_C08.) *)
Theorem C08_merge_leaves_partial : forall sep tsep fl t p x comps PX,
  f_mc fl = false -> f_ml fl = true -> wf_t t ->
  p <> [] -> tget t p = Some x -> tpath t p = Some PX ->
  tkids x <> [] -> Forall (fun k => tkids k = []) (tkids x) ->
  (forall cc, In cc comps -> cc <> []) ->
  pfx PX (tname t :: comps) = false ->
  has (rows t) ((tname t :: comps) ++ [tname x]) = false ->
  (forall k, In k (tkids x) -> has (rows t) ((tname t :: comps) ++ [tname k]) = false) ->
  exists t2 rest,
    cs_core (cfg_same false sep tsep fl) [t] (0 :: p) (TNew comps) = (t2 :: rest, None)
    /\ rows t2 = ins_all (tname t :: comps) (tkids x) (minus_strict (ensure (rows t) [tname t] comps) PX)
    /\ edit_cs false true fl (rows t) (rows t) PX (Some ((tname t :: comps) ++ [tname x])) = PNext (rows t2) (rows t2)
    /\ subseq (minus_strict (rows t) PX) (rows t2).
Proof. exact C08_merge_leaves_partial_stmt. Qed.
Print Assumptions C08_merge_leaves_partial.

(* The string layer, end to end: shift_nodes(tree, [from], [to], sep=c, with_full_path=True) with a
   single-character separator c that occurs in no name on the two paths (sepfree), from = the full path of
   an existing non-root node, to = a path whose last name is the node's name, absent from the tree and not
   inside the moved subtree.  The call passes the argument checks of modify.py:1051-1108, raises nothing, and
   leaves exactly the documented table (C08_shift_paths) = Spec.edit_cs.  Everything from rstrip/replace/split
   to find_full_path and add_path_to_tree is inside this statement. *)
Theorem C08_shift_whole_call : forall (c0 : N) sk t p x comps PX,
  let sep := [c0] in
  let fl := MF sk false false false false true in
  let Q := tname t :: comps in
  wf_t t -> p <> [] -> tget t p = Some x -> tpath t p = Some PX ->
  Forall (sepfree c0) PX -> Forall (sepfree c0) Q ->
  pfx PX Q = false -> has (rows t) (Q ++ [tname x]) = false ->
  let i := MI OpShift fl sep t sep (T None [] [] []) sep [join sep PX] [Some (join sep (Q ++ [tname x]))] in
  valid_call i = true
  /\ exists t2, run i = ([t2], None)
     /\ rows t2 = insert_last (minus (ensure (rows t) [tname t] comps) PX) Q (rows_from Q x)
     /\ edit_cs false true fl (rows t) (rows t) PX (Some (Q ++ [tname x])) = PNext (rows t2) (rows t2).
Proof. exact C08_shift_whole_call_stmt. Qed.
Print Assumptions C08_shift_whole_call.

(* The same for a separator of ANY positive length a :: sp' (Base/StrSep.v).  Guard: every name on the two paths
   is non-empty and contains no CHARACTER of the separator (sgood) — with rstrip/lstrip stripping character sets
   this, not substring-freeness, is what the code needs (finding K3 lives between the two).  C08_shift_whole_call
   is the instance sp' = [] (sgood [c] w <-> w <> [] /\ ~ In c w, by sfree_one). *)
Theorem C08_shift_whole_call_multi : forall (a : N) (sp' : str) sk t p x comps PX,
  let sep := a :: sp' in
  let fl := MF sk false false false false true in
  let Q := tname t :: comps in
  wf_t t -> p <> [] -> tget t p = Some x -> tpath t p = Some PX ->
  Forall (sgood (a :: sp')) PX -> Forall (sgood (a :: sp')) Q ->
  pfx PX Q = false -> has (rows t) (Q ++ [tname x]) = false ->
  let i := MI OpShift fl sep t sep (T None [] [] []) sep [join sep PX] [Some (join sep (Q ++ [tname x]))] in
  valid_call i = true
  /\ exists t2, run i = ([t2], None)
     /\ rows t2 = insert_last (minus (ensure (rows t) [tname t] comps) PX) Q (rows_from Q x)
     /\ edit_cs false true fl (rows t) (rows t) PX (Some (Q ++ [tname x])) = PNext (rows t2) (rows t2).
Proof. exact C08_shift_whole_call_multi_stmt. Qed.
Print Assumptions C08_shift_whole_call_multi.

Theorem C08_sepfree_is_sgood : forall c w, sepfree c w <-> sgood [c] w.
Proof. intros c w. unfold sepfree, sgood. rewrite sfree_one. tauto. Qed.
Print Assumptions C08_sepfree_is_sgood.

(* ---- prop_C08 (model input) (model output) = true, per family -------------------------------------------- *)

(* The umbrella statement "for all inputs prop_C08 i (obs_of i (run i)) = true" is NOT proved in general (it needs the
   string layer and every row of the decision table).  Proved families:
   (a) every call of C08_shift_whole_call_multi (plain shift, full paths, one pair, sep = tree.sep of any length):
       the predicate check_C08 evaluates on the implementation's output accepts the model's output (accepted call);
   (b) every call with merge_children and merge_leaves both set (all trees, paths, separators, other flags; the four
       non-replace functions): refused with ValueError, nothing changed, and prop_C08 accepts that (refused call). *)
Theorem C08_model_satisfies_prop_shift_partial : forall (a : N) (sp' : str) sk t p x comps PX,
  let sep := a :: sp' in
  let fl := MF sk false false false false true in
  let Q := tname t :: comps in
  wf_t t -> p <> [] -> tget t p = Some x -> tpath t p = Some PX ->
  Forall (sgood (a :: sp')) PX -> Forall (sgood (a :: sp')) Q ->
  pfx PX Q = false -> has (rows t) (Q ++ [tname x]) = false ->
  let i := MI OpShift fl sep t sep (T None [] [] []) sep [join sep PX] [Some (join sep (Q ++ [tname x]))] in
  trees_ok i = true ->
  prop_C08 i (obs_of i (run i)) None = true.
Proof. exact C08_model_satisfies_prop_shift_stmt. Qed.
Print Assumptions C08_model_satisfies_prop_shift_partial.

Theorem C08_model_satisfies_prop_both_merges : forall i,
  is_replace (mi_op i) = false -> f_mc (mi_fl i) = true -> f_ml (mi_fl i) = true ->
  prop_C08 i (obs_of i (run i)) None = true.
Proof. exact C08_model_satisfies_prop_both_merges_stmt. Qed.
Print Assumptions C08_model_satisfies_prop_both_merges.

(* merge_children onto a destination node that EXISTS (no overriding): the source's children are appended, in order
   and as the same objects, after the destination's own children (ins_all = insert_last per child under PD); the
   source node is detached; the destination node, its other children and every other row keep path, tag,
   attributes and order (subseq); = Spec.edit_cs.  The destination may be an ancestor of the source or the root;
   it must not lie inside the source subtree. *)
Theorem C08_merge_children_existing : forall sep tsep fl t p d x PX PD,
  f_mc fl = true -> f_over fl = false -> f_dc fl = false -> wf_t t ->
  p <> [] -> tget t p = Some x -> tpath t p = Some PX -> tpath t d = Some PD ->
  pfx PX PD = false -> last PD [] = tname x ->
  (forall k, In k (tkids x) -> has (rows t) (PD ++ [tname k]) = false) ->
  exists t2 rest,
    cs_core (cfg_same false sep tsep fl) [t] (0 :: p) (TNode (0 :: d)) = (t2 :: rest, None)
    /\ rows t2 = minus (ins_all PD (tkids x) (minus_strict (rows t) PX)) PX
    /\ edit_cs false true fl (rows t) (rows t) PX (Some PD) = PNext (rows t2) (rows t2)
    /\ subseq (minus (rows t) PX) (rows t2).
Proof. exact C08_merge_children_existing_stmt. Qed.
Print Assumptions C08_merge_children_existing.

(* Copies are new objects with the same names and attributes: every row of a copied subtree has tag None, and its
   (path, attributes) rows equal those of the original re-rooted at the same place.  Together with
   C08_copy_keeps_source / C08_delete_children_copy (subseq (rows t) (rows t2): the source rows, tags included, are all
   still there) and C08_tree_to_tree_source_untouched this is "the source is untouched and the copy is fresh".
   (Not connected to Heap/Effects: that development speaks about heap ids, this one about tags.) *)
Theorem C08_copy_fresh : forall x P,
  (forall r, In r (rows_from P (retag x)) -> rtag r = None)
  /\ map (fun r => (rpath r, rattrs r)) (rows_from P (retag x)) = map (fun r => (rpath r, rattrs r)) (rows_from P x).
Proof. intros x P. split; [apply rows_retag_fresh|apply rows_retag_same]. Qed.
Print Assumptions C08_copy_fresh.

(* replace_position, shift_and_replace_nodes, source F from an UNRELATED branch: F is neither below D's parent nor an
   ancestor of it (so in particular not a sibling of D, not inside D, D not inside F).  Result: D and F are removed
   from where they were (rows U = table minus D's block minus F's block) and F is put between L and R, i.e. in D's
   slot: rows t2 = A ++ rows L ++ rows F ++ rows R ++ B where rows U = A ++ rows L ++ rows R ++ B.
   (adj' p par is where D's parent is once F has been removed.) *)
Theorem C08_replace_position_unrelated : forall c t par p L D R x PQ PX,
  plain_replace c -> wf_t t -> tpath t par = Some PQ -> par <> [] -> p <> [] ->
  fkids par (tkids t) = Some (L ++ D :: R) -> tget t p = Some x -> tpath t p = Some PX ->
  is_prefix par p = false -> is_prefix p par = false ->
  (forall k, In k (L ++ R) -> tname k <> tname x) ->
  let d := par ++ [length L] in
  let U := t_remove p (t_remove d t) in
  let t2 := t_setk (adj' p par) (L ++ x :: R) U in
  (exists rest, rp_core c [t] (0 :: p) (0 :: d) = (t2 :: rest, None))
  /\ rows U = minus (minus (rows t) (PQ ++ [tname D])) PX
  /\ exists A B, rows U = A ++ frows PQ (L ++ R) ++ B
                 /\ rows t2 = A ++ frows PQ L ++ rows_from PQ x ++ frows PQ R ++ B.
Proof. exact C08_replace_unrelated_stmt. Qed.
Print Assumptions C08_replace_position_unrelated.

(* ---- the string layer in general, and prop_C08 on the model's output family by family ------------------------- *)
(* sl_in cp fl sep tsep t lf FX lt TX : the call shift_nodes (cp = false) / copy_nodes (cp = true) on the tree t with
   tree.sep = tsep, argument sep, one pair: from = [sep]FX joined by sep, to = [sep]TX joined by sep (lf / lt: leading
   separator present).  Separators: any positive length, possibly different.  Names: sgood for both separators. *)

(* refused by an argument check — for every tree, path pair and flag combination of this shape: both merge flags, last
   names differ, a from-path (with_full_path) or a to-path that does not start at the root: ValueError, nothing
   changed, prop_C08 accepts it *)
Theorem C08_prop_refused_by_checks : forall a1 o1 a2 o2 cp fl t lf lt FX TX,
  FX <> [] -> TX <> [] ->
  Forall (sgood (a1 :: o1)) FX -> Forall (sgood (a2 :: o2)) FX -> Forall (sgood (a1 :: o1)) TX -> Forall (sgood (a2 :: o2)) TX ->
  f_mc fl && f_ml fl = true \/ sl_checks fl t FX TX = false ->
  let i := sl_in cp fl (a1 :: o1) (a2 :: o2) t lf FX lt TX in
  snd (run i) = Some ValueError /\ prop_C08 i (obs_of i (run i)) None = true.
Proof. intros. apply fam_refused; assumption. Qed.
Print Assumptions C08_prop_refused_by_checks.

(* a (full) from-path that addresses no node: NotFoundError — or nothing at all with skippable — and prop_C08 accepts it *)
Theorem C08_prop_missing_from_path : forall a1 o1 a2 o2 cp fl t lf lt FX TX,
  FX <> [] -> TX <> [] ->
  Forall (sgood (a1 :: o1)) FX -> Forall (sgood (a2 :: o2)) FX -> Forall (sgood (a1 :: o1)) TX -> Forall (sgood (a2 :: o2)) TX ->
  f_full fl = true -> f_mc fl && f_ml fl = false -> sl_checks fl t FX TX = true -> wf_t t ->
  has (rows t) FX = false ->
  let i := sl_in cp fl (a1 :: o1) (a2 :: o2) t lf FX lt TX in
  fst (run i) = [t] /\ snd (run i) = (if f_skip fl then None else Some NotFoundError)
  /\ prop_C08 i (obs_of i (run i)) None = true.
Proof. intros. apply fam_missing_from; assumption. Qed.
Print Assumptions C08_prop_missing_from_path.

(* from == to without a merge flag: TreeError, nothing changed *)
Theorem C08_prop_same_node : forall a1 o1 a2 o2 cp fl t lf lt PX p x,
  Forall (sgood (a1 :: o1)) PX -> Forall (sgood (a2 :: o2)) PX ->
  f_full fl = true -> f_mc fl = false -> f_ml fl = false -> wf_t t ->
  p <> [] -> tget t p = Some x -> tpath t p = Some PX ->
  let i := sl_in cp fl (a1 :: o1) (a2 :: o2) t lf PX lt PX in
  run i = ([t], Some TreeError) /\ prop_C08 i (obs_of i (run i)) None = true.
Proof. exact C08_prop_same_node_stmt. Qed.
Print Assumptions C08_prop_same_node.

(* ACCEPTED calls, destination absent: plain shift / plain copy / delete_children with either — the whole string-level
   call (sep != tree.sep allowed, leading separators allowed, with_full_path) returns without exception, its table is
   Spec.edit_cs, and prop_C08 accepts the model's output.  This is C08_shift_whole_call_multi without "sep = tree.sep"
   and "no leading separator", and for copy and delete_children as well. *)
Theorem C08_whole_call_general : forall a1 o1 a2 o2 (cp : bool) fl t lf lt PX p x comps,
  let Q := tname t :: comps in
  let TX := Q ++ [tname x] in
  Forall (sgood (a1 :: o1)) PX -> Forall (sgood (a2 :: o2)) PX ->
  Forall (sgood (a1 :: o1)) Q -> Forall (sgood (a2 :: o2)) Q ->
  f_full fl = true -> f_mc fl = false -> f_ml fl = false -> wf_t t ->
  p <> [] -> tget t p = Some x -> tpath t p = Some PX ->
  pfx PX Q = false -> has (rows t) TX = false ->
  let i := sl_in cp fl (a1 :: o1) (a2 :: o2) t lf PX lt TX in
  exists t2 rest, run i = (t2 :: rest, None)
    /\ edit_cs cp true fl (rows t) (rows t) PX (Some TX) = PNext (rows t2) (rows t2)
    /\ prop_C08 i (obs_of i (run i)) None = true.
Proof. exact C08_whole_call_general_stmt. Qed.
Print Assumptions C08_whole_call_general.

(* the tool behind it, usable with any proved row of the decision table for an absent destination (merge_children,
   merge_leaves_partial, ...): if cs_core's table is edit_cs's table then the whole call satisfies prop_C08 *)
Theorem C08_prop_absent_generic : forall a1 o1 a2 o2 cp fl t lf lt PX p x comps t2 rest,
  let Q := tname t :: comps in
  let TX := Q ++ [tname x] in
  Forall (sgood (a1 :: o1)) PX -> Forall (sgood (a2 :: o2)) PX ->
  Forall (sgood (a1 :: o1)) Q -> Forall (sgood (a2 :: o2)) Q ->
  f_full fl = true -> f_mc fl && f_ml fl = false -> wf_t t ->
  p <> [] -> tget t p = Some x -> tpath t p = Some PX ->
  has (rows t) TX = false ->
  cs_core (cfg_same cp (a1 :: o1) (a2 :: o2) fl) [t] (0 :: p) (TNew comps) = (t2 :: rest, None) ->
  edit_cs cp true fl (rows t) (rows t) PX (Some TX) = PNext (rows t2) (rows t2) ->
  let i := sl_in cp fl (a1 :: o1) (a2 :: o2) t lf PX lt TX in
  run i = (t2 :: rest, None) /\ prop_C08 i (obs_of i (run i)) None = true.
Proof. exact C08_prop_absent_generic_stmt. Qed.
Print Assumptions C08_prop_absent_generic.

(* ACCEPTED, overriding an existing destination (neither node inside the other, equal names) *)
Theorem C08_prop_override : forall a1 o1 a2 o2 fl t lf lt p d x D PX PD,
  Forall (sgood (a1 :: o1)) PX -> Forall (sgood (a2 :: o2)) PX ->
  Forall (sgood (a1 :: o1)) PD -> Forall (sgood (a2 :: o2)) PD ->
  f_full fl = true -> f_over fl = true -> f_mc fl = false -> f_ml fl = false -> f_dc fl = false -> wf_t t ->
  p <> [] -> d <> [] -> tget t p = Some x -> tget t d = Some D ->
  tpath t p = Some PX -> tpath t d = Some PD ->
  pfx PX PD = false -> pfx PD PX = false -> tname D = tname x ->
  let i := sl_in false fl (a1 :: o1) (a2 :: o2) t lf PX lt PD in
  snd (run i) = None /\ prop_C08 i (obs_of i (run i)) None = true.
Proof. exact C08_prop_override_stmt. Qed.
Print Assumptions C08_prop_override.

(* C08_replace_position_unrelated linked to Spec.edit_rp ("unrelated" stated on paths: neither path is a prefix of
   the other's parent path) *)
Theorem C08_replace_position_unrelated_spec : forall c fl t par p L D R x PQ PX,
  plain_replace c -> f_dc fl = false -> wf_t t -> tpath t par = Some PQ -> par <> [] -> p <> [] ->
  fkids par (tkids t) = Some (L ++ D :: R) -> tget t p = Some x -> tpath t p = Some PX ->
  pfx PQ PX = false -> pfx PX PQ = false ->
  (forall k, In k (L ++ R) -> tname k <> tname x) ->
  let d := par ++ [length L] in
  let PD := PQ ++ [tname D] in
  let t2 := t_setk (adj' p par) (L ++ x :: R) (t_remove p (t_remove d t)) in
  (exists rest, rp_core c [t] (0 :: p) (0 :: d) = (t2 :: rest, None))
  /\ rows t2 = minus (before_block (rows t) PD) PX ++ rows_from PQ x ++ minus (after_block (rows t) PD) PX
  /\ edit_rp false true fl (rows t) (rows t) PX (Some PD) = PNext (rows t2) (rows t2).
Proof. exact C08_replace_unrelated_spec_stmt. Qed.
Print Assumptions C08_replace_position_unrelated_spec.

(* ---- the hypotheses are satisfiable by non-trivial inputs ------------------------------------ *)

Ltac conj := repeat match goal with |- _ /\ _ => split end.

Definition ex_tree : tree :=     (* r(a(b(k), c), d)  — names as code points *)
  T (Some 0) [114%N] [] [ T (Some 1) [97%N] [] [ T (Some 2) [98%N] [([118%N], VInt 7%Z)] [T (Some 3) [107%N] [] []];
                                               T (Some 4) [99%N] [] [] ];
                         T (Some 5) [100%N] [] [] ].
Definition ex_fl : mflags := MF false false false false false true.
Definition ex_x : tree := T (Some 2) [98%N] [([118%N], VInt 7%Z)] [T (Some 3) [107%N] [] []].

(* shift r/a/b to r/d/n/b (n is created) *)
Example C08_shift_paths_nonvacuous :
  f_mc ex_fl = false /\ f_ml ex_fl = false /\ f_dc ex_fl = false /\ wf_t ex_tree /\ [0; 0] <> []
  /\ tget ex_tree [0; 0] = Some ex_x /\ tpath ex_tree [0; 0] = Some [[114%N]; [97%N]; [98%N]]
  /\ (forall cc, In cc [[100%N]; [110%N]] -> cc <> [])
  /\ pfx [[114%N]; [97%N]; [98%N]] (tname ex_tree :: [[100%N]; [110%N]]) = false
  /\ has (rows ex_tree) ((tname ex_tree :: [[100%N]; [110%N]]) ++ [tname ex_x]) = false
  /\ tsize ex_tree = 6.
Proof.
  conj; try reflexivity; try discriminate.
  - apply wf_tb_sound. reflexivity.
  - intros cc [<-|[<-|[]]]; discriminate.
Qed.

(* the model really performs it: same object tags 2 and 3 under the created node *)
Example C08_shift_paths_run :
  fst (run (MI OpShift ex_fl [47%N] ex_tree [47%N] (T None [] [] []) [47%N]
               [[114;47;97;47;98]%N] [Some [114;47;100;47;110;47;98]%N]))
  = [T (Some 0) [114%N] [] [ T (Some 1) [97%N] [] [T (Some 4) [99%N] [] []];
                           T (Some 5) [100%N] [] [T None [110%N] [] [ex_x]] ]].
Proof. vm_compute. reflexivity. Qed.

(* override: r(x(b(k)), y(b(m), c)) shift r/x/b onto r/y/b with overriding *)
Definition ex_tree2 : tree :=
  T (Some 0) [114%N] [] [ T (Some 1) [120%N] [] [T (Some 2) [98%N] [] [T (Some 3) [107%N] [] []]];
                         T (Some 4) [121%N] [] [T (Some 5) [98%N] [] [T (Some 6) [109%N] [] []]; T (Some 7) [99%N] [] []] ].
Definition ex_fl_over : mflags := MF false true false false false false.
Example C08_override_nonvacuous :
  f_over ex_fl_over = true /\ f_mc ex_fl_over = false /\ f_ml ex_fl_over = false /\ f_dc ex_fl_over = false
  /\ wf_t ex_tree2
  /\ tget ex_tree2 [0; 0] = Some (T (Some 2) [98%N] [] [T (Some 3) [107%N] [] []])
  /\ tget ex_tree2 [1; 0] = Some (T (Some 5) [98%N] [] [T (Some 6) [109%N] [] []])
  /\ tpath ex_tree2 [0; 0] = Some [[114%N]; [120%N]; [98%N]]
  /\ tpath ex_tree2 [1; 0] = Some [[114%N]; [121%N]; [98%N]]
  /\ pfx [[114%N]; [120%N]; [98%N]] [[114%N]; [121%N]; [98%N]] = false
  /\ pfx [[114%N]; [121%N]; [98%N]] [[114%N]; [120%N]; [98%N]] = false.
Proof. conj; try reflexivity. apply wf_tb_sound. reflexivity. Qed.

Definition ex_fl_dc : mflags := MF false false false false true true.
(* shift r/a (two children, one grandchild) to r/d/a with delete_children: only the bare node arrives *)
Example C08_delete_children_run :
  f_dc ex_fl_dc = true /\
  fst (run (MI OpShift ex_fl_dc [47%N] ex_tree [47%N] (T None [] [] []) [47%N]
               [[114;47;97]%N] [Some [114;47;100;47;97]%N]))
  = [T (Some 0) [114%N] [] [T (Some 5) [100%N] [] [T (Some 1) [97%N] [] []]]; ex_x; T (Some 4) [99%N] [] []].
Proof. vm_compute. split; reflexivity. Qed.

Example C08_delete_nonvacuous :
  wf_t ex_tree /\ tget ex_tree [0] = Some (T (Some 1) [97%N] [] [ex_x; T (Some 4) [99%N] [] []])
  /\ tpath ex_tree [0] = Some [[114%N]; [97%N]].
Proof. conj; try reflexivity. apply wf_tb_sound. reflexivity. Qed.

(* a valid multi-pair call with overriding + merge_children (the F5 scenario) *)
Definition ex_f5 : minput :=
  MI OpShift (MF false true true false false false) [47%N]
     (T (Some 0) [114%N] [] [ T (Some 1) [120%N] [] [ T (Some 2) [98%N] [] [T (Some 3) [49%N] [] []; T (Some 4) [50%N] [] []];
                                                   T (Some 5) [99%N] [] [T (Some 6) [51%N] [] []; T (Some 7) [52%N] [] []] ];
                            T (Some 8) [121%N] [] [T (Some 9) [98%N] [] [T (Some 10) [111%N] [] []]];
                            T (Some 11) [122%N] [] [] ])
     [47%N] (T None [] [] []) [47%N]
     [[114;47;120;47;98]%N; [114;47;120;47;99]%N] [Some [114;47;121;47;98]%N; Some [114;47;122;47;99]%N].
Example C08_multi_is_sequence_nonvacuous :
  valid_call ex_f5 = true /\ snd (run ex_f5) = None /\ length (mi_from ex_f5) = 2
  /\ map (fun r => rpath r) (rows (piece (fst (run ex_f5)) 0))
     = [[[114%N]]; [[114%N]; [120%N]]; [[114%N]; [121%N]]; [[114%N]; [121%N]; [98%N]]; [[114%N]; [121%N]; [98%N]; [49%N]];
        [[114%N]; [121%N]; [98%N]; [50%N]]; [[114%N]; [122%N]]; [[114%N]; [122%N]; [51%N]]; [[114%N]; [122%N]; [52%N]]].
Proof. vm_compute. conj; reflexivity. Qed.

(* tree-to-tree *)
Example C08_tree_to_tree_nonvacuous :
  let i := MI OpCopyTT ex_fl [47%N] ex_tree [47%N] (T (Some 6) [115%N] [] [T (Some 7) [117%N] [] []]) [47%N]
              [[114;47;97]%N] [Some [115;47;117;47;97]%N] in
  is_tt (mi_op i) = true /\ snd (run i) = None /\ tsize (piece (fst (run i)) 1) = 6.
Proof. vm_compute. conj; reflexivity. Qed.

(* merge_children: r(x(c1,c2,c3,c4,c5), y): shift r/x to r/y/x with merge_children: all five children arrive, x is gone *)
Definition ex_tree_mc : tree :=
  T (Some 0) [114%N] [] [ T (Some 1) [120%N] [] [T (Some 2) [49%N] [] []; T (Some 3) [50%N] [] []; T (Some 4) [51%N] [] [];
                                               T (Some 5) [52%N] [] []; T (Some 6) [53%N] [] []];
                         T (Some 7) [121%N] [] [] ].
Example C08_merge_children_run :
  wf_t ex_tree_mc /\
  fst (run (MI OpShift (MF false false true false false true) [47%N] ex_tree_mc [47%N] (T None [] [] []) [47%N]
               [[114;47;120]%N] [Some [114;47;121;47;120]%N]))
  = [T (Some 0) [114%N] [] [T (Some 7) [121%N] [] [T (Some 2) [49%N] [] []; T (Some 3) [50%N] [] []; T (Some 4) [51%N] [] [];
                                                   T (Some 5) [52%N] [] []; T (Some 6) [53%N] [] []]];
     T (Some 1) [120%N] [] []].
Proof. split; [apply wf_tb_sound; reflexivity|vm_compute; reflexivity]. Qed.

(* replace: r(a,b,c,d,e) *)
Definition ex_tree_rp : tree :=
  T (Some 0) [114%N] [] [T (Some 1) [97%N] [] []; T (Some 2) [98%N] [] []; T (Some 3) [99%N] [] [];
                         T (Some 4) [100%N] [] []; T (Some 5) [101%N] [] []].
Definition kidnames (f : forest) : list str := map tname (tkids (piece f 0)).
(* F = d is a right sibling of D = b: b disappears, d stays between c and e *)
Example C08_replace_right_sibling_run :
  kidnames (fst (run (MI OpShiftReplace ex_fl [47%N] ex_tree_rp [47%N] (T None [] [] []) [47%N]
                         [[114;47;100]%N] [Some [114;47;98]%N])))
  = [[97%N]; [99%N]; [100%N]; [101%N]].
Proof. vm_compute. reflexivity. Qed.
(* F = a is a left sibling of D = c: a takes c's place *)
Example C08_replace_left_sibling_run :
  kidnames (fst (run (MI OpShiftReplace ex_fl [47%N] ex_tree_rp [47%N] (T None [] [] []) [47%N]
                         [[114;47;97]%N] [Some [114;47;99]%N])))
  = [[98%N]; [97%N]; [100%N]; [101%N]].
Proof. vm_compute. reflexivity. Qed.
(* tree-to-tree: the copy of r/a (from ex_tree) replaces s/u in s(t,u,w): position kept, source untouched *)
Example C08_replace_position_tt_run :
  let i := MI OpReplaceTT ex_fl [47%N] ex_tree [47%N]
              (T (Some 6) [115%N] [] [T (Some 7) [116%N] [] []; T (Some 8) [117%N] [] []; T (Some 9) [119%N] [] []]) [47%N]
              [[114;47;97]%N] [Some [115;47;117]%N] in
  map tname (tkids (piece (fst (run i)) 1)) = [[116%N]; [97%N]; [119%N]] /\ piece (fst (run i)) 0 = ex_tree.
Proof. vm_compute. split; reflexivity. Qed.

(* merge_leaves on r(x(c1..c5), y): the five leaves go to r/y/, x stays (childless) *)
Example C08_merge_leaves_run :
  Forall (fun k => tkids k = []) (tkids (T (Some 1) [120%N] [] [T (Some 2) [49%N] [] []; T (Some 3) [50%N] [] []])) /\
  fst (run (MI OpShift (MF false false false true false true) [47%N] ex_tree_mc [47%N] (T None [] [] []) [47%N]
               [[114;47;120]%N] [Some [114;47;121;47;120]%N]))
  = [T (Some 0) [114%N] [] [T (Some 1) [120%N] [] [];
                           T (Some 7) [121%N] [] [T (Some 2) [49%N] [] []; T (Some 3) [50%N] [] []; T (Some 4) [51%N] [] [];
                                                  T (Some 5) [52%N] [] []; T (Some 6) [53%N] [] []]]].
Proof. split; [repeat constructor|vm_compute; reflexivity]. Qed.

(* the whole-call theorem applies to shift r/a/b -> r/d/n/b on ex_tree with sep "/" *)
Example C08_shift_whole_call_nonvacuous :
  Forall (sepfree 47%N) [[114%N]; [97%N]; [98%N]] /\ Forall (sepfree 47%N) (tname ex_tree :: [[100%N]; [110%N]])
  /\ join [47%N] [[114%N]; [97%N]; [98%N]] = [114;47;97;47;98]%N
  /\ join [47%N] ((tname ex_tree :: [[100%N]; [110%N]]) ++ [tname ex_x]) = [114;47;100;47;110;47;98]%N.
Proof.
  assert (S : forall n, n <> 47%N -> sepfree 47%N [n]).
  { intros n Hn. split; [discriminate|]. intros [E|[]]. congruence. }
  conj; try reflexivity; repeat constructor; apply S; discriminate.
Qed.

(* the multi-character theorem applies to shift r->a->b to r->d->n->b on ex_tree with sep = tree.sep = "->",
   and the model run gives the same tree as with "/" *)
Example C08_shift_whole_call_multi_nonvacuous :
  Forall (sgood [45%N; 62%N]) [[114%N]; [97%N]; [98%N]] /\ Forall (sgood [45%N; 62%N]) (tname ex_tree :: [[100%N]; [110%N]])
  /\ fst (run (MI OpShift ex_fl [45;62]%N ex_tree [45;62]%N (T None [] [] []) [45;62]%N
                  [join [45;62]%N [[114%N]; [97%N]; [98%N]]] [Some (join [45;62]%N [[114%N]; [100%N]; [110%N]; [98%N]])]))
      = [T (Some 0) [114%N] [] [ T (Some 1) [97%N] [] [T (Some 4) [99%N] [] []];
                               T (Some 5) [100%N] [] [T None [110%N] [] [ex_x]] ]].
Proof.
  assert (S : forall n, n <> 45%N -> n <> 62%N -> sgood [45%N; 62%N] [n]).
  { intros n H1 H2. split; [discriminate|]. intros ch [<-|[<-|[]]] [E|[]]; congruence. }
  conj; try (vm_compute; reflexivity); repeat constructor; apply S; discriminate.
Qed.

(* empty separators are modelled: an empty tree separator with a to-path is refused (split raises ValueError) *)
Example C08_empty_tree_sep_refused :
  snd (run (MI OpShift ex_fl [47%N] ex_tree [] (T None [] [] []) [] [[114;47;97]%N] [Some [114;47;100;47;97]%N]))
  = Some ValueError.
Proof. vm_compute. reflexivity. Qed.

(* merge_children onto an existing node: r(x(c1..c5), y(o)) shift r/x to r/y/x ... here onto the existing r/y2/x *)
Definition ex_tree_mce : tree :=
  T (Some 0) [114%N] [] [ T (Some 1) [120%N] [] [T (Some 2) [49%N] [] []; T (Some 3) [50%N] [] []];
                         T (Some 4) [121%N] [] [T (Some 5) [120%N] [] [T (Some 6) [111%N] [] []]] ].
Example C08_merge_children_existing_run :
  fst (run (MI OpShift (MF false false true false false true) [47%N] ex_tree_mce [47%N] (T None [] [] []) [47%N]
               [[114;47;120]%N] [Some [114;47;121;47;120]%N]))
  = [T (Some 0) [114%N] [] [T (Some 4) [121%N] [] [T (Some 5) [120%N] []
                              [T (Some 6) [111%N] [] []; T (Some 2) [49%N] [] []; T (Some 3) [50%N] [] []]]];
     T (Some 1) [120%N] [] []].
Proof. vm_compute. reflexivity. Qed.

(* prop_C08 on the model's output, concrete instance of family (a), and a refused call of family (b) *)
Example C08_model_satisfies_prop_shift_nonvacuous :
  let i := MI OpShift ex_fl [47%N] ex_tree [47%N] (T None [] [] []) [47%N]
              [[114;47;97;47;98]%N] [Some [114;47;100;47;110;47;98]%N] in
  trees_ok i = true /\ prop_C08 i (obs_of i (run i)) None = true /\ snd (run i) = None.
Proof. vm_compute. conj; reflexivity. Qed.
Example C08_model_satisfies_prop_both_merges_nonvacuous :
  let i := MI OpCopy (MF false true true true false false) [47%N] ex_tree [47%N] (T None [] [] []) [47%N]
              [[98]%N] [Some [114;47;100;47;98]%N] in
  trees_ok i = true /\ snd (run i) = Some ValueError /\ prop_C08 i (obs_of i (run i)) None = true.
Proof. vm_compute. conj; reflexivity. Qed.

(* replace from an unrelated branch: r(a(b(k),c), d(e,f,g)): r/a/b replaces r/d/f: children of d become e, b, g *)
Definition ex_tree_ru : tree :=
  T (Some 0) [114%N] [] [ T (Some 1) [97%N] [] [T (Some 2) [98%N] [] [T (Some 3) [107%N] [] []]; T (Some 4) [99%N] [] []];
                         T (Some 5) [100%N] [] [T (Some 6) [101%N] [] []; T (Some 7) [102%N] [] []; T (Some 8) [103%N] [] []] ].
Example C08_replace_position_unrelated_run :
  fst (run (MI OpShiftReplace ex_fl [47%N] ex_tree_ru [47%N] (T None [] [] []) [47%N]
               [[114;47;97;47;98]%N] [Some [114;47;100;47;102]%N]))
  = [T (Some 0) [114%N] [] [ T (Some 1) [97%N] [] [T (Some 4) [99%N] [] []];
                           T (Some 5) [100%N] [] [T (Some 6) [101%N] [] []; T (Some 2) [98%N] [] [T (Some 3) [107%N] [] []];
                                                  T (Some 8) [103%N] [] []] ];
     T (Some 7) [102%N] [] []]
  /\ is_prefix [1] [0; 0] = false /\ is_prefix [0; 0] [1] = false.
Proof. vm_compute. conj; reflexivity. Qed.

(* sep "::" with tree.sep "/" and leading separators: "::r::a::b" -> "::r::d::n::b" *)
Example C08_whole_call_general_run :
  let i := sl_in false ex_fl [58;58]%N [47%N] ex_tree true [[114%N]; [97%N]; [98%N]] true [[114%N]; [100%N]; [110%N]; [98%N]] in
  mi_from i = [[58;58;114;58;58;97;58;58;98]%N]
  /\ fst (run i) = [T (Some 0) [114%N] [] [ T (Some 1) [97%N] [] [T (Some 4) [99%N] [] []];
                                          T (Some 5) [100%N] [] [T None [110%N] [] [ex_x]] ]]
  /\ prop_C08 i (obs_of i (run i)) None = true.
Proof. vm_compute. conj; reflexivity. Qed.
(* refused: last names differ; missing from-path; same node *)
Example C08_prop_refused_run :
  let i := sl_in true ex_fl [47%N] [47%N] ex_tree false [[114%N]; [97%N]] false [[114%N]; [100%N]; [122%N]] in
  sl_checks ex_fl ex_tree [[114%N]; [97%N]] [[114%N]; [100%N]; [122%N]] = false /\ snd (run i) = Some ValueError.
Proof. vm_compute. conj; reflexivity. Qed.
Example C08_prop_missing_from_run :
  let i := sl_in false ex_fl [47%N] [47%N] ex_tree false [[114%N]; [122%N]] false [[114%N]; [100%N]; [122%N]] in
  has (rows ex_tree) [[114%N]; [122%N]] = false /\ snd (run i) = Some NotFoundError.
Proof. vm_compute. conj; reflexivity. Qed.
Example C08_prop_same_node_run :
  let i := sl_in false ex_fl [47%N] [47%N] ex_tree false [[114%N]; [97%N]] true [[114%N]; [97%N]] in
  run i = ([ex_tree], Some TreeError).
Proof. vm_compute. reflexivity. Qed.
Example C08_prop_override_run :
  let i := sl_in false (MF false true false false false true) [45;62]%N [47%N] ex_tree2 false
              [[114%N]; [120%N]; [98%N]] true [[114%N]; [121%N]; [98%N]] in
  snd (run i) = None /\ prop_C08 i (obs_of i (run i)) None = true.
Proof. vm_compute. conj; reflexivity. Qed.
