(* C08 — shift/copy/replace perform exactly the documented edit and nothing else.
   Only statements here; the proofs are in Algo/ModifyProofs.v.  The model is Algo/Modify.v (a forest of
   tagged rose trees; piece 0 is the tree object handed to the call), the documented edit on path
   tables is Spec/PC08.v (edit_cs, prop_C08).

   Layers.  `run`/`run_seq` are whole calls on path *strings*.  `cs_core` is one pair after the strings have
   been resolved to references (from-node at reference 0::p of the forest [t]; destination = TDel | TNode |
   TNew comps); the resolution itself (rstrip / replace / split / find_path) is tied to the code by the
   correspondence only.  `rows t` is the path table of t; `tget`/`tpath` are subtree and name path at a
   reference; `wf_t` = sibling names unique (what Node guarantees, C03).

   Clauses without a theorem (decided by the correspondence and by prop_C08 evaluated on every
   implementation output): merge_children, merge_leaves, replace_position, delete_children combined with
   other flags, and the from==to / nested (one node inside the other) variants. *)
From BT Require Import Base.Prelude Base.Str Base.Rose Algo.Modify Spec.PC08 Algo.ModifyProofs.

(* One call with several pairs = the same single-pair calls in sequence (stopping at the first exception),
   for every pair list that passes the argument checks, all five functions, all flags.
   (Holds after fix F5; before it `cs_pair` would have had to thread merge_children through the pairs.) *)
Theorem C08_multi_is_sequence : forall i, valid_call i = true -> run i = run_seq i.
Proof. exact multi_is_sequence. Qed.
Print Assumptions C08_multi_is_sequence.

(* Plain shift (no merge flag, no delete_children), destination absent and not inside the source subtree:
   the result is one tree whose table is the input table with the missing prefixes of the destination
   parent created (ensure), the rows of the addressed subtree removed (minus) and re-inserted unchanged
   — same tags, same attributes — as the last child block of the destination parent (insert_last);
   this is exactly Spec.edit_cs; every row not below the source path survives as a subsequence. *)
Theorem C08_shift_paths : forall sep tsep fl t p x comps PX,
  f_mc fl = false -> f_ml fl = false -> f_dc fl = false -> wf_t t ->
  p <> [] -> tget t p = Some x -> tpath t p = Some PX ->
  (forall cc, In cc comps -> cc <> []) ->
  pfx PX (tname t :: comps) = false ->
  has (rows t) ((tname t :: comps) ++ [tname x]) = false ->
  exists t2,
    cs_core (cfg_same false sep tsep fl) [t] (0 :: p) (TNew comps) = ([t2], None)
    /\ rows t2 = insert_last (minus (ensure (rows t) [tname t] comps) PX) (tname t :: comps)
                             (rows_from (tname t :: comps) x)
    /\ edit_cs false true fl (rows t) (rows t) PX (Some ((tname t :: comps) ++ [tname x])) = PNext (rows t2) (rows t2)
    /\ subseq (minus (rows t) PX) (rows t2).
Proof. exact C08_shift_paths_stmt. Qed.
Print Assumptions C08_shift_paths.

(* Plain copy, destination absent: all rows of the tree are still there, in order (subseq), the copy
   consists of new objects (retag: tag None) with the same names and attributes. *)
Theorem C08_copy_keeps_source : forall sep tsep fl t p x comps PX,
  f_mc fl = false -> f_ml fl = false -> f_dc fl = false -> wf_t t ->
  p <> [] -> tget t p = Some x -> tpath t p = Some PX ->
  (forall cc, In cc comps -> cc <> []) ->
  pfx PX (tname t :: comps) = false ->
  has (rows t) ((tname t :: comps) ++ [tname x]) = false ->
  exists t2 rest,
    cs_core (cfg_same true sep tsep fl) [t] (0 :: p) (TNew comps) = (t2 :: rest, None)
    /\ rows t2 = insert_last (ensure (rows t) [tname t] comps) (tname t :: comps)
                             (rows_from (tname t :: comps) (retag x))
    /\ edit_cs true true fl (rows t) (rows t) PX (Some ((tname t :: comps) ++ [tname x])) = PNext (rows t2) (rows t2)
    /\ subseq (rows t) (rows t2).
Proof. exact C08_copy_keeps_source_stmt. Qed.
Print Assumptions C08_copy_keeps_source.

(* Untouched nodes keep identity, path, attributes and relative order: whatever is created (ensure) and
   wherever the moved block goes (insert_last), the rows outside the source path form a subsequence of the
   result — (path, tag, attrs) triples, so "same object, same path, same attributes, same order". *)
Theorem C08_untouched_identity : forall (tb : table) PX d todo Q rs,
  subseq (minus tb PX) (insert_last (minus (ensure tb d todo) PX) Q rs)
  /\ subseq tb (insert_last (ensure tb d todo) Q rs)
  /\ subseq (minus tb PX) tb.
Proof. intros. split; [apply untouched_shift|split; [apply untouched_copy|apply untouched_delete]]. Qed.
Print Assumptions C08_untouched_identity.

(* overriding (no merge flag), destination D present, neither node inside the other: D is gone
   (it is piece 1 of the forest, no row at its path that is not the shifted node), F is the last child of
   D's former parent, with its tags. *)
Theorem C08_override : forall sep tsep fl t p d x D PX PD,
  f_over fl = true -> f_mc fl = false -> f_ml fl = false -> f_dc fl = false -> wf_t t ->
  p <> [] -> d <> [] -> tget t p = Some x -> tget t d = Some D ->
  tpath t p = Some PX -> tpath t d = Some PD ->
  pfx PX PD = false -> pfx PD PX = false -> tname D = tname x ->
  exists t2,
    cs_core (cfg_same false sep tsep fl) [t] (0 :: p) (TNode (0 :: d)) = ([t2; D], None)
    /\ rows t2 = insert_last (minus (minus (rows t) PD) PX) (removelast PD) (rows_from (removelast PD) x)
    /\ edit_cs false true fl (rows t) (rows t) PX (Some PD) = PNext (rows t2) (rows t2)
    /\ has (minus (rows t2) (removelast PD ++ [tname x])) PD = false
    /\ subseq (minus (minus (rows t) PD) PX) (rows t2).
Proof. exact C08_override_stmt. Qed.
Print Assumptions C08_override.

(* to_path None / empty: the addressed subtree is no longer in the tree, everything else is. *)
Theorem C08_delete : forall sep tsep fl t p x PX,
  f_mc fl = false -> f_ml fl = false -> f_dc fl = false -> wf_t t ->
  p <> [] -> tget t p = Some x -> tpath t p = Some PX ->
  exists t2,
    cs_core (cfg_same false sep tsep fl) [t] (0 :: p) TDel = ([t2; x], None)
    /\ rows t2 = minus (rows t) PX
    /\ edit_cs false true fl (rows t) (rows t) PX None = PNext (rows t2) (rows t2)
    /\ has (rows t2) PX = false
    /\ subseq (rows t2) (rows t).
Proof. exact C08_delete_stmt. Qed.
Print Assumptions C08_delete.

(* delete_children (starred in DESIGN.md): shift with delete_children=True, destination absent: the bare node —
   same object, same attributes, no children — is the last child of the destination parent; everything that
   was at or below the source path is gone from there; the rest is untouched. *)
Theorem C08_delete_children : forall sep tsep fl t p x comps PX,
  f_mc fl = false -> f_ml fl = false -> f_dc fl = true -> wf_t t ->
  p <> [] -> tget t p = Some x -> tpath t p = Some PX ->
  (forall cc, In cc comps -> cc <> []) ->
  pfx PX (tname t :: comps) = false ->
  has (rows t) ((tname t :: comps) ++ [tname x]) = false ->
  exists t2 rest,
    cs_core (cfg_same false sep tsep fl) [t] (0 :: p) (TNew comps) = (t2 :: rest, None)
    /\ rows t2 = insert_last (minus (ensure (rows t) [tname t] comps) PX) (tname t :: comps)
                             [((tname t :: comps) ++ [tname x], ttag x, tattrs x)]
    /\ edit_cs false true fl (rows t) (rows t) PX (Some ((tname t :: comps) ++ [tname x])) = PNext (rows t2) (rows t2)
    /\ subseq (minus (rows t) PX) (rows t2).
Proof. exact C08_delete_children_stmt. Qed.
Print Assumptions C08_delete_children.

(* copy_nodes_from_tree_to_tree / copy_and_replace_nodes_from_tree_to_tree: the source tree is the same
   value before and after — for every flag combination, every path list, and also when the call raises. *)
Theorem C08_tree_to_tree_source_untouched : forall i,
  is_tt (mi_op i) = true -> nth_error (fst (run i)) 0 = Some (mi_src i).
Proof. exact tt_source_untouched. Qed.
Print Assumptions C08_tree_to_tree_source_untouched.

(* ---- the hypotheses are satisfiable by non-trivial inputs ------------------------------------ *)

Ltac conj := repeat match goal with |- _ /\ _ => split end.

Definition ex_tree : tree :=     (* r(a(b(k), c), d)  — names as code points *)
  T (Some 0) [114%N] [] [ T (Some 1) [97%N] [] [ T (Some 2) [98%N] [([118%N], VInt 7%Z)] [T (Some 3) [107%N] [] []];
                                               T (Some 4) [99%N] [] [] ];
                         T (Some 5) [100%N] [] [] ].
Definition ex_fl : mflags := MF false false false false false true.
Definition ex_x : tree := T (Some 2) [98%N] [([118%N], VInt 7%Z)] [T (Some 3) [107%N] [] []].

(* shift r/a/b to r/d/n/b (n is created) *)
Example C08_shift_paths_nonvacuous :
  f_mc ex_fl = false /\ f_ml ex_fl = false /\ f_dc ex_fl = false /\ wf_t ex_tree /\ [0; 0] <> []
  /\ tget ex_tree [0; 0] = Some ex_x /\ tpath ex_tree [0; 0] = Some [[114%N]; [97%N]; [98%N]]
  /\ (forall cc, In cc [[100%N]; [110%N]] -> cc <> [])
  /\ pfx [[114%N]; [97%N]; [98%N]] (tname ex_tree :: [[100%N]; [110%N]]) = false
  /\ has (rows ex_tree) ((tname ex_tree :: [[100%N]; [110%N]]) ++ [tname ex_x]) = false
  /\ tsize ex_tree = 6.
Proof.
  conj; try reflexivity; try discriminate.
  - apply wf_tb_sound. reflexivity.
  - intros cc [<-|[<-|[]]]; discriminate.
Qed.

(* the model really performs it: same object tags 2 and 3 under the created node *)
Example C08_shift_paths_run :
  fst (run (MI OpShift ex_fl [47%N] ex_tree [47%N] (T None [] [] []) [47%N]
               [[114;47;97;47;98]%N] [Some [114;47;100;47;110;47;98]%N]))
  = [T (Some 0) [114%N] [] [ T (Some 1) [97%N] [] [T (Some 4) [99%N] [] []];
                           T (Some 5) [100%N] [] [T None [110%N] [] [ex_x]] ]].
Proof. vm_compute. reflexivity. Qed.

(* override: r(x(b(k)), y(b(m), c)) shift r/x/b onto r/y/b with overriding *)
Definition ex_tree2 : tree :=
  T (Some 0) [114%N] [] [ T (Some 1) [120%N] [] [T (Some 2) [98%N] [] [T (Some 3) [107%N] [] []]];
                         T (Some 4) [121%N] [] [T (Some 5) [98%N] [] [T (Some 6) [109%N] [] []]; T (Some 7) [99%N] [] []] ].
Definition ex_fl_over : mflags := MF false true false false false false.
Example C08_override_nonvacuous :
  f_over ex_fl_over = true /\ f_mc ex_fl_over = false /\ f_ml ex_fl_over = false /\ f_dc ex_fl_over = false
  /\ wf_t ex_tree2
  /\ tget ex_tree2 [0; 0] = Some (T (Some 2) [98%N] [] [T (Some 3) [107%N] [] []])
  /\ tget ex_tree2 [1; 0] = Some (T (Some 5) [98%N] [] [T (Some 6) [109%N] [] []])
  /\ tpath ex_tree2 [0; 0] = Some [[114%N]; [120%N]; [98%N]]
  /\ tpath ex_tree2 [1; 0] = Some [[114%N]; [121%N]; [98%N]]
  /\ pfx [[114%N]; [120%N]; [98%N]] [[114%N]; [121%N]; [98%N]] = false
  /\ pfx [[114%N]; [121%N]; [98%N]] [[114%N]; [120%N]; [98%N]] = false.
Proof. conj; try reflexivity. apply wf_tb_sound. reflexivity. Qed.

Definition ex_fl_dc : mflags := MF false false false false true true.
(* shift r/a (two children, one grandchild) to r/d/a with delete_children: only the bare node arrives *)
Example C08_delete_children_run :
  f_dc ex_fl_dc = true /\
  fst (run (MI OpShift ex_fl_dc [47%N] ex_tree [47%N] (T None [] [] []) [47%N]
               [[114;47;97]%N] [Some [114;47;100;47;97]%N]))
  = [T (Some 0) [114%N] [] [T (Some 5) [100%N] [] [T (Some 1) [97%N] [] []]]; ex_x; T (Some 4) [99%N] [] []].
Proof. vm_compute. split; reflexivity. Qed.

Example C08_delete_nonvacuous :
  wf_t ex_tree /\ tget ex_tree [0] = Some (T (Some 1) [97%N] [] [ex_x; T (Some 4) [99%N] [] []])
  /\ tpath ex_tree [0] = Some [[114%N]; [97%N]].
Proof. conj; try reflexivity. apply wf_tb_sound. reflexivity. Qed.

(* a valid multi-pair call with overriding + merge_children (the F5 scenario) *)
Definition ex_f5 : minput :=
  MI OpShift (MF false true true false false false) [47%N]
     (T (Some 0) [114%N] [] [ T (Some 1) [120%N] [] [ T (Some 2) [98%N] [] [T (Some 3) [49%N] [] []; T (Some 4) [50%N] [] []];
                                                   T (Some 5) [99%N] [] [T (Some 6) [51%N] [] []; T (Some 7) [52%N] [] []] ];
                            T (Some 8) [121%N] [] [T (Some 9) [98%N] [] [T (Some 10) [111%N] [] []]];
                            T (Some 11) [122%N] [] [] ])
     [47%N] (T None [] [] []) [47%N]
     [[114;47;120;47;98]%N; [114;47;120;47;99]%N] [Some [114;47;121;47;98]%N; Some [114;47;122;47;99]%N].
Example C08_multi_is_sequence_nonvacuous :
  valid_call ex_f5 = true /\ snd (run ex_f5) = None /\ length (mi_from ex_f5) = 2
  /\ map (fun r => rpath r) (rows (piece (fst (run ex_f5)) 0))
     = [[[114%N]]; [[114%N]; [120%N]]; [[114%N]; [121%N]]; [[114%N]; [121%N]; [98%N]]; [[114%N]; [121%N]; [98%N]; [49%N]];
        [[114%N]; [121%N]; [98%N]; [50%N]]; [[114%N]; [122%N]]; [[114%N]; [122%N]; [51%N]]; [[114%N]; [122%N]; [52%N]]].
Proof. vm_compute. conj; reflexivity. Qed.

(* tree-to-tree *)
Example C08_tree_to_tree_nonvacuous :
  let i := MI OpCopyTT ex_fl [47%N] ex_tree [47%N] (T (Some 6) [115%N] [] [T (Some 7) [117%N] [] []]) [47%N]
              [[114;47;97]%N] [Some [115;47;117;47;97]%N] in
  is_tt (mi_op i) = true /\ snd (run i) = None /\ tsize (piece (fst (run i)) 1) = 6.
Proof. vm_compute. conj; reflexivity. Qed.
