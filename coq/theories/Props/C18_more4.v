(* C18, fourth round — tree_to_dot (statements only; proofs in Algo/C18More4.v).
   The guard "the nodes have pairwise different path names" (`paths_distinct`, a predicate on the
   computed path strings) of C18_dot_ids_injective_partial / C18_dot_ids_injective_few is replaced by
   a guard on the shape of the tree: with a one-character separator c, the children of one node have
   pairwise different names and no non-root name contains c (`sibs_wf c`).  Names may repeat across
   branches at any depth; any fan-out and depth; empty BinaryNode slots.  Both halves of the guard
   are necessary (refutations below). *)
From BT Require Import Base.Prelude Base.Str Base.Rose Algo.Render Algo.Dot Spec.PC18 Algo.RenderProofs
     Corr.RenderCorr Algo.C18More3 Algo.C18More4.

(* the structural guard implies the path-name guard, for every tree and every separator character *)
Theorem C18_dot_paths_distinct_shape : forall c t,
  sibs_wf c (compact t) = true -> paths_distinct [c] t = true.
Proof. exact sibs_wf_paths_distinct. Qed.
Print Assumptions C18_dot_paths_distinct_shape.

(* the underlying fact at any start prefix: the path names below a node are pairwise different *)
Theorem C18_dot_paths_NoDup_shape : forall c t pp,
  sibs_wf c t = true -> NoDup (map snd (label_paths [c] pp t)).
Proof. exact sibs_wf_paths_NoDup. Qed.
Print Assumptions C18_dot_paths_NoDup_shape.

(* vertex ids unique: no label on more than ten nodes, sibling names distinct and free of the
   separator, no colon (K5) *)
Theorem C18_dot_ids_injective_shape : forall c t,
  labels_at_most_ten t = true -> sibs_wf c (compact t) = true -> no_label_has_colon t = true ->
  graph_ids_distinct (dot_nodes [c] t) = true.
Proof. exact dot_ids_injective_shape. Qed.
Print Assumptions C18_dot_ids_injective_shape.

(* the whole graph clause under these guards *)
Theorem C18_dot_graph_shape : forall c t,
  labels_at_most_ten t = true -> sibs_wf c (compact t) = true -> no_label_has_colon t = true ->
  prop_C18_g t (dot_nodes [c] t) (dot_edges [c] t) = true.
Proof. exact dot_graph_shape. Qed.
Print Assumptions C18_dot_graph_shape.

(* the same with the K2 guard of the first round in place of the multiplicity guard: any number of
   equal labels when no label ends in a digit *)
Theorem C18_dot_graph_shape_nodigit : forall c t,
  no_label_ends_in_digit t = true -> sibs_wf c (compact t) = true -> no_label_has_colon t = true ->
  prop_C18_g t (dot_nodes [c] t) (dot_edges [c] t) = true.
Proof. exact dot_graph_shape_nodigit. Qed.
Print Assumptions C18_dot_graph_shape_nodigit.

(* every tree with at most ten existing nodes: structural guards only *)
Theorem C18_dot_graph_shape_small_trees : forall c t,
  tsize (compact t) <= 10 -> sibs_wf c (compact t) = true -> no_label_has_colon t = true ->
  prop_C18_g t (dot_nodes [c] t) (dot_edges [c] t) = true.
Proof. intros c t H. apply dot_graph_shape. apply small_tree_few. exact H. Qed.
Print Assumptions C18_dot_graph_shape_small_trees.

(* ---------------------------------------------------------------------------------------------- *)
Local Open Scope N_scope.
(* a binary tree 1(2(1, -), 10(-, 1(x2, 1))): empty slots, the name 1 on four nodes in different
   branches and depths, names ending in digits *)
Definition ex_tree_b4 : tree :=
  Nd [49] [Nd [50] [Nd [49] []; Hole];
           Nd [49; 48] [Hole; Nd [49] [Nd [120; 50] []; Nd [49] []]]].
(* two children with the same name *)
Definition twin_witness : tree := Nd [114] [Nd [97] []; Nd [97] []].
(* r(a/b(x), a(b(x))): sibling names differ everywhere, one name contains the separator *)
Definition sep_witness : tree :=
  Nd [114] [Nd [97; 47; 98] [Nd [120] []]; Nd [97] [Nd [98] [Nd [120] []]]].
Local Close Scope N_scope.

(* non-vacuity: the guards hold and the conclusion is shown on the concrete ids *)
Example C18_dot_shape_witness :
  sibs_wf 47%N (compact ex_tree_b4) = true /\ labels_at_most_ten ex_tree_b4 = true
  /\ no_label_has_colon ex_tree_b4 = true /\ no_label_ends_in_digit ex_tree_b4 = false
  /\ paths_distinct [47%N] ex_tree_b4 = true
  /\ map fst (dot_nodes [47%N] ex_tree_b4)
     = [[49; 48]; [50; 48]; [49; 49]; [49; 48; 48]; [49; 50]; [120; 50; 48]; [49; 51]]%N
  /\ prop_C18_g ex_tree_b4 (dot_nodes [47%N] ex_tree_b4) (dot_edges [47%N] ex_tree_b4) = true.
Proof. vm_compute. repeat split. Qed.

(* necessity of "sibling names differ": two children called a get the same path name and the same
   id a0, all other guards holding *)
Example C18_dot_twins_refuted :
  exists t, labels_at_most_ten t = true /\ no_label_has_colon t = true /\ no_label_ends_in_digit t = true
            /\ forallb (fun x => negb (existsb (N.eqb 47%N) (tname x))) (pre (compact t)) = true
            /\ sibs_wf 47%N (compact t) = false /\ paths_distinct [47%N] t = false
            /\ graph_ids_distinct (dot_nodes [47%N] t) = false.
Proof. exists twin_witness. vm_compute. repeat split. Qed.

(* necessity of "no name contains the separator": with sibling names pairwise different everywhere,
   the two nodes x both have the path name /r/a/b/x and both get the id x0 *)
Example C18_dot_sep_in_name_refuted :
  exists t, labels_at_most_ten t = true /\ no_label_has_colon t = true /\ no_label_ends_in_digit t = true
            /\ sibs_wf 46%N (compact t) = true
            /\ sibs_wf 47%N (compact t) = false /\ paths_distinct [47%N] t = false
            /\ graph_ids_distinct (dot_nodes [47%N] t) = false
            /\ graph_ids_distinct (dot_nodes [46%N] t) = true.
Proof. exists sep_witness. vm_compute. repeat split. Qed.
