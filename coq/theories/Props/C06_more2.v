(* C06, textual half, second round (statements only; definitions and proofs in Algo/C06More2.v).

   Closes / narrows the partial clause of the textio engine
     name classes kept OUT of the round-trip claim ... Newick names containing the quote character '
     (rewritten to a double quote), ... falsy attribute values (length 0 raises), ... negative integer
     lengths (-5 comes back as -5.0)
   (names AND values containing the quote character; keys stay quote-free)
   and the DESIGN line  P ... Newick: names without ', ... integer lengths.

   `rq_tree t` = t with every quote character in a NODE NAME replaced by the double quote (code point 34);
   attributes, tags, shape untouched.  `rq_all t` = the same in node names AND in every string attribute
   value (keys untouched).  `quote_free t` = no node name contains the quote character; `quote_free_all t` =
   no node name and no string attribute value does. *)
From BT Require Import Base.Prelude Base.Str Base.Rose Algo.TextIO Spec.PC06Text Algo.TextIOProofs Algo.C06More2.

Local Open Scope N_scope.

(* ------------------------------------------------------------------------------------------ *)
(* names containing the quote character                                                        *)

(* one label, EVERY string (no guard): the parser, standing in front of the serialized label with nothing
   pending, ends with `requote n` pending -- the label between the quotes with ' rewritten *)
Theorem C06_newick_label_any_string :
  forall la pf n rest ab cu be d ctr,
    nw_run la pf (serialize n ++ rest) (St ab cu be d ctr [])
    = nw_run la pf rest (St ab cu be d ctr (requote n)).
Proof. exact run_name_q. Qed.
Print Assumptions C06_newick_label_any_string.

(* ROUND TRIP FOR NAMES WITH QUOTES, whole option space of C06_newick_roundtrip_float (float lengths, any
   requested attributes, any prefix, intermediate names written or suppressed, root or inner start node).
   The guard no longer restricts quotes in names: it is the old guard read on rq_tree t, i.e. names
   non-empty, the REWRITTEN sibling names pairwise distinct (and not of the form nodeN when names are
   suppressed), attributes / lengths as before.  Conclusion: the export succeeds, its import succeeds and
   returns the tree rq_tree t (in the sense of prop_newick_back); it is literally the tree obtained by
   exporting and importing rq_tree t itself. *)
Theorem C06_newick_roundtrip_quote :
  forall inter len keys pf isroot t,
    newick_alphabet_ext (NwOpt inter len keys pf true) isroot (rq_tree t) = true ->
    lengths_canonical len isroot (rq_tree t) = true ->
    exists s s' back,
      nw_write (NwCfg inter len [58] keys pf [58]) isroot t = Ret s
      /\ nw_parse (la_of (NwOpt inter len keys pf true)) pf s = Ret back
      /\ prop_newick_back (NwOpt inter len keys pf true) isroot (rq_tree t) back = true
      /\ nw_write (NwCfg inter len [58] keys pf [58]) isroot (rq_tree t) = Ret s'
      /\ nw_parse (la_of (NwOpt inter len keys pf true)) pf s' = Ret back.
Proof. exact newick_roundtrip_quote. Qed.
Print Assumptions C06_newick_roundtrip_quote.

(* THE SAME WITH QUOTES IN ATTRIBUTE VALUES AS WELL: requested string values may contain the quote character
   (they only have to be non-empty); the re-import carries the rewritten value.  Keys as before. *)
Theorem C06_newick_roundtrip_quote_values :
  forall inter len keys pf isroot t,
    newick_alphabet_ext (NwOpt inter len keys pf true) isroot (rq_all t) = true ->
    lengths_canonical len isroot (rq_all t) = true ->
    exists s s' back,
      nw_write (NwCfg inter len [58] keys pf [58]) isroot t = Ret s
      /\ nw_parse (la_of (NwOpt inter len keys pf true)) pf s = Ret back
      /\ prop_newick_back (NwOpt inter len keys pf true) isroot (rq_all t) back = true
      /\ nw_write (NwCfg inter len [58] keys pf [58]) isroot (rq_all t) = Ret s'
      /\ nw_parse (la_of (NwOpt inter len keys pf true)) pf s' = Ret back.
Proof. exact newick_roundtrip_quote_values. Qed.
Print Assumptions C06_newick_roundtrip_quote_values.

(* one attribute value, EVERY string: read in state PARSE_ATTRIBUTE_VALUE it arrives rewritten *)
Theorem C06_newick_value_any_string :
  forall la pf x rest ab cu be d ctr has cum,
    nw_run la pf (serialize x ++ rest) (mkP ab cu be d ctr PVal has cum [] 0)
    = nw_run la pf rest (mkP ab cu be d ctr PVal has cum (requote x) 0).
Proof. exact run_token_val_q. Qed.
Print Assumptions C06_newick_value_any_string.

(* the old theorems are the special case in which nothing is rewritten *)
Theorem C06_newick_alphabet_is_quote_free :
  forall o isroot t, newick_alphabet_ext o isroot t = true -> quote_free t = true.
Proof. exact alphabet_quote_free. Qed.
Print Assumptions C06_newick_alphabet_is_quote_free.

Theorem C06_newick_quote_free_unchanged : forall t, quote_free t = true -> rq_tree t = t.
Proof. exact rq_tree_id. Qed.
Print Assumptions C06_newick_quote_free_unchanged.

(* EXACT BOUNDARY (names written, so names are compared): under the widened guard the re-import equals the
   ORIGINAL tree if and only if no node name contains the quote character *)
Theorem C06_newick_quote_boundary :
  forall len keys pf isroot t,
    newick_alphabet_ext (NwOpt true len keys pf true) isroot (rq_tree t) = true ->
    lengths_canonical len isroot (rq_tree t) = true ->
    exists s back,
      nw_write (NwCfg true len [58] keys pf [58]) isroot t = Ret s
      /\ nw_parse (la_of (NwOpt true len keys pf true)) pf s = Ret back
      /\ (prop_newick_back (NwOpt true len keys pf true) isroot t back = true <-> quote_free t = true).
Proof. exact newick_quote_boundary. Qed.
Print Assumptions C06_newick_quote_boundary.

(* with values: equal to the original only if no name contains a quote, and whenever neither a name nor a
   string value does *)
Theorem C06_newick_quote_values_boundary :
  forall len keys pf isroot t,
    newick_alphabet_ext (NwOpt true len keys pf true) isroot (rq_all t) = true ->
    lengths_canonical len isroot (rq_all t) = true ->
    exists s back,
      nw_write (NwCfg true len [58] keys pf [58]) isroot t = Ret s
      /\ nw_parse (la_of (NwOpt true len keys pf true)) pf s = Ret back
      /\ (prop_newick_back (NwOpt true len keys pf true) isroot t back = true -> quote_free t = true)
      /\ (quote_free_all t = true -> prop_newick_back (NwOpt true len keys pf true) isroot t back = true).
Proof. exact newick_quote_values_boundary. Qed.
Print Assumptions C06_newick_quote_values_boundary.

Theorem C06_newick_quote_free_all_unchanged : forall t, quote_free_all t = true -> rq_all t = t.
Proof. exact rq_all_id. Qed.
Print Assumptions C06_newick_quote_free_all_unchanged.

(* the rebuilt tree is a function of the source (used above: same tree from t and from rq_tree t) *)
Theorem C06_newick_rebuilt_unique :
  forall inter len keys isroot c t v c', rb inter len keys isroot c t v c' ->
  forall v2 c2, rb inter len keys isroot c t v2 c2 -> v = v2 /\ c' = c2.
Proof. exact rb_fun. Qed.
Print Assumptions C06_newick_rebuilt_unique.

(* ------------------------------------------------------------------------------------------ *)
(* integer lengths                                                                             *)

(* the integer lengths that are literals reading back as themselves (the guard lit_okb of
   C06_newick_roundtrip_float) are EXACTLY the positive ones *)
Theorem C06_newick_int_length_class : forall z, lit_okb (VInt z) = Z.ltb 0 z.
Proof. exact lit_okb_int. Qed.
Print Assumptions C06_newick_int_length_class.

(* a negative integer -p is written -p and read by float(): the FLOAT -p.0, for every p of at most 15
   digits (beyond that float() rounds: Unmodelled) -- never the integer *)
Theorem C06_newick_negative_int_literal :
  forall p,
    py_str (VInt (Zneg p)) = Ret (str_of_Z (Zneg p))
    /\ length_val (str_of_Z (Zneg p))
       = if Nat.leb (length (str_of_N (Npos p))) 15 then Ret (VFloat (Zneg p) 1) else Raise Unmodelled.
Proof. intros p. split; [reflexivity|apply neg_int_length_back]. Qed.
Print Assumptions C06_newick_negative_int_literal.

(* ... on a tree, for EVERY negative integer (generalizes C06_newick_negative_int_length_refuted, which
   is p = 5): r(b[L=-p]) is exported, and no re-import of the text equals the original *)
Theorem C06_newick_negative_int_length_all :
  forall p,
    exists s, nw_write (NwCfg true [76] [58] [] [] [58]) true (neg_len_tree p) = Ret s
      /\ nw_parse [76] [] s
         = (if Nat.leb (length (str_of_N (Npos p))) 15
            then Ret (T None [114] [] [ T None [98] [([76], VFloat (Zneg p) 1)] [] ])
            else Raise Unmodelled)
      /\ forall back, nw_parse [76] [] s = Ret back ->
                      prop_newick_back (NwOpt true [76] [] [] true) true (neg_len_tree p) back = false.
Proof.
  intros p. exists ([40; 98; 58; 45] ++ str_of_N (Npos p) ++ [41; 114]).
  split; [apply neg_len_write|]. split; [apply neg_len_parse|].
  destruct (neg_int_length_tree p) as (s & Hw & Hb). rewrite neg_len_write in Hw. inversion Hw; subst. exact Hb.
Qed.
Print Assumptions C06_newick_negative_int_length_all.

(* a falsy (0, 0.0, empty string, False, None) or absent length on ANY node below the start node, anywhere in
   ANY tree, for any option record with a length attribute: the exporter raises (generalizes
   C06_newick_zero_length_refuted); on the node itself it is the ValueError *)
Theorem C06_newick_falsy_length_raises :
  forall c t, is_nil (nw_len c) = false ->
  forall isroot, bad_len (nw_len c) isroot t = true -> exists e, nw_write c isroot t = Raise e.
Proof. exact write_raises_on_falsy_length. Qed.
Print Assumptions C06_newick_falsy_length_raises.

Theorem C06_newick_falsy_length_here :
  forall c g n a ks, is_nil (nw_len c) = false -> truthy (lookup (nw_len c) a) = false ->
                     nw_write c false (T g n a ks) = Raise ValueError.
Proof. exact write_falsy_length_here. Qed.
Print Assumptions C06_newick_falsy_length_here.

(* ------------------------------------------------------------------------------------------ *)
(* non-vacuity                                                                                 *)

(* it's( a'b(c [L=2.5, k=v:w],  don't [L=7]( x' [L=3], x [L=1] ) )  with k=h on the root: four names with a
   quote, one of them with further special characters, siblings x' and x (distinct after rewriting) *)
Definition ex_quote_tree : tree :=
  T (Some 0%nat) [105; 116; 39; 115] [([107], VStr [104])]
    [ T (Some 1%nat) [97; 39; 98; 40; 99] [([76], VFloat 25 10); ([107], VStr [118; 58; 119])] [];
      T (Some 2%nat) [100; 111; 110; 39; 116] [([76], VInt 7)]
        [ T (Some 3%nat) [120; 39] [([76], VInt 3)] []; T (Some 4%nat) [120] [([76], VInt 1)] [] ] ].

Example C06_newick_quote_guard_satisfiable :
  newick_alphabet_ext (NwOpt true [76] [[107]] [38; 38] true) true (rq_tree ex_quote_tree) = true
  /\ newick_alphabet_ext (NwOpt false [76] [[107]] [38; 38] true) true (rq_tree ex_quote_tree) = true
  /\ lengths_canonical [76] true (rq_tree ex_quote_tree) = true
  /\ quote_free ex_quote_tree = false
  /\ newick_alphabet_ext (NwOpt true [76] [[107]] [38; 38] true) true ex_quote_tree = false
  /\ nw_write (NwCfg true [76] [58] [[107]] [38; 38] [58]) true ex_quote_tree
     = Ret [40; 39; 97; 34; 98; 40; 99; 39; 58; 50; 46; 53; 91; 38; 38; 107; 61; 39; 118; 58; 119; 39; 93; 44;
            40; 39; 120; 34; 39; 58; 51; 44; 120; 58; 49; 41; 39; 100; 111; 110; 34; 116; 39; 58; 55; 41;
            39; 105; 116; 34; 115; 39; 91; 38; 38; 107; 61; 104; 93]
  /\ nw_parse [76] [38; 38]
       [40; 39; 97; 34; 98; 40; 99; 39; 58; 50; 46; 53; 91; 38; 38; 107; 61; 39; 118; 58; 119; 39; 93; 44;
        40; 39; 120; 34; 39; 58; 51; 44; 120; 58; 49; 41; 39; 100; 111; 110; 34; 116; 39; 58; 55; 41;
        39; 105; 116; 34; 115; 39; 91; 38; 38; 107; 61; 104; 93]
     = Ret (T None [105; 116; 34; 115] [([107], VStr [104])]
              [ T None [97; 34; 98; 40; 99] [([76], VFloat 25 10); ([107], VStr [118; 58; 119])] [];
                T None [100; 111; 110; 34; 116] [([76], VInt 7)]
                  [ T None [120; 34] [([76], VInt 3)] []; T None [120] [([76], VInt 1)] [] ] ]).
Proof. repeat split; vm_compute; reflexivity. Qed.

(* the same tree with quotes in requested values: k=h' on the root, k=v':w, k=' (a lone quote) below; outside
   the names-only guard, inside the names-and-values guard; every quote comes back as a double quote *)
Definition ex_quote_val_tree : tree :=
  T (Some 0%nat) [105; 116; 39; 115] [([107], VStr [104; 39]); ([122], VStr [39; 39])]
    [ T (Some 1%nat) [97; 39; 98; 40; 99] [([76], VFloat 25 10); ([107], VStr [118; 39; 58; 119])] [];
      T (Some 2%nat) [100; 111; 110; 39; 116] [([76], VInt 7)]
        [ T (Some 3%nat) [120; 39] [([76], VInt 3)] [];
          T (Some 4%nat) [120] [([76], VInt 1); ([107], VStr [39])] [] ] ].

Example C06_newick_quote_values_guard_satisfiable :
  newick_alphabet_ext (NwOpt true [76] [[107]] [38; 38] true) true (rq_all ex_quote_val_tree) = true
  /\ newick_alphabet_ext (NwOpt false [76] [[107]] [38; 38] true) true (rq_all ex_quote_val_tree) = true
  /\ lengths_canonical [76] true (rq_all ex_quote_val_tree) = true
  /\ newick_alphabet_ext (NwOpt true [76] [[107]] [38; 38] true) true (rq_tree ex_quote_val_tree) = false
  /\ exists s, nw_write (NwCfg true [76] [58] [[107]] [38; 38] [58]) true ex_quote_val_tree = Ret s
       /\ nw_parse [76] [38; 38] s
          = Ret (T None [105; 116; 34; 115] [([107], VStr [104; 34])]
                   [ T None [97; 34; 98; 40; 99] [([76], VFloat 25 10); ([107], VStr [118; 34; 58; 119])] [];
                     T None [100; 111; 110; 34; 116] [([76], VInt 7)]
                       [ T None [120; 34] [([76], VInt 3)] [];
                         T None [120] [([76], VInt 1); ([107], VStr [34])] [] ] ]).
Proof. repeat split; try (vm_compute; reflexivity). eexists. split; vm_compute; reflexivity. Qed.

(* the guard on the REWRITTEN sibling names is needed: a' next to a(double quote) are distinct names, both are
   written as the same label, and the importer raises TreeError (duplicate sibling) *)
Example C06_newick_quote_collision_refuted :
  exists t s,
    sib_distinct t = true /\ sib_distinct (rq_tree t) = false
    /\ nw_write (NwCfg true [] [58] [] [] [58]) true t = Ret s
    /\ nw_parse default_len [] s = Raise TreeError.
Proof.
  exists (T None [114] [] [ T None [97; 39] [] []; T None [97; 34] [] [] ]). eexists.
  repeat split; vm_compute; reflexivity.
Qed.

(* integer lengths: the class, a 16-digit negative integer (Unmodelled), a falsy length deep in a tree *)
Example C06_newick_int_length_examples :
  map (fun z => lit_okb (VInt z)) [7; 1; 0; -1; -5]%Z = [true; true; false; false; false]
  /\ length_val (str_of_Z (-5)) = Ret (VFloat (-5) 1)
  /\ length_val (str_of_Z (-1234567890123456)) = Raise Unmodelled
  /\ bad_len [76] true (T None [114] [([76], VInt 0)]
                          [ T None [97] [([76], VInt 2)] [ T None [98] [([76], VFloat 0 10)] [] ] ]) = true
  /\ bad_len [76] true (T None [114] [([76], VInt 0)]
                          [ T None [97] [([76], VInt 2)] [ T None [98] [([76], VFloat 5 10)] [] ] ]) = false.
Proof. repeat split; vm_compute; reflexivity. Qed.
