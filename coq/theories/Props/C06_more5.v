(* C06, fifth round (statements only; proofs in Algo/C06More5.v): Newick attribute keys that need quoting,
   one level above C06_more4 -- the node tail in the `ready` form of the tree-level chain, and the complete
   write / parse round trip of a one-node tree for any label and any keys. *)
From BT Require Import Base.Prelude Base.Str Base.Rose Algo.TextIO Spec.PC06Text Algo.TextIOProofs Algo.C06More2
  Algo.C06More4 Algo.C06More5.

Local Open Scope N_scope.

Theorem C06_newick_node_tail_any_keys :
  forall inter len keys pf isroot a (ab : list tree) rest cu be d ctr cum0 nm ctr',
  skip_len len isroot = true ->
  Forall key_storable (kvs_of keys a) ->
  create_node on_last (laF inter len keys pf) false cum0 ctr ab cu = Ret (ctr', cu ++ [T None nm [] ab]) ->
  exists s',
    nw_run (laF inter len keys pf) pf (attr_text keys pf a ++ rest) (St ab cu be d ctr cum0)
    = nw_run (laF inter len keys pf) pf rest s'
    /\ ready inter len keys pf s' cu be d ctr'
             (T None nm (set_all (rqk_kvs (kvs_of keys a)) []) ab).
Proof. exact node_tail_k. Qed.
Print Assumptions C06_newick_node_tail_any_keys.

Theorem C06_newick_leaf_roundtrip_any_keys :
  forall inter len keys pf isroot g n a,
  skip_len len isroot = true -> n <> [] ->
  vals_ok keys a -> Forall key_storable (kvs_of keys a) ->
  nw_write (cfgF inter len keys pf) isroot (T g n a []) = Ret (serialize n ++ attr_text keys pf a)
  /\ nw_parse (laF inter len keys pf) pf (serialize n ++ attr_text keys pf a)
     = Ret (T None (requote n) (set_all (rqk_kvs (kvs_of keys a)) []) []).
Proof. exact leaf_roundtrip_any_keys. Qed.
Print Assumptions C06_newick_leaf_roundtrip_any_keys.

(* non-vacuity: the one-node tree  r'x [k'=v', a:b=x, k(double quote)=w]  with the three keys requested, prefix &&,
   a length attribute name given but the node is the root: hypotheses hold, k' and k(double quote) collide
   after rewriting (one attribute, the later value), the label comes back with the double quote *)
Definition ex5_attrs : attrs :=
  [([107; 39], VStr [118; 39]); ([97; 58; 98], VStr [120]); ([107; 34], VStr [119])].
Definition ex5_keys : list str := [[107; 39]; [97; 58; 98]; [107; 34]].

Example C06_newick_leaf_any_keys_example :
  skip_len [108] true = true
  /\ vals_ok ex5_keys ex5_attrs
  /\ Forall key_storable (kvs_of ex5_keys ex5_attrs)
  /\ key_ok [107; 39] = false
  /\ nw_write (cfgF true [108] ex5_keys [38; 38]) true (T (Some 0%nat) [114; 39; 120] ex5_attrs [])
     = Ret [39; 114; 34; 120; 39; 91; 38; 38; 39; 107; 34; 39; 61; 39; 118; 34; 39; 58;
            39; 97; 58; 98; 39; 61; 120; 58; 107; 34; 61; 119; 93]
  /\ nw_parse (laF true [108] ex5_keys [38; 38]) [38; 38]
       [39; 114; 34; 120; 39; 91; 38; 38; 39; 107; 34; 39; 61; 39; 118; 34; 39; 58;
        39; 97; 58; 98; 39; 61; 120; 58; 107; 34; 61; 119; 93]
     = Ret (T None [114; 34; 120] [([107; 34], VStr [119]); ([97; 58; 98], VStr [120])] []).
Proof.
  split; [vm_compute; reflexivity|]. split; [vm_compute; reflexivity|].
  split; [repeat constructor|]. repeat split; vm_compute; reflexivity.
Qed.
