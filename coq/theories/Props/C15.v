(* C15 - get_tree_diff reports exactly the differences between two trees.

   Model: Algo/Diff.v (get_tree_diff after fix F6, with tree_to_dataframe, the outer join, the
   component-wise suffixing, the attribute comparison, only_diff, dataframe_to_tree and the (~)
   renaming).  Specification: Spec/PC15.v.  Proofs: Algo/DiffProofs.v.

   Guards of every theorem below (all boolean, evaluated by the correspondence check as well):
     domain_C15 "/" t1 t2 al   the trees' separator is "/" (for any other separator the call raises
                               TreeError: known finding K4-C15, Example C15_refuted_sep); same root name;
                               every name is non-empty and contains no "/"; sibling names distinct
                               (bigtree.Node enforces it); attr_list without repetition;
     lookalike_free t1 t2      no name already ends in " (-)", " (+)" or " (~)": the returned tree
                               cannot distinguish a node named "b (-)" from a removed node "b"
                               (Example C15_lookalike_guard_needed).
   The clauses speak about the returned path strings through read_path / read_names / read_mark
   (Spec/PC15.v): "/r/b (-)/c (-)" reads as the name path [r; b; c] displayed with the marks
   [MSame; MRem; MRem]; MRem = " (-)", MAdd = " (+)", MChg = " (~)". *)
From BT Require Import Base.Prelude Base.Str Base.Rose Algo.Diff Spec.PC15 Algo.DiffProofs.
From Coq Require Import Permutation.

(* The model's answer is, up to the order of the nodes, exactly the list of (displayed path, attributes)
   the specification describes; None iff that list is empty.  In particular the call never raises. *)
Theorem C15_model_meets_spec : forall t1 t2 al,
  domain_C15 slash t1 t2 al = true -> lookalike_free t1 t2 = true ->
  forall od, exists L,
    get_tree_diff slash t1 t2 od al = Ret (match L with [] => None | _ => Some L end)
    /\ Permutation L (expected slash al (nodes_of t1) (nodes_of t2) od).
Proof. exact get_tree_diff_spec. Qed.
Print Assumptions C15_model_meets_spec.

Theorem C15_removed_exact : forall t1 t2 al,
  domain_C15 slash t1 t2 al = true -> lookalike_free t1 t2 = true ->
  forall od L, get_tree_diff slash t1 t2 od al = Ret (Some L) ->
  forall p, (In p (map fst (nodes_of t1)) /\ ~ In p (map fst (nodes_of t2))) <->
            exists s at_, In (s, at_) L /\ read_names slash s = p /\ read_mark slash s = MRem.
Proof. exact removed_exact. Qed.
Print Assumptions C15_removed_exact.

Theorem C15_added_exact : forall t1 t2 al,
  domain_C15 slash t1 t2 al = true -> lookalike_free t1 t2 = true ->
  forall od L, get_tree_diff slash t1 t2 od al = Ret (Some L) ->
  forall p, (~ In p (map fst (nodes_of t1)) /\ In p (map fst (nodes_of t2))) <->
            exists s at_, In (s, at_) L /\ read_names slash s = p /\ read_mark slash s = MAdd.
Proof. exact added_exact. Qed.
Print Assumptions C15_added_exact.

Theorem C15_changed_exact : forall t1 t2 al,
  domain_C15 slash t1 t2 al = true -> lookalike_free t1 t2 = true ->
  forall od L, get_tree_diff slash t1 t2 od al = Ret (Some L) ->
  forall p, (exists a1 a2, In (p, a1) (nodes_of t1) /\ In (p, a2) (nodes_of t2) /\ diff_attrs al a1 a2 <> []) <->
            exists s at_, In (s, at_) L /\ read_names slash s = p /\ read_mark slash s = MChg.
Proof. exact changed_exact. Qed.
Print Assumptions C15_changed_exact.

(* a (~) node carries exactly the listed attributes that differ, each with (value in tree, value in other_tree) *)
Theorem C15_changed_values : forall t1 t2 al,
  domain_C15 slash t1 t2 al = true -> lookalike_free t1 t2 = true ->
  forall od L, get_tree_diff slash t1 t2 od al = Ret (Some L) ->
  forall s at_, In (s, at_) L -> read_mark slash s = MChg ->
  exists a1 a2, In (read_names slash s, a1) (nodes_of t1) /\ In (read_names slash s, a2) (nodes_of t2) /\
                at_ = diff_attrs al a1 a2.
Proof. exact changed_values. Qed.
Print Assumptions C15_changed_values.

Theorem C15_diff_attrs_meaning : forall al a x y a1 a2,
  In (a, (x, y)) (diff_attrs al a1 a2) <->
  In a al /\ x = attr_val a a1 /\ y = attr_val a a2 /\ val_eqb x y = false.
Proof. exact diff_attrs_in. Qed.
Print Assumptions C15_diff_attrs_meaning.

(* nothing else is renamed: every returned node is a path of one of the trees and every component of
   its displayed path carries exactly the mark of the node that component denotes; unmarked and
   (-)/(+) nodes carry no attribute *)
Theorem C15_others_untouched : forall t1 t2 al,
  domain_C15 slash t1 t2 al = true -> lookalike_free t1 t2 = true ->
  forall od L, get_tree_diff slash t1 t2 od al = Ret (Some L) ->
  forall s at_, In (s, at_) L ->
    (In (read_names slash s) (map fst (nodes_of t1)) \/ In (read_names slash s) (map fst (nodes_of t2))) /\
    read_path slash s
      = map (fun q => (last q [], status al (nodes_of t1) (nodes_of t2) q)) (inits (read_names slash s)) /\
    (read_mark slash s <> MChg -> at_ = []).
Proof. exact others_untouched. Qed.
Print Assumptions C15_others_untouched.

(* what the marks mean (the specification's classification, in terms of the two path sets) *)
Theorem C15_status_meaning : forall t1 t2 al q,
  domain_C15 slash t1 t2 al = true ->
  In q (map fst (nodes_of t1)) \/ In q (map fst (nodes_of t2)) ->
  (status al (nodes_of t1) (nodes_of t2) q = MRem <->
     In q (map fst (nodes_of t1)) /\ ~ In q (map fst (nodes_of t2))) /\
  (status al (nodes_of t1) (nodes_of t2) q = MAdd <->
     ~ In q (map fst (nodes_of t1)) /\ In q (map fst (nodes_of t2))) /\
  (status al (nodes_of t1) (nodes_of t2) q = MChg <->
     exists a1 a2, In (q, a1) (nodes_of t1) /\ In (q, a2) (nodes_of t2) /\ diff_attrs al a1 a2 <> []) /\
  (status al (nodes_of t1) (nodes_of t2) q = MSame <->
     In q (map fst (nodes_of t1)) /\ In q (map fst (nodes_of t2)) /\
     forall a1 a2, In (q, a1) (nodes_of t1) -> In (q, a2) (nodes_of t2) -> diff_attrs al a1 a2 = []).
Proof. exact status_meaning. Qed.
Print Assumptions C15_status_meaning.

(* nothing is duplicated ... *)
Theorem C15_no_duplicates : forall t1 t2 al,
  domain_C15 slash t1 t2 al = true -> lookalike_free t1 t2 = true ->
  forall od L, get_tree_diff slash t1 t2 od al = Ret (Some L) ->
  NoDup (map (fun n => read_names slash (fst n)) L).
Proof. exact no_duplicates. Qed.
Print Assumptions C15_no_duplicates.

(* ... and without only_diff nothing is dropped: every node of either tree is returned *)
Theorem C15_nothing_dropped : forall t1 t2 al,
  domain_C15 slash t1 t2 al = true -> lookalike_free t1 t2 = true ->
  forall od L, get_tree_diff slash t1 t2 od al = Ret (Some L) ->
  forall p, od = false -> In p (map fst (nodes_of t1)) \/ In p (map fst (nodes_of t2)) ->
  exists s at_, In (s, at_) L /\ read_names slash s = p.
Proof. exact nothing_dropped. Qed.
Print Assumptions C15_nothing_dropped.

(* with only_diff: exactly the marked nodes and their ancestors *)
Theorem C15_only_diff_ancestors : forall t1 t2 al,
  domain_C15 slash t1 t2 al = true -> lookalike_free t1 t2 = true ->
  forall od L, get_tree_diff slash t1 t2 od al = Ret (Some L) ->
  forall p, od = true ->
    ((exists s at_, In (s, at_) L /\ read_names slash s = p) <->
     (p <> [] /\ exists q r, (In q (map fst (nodes_of t1)) \/ In q (map fst (nodes_of t2))) /\
                             status al (nodes_of t1) (nodes_of t2) q <> MSame /\ q = p ++ r)).
Proof. exact only_diff_ancestors. Qed.
Print Assumptions C15_only_diff_ancestors.

(* identical trees (same paths, no listed attribute differs) yield None *)
Theorem C15_identical_none : forall t1 t2 al,
  domain_C15 slash t1 t2 al = true -> lookalike_free t1 t2 = true ->
  (forall p, In p (map fst (nodes_of t1)) <-> In p (map fst (nodes_of t2))) ->
  (forall p a1 a2, In (p, a1) (nodes_of t1) -> In (p, a2) (nodes_of t2) -> diff_attrs al a1 a2 = []) ->
  get_tree_diff slash t1 t2 true al = Ret None.
Proof. exact identical_none. Qed.
Print Assumptions C15_identical_none.

Theorem C15_same_tree_none : forall t al,
  domain_C15 slash t t al = true -> lookalike_free t t = true ->
  get_tree_diff slash t t true al = Ret None.
Proof. exact same_tree_none. Qed.
Print Assumptions C15_same_tree_none.

Definition s_r : str := [114%N].                    (* "r"  *)
Definition s_b : str := [98%N].                     (* "b"  *)
Definition s_bc : str := [98; 99]%N.                (* "bc" *)
Definition s_x : str := [120%N].                    (* attribute "x" *)
Definition leaf (n : str) (a : attrs) : tree := T None n a [].

(* The second tree may use another separator (get_tree_diff_seps sep sep2): the answer does not depend
   on it - in particular separator characters of the second tree inside node names are left alone - and
   equals get_tree_diff sep, about which all clauses above speak. *)
Theorem C15_other_sep_irrelevant : forall sep s s' t1 t2 od al,
  get_tree_diff_seps sep s t1 t2 od al = get_tree_diff_seps sep s' t1 t2 od al
  /\ get_tree_diff_seps sep s t1 t2 od al = get_tree_diff sep t1 t2 od al.
Proof. intros. split; [apply other_sep_irrelevant|apply get_tree_diff_seps_eq]. Qed.
Print Assumptions C15_other_sep_irrelevant.

(* Node classes: for Node and its subclasses the class-aware entry point get_tree_diff_cls false is
   get_tree_diff; for BinaryNode trees (true) an answer, when there is one, is the same answer - the only
   difference is the TreeError of a parent that would get a third child (reported, Example below). *)
Theorem C15_node_class : forall sep sep2 t1 t2 od al,
  get_tree_diff_cls false sep sep2 t1 t2 od al = get_tree_diff sep t1 t2 od al /\
  forall l, get_tree_diff_cls true sep sep2 t1 t2 od al = Ret (Some l) ->
            get_tree_diff sep t1 t2 od al = Ret (Some l).
Proof. intros. split; [apply get_tree_diff_cls_node|apply get_tree_diff_cls_binary]. Qed.
Print Assumptions C15_node_class.

Example C15_binary_overflow_refuted :
  let t1 := T None s_r [] [leaf s_b []; leaf s_bc []] in
  let t2 := T None s_r [] [leaf s_x []] in
  domain_C15 slash t1 t2 [] = true /\ lookalike_free t1 t2 = true /\
  get_tree_diff_cls true slash slash t1 t2 true [] = Raise TreeError.
Proof. vm_compute. repeat split. Qed.

(* the second tree uses "-" and both trees contain the node "v-s": no diff *)
Example C15_other_sep_instance :
  let t := T None s_r [] [leaf [118; 45; 115]%N []; leaf s_b []] in
  domain_C15 slash t t [] = true /\ lookalike_free t t = true /\
  get_tree_diff_seps slash [45%N] t t true [] = Ret None.
Proof. vm_compute. repeat split. Qed.

(* ---- the hypotheses are satisfiable by non-trivial inputs; the model on the three pre-F6 witnesses --- *)

(* removed b next to common bc (only the b component is marked); a changed attribute; an added node *)
Example C15_nontrivial_instance :
  let t1 := T None s_r [] [leaf s_b []; T None s_bc [(s_x, VInt 1)] [leaf s_b []]] in
  let t2 := T None s_r [] [T None s_bc [(s_x, VInt 2)] [leaf s_b []; leaf s_bc []]] in
  domain_C15 slash t1 t2 [s_x] = true /\ lookalike_free t1 t2 = true /\
  get_tree_diff slash t1 t2 true [s_x]
  = Ret (Some [ ([47; 114]%N, []);
                ([47; 114; 47; 98; 32; 40; 45; 41]%N, []);                                 (* /r/b (-)         *)
                ([47; 114; 47; 98; 99; 32; 40; 126; 41]%N, [(s_x, (VInt 1, VInt 2))]);      (* /r/bc (~)        *)
                ([47; 114; 47; 98; 99; 32; 40; 126; 41; 47; 98; 99; 32; 40; 43; 41]%N, []) (* /r/bc (~)/bc (+) *)
              ]).
Proof. vm_compute. repeat split. Qed.

(* a name containing "(" and a name containing "." next to a look-alike under the old regex *)
Example C15_witness_paren_dot :
  let t1 := T None s_r [] [leaf [120; 40]%N []; leaf [97; 46; 98]%N []; leaf [97; 120; 98]%N []] in
  let t2 := T None s_r [] [leaf [97; 120; 98]%N []] in
  domain_C15 slash t1 t2 [] = true /\ lookalike_free t1 t2 = true /\
  get_tree_diff slash t1 t2 false []
  = Ret (Some [ ([47; 114]%N, []);
                ([47; 114; 47; 120; 40; 32; 40; 45; 41]%N, []);          (* /r/x( (-)  *)
                ([47; 114; 47; 97; 46; 98; 32; 40; 45; 41]%N, []);       (* /r/a.b (-) *)
                ([47; 114; 47; 97; 120; 98]%N, []) ]).                   (* /r/axb     *)
Proof. vm_compute. repeat split. Qed.

Example C15_identical_instance :
  let t := T None s_r [(s_x, VInt 1)] [leaf s_b [(s_x, VStr s_b)]; leaf s_bc []] in
  domain_C15 slash t t [s_x] = true /\ lookalike_free t t = true /\
  get_tree_diff slash t t true [s_x] = Ret None.
Proof. vm_compute. repeat split. Qed.

(* ---- what the guards exclude --------------------------------------------------------------------- *)

(* known finding K4-C15: with a separator other than "/" the result is rebuilt with "/" and the call raises *)
Example C15_refuted_sep :
  exists sep t1 t2,
    domain_C15 sep t1 t2 [] = true /\ lookalike_free t1 t2 = true /\
    get_tree_diff sep t1 t2 true [] = Raise TreeError /\
    prop_C15 sep t1 t2 true [] (DErr (exn_code TreeError)) = false.
Proof.
  exists [46%N], (T None s_r [] [leaf s_b []]), (T None s_r [] [leaf s_bc []]). vm_compute. repeat split.
Qed.

(* a node already named "b (-)" next to a removed node "b": both are displayed as "/r/b (-)", the
   returned tree has one node for the two, and the predicate is false - hence the guard lookalike_free *)
Example C15_lookalike_guard_needed :
  exists t1 t2 L,
    domain_C15 slash t1 t2 [] = true /\ lookalike_free t1 t2 = false /\
    get_tree_diff slash t1 t2 false [] = Ret (Some L) /\
    prop_C15 slash t1 t2 false [] (DTree L) = false.
Proof.
  exists (T None s_r [] [leaf s_b []; leaf (s_b ++ mark_suffix MRem) []]),
         (T None s_r [] [leaf (s_b ++ mark_suffix MRem) []]).
  eexists. vm_compute. repeat split.
Qed.
