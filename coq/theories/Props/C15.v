(* C15 - get_tree_diff reports exactly the differences between two trees.

   Model: Algo/Diff.v (get_tree_diff after fix F6, with tree_to_dataframe, the outer join, the
   component-wise suffixing, the attribute comparison, only_diff, dataframe_to_tree and the (~)
   renaming).  Specification: Spec/PC15.v.  Proofs: Algo/DiffProofs.v.

   Guards of every theorem below (all boolean, evaluated by the correspondence check as well):
     domain_C15 "/" t1 t2 al   the trees' separator is "/" (for any other separator the call raises
                               TreeError: known finding K4-C15, Example C15_refuted_sep); same root name;
                               every name is non-empty and contains no "/"; sibling names distinct
                               (bigtree.Node enforces it); attr_list without repetition;
     lookalike_free t1 t2      no name already ends in " (-)", " (+)" or " (~)": the returned tree
                               cannot distinguish a node named "b (-)" from a removed node "b"
                               (Example C15_lookalike_guard_needed).
   The clauses speak about the returned path strings through read_path / read_names / read_mark
   (Spec/PC15.v): "/r/b (-)/c (-)" reads as the name path [r; b; c] displayed with the marks
   [MSame; MRem; MRem]; MRem = " (-)", MAdd = " (+)", MChg = " (~)". *)
From BT Require Import Base.Prelude Base.Str Base.Rose Algo.Diff Spec.PC15 Algo.DiffProofs.
From Coq Require Import Permutation.

(* The model's answer is, up to the order of the nodes, exactly the list of (displayed path, attributes)
   the specification describes; None iff that list is empty.  In particular the call never raises. *)
Theorem C15_model_meets_spec : forall t1 t2 al,
  domain_C15 slash t1 t2 al = true -> lookalike_free t1 t2 = true ->
  forall od, exists L,
    get_tree_diff slash t1 t2 od al = Ret (match L with [] => None | _ => Some L end)
    /\ Permutation L (expected slash al (nodes_of t1) (nodes_of t2) od).
Proof. exact get_tree_diff_spec. Qed.
Print Assumptions C15_model_meets_spec.

Theorem C15_removed_exact : forall t1 t2 al,
  domain_C15 slash t1 t2 al = true -> lookalike_free t1 t2 = true ->
  forall od L, get_tree_diff slash t1 t2 od al = Ret (Some L) ->
  forall p, (In p (map fst (nodes_of t1)) /\ ~ In p (map fst (nodes_of t2))) <->
            exists s at_, In (s, at_) L /\ read_names slash s = p /\ read_mark slash s = MRem.
Proof. exact removed_exact. Qed.
Print Assumptions C15_removed_exact.

Theorem C15_added_exact : forall t1 t2 al,
  domain_C15 slash t1 t2 al = true -> lookalike_free t1 t2 = true ->
  forall od L, get_tree_diff slash t1 t2 od al = Ret (Some L) ->
  forall p, (~ In p (map fst (nodes_of t1)) /\ In p (map fst (nodes_of t2))) <->
            exists s at_, In (s, at_) L /\ read_names slash s = p /\ read_mark slash s = MAdd.
Proof. exact added_exact. Qed.
Print Assumptions C15_added_exact.

Theorem C15_changed_exact : forall t1 t2 al,
  domain_C15 slash t1 t2 al = true -> lookalike_free t1 t2 = true ->
  forall od L, get_tree_diff slash t1 t2 od al = Ret (Some L) ->
  forall p, (exists a1 a2, In (p, a1) (nodes_of t1) /\ In (p, a2) (nodes_of t2) /\ diff_attrs al a1 a2 <> []) <->
            exists s at_, In (s, at_) L /\ read_names slash s = p /\ read_mark slash s = MChg.
Proof. exact changed_exact. Qed.
Print Assumptions C15_changed_exact.

(* a (~) node carries exactly the listed attributes that differ, each with (value in tree, value in other_tree) *)
Theorem C15_changed_values : forall t1 t2 al,
  domain_C15 slash t1 t2 al = true -> lookalike_free t1 t2 = true ->
  forall od L, get_tree_diff slash t1 t2 od al = Ret (Some L) ->
  forall s at_, In (s, at_) L -> read_mark slash s = MChg ->
  exists a1 a2, In (read_names slash s, a1) (nodes_of t1) /\ In (read_names slash s, a2) (nodes_of t2) /\
                at_ = diff_attrs al a1 a2.
Proof. exact changed_values. Qed.
Print Assumptions C15_changed_values.

Theorem C15_diff_attrs_meaning : forall al a x y a1 a2,
  In (a, (x, y)) (diff_attrs al a1 a2) <->
  In a al /\ x = attr_val a a1 /\ y = attr_val a a2 /\ val_eqb x y = false.
Proof. exact diff_attrs_in. Qed.
Print Assumptions C15_diff_attrs_meaning.

(* nothing else is renamed: every returned node is a path of one of the trees and every component of
   its displayed path carries exactly the mark of the node that component denotes; unmarked and
   (-)/(+) nodes carry no attribute *)
Theorem C15_others_untouched : forall t1 t2 al,
  domain_C15 slash t1 t2 al = true -> lookalike_free t1 t2 = true ->
  forall od L, get_tree_diff slash t1 t2 od al = Ret (Some L) ->
  forall s at_, In (s, at_) L ->
    (In (read_names slash s) (map fst (nodes_of t1)) \/ In (read_names slash s) (map fst (nodes_of t2))) /\
    read_path slash s
      = map (fun q => (last q [], status al (nodes_of t1) (nodes_of t2) q)) (inits (read_names slash s)) /\
    (read_mark slash s <> MChg -> at_ = []).
Proof. exact others_untouched. Qed.
Print Assumptions C15_others_untouched.

(* what the marks mean (the specification's classification, in terms of the two path sets) *)
Theorem C15_status_meaning : forall t1 t2 al q,
  domain_C15 slash t1 t2 al = true ->
  In q (map fst (nodes_of t1)) \/ In q (map fst (nodes_of t2)) ->
  (status al (nodes_of t1) (nodes_of t2) q = MRem <->
     In q (map fst (nodes_of t1)) /\ ~ In q (map fst (nodes_of t2))) /\
  (status al (nodes_of t1) (nodes_of t2) q = MAdd <->
     ~ In q (map fst (nodes_of t1)) /\ In q (map fst (nodes_of t2))) /\
  (status al (nodes_of t1) (nodes_of t2) q = MChg <->
     exists a1 a2, In (q, a1) (nodes_of t1) /\ In (q, a2) (nodes_of t2) /\ diff_attrs al a1 a2 <> []) /\
  (status al (nodes_of t1) (nodes_of t2) q = MSame <->
     In q (map fst (nodes_of t1)) /\ In q (map fst (nodes_of t2)) /\
     forall a1 a2, In (q, a1) (nodes_of t1) -> In (q, a2) (nodes_of t2) -> diff_attrs al a1 a2 = []).
Proof. exact status_meaning. Qed.
Print Assumptions C15_status_meaning.

(* nothing is duplicated ... *)
Theorem C15_no_duplicates : forall t1 t2 al,
  domain_C15 slash t1 t2 al = true -> lookalike_free t1 t2 = true ->
  forall od L, get_tree_diff slash t1 t2 od al = Ret (Some L) ->
  NoDup (map (fun n => read_names slash (fst n)) L).
Proof. exact no_duplicates. Qed.
Print Assumptions C15_no_duplicates.

(* ... and without only_diff nothing is dropped: every node of either tree is returned *)
Theorem C15_nothing_dropped : forall t1 t2 al,
  domain_C15 slash t1 t2 al = true -> lookalike_free t1 t2 = true ->
  forall od L, get_tree_diff slash t1 t2 od al = Ret (Some L) ->
  forall p, od = false -> In p (map fst (nodes_of t1)) \/ In p (map fst (nodes_of t2)) ->
  exists s at_, In (s, at_) L /\ read_names slash s = p.
Proof. exact nothing_dropped. Qed.
Print Assumptions C15_nothing_dropped.

(* with only_diff: exactly the marked nodes and their ancestors *)
Theorem C15_only_diff_ancestors : forall t1 t2 al,
  domain_C15 slash t1 t2 al = true -> lookalike_free t1 t2 = true ->
  forall od L, get_tree_diff slash t1 t2 od al = Ret (Some L) ->
  forall p, od = true ->
    ((exists s at_, In (s, at_) L /\ read_names slash s = p) <->
     (p <> [] /\ exists q r, (In q (map fst (nodes_of t1)) \/ In q (map fst (nodes_of t2))) /\
                             status al (nodes_of t1) (nodes_of t2) q <> MSame /\ q = p ++ r)).
Proof. exact only_diff_ancestors. Qed.
Print Assumptions C15_only_diff_ancestors.

(* identical trees (same paths, no listed attribute differs) yield None *)
Theorem C15_identical_none : forall t1 t2 al,
  domain_C15 slash t1 t2 al = true -> lookalike_free t1 t2 = true ->
  (forall p, In p (map fst (nodes_of t1)) <-> In p (map fst (nodes_of t2))) ->
  (forall p a1 a2, In (p, a1) (nodes_of t1) -> In (p, a2) (nodes_of t2) -> diff_attrs al a1 a2 = []) ->
  get_tree_diff slash t1 t2 true al = Ret None.
Proof. exact identical_none. Qed.
Print Assumptions C15_identical_none.

Theorem C15_same_tree_none : forall t al,
  domain_C15 slash t t al = true -> lookalike_free t t = true ->
  get_tree_diff slash t t true al = Ret None.
Proof. exact same_tree_none. Qed.
Print Assumptions C15_same_tree_none.

Definition s_r : str := [114%N].                    (* "r"  *)
Definition s_b : str := [98%N].                     (* "b"  *)
Definition s_bc : str := [98; 99]%N.                (* "bc" *)
Definition s_x : str := [120%N].                    (* attribute "x" *)
Definition leaf (n : str) (a : attrs) : tree := T None n a [].

(* The second tree may use another separator (get_tree_diff_seps sep sep2): the answer does not depend
   on it - in particular separator characters of the second tree inside node names are left alone - and
   equals get_tree_diff sep, about which all clauses above speak. *)
Theorem C15_other_sep_irrelevant : forall sep s s' t1 t2 od al,
  get_tree_diff_seps sep s t1 t2 od al = get_tree_diff_seps sep s' t1 t2 od al
  /\ get_tree_diff_seps sep s t1 t2 od al = get_tree_diff sep t1 t2 od al.
Proof. intros. split; [apply other_sep_irrelevant|apply get_tree_diff_seps_eq]. Qed.
Print Assumptions C15_other_sep_irrelevant.

(* Node classes: for Node and its subclasses the class-aware entry point get_tree_diff_cls false is
   get_tree_diff; for BinaryNode trees (true) an answer, when there is one, is the same answer - the only
   difference is the TreeError of a parent that would get a third child (reported, Example below). *)
Theorem C15_node_class : forall sep sep2 t1 t2 od al,
  get_tree_diff_cls false sep sep2 t1 t2 od al = get_tree_diff sep t1 t2 od al /\
  forall l, get_tree_diff_cls true sep sep2 t1 t2 od al = Ret (Some l) ->
            get_tree_diff sep t1 t2 od al = Ret (Some l).
Proof. intros. split; [apply get_tree_diff_cls_node|apply get_tree_diff_cls_binary]. Qed.
Print Assumptions C15_node_class.

Example C15_binary_overflow_refuted :
  let t1 := T None s_r [] [leaf s_b []; leaf s_bc []] in
  let t2 := T None s_r [] [leaf s_x []] in
  domain_C15 slash t1 t2 [] = true /\ lookalike_free t1 t2 = true /\
  get_tree_diff_cls true slash slash t1 t2 true [] = Raise TreeError.
Proof. vm_compute. repeat split. Qed.

(* the second tree uses "-" and both trees contain the node "v-s": no diff *)
Example C15_other_sep_instance :
  let t := T None s_r [] [leaf [118; 45; 115]%N []; leaf s_b []] in
  domain_C15 slash t t [] = true /\ lookalike_free t t = true /\
  get_tree_diff_seps slash [45%N] t t true [] = Ret None.
Proof. vm_compute. repeat split. Qed.

(* ---- the hypotheses are satisfiable by non-trivial inputs; the model on the three pre-F6 witnesses --- *)

(* removed b next to common bc (only the b component is marked); a changed attribute; an added node *)
Example C15_nontrivial_instance :
  let t1 := T None s_r [] [leaf s_b []; T None s_bc [(s_x, VInt 1)] [leaf s_b []]] in
  let t2 := T None s_r [] [T None s_bc [(s_x, VInt 2)] [leaf s_b []; leaf s_bc []]] in
  domain_C15 slash t1 t2 [s_x] = true /\ lookalike_free t1 t2 = true /\
  get_tree_diff slash t1 t2 true [s_x]
  = Ret (Some [ ([47; 114]%N, []);
                ([47; 114; 47; 98; 32; 40; 45; 41]%N, []);                                 (* /r/b (-)         *)
                ([47; 114; 47; 98; 99; 32; 40; 126; 41]%N, [(s_x, (VInt 1, VInt 2))]);      (* /r/bc (~)        *)
                ([47; 114; 47; 98; 99; 32; 40; 126; 41; 47; 98; 99; 32; 40; 43; 41]%N, []) (* /r/bc (~)/bc (+) *)
              ]).
Proof. vm_compute. repeat split. Qed.

(* a name containing "(" and a name containing "." next to a look-alike under the old regex *)
Example C15_witness_paren_dot :
  let t1 := T None s_r [] [leaf [120; 40]%N []; leaf [97; 46; 98]%N []; leaf [97; 120; 98]%N []] in
  let t2 := T None s_r [] [leaf [97; 120; 98]%N []] in
  domain_C15 slash t1 t2 [] = true /\ lookalike_free t1 t2 = true /\
  get_tree_diff slash t1 t2 false []
  = Ret (Some [ ([47; 114]%N, []);
                ([47; 114; 47; 120; 40; 32; 40; 45; 41]%N, []);          (* /r/x( (-)  *)
                ([47; 114; 47; 97; 46; 98; 32; 40; 45; 41]%N, []);       (* /r/a.b (-) *)
                ([47; 114; 47; 97; 120; 98]%N, []) ]).                   (* /r/axb     *)
Proof. vm_compute. repeat split. Qed.

Example C15_identical_instance :
  let t := T None s_r [(s_x, VInt 1)] [leaf s_b [(s_x, VStr s_b)]; leaf s_bc []] in
  domain_C15 slash t t [s_x] = true /\ lookalike_free t t = true /\
  get_tree_diff slash t t true [s_x] = Ret None.
Proof. vm_compute. repeat split. Qed.

(* ---- what the guards exclude --------------------------------------------------------------------- *)

(* known finding K4-C15: with a separator other than "/" the result is rebuilt with "/" and the call raises *)
Example C15_refuted_sep :
  exists sep t1 t2,
    domain_C15 sep t1 t2 [] = true /\ lookalike_free t1 t2 = true /\
    get_tree_diff sep t1 t2 true [] = Raise TreeError /\
    prop_C15 sep t1 t2 true [] (DErr (exn_code TreeError)) = false.
Proof.
  exists [46%N], (T None s_r [] [leaf s_b []]), (T None s_r [] [leaf s_bc []]). vm_compute. repeat split.
Qed.

(* a node already named "b (-)" next to a removed node "b": both are displayed as "/r/b (-)", the
   returned tree has one node for the two, and the predicate is false - hence the guard lookalike_free *)
Example C15_lookalike_guard_needed :
  exists t1 t2 L,
    domain_C15 slash t1 t2 [] = true /\ lookalike_free t1 t2 = false /\
    get_tree_diff slash t1 t2 false [] = Ret (Some L) /\
    prop_C15 slash t1 t2 false [] (DTree L) = false.
Proof.
  exists (T None s_r [] [leaf s_b []; leaf (s_b ++ mark_suffix MRem) []]),
         (T None s_r [] [leaf (s_b ++ mark_suffix MRem) []]).
  eexists. vm_compute. repeat split.
Qed.

(* ================================================================================================ *)
(* The predicate the check evaluates on the implementation's output holds of the model, for ALL inputs of
   the modelled domain: both trees, attr_list with any number of attributes in any order, only_diff on/off.
   Guards (hence _partial): sep = "/" (K4-C15, boundary: C15_sep_refused_iff below) and lookalike_free
   (C15_lookalike_guard_needed).  obs_of_res turns the model's answer into the observation format. *)
Theorem C15_model_satisfies_prop_partial : forall t1 t2 al od,
  domain_C15 slash t1 t2 al = true -> lookalike_free t1 t2 = true ->
  prop_C15 slash t1 t2 od al (obs_of_res (get_tree_diff slash t1 t2 od al)) = true.
Proof. exact model_satisfies_prop. Qed.
Print Assumptions C15_model_satisfies_prop_partial.

(* ... for the entry point the check calls (Node and subclasses; any separator of the second tree) *)
Theorem C15_model_satisfies_prop_node_partial : forall t1 t2 al od sep2,
  domain_C15 slash t1 t2 al = true -> lookalike_free t1 t2 = true ->
  prop_C15 slash t1 t2 od al (obs_of_res (get_tree_diff_cls false slash sep2 t1 t2 od al)) = true.
Proof. exact model_satisfies_prop_cls. Qed.
Print Assumptions C15_model_satisfies_prop_node_partial.

(* ... and for BinaryNode trees unless a parent of the result would get a third child (K5-C15) *)
Theorem C15_model_satisfies_prop_binary_partial : forall t1 t2 al od sep2,
  domain_C15 slash t1 t2 al = true -> lookalike_free t1 t2 = true ->
  (forall l, get_tree_diff slash t1 t2 od al = Ret (Some l) -> binary_overflow l = false) ->
  prop_C15 slash t1 t2 od al (obs_of_res (get_tree_diff_cls true slash sep2 t1 t2 od al)) = true.
Proof. exact model_satisfies_prop_binary. Qed.
Print Assumptions C15_model_satisfies_prop_binary_partial.

Definition s_y : str := [121%N].
Definition s_z : str := [122%N].

(* two trees, three listed attributes in the order z, x, y: x differs, y is absent on one side, z is equal *)
Definition ex_t1 : tree :=
  T None s_r [(s_x, VInt 0)] [T None s_b [(s_x, VInt 1); (s_z, VStr s_b)] [leaf s_bc []]; leaf s_bc [(s_y, VInt 0)]].
Definition ex_t2 : tree :=
  T None s_r [(s_x, VNone)] [T None s_b [(s_x, VInt 2); (s_y, VStr []); (s_z, VStr s_b)] []; leaf s_bc [(s_y, VInt 0)]; leaf s_x []].

Example C15_model_satisfies_prop_instance :
  domain_C15 slash ex_t1 ex_t2 [s_z; s_x; s_y] = true /\ lookalike_free ex_t1 ex_t2 = true /\
  get_tree_diff slash ex_t1 ex_t2 true [s_z; s_x; s_y]
  = Ret (Some [ ([47; 114; 32; 40; 126; 41]%N, [(s_x, (VInt 0, VNone))]);                       (* /r (~)            *)
                ([47; 114; 32; 40; 126; 41; 47; 98; 32; 40; 126; 41]%N,
                 [(s_x, (VInt 1, VInt 2)); (s_y, (VNone, VStr []))]);                           (* /r (~)/b (~)      *)
                ([47; 114; 32; 40; 126; 41; 47; 98; 32; 40; 126; 41; 47; 98; 99; 32; 40; 45; 41]%N, []);  (* .../bc (-) *)
                ([47; 114; 32; 40; 126; 41; 47; 120; 32; 40; 43; 41]%N, []) ]) /\             (* /r (~)/x (+)      *)
  prop_C15 slash ex_t1 ex_t2 true [s_z; s_x; s_y]
    (obs_of_res (get_tree_diff_cls true slash [45%N] ex_t1 ex_t2 true [s_z; s_x; s_y])) = true /\
  prop_C15 slash ex_t1 ex_t2 false [s_y; s_x] (obs_of_res (get_tree_diff slash ex_t1 ex_t2 false [s_y; s_x])) = true.
Proof. vm_compute. repeat split. Qed.

(* attribute entries: a returned node that exists in both trees (attributes a1 / a2) carries exactly the
   listed attributes with different values, each with (value in tree, value in other_tree), in attr_list
   order, all on that one node; equal values give no entry; the node is (~) iff there is an entry *)
Theorem C15_changed_entries : forall t1 t2 al,
  domain_C15 slash t1 t2 al = true -> lookalike_free t1 t2 = true ->
  forall od L, get_tree_diff slash t1 t2 od al = Ret (Some L) ->
  forall s at_ a1 a2,
    In (s, at_) L -> In (read_names slash s, a1) (nodes_of t1) -> In (read_names slash s, a2) (nodes_of t2) ->
    (forall a x y, In (a, (x, y)) at_ <->
                   In a al /\ x = attr_val a a1 /\ y = attr_val a a2 /\ val_eqb x y = false) /\
    map fst at_ = filter (fun a => negb (val_eqb (attr_val a a1) (attr_val a a2))) al /\
    (at_ <> [] <-> read_mark slash s = MChg).
Proof. exact changed_entries. Qed.
Print Assumptions C15_changed_entries.

(* an attribute a node does not have reads as None (the NaN of the table); one it has reads as its value *)
Theorem C15_attr_absent_none : forall a at_, (forall v, ~ In (a, v) at_) -> attr_val a at_ = VNone.
Proof. exact attr_val_absent. Qed.
Print Assumptions C15_attr_absent_none.

Theorem C15_attr_present_value : forall a v at_, NoDup (map fst at_) -> In (a, v) at_ -> attr_val a at_ = v.
Proof. exact attr_val_present. Qed.
Print Assumptions C15_attr_present_value.

(* structure and attribute marks do not mix: a (-)/(+) node exists in one tree only, carries that single
   marker per component of its displayed path and no attribute entry *)
Theorem C15_structure_marks_plain : forall t1 t2 al,
  domain_C15 slash t1 t2 al = true -> lookalike_free t1 t2 = true ->
  forall od L, get_tree_diff slash t1 t2 od al = Ret (Some L) ->
  forall s at_, In (s, at_) L -> read_mark slash s = MRem \/ read_mark slash s = MAdd ->
    at_ = [] /\
    ~ (In (read_names slash s) (map fst (nodes_of t1)) /\ In (read_names slash s) (map fst (nodes_of t2))) /\
    s = path_name slash (map (fun q => last q [] ++ mark_suffix (status al (nodes_of t1) (nodes_of t2) q))
                             (inits (read_names slash s))).
Proof. exact structure_marks_plain. Qed.
Print Assumptions C15_structure_marks_plain.

(* with only_diff an unmarked returned node is a proper ancestor of a marked node, keeps its plain name
   and has no attribute entry *)
Theorem C15_only_diff_unmarked_ancestor : forall t1 t2 al,
  domain_C15 slash t1 t2 al = true -> lookalike_free t1 t2 = true ->
  forall od L, get_tree_diff slash t1 t2 od al = Ret (Some L) ->
  forall s at_, od = true -> In (s, at_) L ->
    status al (nodes_of t1) (nodes_of t2) (read_names slash s) = MSame ->
    read_mark slash s = MSame /\ at_ = [] /\
    exists q r, r <> [] /\ (In q (map fst (nodes_of t1)) \/ In q (map fst (nodes_of t2))) /\
                status al (nodes_of t1) (nodes_of t2) q <> MSame /\ q = read_names slash s ++ r.
Proof. exact only_diff_unmarked_ancestor. Qed.
Print Assumptions C15_only_diff_unmarked_ancestor.

(* hypotheses of the three theorems above are satisfiable: /r is an unmarked ancestor, /r/b (~) carries x
   only (z equal, y not listed), /r/b (~)/bc (-) is a plain structural mark *)
Example C15_marks_instance :
  domain_C15 slash ex_t1 ex_t2 [s_z; s_x] = true /\ lookalike_free ex_t1 ex_t2 = true /\
  exists L, get_tree_diff slash ex_t1 ex_t2 true [s_z] = Ret (Some L) /\
            In ([47; 114]%N, []) L /\ read_mark slash [47; 114]%N = MSame /\
            In ([47; 114; 47; 98; 47; 98; 99; 32; 40; 45; 41]%N, []) L /\
            read_mark slash [47; 114; 47; 98; 47; 98; 99; 32; 40; 45; 41]%N = MRem /\
            read_names slash [47; 114; 47; 98; 47; 98; 99; 32; 40; 45; 41]%N = [s_r; s_b; s_bc].
Proof. vm_compute. repeat split. eexists. repeat split; cbn; auto. Qed.

(* class-resolved attributes (a @property, a class-level default, is_leaf, depth) are values like any other:
   the answer depends on a node's attributes only through a |-> get_attr a node on the listed names - the
   effective attribute function the harness feeds the model.  Replacing every node's attributes by the graph
   of that function, or any two tree pairs with the same tables, give the same answer. *)
Theorem C15_effective_attrs_only : forall sep t1 t2 od al,
  get_tree_diff sep (restrict_attrs al t1) (restrict_attrs al t2) od al = get_tree_diff sep t1 t2 od al.
Proof. exact effective_attrs_only. Qed.
Print Assumptions C15_effective_attrs_only.

Theorem C15_tables_determine_result : forall sep t1 t2 t1' t2' od al,
  table sep al t1 = table sep al t1' -> table sep al t2 = table sep al t2' ->
  get_tree_diff sep t1 t2 od al = get_tree_diff sep t1' t2' od al.
Proof. exact tables_determine_result. Qed.
Print Assumptions C15_tables_determine_result.

(* is_leaf as an effective attribute: b has a child in the first tree only *)
Example C15_effective_attrs_instance :
  let il : str := [105; 115; 95; 108; 101; 97; 102]%N in
  let t1 := T None s_r [(il, VBool false)] [T None s_b [(il, VBool false); (s_x, VInt 7)] [leaf s_bc [(il, VBool true)]]] in
  let t2 := T None s_r [(il, VBool false)] [leaf s_b [(il, VBool true)]] in
  domain_C15 slash t1 t2 [il] = true /\
  get_tree_diff slash t1 t2 true [il]
  = Ret (Some [ ([47; 114]%N, []);
                ([47; 114; 47; 98; 32; 40; 126; 41]%N, [(il, (VBool false, VBool true))]);
                ([47; 114; 47; 98; 32; 40; 126; 41; 47; 98; 99; 32; 40; 45; 41]%N, []) ]) /\
  restrict_attrs [il] t1 <> t1.
Proof. vm_compute. repeat split. discriminate. Qed.

(* K4-C15 as a theorem.  kept_paths = the marked path strings get_tree_diff hands to dataframe_to_tree.
   For a one-character separator other than "/" (names free of it and of "/"): None iff no row is kept,
   TreeError iff two kept rows differ, otherwise a tree (a single node named by the whole marked path);
   no other exception. *)
Theorem C15_sep_refused_iff : forall c t1 t2 od al,
  c <> 47%N -> domain_C15 [c] t1 t2 al = true ->
  (get_tree_diff [c] t1 t2 od al = Raise TreeError <->
   exists p q, In p (kept_paths [c] t1 t2 od al) /\ In q (kept_paths [c] t1 t2 od al) /\ p <> q) /\
  (kept_paths [c] t1 t2 od al = [] <-> get_tree_diff [c] t1 t2 od al = Ret None) /\
  (forall e, get_tree_diff [c] t1 t2 od al = Raise e -> e = TreeError).
Proof. exact sep_refused_iff. Qed.
Print Assumptions C15_sep_refused_iff.

(* sep ".": two kept rows raise; one kept row gives the single node "/.r.b (-)"; no row gives None *)
Example C15_sep_refused_instance :
  let dot : str := [46%N] in
  let t0 := T None s_r [] [] in
  let tb := T None s_r [] [leaf s_b []] in
  let tc := T None s_r [] [leaf s_bc []] in
  domain_C15 dot tb tc [] = true /\
  kept_paths dot tb tc true [] = [[46; 114; 46; 98; 32; 40; 45; 41]%N; [46; 114; 46; 98; 99; 32; 40; 43; 41]%N] /\
  get_tree_diff dot tb tc true [] = Raise TreeError /\
  get_tree_diff dot tb t0 true [] = Ret (Some [([47; 46; 114; 46; 98; 32; 40; 45; 41]%N, [])]) /\
  get_tree_diff dot tb tb true [] = Ret None /\
  get_tree_diff dot tb tb false [] = Raise TreeError.
Proof. vm_compute. repeat split. Qed.
