(* C20, BinaryNode share — the assertion switch never changes valid behaviour. *)
From BT Require Import Base.Prelude Heap.Forest Heap.Binary Spec.PC11 Heap.BinaryProofs.

Theorem C20_binary_step : forall cfg cfg' s o,
  snd (bstep cfg s o) = Ok -> bstep cfg' s o = bstep cfg s o.
Proof. exact binary_assert_irrelevant. Qed.
Print Assumptions C20_binary_step.

Theorem C20_binary_history : forall cfg cfg' ops s,
  Forall (fun r => snd r = Ok) (btrace cfg s ops) -> btrace cfg' s ops = btrace cfg s ops.
Proof. intros. apply binary_assert_irrelevant_trace. assumption. Qed.
Print Assumptions C20_binary_history.

(* hook failures included: the switch matters only where a type/loop check rejects *)
Theorem C20_binary_guards_pure : forall cfg s o,
  snd (bstep cfg_off s o) <> Err Unmodelled -> bstep cfg s o = bstep cfg_off s o.
Proof. exact binary_guards_pure. Qed.
Print Assumptions C20_binary_guards_pure.
