(* C07 - operations that return a result never alter or alias the tree they read.
   Only the property theorems; the proofs live in Heap/EffectsProofs.v.

   Partial by nature (DESIGN.md section 7): the theorems are about the *effect skeletons* of
   Heap/Effects.v.  That copy.deepcopy allocates fresh objects and that the pure readers contain no
   write is assumed by the skeletons and observed on every run by the correspondence check
   (Corr/EffectsCorr.v: check_C07). *)
From BT Require Import Base.Prelude Base.Str Heap.Forest Heap.Effects Heap.EffectsProofs
     Spec.PForest Spec.PC07 Corr.EffectsCorr.
From BT Require Heap.Dag Base.Rose Heap.ForestWF Heap.ForestStep Heap.Abs Algo.Helper Algo.HelperProofs Algo.Export.

(* ------------------------------------------------------------------------------------------ *)
(* primitives, deep copy, independence *)

(* set_par / set_kids write only the entry they name *)
Theorem C07_frame_primitives : forall s c v p l,
  (forall x, x <> c -> par (set_par s c v) x = par s x)
  /\ (forall x, kids (set_par s c v) x = kids s x /\ name (set_par s c v) x = name s x)
  /\ (forall x, x <> p -> kids (set_kids s p l) x = kids s x)
  /\ (forall x, par (set_kids s p l) x = par s x /\ name (set_kids s p l) x = name s x)
  /\ par (set_par s c v) c = v /\ kids (set_kids s p l) p = l
  /\ size (set_par s c v) = size s /\ size (set_kids s p l) = size s.
Proof. exact frame_primitives. Qed.
Print Assumptions C07_frame_primitives.

(* the copy lives on ids >= size s, is isomorphic to the source component (phi is injective and
   commutes with parent / children / name), no link of the copy leads back, and every source
   entry is pointwise unchanged *)
Theorem C07_copy_fresh_equal : forall s r,
  let s' := deep_copy_f s r in
  (forall x, In x (comp s r) -> size s <= phi s r x < size s')
  /\ (forall x y, In x (comp s r) -> phi s r x = phi s r y -> x = y)
  /\ (forall x, In x (comp s r) ->
        par s' (phi s r x) = option_map (phi s r) (par s x)
        /\ kids s' (phi s r x) = map (phi s r) (kids s x)
        /\ name s' (phi s r x) = name s x /\ sepf s' (phi s r x) = sepf s x)
  /\ closed (ge (size s)) s'
  /\ (forall x, x < size s -> same_at s s' x).
Proof. exact copy_fresh_equal. Qed.
Print Assumptions C07_copy_fresh_equal.

(* on a well-formed forest the copied component is closed under parent and children (parent chain
   included): the copy is a complete tree without dangling links *)
Theorem C07_copy_complete : forall s r,
  wf_b s = true -> r < size s ->
  In r (comp s r)
  /\ forall x, In x (comp s r) ->
       (forall p, par s x = Some p -> In p (comp s r)) /\ (forall k, In k (kids s x) -> In k (comp s r)).
Proof. exact copy_complete. Qed.
Print Assumptions C07_copy_complete.

(* fresh addresses for the children list objects and the mutable attribute values of the copy *)
Theorem C07_copy_addresses_fresh : forall h r x,
  In x (comp (fr h) r) ->
  let h' := deep_copy h r in
  let k := phi (fr h) r x in
  (kl h x <> 0 -> vsz h <= kl h' k)
  /\ forall a, In a (att h' k) -> snd a = 0 \/ vsz h <= snd a.
Proof. exact copy_addresses_fresh. Qed.
Print Assumptions C07_copy_addresses_fresh.

(* two id-disjoint regions, A link-closed: any `step` of Forest.v (every operation kind, invalid
   arguments and failing hooks with their rollback included) whose operands lie in A leaves B
   pointwise unchanged, keeps A link-closed and B link-closed *)
Theorem C07_independence : forall (A B : region) cfg s o,
  (forall x, A x = true -> B x = false) -> closed A s -> op_in A o = true ->
  (forall x, B x = true -> same_at s (fst (step cfg s o)) x)
  /\ closed A (fst (step cfg s o))
  /\ (closed B s -> closed B (fst (step cfg s o))).
Proof. exact independence_step. Qed.
Print Assumptions C07_independence.

(* ... hence any later history of such operations *)
Theorem C07_independence_history : forall (A B : region) cfg ops s,
  (forall x, A x = true -> B x = false) -> closed A s -> forallb (op_in A) ops = true ->
  (forall x, B x = true -> same_at s (run cfg s ops) x) /\ closed A (run cfg s ops).
Proof. exact independence_run. Qed.
Print Assumptions C07_independence_history.

(* everything that can be reached from a fresh result (descendants and ancestors) is fresh *)
Theorem C07_fresh_result_reach : forall n h r,
  fresh_result n h r ->
  forall fuel y, In y (reach fuel (fr h) r) \/ In y (ancestors (fr h) r) -> n <= y.
Proof. exact fresh_result_reach. Qed.
Print Assumptions C07_fresh_result_reach.

(* ------------------------------------------------------------------------------------------ *)
(* the skeletons: input unchanged (parent, children, name, separator, attributes, list object of
   every node that existed before the call), result fresh *)

Theorem C07_export_input_unchanged : forall h start,
  unchanged_below (size (fr h)) h (sk_export h start).
Proof. exact sk_export_spec. Qed.
Print Assumptions C07_export_input_unchanged.

Theorem C07_copy_input_unchanged : forall h start,
  unchanged_below (size (fr h)) h (fst (sk_copy h start)).
Proof. exact copy_input_unchanged. Qed.
Print Assumptions C07_copy_input_unchanged.
Theorem C07_copy_result_fresh : forall h start,
  fresh_result (size (fr h)) (fst (sk_copy h start)) (snd (sk_copy h start)).
Proof. exact copy_result_fresh. Qed.
Print Assumptions C07_copy_result_fresh.

Theorem C07_get_subtree_input_unchanged : forall cfg h start found md,
  unchanged_below (size (fr h)) h (fst (sk_get_subtree cfg h start found md)).
Proof. exact get_subtree_input_unchanged. Qed.
Print Assumptions C07_get_subtree_input_unchanged.
Theorem C07_get_subtree_result_fresh : forall cfg h start found md,
  fresh_result (size (fr h)) (fst (sk_get_subtree cfg h start found md)) (snd (sk_get_subtree cfg h start found md)).
Proof. exact get_subtree_result_fresh. Qed.
Print Assumptions C07_get_subtree_result_fresh.

Theorem C07_prune_tree_input_unchanged : forall cfg h start ts ex md,
  unchanged_below (size (fr h)) h (fst (sk_prune cfg h start ts ex md)).
Proof. exact prune_input_unchanged. Qed.
Print Assumptions C07_prune_tree_input_unchanged.
Theorem C07_prune_tree_result_fresh : forall cfg h start ts ex md,
  fresh_result (size (fr h)) (fst (sk_prune cfg h start ts ex md)) (snd (sk_prune cfg h start ts ex md)).
Proof. exact prune_result_fresh. Qed.
Print Assumptions C07_prune_tree_result_fresh.

(* guard `clean`: ids that are not yet allocated carry no links (true of every state the harness
   or `init` builds; it is a condition on the representation, not on the tree) *)
Theorem C07_clone_tree_input_unchanged : forall cfg h start,
  clean (fr h) -> unchanged_below (size (fr h)) h (fst (sk_clone cfg h start)).
Proof. exact clone_input_unchanged. Qed.
Print Assumptions C07_clone_tree_input_unchanged.
(* the clone's NODES and children lists are fresh; its attribute values are not - see
   C07_clone_tree_values_refuted *)
Theorem C07_clone_tree_result_fresh : forall cfg h start,
  clean (fr h) -> fresh_result (size (fr h)) (fst (sk_clone cfg h start)) (snd (sk_clone cfg h start)).
Proof. exact clone_result_fresh. Qed.
Print Assumptions C07_clone_tree_result_fresh.

(* get_tree_diff: parent, children, name, attributes of both arguments unchanged (the separator
   field of other_tree's root IS written: C07_get_tree_diff_writes_sep) *)
Theorem C07_get_tree_diff_input_unchanged : forall cfg h t1 t2 shape,
  clean (fr h) -> forall x, x < size (fr h) -> same_but_sep h (fst (sk_diff cfg h t1 t2 shape)) x.
Proof. exact diff_input_unchanged. Qed.
Print Assumptions C07_get_tree_diff_input_unchanged.
Theorem C07_get_tree_diff_result_fresh : forall cfg h t1 t2 shape,
  clean (fr h) ->
  fresh_result (size (fr h)) (fst (sk_diff cfg h t1 t2 shape)) (snd (sk_diff cfg h t1 t2 shape)).
Proof. exact diff_result_fresh. Qed.
Print Assumptions C07_get_tree_diff_result_fresh.

(* copy_nodes_from_tree_to_tree (all of merge_children / merge_leaves / delete_children): T is the
   destination tree's region; every node outside it - the whole source tree - is unchanged *)
Theorem C07_copy_nodes_from_tree_to_tree_input_unchanged : forall cfg (T : region) h from_ to_ mc ml dc,
  closed T (fr h) -> T to_ = true ->
  forall x, x < size (fr h) -> T x = false ->
    let h' := fst (sk_copy_nodes cfg h from_ to_ mc ml dc) in
    same_at (fr h) (fr h') x /\ att h' x = att h x /\ kl h' x = kl h x.
Proof. exact copy_nodes_source_unchanged. Qed.
Print Assumptions C07_copy_nodes_from_tree_to_tree_input_unchanged.
Theorem C07_copy_nodes_from_tree_to_tree_result_fresh : forall cfg h from_ to_ mc ml dc,
  size (fr h) <= snd (sk_copy_nodes cfg h from_ to_ mc ml dc).
Proof. exact copy_nodes_result_fresh. Qed.
Print Assumptions C07_copy_nodes_from_tree_to_tree_result_fresh.

Theorem C07_copy_and_replace_nodes_from_tree_to_tree_input_unchanged : forall cfg (T : region) h from_ to_ dc,
  closed T (fr h) -> T to_ = true ->
  forall x, x < size (fr h) -> T x = false ->
    let h' := fst (sk_copy_replace cfg h from_ to_ dc) in
    same_at (fr h) (fr h') x /\ att h' x = att h x /\ kl h' x = kl h x.
Proof. exact copy_replace_source_unchanged. Qed.
Print Assumptions C07_copy_and_replace_nodes_from_tree_to_tree_input_unchanged.
Theorem C07_copy_and_replace_nodes_from_tree_to_tree_result_fresh : forall cfg h from_ to_ dc,
  size (fr h) <= snd (sk_copy_replace cfg h from_ to_ dc).
Proof. exact copy_replace_result_fresh. Qed.
Print Assumptions C07_copy_and_replace_nodes_from_tree_to_tree_result_fresh.

(* copy_nodes inside one tree (plain case): every existing node except the destination node, which
   gains the fresh copy as a child, is unchanged - in particular the node that was copied *)
Theorem C07_copy_nodes_input_unchanged : forall cfg h from_ to_,
  let h' := fst (sk_copy_attach cfg h from_ to_) in
  forall x, x < size (fr h) -> x <> to_ -> same_at (fr h) (fr h') x /\ att h' x = att h x /\ kl h' x = kl h x.
Proof. exact sk_copy_attach_same_tree. Qed.
Print Assumptions C07_copy_nodes_input_unchanged.

Theorem C07_copy_nodes_result_fresh : forall cfg h from_ to_,
  size (fr h) <= snd (sk_copy_attach cfg h from_ to_).
Proof. exact (fun cfg h from_ to_ => copy_nodes_result_fresh cfg h from_ to_ false false false). Qed.
Print Assumptions C07_copy_nodes_result_fresh.

(* iterators, search, print/yield, newick, mermaid: the skeleton is "no write" - this is the part of
   C07 that the model assumes and only the run-time correspondence checks *)
Theorem C07_reader_input_unchanged : forall h, unchanged_below (size (fr h)) h (sk_reader h).
Proof. exact (fun h => unchanged_refl (size (fr h)) h). Qed.
Print Assumptions C07_reader_input_unchanged.

(* copy.copy: the call itself leaves the input unchanged ... *)
Theorem C07_shallow_copy_input_unchanged : forall h x,
  unchanged_below (size (fr h)) h (fst (sk_shallow h x)) /\ size (fr h) <= snd (sk_shallow h x).
Proof. exact sk_shallow_spec. Qed.
Print Assumptions C07_shallow_copy_input_unchanged.

(* ------------------------------------------------------------------------------------------ *)
(* DAGNode (dagnode.py:575-602) on the DAG heap of Heap/Dag.v *)

(* DAGNode.copy(): fresh ids for the whole connected part (through parents and children),
   isomorphic links, no link back, every source entry unchanged *)
Theorem C07_dag_copy_fresh_equal : forall s r,
  let s' := ddeep_copy s r in
  (forall x, In x (dcomp s r) -> Dag.dsize s <= dphi s r x < Dag.dsize s')
  /\ (forall x y, In x (dcomp s r) -> dphi s r x = dphi s r y -> x = y)
  /\ (forall x, In x (dcomp s r) ->
        Dag.parents s' (dphi s r x) = map (dphi s r) (Dag.parents s x)
        /\ Dag.children s' (dphi s r x) = map (dphi s r) (Dag.children s x)
        /\ Dag.dname s' (dphi s r x) = Dag.dname s x)
  /\ dclosed (ge (Dag.dsize s)) s'
  /\ (forall x, x < Dag.dsize s -> dsame_at s s' x).
Proof. exact dag_copy_fresh_equal. Qed.
Print Assumptions C07_dag_copy_fresh_equal.

Theorem C07_dag_copy_input_unchanged : forall s start x,
  x < Dag.dsize s -> dsame_at s (fst (dsk_copy s start)) x.
Proof. exact dag_copy_input_unchanged. Qed.
Print Assumptions C07_dag_copy_input_unchanged.
Theorem C07_dag_copy_result_fresh : forall s start,
  Dag.dsize s <= snd (dsk_copy s start) /\ dclosed (ge (Dag.dsize s)) (fst (dsk_copy s start)).
Proof. exact dag_copy_result_fresh. Qed.
Print Assumptions C07_dag_copy_result_fresh.

(* dag_to_dict / dag_to_dataframe copy first *)
Theorem C07_dag_export_input_unchanged : forall s start x,
  x < Dag.dsize s -> dsame_at s (dsk_export s start) x.
Proof. exact dag_export_input_unchanged. Qed.
Print Assumptions C07_dag_export_input_unchanged.

Theorem C07_dag_shallow_copy_input_unchanged : forall s x y,
  y < Dag.dsize s -> dsame_at s (fst (dshallow_copy s x)) y.
Proof. exact dag_shallow_input_unchanged. Qed.
Print Assumptions C07_dag_shallow_copy_input_unchanged.

(* any later `dstep` of Dag.v (parents / children assignment with every guard and rollback path,
   del children, del item, shifts) whose operands lie in a link-closed region A leaves a disjoint
   region B pointwise unchanged and keeps A closed *)
Theorem C07_dag_independence : forall (A B : region) cfg s o,
  (forall x, A x = true -> B x = false) -> dclosed A s -> dop_in A o = true ->
  (forall x, B x = true -> dsame_at s (fst (Dag.dstep cfg s o)) x) /\ dclosed A (fst (Dag.dstep cfg s o)).
Proof. exact dag_independence. Qed.
Print Assumptions C07_dag_independence.

(* ------------------------------------------------------------------------------------------ *)
(* the conclusions above are what the check tests: on the model's own state, "unchanged below n"
   makes the observation predicate sig_eqb true, and a fresh result makes disjoint_ids true *)

Theorem C07_unchanged_observable : forall n h h',
  unchanged_below n h h' ->
  (forall x, x < n -> forall k, In k (kids (fr h) x) -> k < n) ->
  sig_eqb (observe n h) (observe n h') = true.
Proof. exact unchanged_observable. Qed.
Print Assumptions C07_unchanged_observable.

Theorem C07_fresh_observable : forall n h r,
  fresh_result n h r ->
  forall fuel, disjoint_ids (seq 0 n) (r :: ancestors (fr h) r ++ rt_ids (heap_rt fuel h r)) = true.
Proof. exact fresh_observable. Qed.
Print Assumptions C07_fresh_observable.

(* ------------------------------------------------------------------------------------------ *)
(* examples: the hypotheses are satisfiable, the operations are not no-ops, and the three known
   findings as refutations on the faithful model *)

Definition ex_s : forest :=
  mk 4 (fun x => match x with 1 => Some 0 | 2 => Some 0 | 3 => Some 2 | _ => None end)
       (fun x => match x with 0 => [1; 2] | 2 => [3] | _ => [] end)
       (fun x => [N.of_nat (97 + x)]) (fun _ => [47%N]).
(* a(0)[tags = value 5 at address 1] -> b(1), c(2) -> d(3); children list objects at 10..13 *)
Definition ex_h : eheap :=
  EH ex_s (fun x => match x with 0 => [(0, 5, 1)] | _ => [] end)
     (fun x => if Nat.ltb x 4 then 10 + x else 0) 20.
Definition ex_cfg : config := {| assertions := true; is_node := true |}.

Example ex_clean : clean (fr ex_h).
Proof. intros k Hk. cbn in *. do 4 (destruct k as [|k]; [lia|]). split; reflexivity. Qed.
Example ex_wf : wf_b ex_s = true.
Proof. reflexivity. Qed.
Example ex_comp : comp ex_s 3 = [0; 1; 2; 3].
Proof. reflexivity. Qed.

(* copying from an inner node copies the whole tree through the parent chain *)
Example ex_copy :
  let '(h', r) := sk_copy ex_h 2 in
  r = 6 /\ size (fr h') = 8 /\ kids (fr h') 4 = [5; 6] /\ par (fr h') 6 = Some 4 /\ kids (fr h') 6 = [7]
  /\ att h' 4 = [(0, 5, 21)] /\ kl h' 4 = 30 /\ kids (fr h') 0 = [1; 2].
Proof. vm_compute. repeat split. Qed.

Example ex_get_subtree :
  let '(h', r) := sk_get_subtree ex_cfg ex_h 0 2 1 in
  par (fr h') r = None /\ kids (fr h') r = [] /\ 4 <= r /\ kids (fr h') 2 = [3].
Proof. vm_compute. repeat split; lia. Qed.

Example ex_prune :
  let '(h', r) := sk_prune ex_cfg ex_h 0 [3] false 0 in
  r = 4 /\ kids (fr h') 4 = [6] /\ kids (fr h') 6 = [7] /\ par (fr h') 5 = None /\ kids (fr h') 0 = [1; 2].
Proof. vm_compute. repeat split. Qed.

Example ex_clone :
  let '(h', r) := sk_clone ex_cfg ex_h 2 in
  r = 4 /\ kids (fr h') 4 = [5; 6] /\ kids (fr h') 6 = [7] /\ kids (fr h') 0 = [1; 2].
Proof. vm_compute. repeat split. Qed.

(* independence is about real changes: detaching the copy of d changes the copy and not the input *)
Example ex_independence :
  let h' := fst (sk_copy ex_h 0) in
  let s'' := fst (step ex_cfg (fr h') (SetParent 7 ANone NoFault)) in
  closed (ge 4) (fr h') /\ op_in (ge 4) (SetParent 7 ANone NoFault) = true
  /\ kids (fr h') 6 = [7] /\ kids s'' 6 = [] /\ kids s'' 2 = [3].
Proof. split; [apply (C07_copy_result_fresh ex_h 0)|]. vm_compute. repeat split. Qed.

(* without the copy the same attach moves the node out of the source (what copy-before-attach avoids) *)
Example ex_move_alters_source :
  kids (fr (sk_move ex_cfg ex_h 3 1)) 2 = [] /\ kids (fr (fst (sk_copy_attach ex_cfg ex_h 3 1))) 2 = [3]
  /\ kids (fr (fst (sk_copy_attach ex_cfg ex_h 3 1))) 1 = [7].
Proof. vm_compute. repeat split. Qed.

(* get_tree_diff overwrites the separator field of other_tree's root (helper.py:336); `sep` is not
   among parent / children order / name / attributes, so this is recorded, not raised *)
Definition ex_two : eheap :=
  EH (mk 2 (fun _ => None) (fun _ => []) (fun x => [N.of_nat (97 + x)])
         (fun x => match x with 1 => [45%N] | _ => [47%N] end))
     (fun _ => []) (fun x => 10 + x) 20.
Example C07_get_tree_diff_writes_sep :
  sepf (fr ex_two) 1 = [45%N] /\ sepf (fr (fst (sk_diff ex_cfg ex_two 0 1 []))) 1 = [47%N].
Proof. vm_compute. split; reflexivity. Qed.

(* K4-C07: copy.copy(node) - the shallow copy's children are the input's node objects, its children
   list is the input's list object, and attaching a new node to the copy shows in original.children *)
Example C07_shallow_copy_refuted :
  let '(h1, r) := sk_shallow ex_h 0 in
  let '(h2, x) := alloc h1 [120%N] [47%N] [] in
  kids (fr h1) r = [1; 2]                                   (* nodes of the input, not fresh ones *)
  /\ kl h1 r = kl ex_h 0                                    (* the same list object               *)
  /\ att h1 r = att ex_h 0                                  (* the same value objects             *)
  /\ kids (fr (append_alias h2 r x)) 0 = [1; 2; x]          (* x.parent = copy: visible on the original *)
  /\ par (fr (append_alias h2 r x)) x = Some r.
Proof. vm_compute. repeat split. Qed.

(* K5-C07: clone_tree passes attribute values by reference: the clone's attribute holds the very
   object of the original (address 1), so an in-place change made through the clone shows on the
   original; copy() allocates a new object (address 21) *)
Example C07_clone_tree_values_refuted :
  let '(h', r) := sk_clone ex_cfg ex_h 0 in
  att h' r = [(0, 5, 1)] /\ att ex_h 0 = [(0, 5, 1)]
  /\ att (mutate_obj h' 1 99) 0 = [(0, 99, 1)]
  /\ att (fst (sk_copy ex_h 0)) (snd (sk_copy ex_h 0)) = [(0, 5, 21)]
  /\ att (mutate_obj (fst (sk_copy ex_h 0)) 21 99) 0 = [(0, 5, 1)].
Proof. vm_compute. repeat split. Qed.

(* K6-C07: clone_tree(tree, BinaryNode) moves a right-only child to the left slot, so the clone is
   equal to the input only modulo empty slots *)
Example C07_clone_tree_binary_slots_refuted :
  let t := RT 0 [49%N] [] 0 [None; Some (RT 1 [50%N] [] 0 [None; None])] in
  same_tree (compact t) t = false /\ part_of (compact t) t = true.
Proof. vm_compute. split; reflexivity. Qed.

(* DAG: a(0), b(1) -> c(2) -> d(3), a -> d.  Copying from c copies all four nodes. *)
Definition ex_dag : Dag.dag :=
  Dag.mkdag 4 (fun x => match x with 2 => [0; 1] | 3 => [2; 0] | _ => [] end)
            (fun x => match x with 0 => [2; 3] | 1 => [2] | 2 => [3] | _ => [] end)
            (fun x => [N.of_nat (97 + x)]).
Example ex_dag_copy :
  let '(s', r) := dsk_copy ex_dag 2 in
  Dag.dsize s' = 8 /\ dcomp ex_dag 2 = [2; 0; 1; 3] /\ r = 4
  /\ Dag.parents s' r = [5; 6] /\ Dag.children s' r = [7] /\ Dag.parents s' 7 = [4; 5]
  /\ Dag.parents s' 2 = [0; 1].
Proof. vm_compute. repeat split. Qed.

(* K4-C07 for DAGNode.__copy__ (dagnode.py:588-602): the shallow copy's parents and children are the
   input's node objects *)
Example C07_dag_shallow_copy_refuted :
  let '(s', r) := dshallow_copy ex_dag 2 in
  Dag.parents s' r = [0; 1] /\ Dag.children s' r = [3] /\ Dag.children s' 0 = [2; 3].
Proof. vm_compute. repeat split. Qed.

(* ------------------------------------------------------------------------------------------ *)
(* REFINEMENT of the rose-tree algorithms (Algo/Helper.v, Algo/Export.v) through the abstraction of
   Heap/Abs.v.  esubtree dec h x = Abs.subtree with the public attributes (decoded by any `dec`);
   Helper.copy_tree erases the identity tags ("modulo tags"); relabel renames them. *)

Theorem C07_esubtree_is_subtree : forall h f x, etree_of (fun _ => []) h f x = Abs.tree_of (fr h) f x.
Proof. exact etree_nil. Qed.
Print Assumptions C07_esubtree_is_subtree.

(* the deep copy of a well-formed forest is a well-formed forest *)
Theorem C07_copy_WF : forall s r, ForestWF.WF s -> ForestWF.WF (deep_copy_f s r).
Proof. exact copy_WF. Qed.
Print Assumptions C07_copy_WF.

(* (1) node.copy() / copy.deepcopy: the copy of any node of the copied tree abstracts to the same rose
   tree (names, attributes, shape, order) with the tags renamed to the fresh ids *)
Theorem C07_copy_refines : forall dec h r x,
  ForestWF.WF (fr h) -> In x (comp (fr h) r) ->
  esubtree dec (deep_copy h r) (phi (fr h) r x) = relabel (phi (fr h) r) (esubtree dec h x).
Proof. exact copy_refines. Qed.
Print Assumptions C07_copy_refines.

(* the depth cut of prune_tree on the heap = HelperProofs.cut (= Helper.depth_cut, del_level_cut) *)
Theorem C07_depth_cut_refines : forall dec cfg h x k,
  ForestWF.WF (fr h) ->
  let s' := run cfg (fr h) (cut_ops (fr h) x (S k)) in
  ForestWF.WF s' /\ size s' = size (fr h)
  /\ esubtree dec (with_fr h s') x = HelperProofs.cut k (esubtree dec h x).
Proof. exact cut_refines. Qed.
Print Assumptions C07_depth_cut_refines.

(* (2) get_subtree: what the skeleton returns is Helper.depth_cut of a copy of the located subtree *)
Theorem C07_get_subtree_refines : forall dec cfg h start found md,
  ForestWF.WF (fr h) -> In found (comp (fr h) start) ->
  let '(h', r') := sk_get_subtree cfg h start found md in
  Helper.copy_tree (esubtree dec h' r')
  = Helper.depth_cut md (Helper.copy_tree (esubtree dec h found)).
Proof. exact get_subtree_refines. Qed.
Print Assumptions C07_get_subtree_refines.

(* ... and therefore exactly the tree Algo/Helper.v's get_subtree_at returns, whenever `found` is the
   node at the position that algorithm locates *)
Theorem C07_get_subtree_agrees : forall dec cfg h start found md tsep T st path q res,
  ForestWF.WF (fr h) -> In found (comp (fr h) start) ->
  helper_located tsep T st path = Ret q ->
  Rose.subtree_at T q = Some (esubtree dec h found) ->
  Helper.get_subtree_at false tsep T st path md = Ret res ->
  Helper.copy_tree (esubtree dec (fst (sk_get_subtree cfg h start found md))
                             (snd (sk_get_subtree cfg h start found md))) = res.
Proof. exact get_subtree_agrees. Qed.
Print Assumptions C07_get_subtree_agrees.

(* (2) prune_tree by depth (no prune paths) *)
Theorem C07_prune_refines_depth : forall dec cfg h start exact k,
  ForestWF.WF (fr h) -> start < size (fr h) ->
  let '(h', r') := sk_prune cfg h start [] exact (S k) in
  Helper.copy_tree (esubtree dec h' r')
  = Helper.depth_cut (S k) (Helper.copy_tree (esubtree dec h start)).
Proof. exact prune_depth_refines. Qed.
Print Assumptions C07_prune_refines_depth.

(* (3) tree_to_dict: the heap is unchanged and the export computed on the copy is the export of the
   original's abstraction (Algo/Export.v never looks at identities) *)
Theorem C07_export_refines : forall dec h start x,
  ForestWF.WF (fr h) -> In x (comp (fr h) start) ->
  let h' := sk_export h start in
  unchanged_below (size (fr h)) h h'
  /\ forall sep p o,
       Export.tree_to_dict (esubtree dec h' (phi (fr h) start x)) sep p o
       = Export.tree_to_dict (esubtree dec h x) sep p o.
Proof. exact export_refines. Qed.
Print Assumptions C07_export_refines.

(* (4) the mutating side, shift_nodes for one pair: exactly the parent field of the moved node and
   the children lists of its old and new parent are written *)
Theorem C07_shift_nodes_writes : forall cfg h from_ to_,
  ForestWF.WF (fr h) ->
  let s := fr h in
  let s' := fr (sk_move cfg h from_ to_) in
  (forall x, x <> from_ -> par s' x = par s x)
  /\ (forall q, par s from_ <> Some q -> q <> to_ -> kids s' q = kids s q)
  /\ (forall x, name s' x = name s x)
  /\ (s' = s
      \/ (par s' from_ = Some to_
          /\ (forall q, kids s' q = remove1 from_ (kids s q) ++ (if Nat.eqb q to_ then [from_] else [])))).
Proof. exact shift_writes. Qed.
Print Assumptions C07_shift_nodes_writes.

(* non-vacuity: a reachable (hence well-formed) heap  a(0)[tags] -> b(1), c(2) -> d(3) *)
Definition ex_r : forest :=
  run ex_cfg (init 4 (fun x => [N.of_nat (97 + x)]) (fun _ => [47%N]))
      [SetParent 1 (ANode 0) NoFault; SetParent 2 (ANode 0) NoFault; SetParent 3 (ANode 2) NoFault].
Definition ex_rh : eheap := EH ex_r (fun x => match x with 0 => [(0, 5, 1)] | _ => [] end) (fun x => 10 + x) 20.
Definition ex_dec (l : list (nat * nat)) : Rose.attrs :=
  map (fun kc => ([N.of_nat (fst kc)], Rose.VInt (Z.of_nat (snd kc)))) l.

Example ex_r_WF : ForestWF.WF (fr ex_rh).
Proof. apply ForestStep.run_WF. apply ForestWF.WF_init. Qed.
Example ex_r_comp : comp ex_r 2 = [0; 1; 2; 3] /\ kids ex_r 0 = [1; 2] /\ kids ex_r 2 = [3].
Proof. vm_compute. repeat split. Qed.

Example ex_copy_refines :
  esubtree ex_dec (deep_copy ex_rh 2) (phi ex_r 2 0)
  = Rose.T (Some 4) [97%N] [([0%N], Rose.VInt 5)]
      [Rose.T (Some 5) [98%N] [] []; Rose.T (Some 6) [99%N] [] [Rose.T (Some 7) [100%N] [] []]].
Proof. vm_compute. reflexivity. Qed.

Example ex_get_subtree_refines :
  let '(h', r') := sk_get_subtree ex_cfg ex_rh 1 0 2 in
  Helper.copy_tree (esubtree ex_dec h' r')
  = Rose.T None [97%N] [([0%N], Rose.VInt 5)] [Rose.T None [98%N] [] []; Rose.T None [99%N] [] []]
  /\ Helper.depth_cut 2 (Helper.copy_tree (esubtree ex_dec ex_rh 0))
     = Rose.T None [97%N] [([0%N], Rose.VInt 5)] [Rose.T None [98%N] [] []; Rose.T None [99%N] [] []].
Proof. vm_compute. split; reflexivity. Qed.

Example ex_shift_changes_input :
  kids (fr (sk_move ex_cfg ex_rh 3 1)) 2 = [] /\ kids (fr (sk_move ex_cfg ex_rh 3 1)) 1 = [3]
  /\ par (fr (sk_move ex_cfg ex_rh 3 1)) 3 = Some 1.
Proof. vm_compute. repeat split. Qed.
