(* C09 — search returns exactly the nodes that satisfy the query.
   Only the property theorems; the proofs live in Algo/SearchProofs.v, the model in Algo/Search.v,
   the property predicate in Spec/PC09.v.

   Vocabulary: `w` the whole tree, `p` the position of the node the search is called on,
   `locate w p = Some s` the located start node; positions are the algorithm-independent names of
   nodes (Rose.positions enumerates them in pre-order).

   Guards.  Theorems named `_partial` hold for a separator that is a single character `[c]`, for
   EVERY query string.  Theorems named `_multi` hold for a separator of any positive length under
   the guard that excludes known finding K3 (str.lstrip/rstrip take a character set):
     names_sfree w sep  — no character of the separator occurs in any name of the tree, and
     clean sep path     — the query, after removing whole trailing/leading separators, neither ends
                          nor starts with a character of the separator (query_clean for a query).
   Both parts of the guard are necessary: C09_multichar_sep_refuted (a name ending in a separator
   character) and C09_multichar_query_refuted (a query ending in one) at the end.  The relative-path
   theorems additionally need '*' not in the separator and components that are "*" or contain no '*'. *)
From BT Require Import Base.Prelude Base.Str Base.StrSep Base.Rose Algo.Search Spec.PC09 Algo.SearchProofs.

(* ---- the whole property, for every query kind --------------------------------------------- *)

(* every input on which the property speaks is inside the model's domain *)
Theorem C09_model_total : forall i, valid_input i = true -> exists o, model i = Some o.
Proof. exact model_total. Qed.
Print Assumptions C09_model_total.

(* findall, find, find_name(s), find_attr(s), find_children, find_child, find_child_by_name:
   prop_C09 holds of the model's output for every tree, start node, query, bound and separator *)
Theorem C09_model_satisfies_spec_any_sep : forall i o,
  sep_independent (si_query i) = true -> model i = Some o -> prop_C09 i o = true.
Proof. exact model_satisfies_spec_any_sep. Qed.
Print Assumptions C09_model_satisfies_spec_any_sep.

(* all fourteen functions, one-character separator other than '*' *)
Theorem C09_model_satisfies_spec_partial : forall i c o,
  si_sep i = [c] -> c <> 42%N -> model i = Some o -> prop_C09 i o = true.
Proof. exact model_satisfies_spec. Qed.
Print Assumptions C09_model_satisfies_spec_partial.

(* all fourteen functions, separator of any positive length without '*', under the K3 guard *)
Theorem C09_model_satisfies_spec_multi : forall i o,
  si_sep i <> [] -> memN 42%N (si_sep i) = false ->
  names_sfree (si_tree i) (si_sep i) = true -> query_clean (si_sep i) (si_query i) = true ->
  model i = Some o -> prop_C09 i o = true.
Proof. exact model_satisfies_spec_multi. Qed.
Print Assumptions C09_model_satisfies_spec_multi.

(* ---- clause by clause ------------------------------------------------------------------------- *)

(* findall returns precisely the nodes of the searched subtree, within max_depth (absolute depth),
   that satisfy the condition, in pre-order; the enumeration has no repetition *)
Theorem C09_findall_exact : forall w p s (cond : pos -> bool) (filt : lnode -> bool) md,
  locate w p = Some s ->
  (forall q n, locate w q = Some n -> cond q = filt n) ->
  exists M, findall filt s md 0 0 = Ret M
            /\ map (locate w) (filter (fun q => within md q && cond q) (under w p)) = map Some M
            /\ NoDup (under w p).
Proof. exact findall_exact. Qed.
Print Assumptions C09_findall_exact.

Theorem C09_findall_members : forall filt s md n,
  In n (preorder_iter filt md (ln_up s) (ln_tree s))
  <-> In n (pre_l (ln_up s) (ln_tree s)) /\ depth_ok md n = true /\ filt n = true.
Proof. exact findall_members. Qed.
Print Assumptions C09_findall_members.

(* min/max count: SearchError exactly when a bound is violated, all matches otherwise *)
Theorem C09_count_contract : forall filt s md mn mx,
  findall filt s md mn mx
  = let M := preorder_iter filt md (ln_up s) (ln_tree s) in
    if count_violated (length M) mn mx then Raise SearchError else Ret M.
Proof. exact count_contract. Qed.
Print Assumptions C09_count_contract.

(* that node when exactly one matches, None when none does, SearchError when several do *)
Theorem C09_single_contract : forall filt s md,
  find filt s md
  = match preorder_iter filt md (ln_up s) (ln_tree s) with
    | [] => Ret None
    | [n] => Ret (Some n)
    | _ => Raise SearchError
    end.
Proof. exact single_contract. Qed.
Print Assumptions C09_single_contract.

Theorem C09_children_contract : forall cond s mn mx,
  find_children cond s mn mx
  = let M := filter cond (ln_children s) in
    if count_violated (length M) mn mx then Raise SearchError else Ret M.
Proof. exact children_contract. Qed.
Print Assumptions C09_children_contract.

Theorem C09_child_contract : forall cond s,
  find_child cond s
  = match filter cond (ln_children s) with
    | [] => Ret None
    | [n] => Ret (Some n)
    | _ => Raise SearchError
    end.
Proof. exact child_contract. Qed.
Print Assumptions C09_child_contract.

(* find_path(s): the condition is "the path name ends with the query (trailing separators removed)" *)
Theorem C09_path_suffix_partial : forall w c path q n,
  locate w q = Some n -> sat_path w [c] path q = path_ends [c] (rstrip path [c]) n.
Proof. exact sat_path_located. Qed.
Print Assumptions C09_path_suffix_partial.

(* find_full_path finds a node iff the full path exists — under sibling-name uniqueness and
   separator-free, non-empty names (guards = sep_safe && sibling_names_unique) *)
Theorem C09_full_path_iff_partial : forall w c p s path n,
  guards w [c] = true -> locate w p = Some s ->
  (find_full_path [c] s path = Ret (Some n)
   <-> exists q, locate w q = Some n /\ join [c] (names_to w q) = trim [c] path).
Proof. exact full_path_iff. Qed.
Print Assumptions C09_full_path_iff_partial.

(* find_relative_paths computes the denotational file-system semantics ([.] = id, [..] = parent or
   error at the root, [*] = children, [name] = the child of that name; a missing component is an error
   unless a wildcard is present, then it contributes nothing), followed by the count contract *)
Theorem C09_relative_spec_partial : forall w c p s path mn mx,
  c <> 42%N -> locate w p = Some s -> startswith path [c] = false ->
  plain_components (components [c] path) = true ->
  match denote w (has_wildcard (components [c] path)) (components [c] path) p with
  | None => find_relative_paths [c] s path mn mx = Raise SearchError
  | Some L => exists M, map (locate w) L = map Some M
                        /\ find_relative_paths [c] s path mn mx
                           = if count_violated (length L) mn mx then Raise SearchError else Ret (map Some M)
  end.
Proof. exact relative_spec. Qed.
Print Assumptions C09_relative_spec_partial.

(* ---- the path-string clauses for separators of any positive length ----------------------------- *)

(* stripping the character set = removing whole separators, on clean queries *)
Theorem C09_strip_is_trim_multi : forall sep path,
  clean sep path = true -> lstrip (rstrip path sep) sep = trim sep path.
Proof. exact strip_clean. Qed.
Print Assumptions C09_strip_is_trim_multi.

Theorem C09_path_suffix_multi : forall w sep path q n,
  ends_ok sep (trim_right sep path) = true ->
  locate w q = Some n -> sat_path w sep path q = path_ends sep (rstrip path sep) n.
Proof. exact path_suffix_multi. Qed.
Print Assumptions C09_path_suffix_multi.

Theorem C09_full_path_iff_multi : forall w sep p s path n,
  sep <> [] -> names_sfree w sep = true -> sibling_names_unique w = true -> clean sep path = true ->
  locate w p = Some s ->
  (find_full_path sep s path = Ret (Some n)
   <-> exists q, locate w q = Some n /\ join sep (names_to w q) = trim sep path).
Proof. exact full_path_iff_multi. Qed.
Print Assumptions C09_full_path_iff_multi.

Theorem C09_relative_spec_multi : forall w sep p s path mn mx,
  sep <> [] -> memN 42%N sep = false -> clean sep path = true ->
  locate w p = Some s -> startswith path sep = false ->
  plain_components (components sep path) = true ->
  match denote w (has_wildcard (components sep path)) (components sep path) p with
  | None => find_relative_paths sep s path mn mx = Raise SearchError
  | Some L => exists M, map (locate w) L = map Some M
                        /\ find_relative_paths sep s path mn mx
                           = if count_violated (length L) mn mx then Raise SearchError else Ret (map Some M)
  end.
Proof. exact relative_spec_multi. Qed.
Print Assumptions C09_relative_spec_multi.

(* ---- the hypotheses are satisfiable by non-trivial inputs ------------------------------------ *)

Definition L (i : nat) (nm : N) (ks : list tree) : tree := T (Some i) [nm] [] ks.
(* a(b(d, e(g, h)), c(f)) — the fixture of tests/tree/test_search.py *)
Definition w0 : tree :=
  L 0 97 [L 1 98 [L 2 100 []; L 3 101 [L 4 103 []; L 5 104 []]]; L 6 99 [L 7 102 []]].
Definition slash : str := [47%N].

Example C09_nonvacuous_guards : guards w0 slash = true.
Proof. vm_compute. reflexivity. Qed.

(* start node e (position [0;1]); "../../*" resolves to b and c; "/a/b/e/h" is found *)
Example C09_nonvacuous_relative :
  exists s, locate w0 [0; 1] = Some s
  /\ startswith [46; 46; 47; 46; 46; 47; 42]%N slash = false
  /\ plain_components (components slash [46; 46; 47; 46; 46; 47; 42]%N) = true
  /\ denote w0 true (components slash [46; 46; 47; 46; 46; 47; 42]%N) [0; 1] = Some [[0]; [1]]
  /\ obs_of (run_query slash s (QFindRelPaths [46; 46; 47; 46; 46; 47; 42]%N 0 0)) = ONodes [Some 1; Some 6]
  /\ obs_of (run_query slash s (QFindFullPath [47; 97; 47; 98; 47; 101; 47; 104]%N)) = ONode (Some 5)
  /\ obs_of (run_query slash s (QFindall [true; true; true; true; true; true; true; true] 3 0 0))
     = ONodes [Some 3].
Proof. eexists. vm_compute. repeat split. Qed.

(* ---- known finding K3: with a multi-character separator the path clauses fail ----------------- *)
(* sep "->", tree r -> "a-": find_full_path(r, "->r->a-") returns None although that full path exists *)
Definition k3_input : sinput :=
  SI (T (Some 0) [114%N] [] [T (Some 1) [97; 45]%N [] []]) [45; 62]%N []
     (QFindFullPath [45; 62; 114; 45; 62; 97; 45]%N).

Example C09_multichar_sep_refuted :
  exists i o, valid_input i = true /\ model i = Some o /\ o = ONode None /\ prop_C09 i o = false.
Proof. exists k3_input, (ONode None). vm_compute. repeat split. Qed.

(* the multi-character guard is satisfiable: the fixture with sep "->", start node e,
   find_full_path "->a->b->e->h->" (trailing separator) and the relative path "..->..->*" *)
Definition arrow : str := [45; 62]%N.
Example C09_nonvacuous_multi :
  names_sfree w0 arrow = true /\ sibling_names_unique w0 = true /\ memN 42%N arrow = false
  /\ query_clean arrow (QFindFullPath [45; 62; 97; 45; 62; 98; 45; 62; 101; 45; 62; 104; 45; 62]%N) = true
  /\ query_clean arrow (QFindRelPaths [46; 46; 45; 62; 46; 46; 45; 62; 42]%N 0 0) = true
  /\ exists s, locate w0 [0; 1] = Some s
     /\ obs_of (run_query arrow s (QFindFullPath [45; 62; 97; 45; 62; 98; 45; 62; 101; 45; 62; 104; 45; 62]%N)) = ONode (Some 5)
     /\ obs_of (run_query arrow s (QFindRelPaths [46; 46; 45; 62; 46; 46; 45; 62; 42]%N 0 0)) = ONodes [Some 1; Some 6].
Proof. vm_compute. repeat split. eexists. repeat split. Qed.

(* the query half of the guard is necessary too: sep "->", tree r -> a (names free of '-' and '>'),
   find_full_path(r, "->r->a-") returns the node a although no node has the full path "->r->a-" *)
Definition k3_query_input : sinput :=
  SI (T (Some 0) [114%N] [] [T (Some 1) [97%N] [] []]) [45; 62]%N []
     (QFindFullPath [45; 62; 114; 45; 62; 97; 45]%N).

Example C09_multichar_query_refuted :
  names_sfree (si_tree k3_query_input) (si_sep k3_query_input) = true
  /\ query_clean (si_sep k3_query_input) (si_query k3_query_input) = false
  /\ model k3_query_input = Some (ONode (Some 1))
  /\ prop_C09 k3_query_input (ONode (Some 1)) = false.
Proof. vm_compute. repeat split. Qed.
