(* C02 — a rejected or failing structural assignment changes nothing.
   BaseNode / Node share (model Heap/Forest.v).  The BinaryNode and DAGNode shares are proved in
   Heap/BinaryProofs.v and Heap/DagProofs.v and restated at the end of this file. *)
From BT Require Import Base.Prelude Base.Str Heap.Forest Heap.ForestWF Heap.ForestOps
     Heap.ForestRollback Heap.ForestStep Heap.ForestRefl Spec.PForest Corr.ForestCorr Corr.ForestCorrProofs.

(* any single assignment (parent, children, append, >>, <<, del by name) that does not return
   normally — wrong type, loop, repeated child, duplicate sibling name, or a user hook raising
   before or after the links were changed — leaves every parent pointer and every child list,
   order included, exactly as it was *)
Theorem C02_forest_atomic : forall cfg s o,
  WF s -> single_assignment o = true -> snd (step cfg s o) <> Ok -> same (fst (step cfg s o)) s.
Proof. exact step_atomic. Qed.
Print Assumptions C02_forest_atomic.

(* the two except-branches undo their try-branches exactly *)
Theorem C02_parent_rollback_exact : forall s c np,
  WF s -> (forall p, np = Some p -> p <> c) ->
  same (attach_rollback s (attach s c np) c np) s.
Proof. exact attach_rollback_same. Qed.
Print Assumptions C02_parent_rollback_exact.

Theorem C02_children_rollback_exact : forall s p news,
  WF s -> p < size s -> valid_children s p news ->
  same (children_rollback s (assign_children s p news) p news) s.
Proof. exact children_rollback_same. Qed.
Print Assumptions C02_children_rollback_exact.

(* the mathematical content of the repair F1: re-inserting the removed elements of a list at
   their original indices in ascending index order restores the list *)
Theorem C02_restore_sorted : forall (S : id -> bool) (l : list id), NoDup l ->
  fold_left (reinsert l) (filter S l) (filter (fun y => negb (S y)) l) = l.
Proof. exact restore_sorted. Qed.
Print Assumptions C02_restore_sorted.

Theorem C02_model_steps_satisfy_prop : forall cfg s o, WF s ->
  let r := step cfg s o in prop_C02_step s o (fst r) (is_ok (snd r)) = true.
Proof. exact model_step_C02. Qed.
Print Assumptions C02_model_steps_satisfy_prop.

(* over whole histories: every state in which a failing assignment is attempted is well-formed,
   hence the theorem applies at every step of every history *)
Theorem C02_every_history : forall cfg n names seps ops o,
  single_assignment o = true ->
  let s := run cfg (init n names seps) ops in
  snd (step cfg s o) <> Ok -> same (fst (step cfg s o)) s.
Proof. intros cfg n names seps ops o Ho s H. apply step_atomic; [apply run_WF, WF_init|exact Ho|exact H]. Qed.
Print Assumptions C02_every_history.

(* a constructor call Node(name, parent=p, children=cs) is the parent assignment followed by the
   children assignment: when it raises, either the parent assignment was refused and NOTHING changed
   (in particular the proposed children are untouched), or the accepted parent assignment is in
   place and the refused children assignment changed nothing *)
Theorem C02_constructor_phases : forall cfg s i pa cont cargs ftp ftc,
  WF s ->
  let r := cstep cfg s (Construct i pa cont cargs ftp ftc) in
  snd r <> Ok ->
  (snd (step cfg s (SetParent i pa ftp)) <> Ok /\ same (fst r) s)
  \/ (exists s1, step cfg s (SetParent i pa ftp) = (s1, Ok) /\ same (fst r) s1).
Proof. exact construct_atomic_phases. Qed.
Print Assumptions C02_constructor_phases.

(* non-vacuity, and the witness of defect F1: p.children = [x;y;z]; q.children = [y;x] fails in the
   post-assign hook.  With the ascending-index restore the donor list comes back as [x;y;z]. *)
Definition w_cfg := {| assertions := true; is_node := false |}.
Definition w_s0 := fst (step w_cfg (init 5 (fun _ => []) (fun _ => []))
                          (SetChildren 0 CList [ANode 1; ANode 2; ANode 3] NoFault)).
Example C02_witness_F1 :
  let r := step w_cfg w_s0 (SetChildren 4 CList [ANode 2; ANode 1] PostFail) in
  snd r = Err TreeError /\ kids (fst r) 0 = [1; 2; 3] /\ kids (fst r) 4 = []
  /\ map (par (fst r)) [1; 2; 3] = [Some 0; Some 0; Some 0].
Proof. vm_compute. repeat split. Qed.

(* the pre-repair behaviour (restore in argument order, i.e. without sort_by_idx) does NOT restore *)
Definition children_rollback_unsorted (s0 s : forest) (p : id) (news : list id) : forest :=
  let s1 := fold_left give_back (donors s0 news) s in
  let s2 := fold_left (fun st x => match par s0 x with None => set_par st x None | Some _ => st end) news s1 in
  let s3 := set_kids s2 p (kids s0 p) in
  fold_left (fun st x => set_par st x (Some p)) (kids s0 p) s3.
Example C02_unsorted_restore_refuted :
  kids (children_rollback_unsorted w_s0 (assign_children w_s0 4 [2; 1]) 4 [2; 1]) 0 = [1; 3; 2].
Proof. vm_compute. reflexivity. Qed.
