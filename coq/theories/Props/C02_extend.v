(* C02 for `extend`: the call is a sequence of parent assignments, each atomic (C02_forest_atomic); when it raises, exactly
   the appends before the failing one are in place and the failing assignment is rolled back.  Proof: Heap/AbsSurgery.v. *)
From BT Require Import Base.Prelude Base.Str Base.Rose Heap.Forest Heap.ForestWF Heap.ForestOps Heap.ForestStep Heap.Abs Heap.AbsSurgery.

Theorem C02_extend_failure_keeps_accepted_prefix : forall cfg p cs fts s s' e,
  WF s -> (forall c, In c cs -> c < size s) -> p < size s ->
  extend_loop cfg s p cs fts = (s', Err e) ->
  exists done c rest, cs = done ++ c :: rest /\ same s' (appends p done s).
Proof. intros cfg p cs fts s s' e. apply extend_prefix. Qed.
Print Assumptions C02_extend_failure_keeps_accepted_prefix.

Example C02_extend_nonvacuous :
  let cfg := {| assertions := true; is_node := false |} in
  let s := init 4 (fun _ => []) (fun _ => []) in
  (* 0.extend([1, 2, 3]) with a failing post-assign hook on the second child: 1 stays appended, 2 and 3 are roots *)
  let r := extend_loop cfg s 0 [1; 2; 3] [NoFault; PostFail; NoFault] in
  snd r = Err TreeError /\ kids (fst r) 0 = [1] /\ par (fst r) 2 = None /\ par (fst r) 3 = None.
Proof. vm_compute. repeat split; reflexivity. Qed.
