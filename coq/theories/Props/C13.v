(* C13 - relation, nested-dict and heap-list constructors build exactly the given edges.
   Only the property theorems; the proofs are in Algo/RelationProofs.v, the models in Algo/Relation.v, the
   specification predicates in Spec/PC13.v. *)
From BT Require Import Base.Prelude Base.Str Base.Rose Algo.Relation Spec.PC13 Algo.RelationProofs.
From Coq Require Import Permutation.

(* ---------------------------------------------------------------------------------------------- *)
(* relations *)

(* valid_tree t: every node is a fresh object without null attribute values and with a non-empty name, siblings
   have distinct names, and
   the name of a node that has children is carried by no other node (repeated names only at leaves).
   rows_of b t: the relations of t, parents in pre-order, children in sibling order (b: with a root row).
   presentable b t: b = true, or the root has children and no attributes (they would need a root row). *)
Theorem C13_relation_of_tree : forall b t,
  valid_tree t = true -> presentable b t -> rel_to_tree false (rows_of b t) = Ret t.
Proof. exact relation_of_tree. Qed.
Print Assumptions C13_relation_of_tree.

(* any row order: accepted; the same tree up to the order of siblings (sim); and in the result the children of
   every node are the rows naming it as parent in their order of appearance, with the rows' attributes (node_ok) *)
Theorem C13_row_order : forall b t rows,
  valid_tree t = true -> presentable b t -> Permutation rows (rows_of b t) ->
  exists t', rel_to_tree false rows = Ret t' /\ sim t t' /\ forallb (node_ok rows) (pre t') = true.
Proof. exact row_order_full. Qed.
Print Assumptions C13_row_order.

(* exactly the given pairs as edges and exactly the tree's names as nodes (as multisets) *)
Theorem C13_edges_exact : forall b t rows t',
  valid_tree t = true -> presentable b t -> Permutation rows (rows_of b t) ->
  rel_to_tree false rows = Ret t' ->
  Permutation (edges t') (edge_pairs rows) /\ Permutation (map tname (pre t')) (map tname (pre t)).
Proof. exact edges_exact. Qed.
Print Assumptions C13_edges_exact.

(* no root candidate, or several: refused (with or without allow_duplicates) *)
Theorem C13_root_errors : forall ad rows, the_root rows = None -> rel_to_tree ad rows = Raise ValueError.
Proof. exact root_errors. Qed.
Print Assumptions C13_root_errors.

(* a name listed under two different parents that is itself a parent: refused *)
Theorem C13_ambiguous_refused : forall rows, ambiguous rows = true -> rel_to_tree false rows = Raise ValueError.
Proof. exact ambiguous_refused. Qed.
Print Assumptions C13_ambiguous_refused.

(* on the relations of a tree the recursion by parent name ends: every fuel >= height gives the same children *)
Theorem C13_no_fuel_exhaustion : forall b t rows,
  valid_tree t = true -> presentable b t -> Permutation rows (rows_of b t) ->
  exists ks, forall fuel, height t <= fuel -> add_children fuel rows (tname t) = Ret ks.
Proof. exact no_fuel_exhaustion. Qed.
Print Assumptions C13_no_fuel_exhaustion.

(* for every input whatsoever: whatever is accepted satisfies the specification predicate (rooted at the single
   candidate, no ambiguous name unless allow_duplicates, children = rows by order of appearance, attributes) *)
Theorem C13_accepted_sound : forall ad rows t, rel_to_tree ad rows = Ret t -> prop_rel ad rows (Acc t) = true.
Proof. exact accepted_sound. Qed.
Print Assumptions C13_accepted_sound.

(* the predicate the check evaluates on the implementation's output holds of the model on every tree *)
Theorem C13_prop_on_trees : forall b t rows,
  valid_tree t = true -> presentable b t -> Permutation rows (rows_of b t) ->
  prop_rel false rows (out_of (rel_to_tree false rows)) = true.
Proof. exact prop_on_trees. Qed.
Print Assumptions C13_prop_on_trees.

(* every row list that passes the specification's own test for "the relations of a tree whose repeated names are
   leaves, in some order" (one root candidate, no ambiguous name, no repeated pair, non-empty names, every row
   connected to the root) is accepted - no TreeError, no fuel exhaustion *)
Theorem C13_presented_accepted : forall ad rows,
  presents_tree rows = true -> exists t, rel_to_tree ad rows = Ret t.
Proof. exact presents_tree_accepted. Qed.
Print Assumptions C13_presented_accepted.

(* hence the full predicate evaluated by the check holds of the model on EVERY input and flag *)
Theorem C13_prop_rel : forall ad rows, prop_rel ad rows (out_of (rel_to_tree ad rows)) = true.
Proof. exact prop_rel_model. Qed.
Print Assumptions C13_prop_rel.

(* ---------------------------------------------------------------------------------------------- *)
(* nested dictionaries: nd_keys_ok = no dictionary repeats a key (true of every Python dict) *)

Theorem C13_nested_mirror : forall nk d t,
  nd_keys_ok d = true -> mirror nk d = Some t -> nested_dict_to_tree nk d = Ret t.
Proof. exact nested_mirror. Qed.
Print Assumptions C13_nested_mirror.

Theorem C13_nested_prop : forall nk d,
  nd_keys_ok d = true -> prop_nested nk d (out_of (nested_dict_to_tree nk d)) = true.
Proof. exact nested_prop. Qed.
Print Assumptions C13_nested_prop.

(* conversely, what does not have the documented form (no string name, children not a list, two children of the
   same name) is refused *)
Theorem C13_nested_illformed_refused : forall nk d,
  nd_keys_ok d = true -> mirror nk d = None -> exists e, nested_dict_to_tree nk d = Raise e.
Proof. exact nested_refused_top. Qed.
Print Assumptions C13_nested_illformed_refused.

(* ---------------------------------------------------------------------------------------------- *)
(* heap lists *)

(* int((i+1)/2) - 1 = (i-1)//2 for i >= 1 *)
Theorem C13_heap_parent_arith : forall i : N, (1 <= i)%N -> ((i + 1) / 2 - 1 = (i - 1) / 2)%N.
Proof. exact parent_idx_N. Qed.
Print Assumptions C13_heap_parent_arith.

(* element i is linked under element (i-1)/2: in the left slot iff i is odd, in the right slot iff i is even *)
Theorem C13_heap_parent : forall l, l <> [] ->
  exists tbl, heap_table l = Ret tbl /\ length tbl = length l /\
    forall i, 1 <= i < length l ->
      parent_idx i = (i - 1) / 2 /\
      (Nat.odd i = true -> fst (nth ((i - 1) / 2) tbl (None, None)) = Some i) /\
      (Nat.even i = true -> snd (nth ((i - 1) / 2) tbl (None, None)) = Some i).
Proof. exact heap_parent. Qed.
Print Assumptions C13_heap_parent.

(* and nothing else is linked *)
Theorem C13_heap_slots_only : forall l tbl, heap_table l = Ret tbl ->
  forall p j, p < length l ->
    (fst (nth p tbl (None, None)) = Some j -> j = 2 * p + 1 /\ j < length l) /\
    (snd (nth p tbl (None, None)) = Some j -> j = 2 * p + 2 /\ j < length l).
Proof. exact heap_slots_only. Qed.
Print Assumptions C13_heap_slots_only.

(* the returned tree is the heap-shaped tree of the list (no TreeError, no fuel exhaustion); [] is refused *)
Theorem C13_heap_prop : forall l, prop_heap l (out_of (list_to_binarytree l)) = true.
Proof. exact heap_prop. Qed.
Print Assumptions C13_heap_prop.

(* ---------------------------------------------------------------------------------------------- *)
(* the hypotheses are satisfiable by non-trivial inputs *)

Definition s (c : N) : str := [c].
Definition L (n : N) (a : attrs) := T None (s n) a [].

(* a(b(d, e(g, h, x)), c(f, x), x) : fan-out 3, depth 4, the leaf name x three times, attributes *)
Definition ex_tree : tree :=
  T None (s 97) [(s 107, VInt 90)]
    [ T None (s 98) [] [ L 100 [(s 107, VInt 1)];
                         T None (s 101) [(s 107, VInt 2)] [L 103 []; L 104 []; L 120 []] ];
      T None (s 99) [] [ L 102 []; L 120 [(s 107, VInt 7)] ];
      L 120 [] ].

Example ex_valid : valid_tree ex_tree = true /\ presentable true ex_tree.
Proof. split; [reflexivity|left; reflexivity]. Qed.

Example ex_permuted :
  exists rows, Permutation rows (rows_of true ex_tree) /\ rows <> rows_of true ex_tree
               /\ exists t', rel_to_tree false rows = Ret t' /\ t' <> ex_tree.
Proof.
  exists (rev (rows_of true ex_tree)). split; [apply Permutation_sym, Permutation_rev|].
  split; [vm_compute; discriminate|]. eexists. split; [vm_compute; reflexivity|discriminate].
Qed.

Example ex_presented : presents_tree (rev (rows_of true ex_tree)) = true
                       /\ presents_tree (rows_of false (T None (s 97) [] [L 98 []; L 99 []])) = true.
Proof. split; reflexivity. Qed.

Example ex_no_root : the_root [(s 98, Some (s 97), []); (s 97, Some (s 98), [])] = None.
Proof. reflexivity. Qed.

Example ex_two_roots : the_root [(s 97, None, []); (s 98, Some (s 97), []); (s 100, Some (s 99), [])] = None.
Proof. reflexivity. Qed.

Example ex_ambiguous :
  ambiguous [(s 98, Some (s 97), []); (s 99, Some (s 97), []); (s 120, Some (s 98), []);
             (s 121, Some (s 120), []); (s 120, Some (s 99), [])] = true.
Proof. reflexivity. Qed.

(* rows that are no tree but are accepted: the unreachable cycle p <-> q is dropped (outside the quantifier) *)
Example ex_unreachable_cycle :
  rel_to_tree false [(s 114, None, []); (s 98, Some (s 114), []); (s 112, Some (s 113), []); (s 113, Some (s 112), [])]
  = Ret (T None (s 114) [] [T None (s 98) [] []]).
Proof. reflexivity. Qed.

(* with allow_duplicates a cycle can be reached: the recursion does not end (Python: RecursionError) *)
Example ex_reachable_cycle :
  rel_to_tree true [(s 97, Some (s 114), []); (s 98, Some (s 97), []); (s 97, Some (s 98), [])] = Raise OtherError.
Proof. reflexivity. Qed.

Definition ex_nd : nd :=
  ND [(s 105, VStr (s 97)); (s 107, VInt 90)] CList
     [ ND [(s 107, VInt 65); (s 105, VStr (s 98))] CList [ND [(s 105, VStr (s 100))] CMissing []; ND [(s 105, VStr (s 101))] CList []];
       ND [(s 105, VStr (s 99))] CMissing [];
       ND [(s 105, VStr (s 100))] CMissing [] ].

Example ex_nested : nd_keys_ok ex_nd = true /\ exists t, mirror (s 105) ex_nd = Some t /\ tsize t = 6.
Proof. split; [reflexivity|]. eexists. split; reflexivity. Qed.

Example ex_heap : exists b, list_to_binarytree [5; 3; 8; 1; 9; 2]%Z = Ret b
                            /\ b = BT 5 (Some (BT 3 (Some (BT 1 None None)) (Some (BT 9 None None))))
                                        (Some (BT 8 (Some (BT 2 None None)) None)).
Proof. eexists. split; reflexivity. Qed.
