(* C09 — search, third round: the path-string functions for a separator of ANY positive length and
   EVERY query string, i.e. outside the query half of the K3 guard (`clean` / `query_clean` / `ends_ok`).
   Only statements; the proofs live in Algo/C09More3.v (on top of Algo/SearchProofs.v, Algo/C09More.v).

   bigtree strips the separator from a query as a character SET (str.rstrip / str.lstrip):
     cstrip sep path = lstrip (rstrip path sep) sep
   The theorems below say that every path function answers, exactly as the property demands, the query
   `cstrip sep path` (find_path(s): `rstrip path sep`) — with no hypothesis on the query, and for
   find_path(s) / find_relative_path(s) / soundness of find_full_path no hypothesis on the tree either.
   Known finding K3 is thereby reduced to one sentence: the answered query is `cstrip sep path` where the
   property says `trim sep path`, and these differ exactly when `clean sep path` fails
   (C09_K3_is_strip_disagreement).  Vocabulary as in Props/C09.v and Props/C09_more.v. *)
From BT Require Import Base.Prelude Base.Str Base.StrSep Base.Rose Algo.Search Spec.PC09 Algo.SearchProofs
  Algo.C09More Algo.C09More3.

(* ---- the stripped query is in normal form ------------------------------------------------------- *)

(* stripping twice = stripping once; the specification's trim leaves the stripped query alone; the
   stripped query satisfies the query half of the K3 guard and is a relative path *)
Theorem C09_stripped_query_normal : forall sep path,
  sep <> [] ->
  cstrip sep (cstrip sep path) = cstrip sep path
  /\ trim sep (cstrip sep path) = cstrip sep path
  /\ clean sep (cstrip sep path) = true
  /\ startswith (cstrip sep path) sep = false.
Proof. exact cstrip_normal. Qed.
Print Assumptions C09_stripped_query_normal.

Theorem C09_rstripped_query_normal : forall sep path,
  sep <> [] ->
  rstrip (rstrip path sep) sep = rstrip path sep
  /\ trim_right sep (rstrip path sep) = rstrip path sep
  /\ ends_ok sep (trim_right sep (rstrip path sep)) = true.
Proof. exact rstrip_normal. Qed.
Print Assumptions C09_rstripped_query_normal.

(* K3 exactly: the K3 guard on the query holds iff the character-set strips agree with the removal of
   whole separators *)
Theorem C09_K3_is_strip_disagreement : forall sep path,
  sep <> [] ->
  (clean sep path = true <-> (rstrip path sep = trim_right sep path /\ cstrip sep path = trim sep path)).
Proof. exact clean_iff_strips_agree. Qed.
Print Assumptions C09_K3_is_strip_disagreement.

(* ---- a query and its stripped form get the same answer ------------------------------------------- *)

Theorem C09_full_path_strip_query : forall sep s path,
  find_full_path sep s path = find_full_path sep s (cstrip sep path).
Proof. exact full_path_strip_query. Qed.
Print Assumptions C09_full_path_strip_query.

Theorem C09_relative_strip_query : forall sep s path mn mx,
  sep <> [] -> startswith path sep = false ->
  find_relative_paths sep s path mn mx = find_relative_paths sep s (cstrip sep path) mn mx.
Proof. exact relative_strip_query. Qed.
Print Assumptions C09_relative_strip_query.

Theorem C09_relative_single_strip_query : forall sep s path,
  sep <> [] -> startswith path sep = false ->
  find_relative_path sep s path = find_relative_path sep s (cstrip sep path).
Proof. exact relative_single_strip_query. Qed.
Print Assumptions C09_relative_single_strip_query.

Theorem C09_paths_strip_query : forall sep s path,
  find_paths sep s path = find_paths sep s (rstrip path sep)
  /\ find_path sep s path = find_path sep s (rstrip path sep).
Proof. exact paths_strip_query. Qed.
Print Assumptions C09_paths_strip_query.

(* ---- find_full_path, every query ------------------------------------------------------------------- *)

(* C09_full_path_sound_multi without `clean`: every tree, every query, every non-empty separator *)
Theorem C09_full_path_sound_any : forall w sep p s path n,
  sep <> [] -> locate w p = Some s -> find_full_path sep s path = Ret (Some n) ->
  exists q, locate w q = Some n /\ join sep (names_to w q) = cstrip sep path.
Proof. exact full_path_sound_any. Qed.
Print Assumptions C09_full_path_sound_any.

(* C09_full_path_iff_multi without `clean` *)
Theorem C09_full_path_iff_any : forall w sep p s path n,
  sep <> [] -> names_sfree w sep = true -> sibling_names_unique w = true -> locate w p = Some s ->
  (find_full_path sep s path = Ret (Some n)
   <-> exists q, locate w q = Some n /\ join sep (names_to w q) = cstrip sep path).
Proof. exact full_path_iff_any. Qed.
Print Assumptions C09_full_path_iff_any.

(* C09_full_path_decides_multi without `clean` *)
Theorem C09_full_path_decides_any : forall w sep p s path,
  sep <> [] -> names_sfree w sep = true -> sibling_names_unique w = true -> locate w p = Some s ->
  find_full_path sep s path
  = if negb (str_eqb (hd [] (split (cstrip sep path) sep)) (tname w)) then Raise ValueError
    else Ret (full_path_node w sep (cstrip sep path)).
Proof. exact full_path_decides_any. Qed.
Print Assumptions C09_full_path_decides_any.

(* ---- find_relative_path(s), every tree, every query ------------------------------------------------ *)

(* C09_relative_spec_any_multi without `clean`: no hypothesis on the tree, the query or the separator
   beyond sep <> [] *)
Theorem C09_relative_spec_any_sep : forall w sep p s path mn mx,
  sep <> [] -> locate w p = Some s -> startswith path sep = false ->
  match denote w (contains (cstrip sep path) s_star) (split (cstrip sep path) sep) p with
  | None => find_relative_paths sep s path mn mx = Raise SearchError
  | Some L => exists M, map (locate w) L = map Some M
                        /\ find_relative_paths sep s path mn mx
                           = if count_violated (length L) mn mx then Raise SearchError else Ret (map Some M)
  end.
Proof. exact relative_spec_any_sep. Qed.
Print Assumptions C09_relative_spec_any_sep.

Theorem C09_relative_single_any_sep : forall w sep p s path,
  sep <> [] -> locate w p = Some s -> startswith path sep = false ->
  match denote w (contains (cstrip sep path) s_star) (split (cstrip sep path) sep) p with
  | None => find_relative_path sep s path = Raise SearchError
  | Some [] => find_relative_path sep s path = Ret None
  | Some [q] => exists n, locate w q = Some n /\ find_relative_path sep s path = Ret (Some n)
  | Some (_ :: _ :: _) => find_relative_path sep s path = Raise SearchError
  end.
Proof. exact relative_single_any_sep. Qed.
Print Assumptions C09_relative_single_any_sep.

(* C09_relative_absolute_multi without `clean` *)
Theorem C09_relative_absolute_any : forall w sep p s path mn mx,
  sep <> [] -> names_sfree w sep = true -> sibling_names_unique w = true -> locate w p = Some s ->
  startswith path sep = true ->
  find_relative_paths sep s path mn mx
  = (if negb (str_eqb (hd [] (split (cstrip sep path) sep)) (tname w)) then Raise ValueError
     else Ret [full_path_node w sep (cstrip sep path)])
  /\ find_relative_path sep s path
     = (if negb (str_eqb (hd [] (split (cstrip sep path) sep)) (tname w)) then Raise ValueError
        else Ret (full_path_node w sep (cstrip sep path))).
Proof. exact relative_absolute_any. Qed.
Print Assumptions C09_relative_absolute_any.

(* ---- find_path(s), every tree, every query ---------------------------------------------------------- *)

(* C09_path_suffix_multi without `ends_ok`: the filter of find_path(s) is the property's suffix condition
   for the query `rstrip path sep` *)
Theorem C09_path_suffix_any : forall w sep path q n,
  sep <> [] -> locate w q = Some n ->
  path_ends sep (rstrip path sep) n = sat_path w sep (rstrip path sep) q.
Proof. exact path_suffix_any. Qed.
Print Assumptions C09_path_suffix_any.

(* ---- non-vacuity: queries that violate the K3 guard --------------------------------------------- *)

Definition L (i : nat) (nm : N) (ks : list tree) : tree := T (Some i) [nm] [] ks.
(* a(b(d, e(g, h)), c(f)) — the fixture of tests/tree/test_search.py *)
Definition w0 : tree :=
  L 0 97 [L 1 98 [L 2 100 []; L 3 101 [L 4 103 []; L 5 104 []]]; L 6 99 [L 7 102 []]].
Definition arrow : str := [45; 62]%N.

(* separator "->", start node e.
   full path  "->a->b->e->h-"  (stray '-' at the end): not clean; stripped to "a->b->e->h", which is
     not what trim leaves ("a->b->e->h-"); find_full_path returns h (object 5), the node whose full path
     is the STRIPPED query; no node has the trimmed query as its full path (this is K3);
   relative   "..->..->*>"     (stray '>'): not clean; stripped to "..->..->*"; resolves to b and c;
   suffix     "e->h>-"         : rstrip gives "e->h"; find_paths returns h. *)
Example C09_more3_nonvacuous :
  let fp := [45; 62; 97; 45; 62; 98; 45; 62; 101; 45; 62; 104; 45]%N in
  let rp := [46; 46; 45; 62; 46; 46; 45; 62; 42; 62]%N in
  let sp := [101; 45; 62; 104; 62; 45]%N in
  names_sfree w0 arrow = true /\ sibling_names_unique w0 = true
  /\ clean arrow fp = false /\ clean arrow rp = false /\ ends_ok arrow (trim_right arrow sp) = false
  /\ cstrip arrow fp = [97; 45; 62; 98; 45; 62; 101; 45; 62; 104]%N
  /\ trim arrow fp = [97; 45; 62; 98; 45; 62; 101; 45; 62; 104; 45]%N
  /\ full_path_nodes w0 arrow fp = []
  /\ full_path_nodes w0 arrow (cstrip arrow fp) = [[0; 1; 1]]
  /\ startswith rp arrow = false
  /\ cstrip arrow rp = [46; 46; 45; 62; 46; 46; 45; 62; 42]%N
  /\ denote w0 (contains (cstrip arrow rp) s_star) (split (cstrip arrow rp) arrow) [0; 1] = Some [[0]; [1]]
  /\ rstrip sp arrow = [101; 45; 62; 104]%N
  /\ exists s, locate w0 [0; 1] = Some s
     /\ obs_of (run_query arrow s (QFindFullPath fp)) = ONode (Some 5)
     /\ obs_of (run_query arrow s (QFindRelPaths rp 0 0)) = ONodes [Some 1; Some 6]
     /\ obs_of (run_query arrow s (QFindRelPath rp)) = OErr (exn_code SearchError)
     /\ obs_of (run_query arrow s (QFindPaths sp)) = ONodes [Some 5].
Proof. vm_compute. repeat split. eexists. repeat split. Qed.
