(* C06, tabular half: "every export contains exactly one record per selected node, in pre-order or
   nested as the tree is, with the node's exact name, path, parent name and requested attribute
   values; feeding a full export to the matching constructor returns a tree equal to the original in
   names, shape, sibling order and exported attributes."
   Model: Algo/Export.v (export.py:802-1160, construct.py); specification: Spec/PC06.v.
   (The textual half -- Newick, printed tree -- is Props/C06_text.v.) *)
From BT Require Import Base.Prelude Base.Str Base.StrSep Base.Rose Algo.Export Spec.PC06 Algo.ExportProofs.

(* ---------------------------------------------------------------------------------------------- *)
(* completeness of the exports: one record per selected node, in pre-order *)

(* tree_to_dict, started at the node at position p of the tree `root`: the dict whose items are
   (path, record) for the selected nodes in pre-order (the dict constructor of a list of items) *)
Theorem C06_dict_records_general : forall root sep p o,
  tree_to_dict root sep p o
  = match spec_dict root sep p o with Some d => Ret d | None => Raise Unmodelled end.
Proof. exact tree_to_dict_spec. Qed.
Print Assumptions C06_dict_records_general.

(* tree_to_dict ... = map record (filter selected (nodes in pre-order)), when the paths are distinct
   (guard discharged by C06_paths_distinct for Node trees whose names avoid the separator) *)
Theorem C06_dict_records : forall root sep p o ns,
  nodes_from root p = Some ns ->
  NoDup (map (c_path sep) (filter (selected o) ns)) ->
  tree_to_dict root sep p o
  = Ret (map (fun c => (c_path sep c, dict_record o c)) (filter (selected o) ns)).
Proof. exact tree_to_dict_map. Qed.
Print Assumptions C06_dict_records.

Theorem C06_paths_distinct : forall c t,
  valid_tree t = true -> sep_safe [c] t = true -> NoDup (map (c_path [c]) (nodes_under [] t)).
Proof. exact paths_nodup_1. Qed.
Print Assumptions C06_paths_distinct.

(* the same with the guard discharged, for any start node of a Node tree (non-empty names, distinct
   sibling names) and a single-character separator c occurring in no name: tree_to_dict returns
   exactly one (path, record) item per selected node below the start node, in pre-order; depth, path
   and parent are those inside the whole tree *)
Theorem C06_dict_records_node_tree : forall c root p o t,
  valid_tree root = true -> sep_safe [c] root = true -> subtree_at root p = Some t ->
  tree_to_dict root [c] p o
  = Ret (map (fun x => (c_path [c] x, dict_record o x))
             (filter (selected o) (nodes_under (anc_names root p) t))).
Proof. exact tree_to_dict_records_1. Qed.
Print Assumptions C06_dict_records_node_tree.

(* the decision used by the check holds of the model for every input *)
Theorem C06_dict_prop : forall root sep p o,
  prop_C06_dict root sep p o (res_map canon_dict (tree_to_dict root sep p o)) = true.
Proof. exact prop_dict_model. Qed.
Print Assumptions C06_dict_prop.

(* tree_to_nested_dict mirrors the tree cut below max_depth, every node replaced by its record; the
   call fails (KeyError) exactly when the start node itself lies below max_depth *)
Theorem C06_nested_mirror : forall root p o,
  tree_to_nested_dict root p o
  = match subtree_at root p with
    | None => Raise Unmodelled
    | Some _ => match spec_nested root p o with Some d => Ret d | None => Raise KeyError end
    end.
Proof. exact tree_to_nested_dict_spec. Qed.
Print Assumptions C06_nested_mirror.

Theorem C06_nested_prop : forall root p o, subtree_at root p <> None ->
  prop_C06_nested root p o (res_map canon_nested (tree_to_nested_dict root p o)) = true.
Proof. exact prop_nested_model. Qed.
Print Assumptions C06_nested_prop.

(* tree_to_dataframe / tree_to_polars: the frame of the records of the selected nodes in pre-order *)
Theorem C06_dataframe_rows : forall root sep p o,
  tree_to_dataframe root sep p o
  = match spec_frame root sep p o with Some d => Ret d | None => Raise Unmodelled end.
Proof. exact tree_to_dataframe_spec. Qed.
Print Assumptions C06_dataframe_rows.

Theorem C06_polars_rows : forall root sep p o,
  tree_to_polars root sep p o
  = match spec_frame root sep p o with Some d => Ret d | None => Raise Unmodelled end.
Proof. exact tree_to_dataframe_spec. Qed.
Print Assumptions C06_polars_rows.

Theorem C06_dataframe_prop : forall root sep p o,
  prop_C06_frame root sep p o (res_map canon_rows (tree_to_dataframe root sep p o)) = true.
Proof. exact prop_frame_model. Qed.
Print Assumptions C06_dataframe_prop.

(* ---------------------------------------------------------------------------------------------- *)
(* round trips *)

(* dict_to_tree (tree_to_dict t, all_attrs=True) for a single-character separator c that occurs in
   no name: the original tree, attributes restricted to the exported (public) ones *)
Theorem C06_dict_roundtrip : forall c t,
  valid_tree t = true -> sep_safe [c] t = true -> rt_dict t [c] = Ret (norm_tree false t).
Proof. exact rt_dict_ok_1. Qed.
Print Assumptions C06_dict_roundtrip.

Theorem C06_dict_roundtrip_prop : forall c t, prop_rt_path false [c] t (rt_dict t [c]) = true.
Proof. exact prop_rt_dict_model. Qed.
Print Assumptions C06_dict_roundtrip_prop.

(* nested_dict_to_tree (tree_to_nested_dict t, all_attrs=True): no condition on the names *)
Theorem C06_nested_roundtrip : forall t,
  valid_tree t = true -> rt_nested t = Ret (norm_tree false t).
Proof. exact rt_nested_ok. Qed.
Print Assumptions C06_nested_roundtrip.

Theorem C06_nested_roundtrip_prop : forall t, prop_rt_nested t (rt_nested t) = true.
Proof. exact prop_rt_nested_model. Qed.
Print Assumptions C06_nested_roundtrip_prop.

(* dataframe_to_tree (tree_to_dataframe t, all_attrs=True) and the polars pair (same code): the
   original tree with the public, non-null attributes -- a frame cannot hold "attribute absent" apart
   from null, and dataframe_to_tree documents that null cells are not set.  Attribute order is the
   column order of the frame, so trees are compared with their attributes sorted by key.
   Guards: single-character separator in no name, no attribute called "path" (the path column). *)
Theorem C06_dataframe_roundtrip : forall c t,
  valid_tree t = true -> sep_safe [c] t = true -> frame_safe t = true ->
  res_map sort_tree (rt_frame t [c]) = Ret (norm_tree true t).
Proof. exact rt_frame_ok_1. Qed.
Print Assumptions C06_dataframe_roundtrip.

Theorem C06_dataframe_roundtrip_prop : forall c t, prop_rt_path true [c] t (rt_frame t [c]) = true.
Proof. exact prop_rt_frame_model. Qed.
Print Assumptions C06_dataframe_roundtrip_prop.

Theorem C06_polars_roundtrip : forall c t,
  valid_tree t = true -> sep_safe [c] t = true -> frame_safe t = true ->
  res_map sort_tree (bind (tree_to_polars t [c] [] full_opts) (fun d => polars_to_tree d [c]))
  = Ret (norm_tree true t).
Proof. exact rt_frame_ok_1. Qed.
Print Assumptions C06_polars_roundtrip.

(* ---------------------------------------------------------------------------------------------- *)
(* separators of ANY positive length.  Guard sep_free sp t: sp <> [] and no CHARACTER of sp occurs in
   a name of t (C06_sep_free_spec); for a one-character separator this is sep_safe, and the theorems
   above are the special cases.  The character-wise guard is exactly what str.lstrip(sep) /
   str.rstrip(sep) (character-SET semantics) need; with the weaker substring guard the clause is
   false (C06_dict_roundtrip_multichar_refuted, finding K3-C06). *)
Theorem C06_sep_free_spec : forall sp t,
  sep_free sp t = true <-> sp <> [] /\ forall n, In n (pre t) -> sfree sp (tname n).
Proof. exact sep_free_spec. Qed.
Print Assumptions C06_sep_free_spec.

Theorem C06_paths_distinct_multi : forall sp t,
  valid_tree t = true -> sep_free sp t = true -> NoDup (map (c_path sp) (nodes_under [] t)).
Proof. exact paths_nodup. Qed.
Print Assumptions C06_paths_distinct_multi.

Theorem C06_dict_records_node_tree_multi : forall sp root p o t,
  valid_tree root = true -> sep_free sp root = true -> subtree_at root p = Some t ->
  tree_to_dict root sp p o
  = Ret (map (fun x => (c_path sp x, dict_record o x))
             (filter (selected o) (nodes_under (anc_names root p) t))).
Proof. exact tree_to_dict_records. Qed.
Print Assumptions C06_dict_records_node_tree_multi.

Theorem C06_dict_roundtrip_multi : forall sp t,
  valid_tree t = true -> sep_free sp t = true -> rt_dict t sp = Ret (norm_tree false t).
Proof. exact rt_dict_ok. Qed.
Print Assumptions C06_dict_roundtrip_multi.

Theorem C06_dict_roundtrip_multi_prop : forall sp t,
  sep_free sp t = true -> prop_rt_path false sp t (rt_dict t sp) = true.
Proof. exact prop_rt_dict_multi. Qed.
Print Assumptions C06_dict_roundtrip_multi_prop.

Theorem C06_dataframe_roundtrip_multi : forall sp t,
  valid_tree t = true -> sep_free sp t = true -> frame_safe t = true ->
  res_map sort_tree (rt_frame t sp) = Ret (norm_tree true t).
Proof. exact rt_frame_ok. Qed.
Print Assumptions C06_dataframe_roundtrip_multi.

Theorem C06_dataframe_roundtrip_multi_prop : forall sp t,
  sep_free sp t = true -> prop_rt_path true sp t (rt_frame t sp) = true.
Proof. exact prop_rt_frame_multi. Qed.
Print Assumptions C06_dataframe_roundtrip_multi_prop.

Theorem C06_polars_roundtrip_multi : forall sp t,
  valid_tree t = true -> sep_free sp t = true -> frame_safe t = true ->
  res_map sort_tree (bind (tree_to_polars t sp [] full_opts) (fun d => polars_to_tree d sp))
  = Ret (norm_tree true t).
Proof. exact rt_frame_ok. Qed.
Print Assumptions C06_polars_roundtrip_multi.

(* ---------------------------------------------------------------------------------------------- *)
(* non-vacuity, and the separator guard is needed *)

Definition ex_str (l : list N) : str := l.
Definition ex_tree : tree :=           (* a(age=90) [ b(age=65, _h=1) [ d ; e [ g ] ] ; c(w=None) ] *)
  T None [97]%N [([97; 103; 101]%N, VInt 90)]
    [T None [98]%N [([97; 103; 101]%N, VInt 65); ([95; 104]%N, VInt 1)]
       [T None [100]%N [] []; T None [101]%N [] [T None [103]%N [] []]];
     T None [99]%N [([119]%N, VNone)] []].

Example C06_guards_satisfiable :
  valid_tree ex_tree = true /\ sep_safe [47]%N ex_tree = true /\ tsize ex_tree = 6
  /\ exists ns, nodes_from ex_tree [0] = Some ns
                /\ NoDup (map (c_path [47]%N) (filter (selected (Opts s_name [112]%N [] [] true 3 1 false)) ns))
                /\ length (filter (selected (Opts s_name [112]%N [] [] true 3 1 false)) ns) = 3.
Proof.
  split; [reflexivity|]. split; [reflexivity|]. split; [reflexivity|].
  eexists. split; [reflexivity|]. split; [|reflexivity].
  vm_compute. repeat constructor; cbn; intuition discriminate.
Qed.

(* K3: with the two-character separator "->" no name contains the separator, yet the leaf "a-" comes
   back as "a" because lstrip/rstrip strip the character set {'-', '>'} *)
Definition k3_tree : tree :=
  T None [114]%N [] [T None [97; 45]%N [([97; 103; 101]%N, VInt 1)] []; T None [98]%N [] []].

Example C06_dict_roundtrip_multichar_refuted :
  exists sep t, valid_tree t = true /\ sep_safe sep t = true
                /\ prop_rt_path false sep t (rt_dict t sep) = false.
Proof. exists [45; 62]%N, k3_tree. vm_compute. repeat split. Qed.

(* a name containing the separator is outside the alphabet: the round trip is then not claimed *)
Example C06_sep_in_name_not_claimed :
  let t := T None [97]%N [] [T None [120; 47; 121]%N [] []] in
  sep_safe [47]%N t = false /\ same_tree false t (rt_dict t [47]%N) = false.
Proof. vm_compute. split; reflexivity. Qed.

(* frames: a None-valued attribute does not come back (documented: null cells are not set), which is
   why the frame round trip is stated against norm_tree true *)
Example C06_dataframe_null_not_restored :
  valid_tree ex_tree = true /\ sep_safe [47]%N ex_tree = true /\ frame_safe ex_tree = true
  /\ same_tree false ex_tree (rt_frame ex_tree [47]%N) = false
  /\ same_tree true ex_tree (rt_frame ex_tree [47]%N) = true.
Proof. vm_compute. repeat split. Qed.

(* the multi-character guard is satisfiable on a non-trivial tree, for the separators the harness
   draws ("->", "::", "-|-"), and it fails on the K3 witness *)
Example C06_multi_guard_satisfiable :
  valid_tree ex_tree = true /\ sep_free [45; 62]%N ex_tree = true /\ sep_free [58; 58]%N ex_tree = true
  /\ sep_free [45; 124; 45]%N ex_tree = true
  /\ rt_dict ex_tree [45; 62]%N = Ret (norm_tree false ex_tree)
  /\ sep_free [45; 62]%N k3_tree = false.
Proof. vm_compute. repeat split. Qed.

(* ---------------------------------------------------------------------------------------------- *)
(* frames, exactly *)

(* (1) nulls: the re-imported tree is the (public part of the) source tree with exactly the null-valued
   attributes removed.  In the frame model a missing cell and a None cell are the same null, which is
   what pandas / polars hand to the constructor. *)
Theorem C06_dataframe_roundtrip_nulls : forall sp t,
  valid_tree t = true -> sep_free sp t = true -> frame_safe t = true ->
  res_map sort_tree (rt_frame t sp) = Ret (strip_nulls (norm_tree false t)).
Proof. exact rt_frame_nulls. Qed.
Print Assumptions C06_dataframe_roundtrip_nulls.

Theorem C06_polars_roundtrip_nulls : forall sp t,
  valid_tree t = true -> sep_free sp t = true -> frame_safe t = true ->
  res_map sort_tree (bind (tree_to_polars t sp [] full_opts) (fun d => polars_to_tree d sp))
  = Ret (strip_nulls (norm_tree false t)).
Proof. exact rt_frame_nulls. Qed.
Print Assumptions C06_polars_roundtrip_nulls.

Example C06_nulls_nonvacuous :
  strip_nulls (norm_tree false ex_tree) <> norm_tree false ex_tree
  /\ res_map sort_tree (rt_frame ex_tree [47]%N) = Ret (strip_nulls (norm_tree false ex_tree)).
Proof. split; [vm_compute; discriminate|vm_compute; reflexivity]. Qed.

(* (2) attribute order.  The columns of a frame are the keys of its records in order of FIRST
   appearance over the pre-order traversal ... *)
Theorem C06_frame_columns_first_seen : forall rows,
  frame_columns rows = first_seen [] (map fst (concat rows)).
Proof. exact frame_columns_first_seen. Qed.
Print Assumptions C06_frame_columns_first_seen.

(* ... and after the round trip every node carries, in COLUMN order, exactly its non-null cells of the
   attribute columns: no sorting, the exact tree *)
Theorem C06_dataframe_attr_order : forall sp t,
  valid_tree t = true -> sep_free sp t = true -> frame_safe t = true ->
  rt_frame t sp = Ret (retree (reimported_attrs sp t) t).
Proof. exact rt_frame_order. Qed.
Print Assumptions C06_dataframe_attr_order.

(* the column order is NOT the per-node key order: b's `zz` is seen before c's `aa` *)
Definition order_tree : tree :=
  T None [97]%N [] [T None [98]%N [([122; 122]%N, VInt 1)] [];
                    T None [99]%N [([97; 97]%N, VInt 2); ([122; 122]%N, VInt 3)] []].
Example C06_attr_order_nonvacuous :
  valid_tree order_tree = true /\ sep_free [47]%N order_tree = true /\ frame_safe order_tree = true
  /\ export_columns [47]%N order_tree = [s_path; s_name; [122; 122]%N; [97; 97]%N]
  /\ rt_frame order_tree [47]%N
     = Ret (T None [97]%N [] [T None [98]%N [([122; 122]%N, VInt 1)] [];
                              T None [99]%N [([122; 122]%N, VInt 3); ([97; 97]%N, VInt 2)] []]).
Proof. vm_compute. repeat split. Qed.

(* ---------------------------------------------------------------------------------------------- *)
(* (3) partial exports.  The exported records are exactly those of the selected nodes
   (C06_dict_records_node_tree_multi, C06_dataframe_rows, C06_nested_mirror).  Re-import: *)

(* max_depth only, from the root: the selected set is ancestor-closed, and the constructor returns the
   tree induced on it -- the source cut below max_depth *)
Theorem C06_dict_roundtrip_max_depth : forall sp m t,
  valid_tree t = true -> sep_free sp t = true ->
  bind (tree_to_dict t sp [] (depth_opts m)) (fun d => dict_to_tree d sp)
  = Ret (norm_tree false (prune m t)).
Proof. exact rt_dict_depth. Qed.
Print Assumptions C06_dict_roundtrip_max_depth.

Example C06_max_depth_nonvacuous :
  tsize (prune 1 ex_tree) = 3 /\ tsize ex_tree = 6
  /\ bind (tree_to_dict ex_tree [47]%N [] (depth_opts 1)) (fun d => dict_to_tree d [47]%N)
     = Ret (norm_tree false (prune 1 ex_tree)).
Proof. vm_compute. repeat split. Qed.

(* otherwise the selected set is not ancestor-closed and dict_to_tree re-creates the missing ancestors
   as BARE nodes (no attributes); shapes on the model, replayed on /repo (same trees):
   skip_depth=2 -> a[b[d, e[g]]] all bare, c gone;  leaf_only -> a[b[d, e[g]], c(w=None)], a b e bare;
   inner start b -> a bare, below it the subtree of b with its attributes *)
Definition reimport (o : opts) (p : pos) : res tree :=
  bind (tree_to_dict ex_tree [47]%N p o) (fun d => dict_to_tree d [47]%N).
Definition bare (n : N) (ks : list tree) : tree := T None [n] [] ks.
Example C06_partial_reimport_shapes :
  reimport (Opts s_name [] s_path [] true 0 2 false) []
    = Ret (bare 97 [bare 98 [bare 100 []; bare 101 [bare 103 []]]])
  /\ reimport (Opts s_name [] s_path [] true 0 0 true) []
    = Ret (bare 97 [bare 98 [bare 100 []; bare 101 [bare 103 []]]; T None [99]%N [([119]%N, VNone)] []])
  /\ reimport full_opts [0]
    = Ret (bare 97 [T None [98]%N [([97; 103; 101]%N, VInt 65)] [bare 100 []; bare 101 [bare 103 []]]]).
Proof. vm_compute. repeat split. Qed.

(* ---------------------------------------------------------------------------------------------- *)
(* (4) umbrella: every observation of a case -- four exports from any start node under any options,
   four round trips -- satisfies the property decision on the model *)
Theorem C06_all_formats : forall sp root p o,
  subtree_at root p <> None -> sep_free sp root = true ->
  prop_C06_all root sp p o
    (res_map canon_dict (tree_to_dict root sp p o)) (res_map canon_nested (tree_to_nested_dict root p o))
    (res_map canon_rows (tree_to_dataframe root sp p o)) (res_map canon_rows (tree_to_polars root sp p o))
    (rt_dict root sp) (rt_nested root) (rt_frame root sp) (rt_frame root sp) = true.
Proof. exact prop_all_model. Qed.
Print Assumptions C06_all_formats.

(* one-character separators: no guard at all (prop_rt_path carries the substring guard itself) *)
Theorem C06_all_formats_onechar : forall c root p o,
  subtree_at root p <> None ->
  prop_C06_all root [c] p o
    (res_map canon_dict (tree_to_dict root [c] p o)) (res_map canon_nested (tree_to_nested_dict root p o))
    (res_map canon_rows (tree_to_dataframe root [c] p o)) (res_map canon_rows (tree_to_polars root [c] p o))
    (rt_dict root [c]) (rt_nested root) (rt_frame root [c]) (rt_frame root [c]) = true.
Proof. exact prop_all_model_1. Qed.
Print Assumptions C06_all_formats_onechar.

Example C06_all_formats_nonvacuous :
  subtree_at ex_tree [0; 1] <> None /\ sep_free [45; 62]%N ex_tree = true /\ valid_tree ex_tree = true
  /\ frame_safe ex_tree = true /\ sep_safe [45; 62]%N ex_tree = true.
Proof. vm_compute. repeat split. discriminate. Qed.
