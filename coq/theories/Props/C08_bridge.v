(* C08 / C01 bridge: the reference-addressed forest surgery that the shift/copy model of C08 is built on
   (`move` = remove the subtree at a reference, append it below another) is, on forests with pairwise
   distinct object tags, the tag-addressed surgery `graft p sub (cut c .)` that C01 proves of the real
   parent setter on the pointer heap; and running the C08 model's `move` on the rose tree hanging below a
   heap node gives the rose tree hanging below it after the C01 heap model's parent assignment.
   So the C08 theorems about sequences of moves speak about the same edits as the structural API.
   Proofs: Algo/ModifySurgery.v. *)
From BT Require Import Base.Prelude Base.Str Base.Rose Heap.Forest Heap.ForestWF Heap.ForestStep Heap.Abs Heap.AbsSurgery
     Algo.Modify Algo.ModifySurgery.

Theorem C08_remove_is_cut : forall c x (f : list tree) sub,
  NoDup (ftags f) -> fget x f = Some sub -> ttag sub = Some c -> fremove x f = cutf c f.
Proof. exact fremove_is_cut. Qed.
Print Assumptions C08_remove_is_cut.

Theorem C08_append_is_graft : forall p u q (f : list tree) tq,
  NoDup (ftags f) -> fget q f = Some tq -> ttag tq = Some p -> fappend q u f = graftf p u f.
Proof. exact fappend_is_graft. Qed.
Print Assumptions C08_append_is_graft.

Theorem C08_cut_keeps_tags_distinct : forall c f, NoDup (ftags f) -> NoDup (ftags (cutf c f)).
Proof. exact cutf_nodup. Qed.
Print Assumptions C08_cut_keeps_tags_distinct.

Theorem C08_move_is_tag_surgery : forall nr (f : list tree) x q sub tq c p f' trk,
  NoDup (ftags f) ->
  fget x f = Some sub -> ttag sub = Some c ->
  fget q f = Some tq -> ttag tq = Some p ->
  move nr f x (Some q) = MvOk f' trk ->
  f' = graftf p sub (cutf c f).
Proof. exact move_ok_is_surgery. Qed.
Print Assumptions C08_move_is_tag_surgery.

Theorem C08_detach_is_cut : forall nr (f : list tree) x sub c f' trk,
  NoDup (ftags f) -> fget x f = Some sub -> ttag sub = Some c -> (2 <= length x)%nat ->
  move nr f x None = MvOk f' trk ->
  f' = cutf c f ++ [sub].
Proof. exact move_none_is_cut. Qed.
Print Assumptions C08_detach_is_cut.

Theorem C08_move_commutes_with_heap_setter : forall s r c p x q sub tq f' trk,
  WF s -> c < size s -> p < size s -> p <> c -> ~ In c (ancestors s p) ->
  ~ In (Some r) (tags (subtree s c)) ->
  fget x [subtree s r] = Some sub -> ttag sub = Some c ->
  fget q [subtree s r] = Some tq -> ttag tq = Some p ->
  move 1 [subtree s r] x (Some q) = MvOk f' trk ->
  f' = [subtree (Forest.attach s c (Some p)) r].
Proof. exact move_commutes_with_attach. Qed.
Print Assumptions C08_move_commutes_with_heap_setter.

(* non-vacuity: heap r(0) with children 1,2,3 and 4 below 2 (names a0..a4 distinct);
   `2.parent = 1` through the heap setter and through the reference model agree *)
Example C08_bridge_nonvacuous :
  let cfg := {| assertions := true; is_node := false |} in
  let s := Forest.run cfg (Forest.init 5 (fun i => [N.of_nat (97 + i)]) (fun _ => [47%N]))
               [SetChildren 0 CList [ANode 1; ANode 2; ANode 3] NoFault; SetParent 4 (ANode 2) NoFault] in
  option_map ttag (fget [0; 1] [subtree s 0]) = Some (Some 2)
  /\ option_map ttag (fget [0; 0] [subtree s 0]) = Some (Some 1)
  /\ match move 1 [subtree s 0] [0; 1] (Some [0; 0]) with
     | MvOk f' _ => f' = [subtree (Forest.attach s 2 (Some 1)) 0]
     | MvErr _ => False
     end.
Proof. vm_compute. repeat split; reflexivity. Qed.
