(* C05 — the entry points that Props/C05.v leaves outside the umbrella theorems.

   prop_C05 (Spec/PC05.v) is the predicate the correspondence check evaluates on every implementation
   output.  Props/C05.v proves `prop_C05 k i (run k i) = true` (the predicate holds of the model's own
   output, accepted and refused inputs alike, either duplicate_name_allowed) for KList, KDict, KAddPath
   and KAddDict only.  This file closes the other seven kinds of the property's entry-point list:

   PART I   KNameDict / KNameFrame / KNamePolars (add_dict_to_tree_by_name, add_dataframe_to_tree_by_name,
            add_polars_to_tree_by_name; prop_C05 = prop_byname), ANY start node of ANY tree;
   PART II  KAddFrame / KAddPolars (add_dataframe_to_tree_by_path, add_polars_to_tree_by_path) and
            KFrame / KPolars (dataframe_to_tree, polars_to_tree), separators of any positive length
            under exactly the guards of the existing _multi theorems (PG on every path string,
            nodup_guard when duplicates are disallowed), and unguarded for one-character separators;
   PART III one statement for all eleven kinds (one-character separator).
   Proofs: Algo/C05More.v.

   Hypotheses of PART I (each one is needed, see the _refuted examples):
   - i_sep i <> []                      run answers Unmodelled for the empty separator (all kinds);
   - attrs_wf (i_tree i)                attribute dicts of the existing tree have distinct keys (dicts);
   - subtree_at .. (i_start i) = Some   the start node is a node of the tree;
   - KNameDict: NoDup keys              the argument is a Python dict (true of eff_input, second theorem);
   - frame kinds: pcol_guard            the name column is not among the attribute columns;
   - KNamePolars: polars_modelled       polars raises inside rows_by_key on a non-empty frame with no
                                        attribute column at all: outside the modelled domain. *)
From BT Require Import Base.Prelude Base.Str Base.StrSep Base.Rose Algo.Construct Spec.PC05 Algo.ConstructProofs
     Algo.C05More.

Theorem C05_model_satisfies_prop_name_dict : forall i sub,
  i_sep i <> [] -> attrs_wf (i_tree i) -> subtree_at (i_tree i) (i_start i) = Some sub ->
  NoDup (map fst (i_rows i)) ->
  prop_C05 KNameDict i (run KNameDict i) = true.
Proof. exact model_satisfies_name_dict. Qed.
Print Assumptions C05_model_satisfies_prop_name_dict.

(* what the harness really passes: dict(rows); no hypothesis on the rows at all *)
Theorem C05_model_satisfies_prop_name_dict_eff : forall i sub,
  i_sep i <> [] -> attrs_wf (i_tree i) -> subtree_at (i_tree i) (i_start i) = Some sub ->
  prop_C05 KNameDict (eff_input KNameDict i) (run KNameDict (eff_input KNameDict i)) = true.
Proof. exact model_satisfies_name_dict_eff. Qed.
Print Assumptions C05_model_satisfies_prop_name_dict_eff.

Theorem C05_model_satisfies_prop_name_frame : forall i sub,
  i_sep i <> [] -> attrs_wf (i_tree i) -> subtree_at (i_tree i) (i_start i) = Some sub ->
  pcol_guard (i_pcol i) (i_rows i) ->
  prop_C05 KNameFrame i (run KNameFrame i) = true.
Proof. exact model_satisfies_name_frame. Qed.
Print Assumptions C05_model_satisfies_prop_name_frame.

Theorem C05_model_satisfies_prop_name_polars : forall i sub,
  i_sep i <> [] -> attrs_wf (i_tree i) -> subtree_at (i_tree i) (i_start i) = Some sub ->
  pcol_guard (i_pcol i) (i_rows i) -> polars_modelled (i_rows i) = true ->
  prop_C05 KNamePolars i (run KNamePolars i) = true.
Proof. exact model_satisfies_name_polars. Qed.
Print Assumptions C05_model_satisfies_prop_name_polars.

Theorem C05_model_satisfies_prop_byname : forall k i sub,
  is_byname k = true ->
  i_sep i <> [] -> attrs_wf (i_tree i) -> subtree_at (i_tree i) (i_start i) = Some sub ->
  (k = KNameDict -> NoDup (map fst (i_rows i))) ->
  (is_frame k = true -> pcol_guard (i_pcol i) (i_rows i)) ->
  (k = KNamePolars -> polars_modelled (i_rows i) = true) ->
  prop_C05 k i (run k i) = true.
Proof. exact model_satisfies_byname. Qed.
Print Assumptions C05_model_satisfies_prop_byname.

(* Prop-level companion of C05_by_name_exact for ANY start node p of the whole tree t (the node handed
   over is sub = node at p): seen from the root nothing moves, no node object is replaced, exactly the
   nodes at or below p get the attributes of the entry carrying their name (name_attrs: dict.update
   minus the key "name"), every other node - ancestors and cousins of p - keeps its attributes *)
Theorem C05_by_name_any_start : forall d t p sub,
  subtree_at t p = Some sub ->
  let t' := upd_at p (fun _ => by_name_apply d sub) t in
  paths t' = paths t
  /\ map ttag (pre t') = map ttag (pre t)
  /\ all_pos t' = all_pos t
  /\ (forall q s, subtree_at t q = Some s ->
        exists s', subtree_at t' q = Some s' /\
                   tattrs s' = if has_prefix p q then name_attrs d s else tattrs s).
Proof. exact by_name_any_start. Qed.
Print Assumptions C05_by_name_any_start.

(* the specification's reading of a frame (fold over ALL rows naming the node, Spec/PC05.v) and the
   code's (drop_duplicates: the FIRST row of the name) agree as maps up to the value comparison of the
   specification, whenever the duplicate-attribute check lets the frame through *)
Theorem C05_by_name_frame_fold : forall pcol rows s,
  pcol_guard pcol rows -> has_duplicate_attribute rows = false -> NoDup (map fst (tattrs s)) ->
  attrs_equiv (name_attrs (frame_name_attrs rows) s)
              (spec_fold (frame_filter pcol) rows (tname s) (tattrs s)) = true.
Proof. exact node_frame. Qed.
Print Assumptions C05_by_name_frame_fold.

(* the refusal verdict of the frame variants is the specification's `conflict` *)
Theorem C05_by_name_conflict : forall rows, conflict str_eqb rows = has_duplicate_attribute rows.
Proof. exact conflict_has_dup. Qed.
Print Assumptions C05_by_name_conflict.

(* ---- non-vacuity ---------------------------------------------------------------------------- *)
Definition mx_a : str := [97]%N.
Definition mx_b : str := [98]%N.
Definition mx_c : str := [99]%N.
Definition mx_P : str := [80]%N.
(* a(c=9) -> [ b -> [a] ; c(b=1) -> [b] ] *)
Definition mx_tree : tree :=
  T (Some 0) mx_a [(mx_c, VInt 9)]
    [T (Some 1) mx_b [] [T (Some 3) mx_a [] []];
     T (Some 2) mx_c [(mx_b, VInt 1)] [T (Some 4) mx_b [] []]].
Definition mx_in (rows : list row) (start : pos) : input := MkIn [47]%N true mx_tree [47]%N start mx_P rows.

(* the hypothesis attrs_wf holds of the example tree (boolean test attrs_wf_b) *)
Example C05_byname_wf_nonvacuous : attrs_wf mx_tree /\ subtree_at mx_tree [1] <> None.
Proof. split; [apply attrs_wf_b; vm_compute; reflexivity|vm_compute; discriminate]. Qed.

(* start node = /a/c: only the b below c is touched, the b below the root is not; the key "name" is
   dropped; the hypotheses of the theorem hold of this input *)
Example C05_byname_nonvacuous :
  let rows := [(mx_b, [(mx_c, VInt 1); (k_name, VInt 3)]); (mx_a, [(mx_c, VInt 2)])] in
  let i := mx_in rows [1] in
  o_res (run KNameDict i) = None
  /\ o_tree (run KNameDict i)
     = Some (T (Some 0) mx_a [(mx_c, VInt 9)]
               [T (Some 1) mx_b [] [T (Some 3) mx_a [] []];
                T (Some 2) mx_c [(mx_b, VInt 1)] [T (Some 4) mx_b [(mx_c, VInt 1)] []]])
  /\ keys_ok KNameDict i = true /\ nodup_path (paths (i_tree i)) = true
  /\ nodup_str (map fst rows) = true
  /\ prop_C05 KNameDict i (run KNameDict i) = true.
Proof. vm_compute. auto 8. Qed.

(* frames: two equal rows for b (float 1/2 = 2/4 for the check) and a null cell are accepted, the
   null is dropped; two different rows are refused and the tree is left alone *)
Example C05_byname_frame_nonvacuous :
  let rows := [(mx_b, [(mx_c, VFloat 1 2); (mx_a, VNone)]); (mx_b, [(mx_c, VFloat 2 4); (mx_a, VNone)])] in
  let bad := [(mx_b, [(mx_c, VInt 1)]); (mx_b, [(mx_c, VInt 2)])] in
  o_res (run KNameFrame (mx_in rows [])) = None
  /\ option_map (fun t => option_map tattrs (subtree_at t [0])) (o_tree (run KNamePolars (mx_in rows [])))
     = Some (Some [(mx_c, VFloat 1 2)])
  /\ prop_C05 KNameFrame (mx_in rows []) (run KNameFrame (mx_in rows [])) = true
  /\ polars_modelled rows = true
  /\ o_res (run KNameFrame (mx_in bad [])) = Some ValueError
  /\ prop_C05 KNameFrame (mx_in bad []) (run KNameFrame (mx_in bad [])) = true.
Proof. vm_compute. auto 8. Qed.

(* ---- each hypothesis is needed: prop_C05 is FALSE of the model's output without it.  None of these
   is a defect of the library: a Python dict has no repeated key, a frame has no attribute column
   named like its name column, and the last two are the model's Unmodelled answer (the by-name
   functions take no separator; polars' rows_by_key raises inside polars) ---------------------- *)
Example C05_byname_dup_keys_refuted :
  exists i, keys_ok KNameDict i = true /\ prop_C05 KNameDict i (run KNameDict i) = false.
Proof. exists (mx_in [(mx_b, [(mx_c, VInt 1)]); (mx_b, [(mx_c, VInt 2)])] []). vm_compute. auto. Qed.

Example C05_byname_pcol_refuted :
  exists i, keys_ok KNameFrame i = true /\ prop_C05 KNameFrame i (run KNameFrame i) = false.
Proof. exists (mx_in [(mx_b, [(mx_P, VInt 1)])] []). vm_compute. auto. Qed.

Example C05_byname_polars_no_attr_column_refuted :
  exists i, keys_ok KNamePolars i = true /\ prop_C05 KNamePolars i (run KNamePolars i) = false.
Proof. exists (mx_in [(mx_b, [])] []). vm_compute. auto. Qed.

Example C05_byname_bad_start_refuted :
  exists i, keys_ok KNameFrame i = true /\ prop_C05 KNameFrame i (run KNameFrame i) = false.
Proof. exists (mx_in [(mx_b, [])] [5]). vm_compute. auto. Qed.

(* ==== PART II: the DataFrame / polars path entry points ========================================= *)

(* what the frame variants do before the loop, in the vocabulary of the specification:
   (a) stripping the separator's characters off both ends is idempotent and the stripped string is read
       (spec_parse) like the original one, and stays inside the guard PG; *)
Theorem C05_frame_strip_idempotent : forall s sp, sstrip (sstrip s sp) sp = sstrip s sp.
Proof. exact sstrip_fix. Qed.
Print Assumptions C05_frame_strip_idempotent.

Theorem C05_frame_strip_parse : forall sp s,
  sp <> [] -> PG sp s -> spec_parse (sstrip s sp) sp = spec_parse s sp /\ PG sp (sstrip s sp).
Proof. exact PG_sstrip. Qed.
Print Assumptions C05_frame_strip_parse.

(* (b) the duplicate-attribute check, made on the stripped path STRINGS, is the specification's
       `conflict` on the parsed PATHS (split is injective: C05_join_split); *)
Theorem C05_frame_conflict_strip : forall sp, sp <> [] -> forall rows,
  (forall r, In r rows -> PG sp (fst r)) ->
  conflict path_eqb (map (fun r : row => (spec_parse (fst r) sp, snd r)) rows)
  = has_duplicate_attribute (strip_rows rows sp).
Proof. exact conflict_strip. Qed.
Print Assumptions C05_frame_conflict_strip.

Theorem C05_join_split : forall sp s, sp <> [] -> join sp (split s sp) = s.
Proof. exact join_split. Qed.
Print Assumptions C05_join_split.

(* (c) the attribute filter of the frame variants is the documented one, for every dict *)
Theorem C05_frame_attrs_spec : forall pcol a, frame_attrs pcol a = spec_filter KAddFrame pcol a.
Proof. exact frame_attrs_spec. Qed.
Print Assumptions C05_frame_attrs_spec.

(* the umbrella theorems.  Same shape and same guards as C05_model_satisfies_prop_add_dict_multi /
   _dict_multi of Props/C05.v *)
Theorem C05_model_satisfies_prop_add_frame_multi : forall k i,
  (k = KAddFrame \/ k = KAddPolars) ->
  i_sep i <> [] -> (forall r, In r (i_rows i) -> PG (i_sep i) (fst r)) -> attrs_wf (i_tree i) ->
  (guards k i = true -> i_dup i = false ->
   i_tsep i <> [] /\ nodup_guard (i_sep i) (i_tsep i) (i_tree i) (i_rows i)) ->
  prop_C05 k i (run k i) = true.
Proof. exact model_satisfies_add_frame_multi. Qed.
Print Assumptions C05_model_satisfies_prop_add_frame_multi.

Theorem C05_model_satisfies_prop_add_frame : forall k i c,
  (k = KAddFrame \/ k = KAddPolars) ->
  i_sep i = [c] -> attrs_wf (i_tree i) -> (i_dup i = true \/ exists c2, i_tsep i = [c2]) ->
  prop_C05 k i (run k i) = true.
Proof. exact model_satisfies_add_frame. Qed.
Print Assumptions C05_model_satisfies_prop_add_frame.

(* the constructors work with the default separator "/" while the paths are added *)
Theorem C05_model_satisfies_prop_frame_multi : forall k i,
  (k = KFrame \/ k = KPolars) ->
  i_sep i <> [] -> (forall r, In r (i_rows i) -> PG (i_sep i) (fst r)) ->
  (guards k i = true -> i_dup i = false ->
   nodup_guard (i_sep i) default_sep (base k i) (i_rows i)) ->
  prop_C05 k i (run k i) = true.
Proof. exact model_satisfies_frame_multi. Qed.
Print Assumptions C05_model_satisfies_prop_frame_multi.

Theorem C05_model_satisfies_prop_frame : forall k i c,
  (k = KFrame \/ k = KPolars) -> i_sep i = [c] -> prop_C05 k i (run k i) = true.
Proof. exact model_satisfies_frame. Qed.
Print Assumptions C05_model_satisfies_prop_frame.

(* ==== PART III: every entry point of the property =============================================== *)
Theorem C05_model_satisfies_prop_all : forall k i c,
  i_sep i = [c] -> attrs_wf (i_tree i) -> (i_dup i = true \/ exists c2, i_tsep i = [c2]) ->
  (is_byname k = true -> byname_hyps k i) ->
  prop_C05 k i (run k i) = true.
Proof. exact model_satisfies_all. Qed.
Print Assumptions C05_model_satisfies_prop_all.

(* ---- non-vacuity ---------------------------------------------------------------------------- *)
Definition mx_d : str := [100]%N.
Definition mx_frame_rows : list row :=
  [([97; 47; 98; 47; 100]%N, [(mx_c, VInt 1); (mx_b, VNone)]);       (* "a/b/d"   c=1 b=null *)
   ([47; 97; 47; 99]%N, [(mx_c, VNone); (mx_b, VNone)]);              (* "/a/c"    all null   *)
   ([97; 47; 98]%N, [(mx_c, VInt 0); (mx_b, VInt 0)]);                (* "a/b"                *)
   ([97]%N, [(mx_c, VInt 7); (mx_b, VNone)]);                         (* "a"       root row   *)
   ([97; 47; 98; 47; 100; 47]%N, [(mx_c, VInt 1); (mx_b, VNone)])].   (* "a/b/d/"  same as row 1 *)
Definition mx_small : tree := T (Some 0) mx_a [(mx_c, VInt 9)] [T (Some 1) mx_b [] []].
Definition mx_fin (dup : bool) (rows : list row) : input := MkIn [47]%N dup mx_small [47]%N [] mx_P rows.

(* guards true, accepted, both flags; the root gets its row (c=7 over c=9 in place, c=7 on the new root),
   the null cells are dropped, b is reused by the in-place variant *)
Example C05_frame_nonvacuous :
  guards KFrame (mx_fin false mx_frame_rows) = true
  /\ o_tree (run KFrame (mx_fin false mx_frame_rows))
     = Some (T None mx_a [(mx_c, VInt 7)]
               [T None mx_b [(mx_c, VInt 0); (mx_b, VInt 0)] [T None mx_d [(mx_c, VInt 1)] []];
                T None mx_c [] []])
  /\ prop_C05 KFrame (mx_fin false mx_frame_rows) (run KFrame (mx_fin false mx_frame_rows)) = true
  /\ guards KAddPolars (mx_fin false mx_frame_rows) = true
  /\ o_tree (run KAddPolars (mx_fin false mx_frame_rows))
     = Some (T (Some 0) mx_a [(mx_c, VInt 7)]
               [T (Some 1) mx_b [(mx_c, VInt 0); (mx_b, VInt 0)] [T None mx_d [(mx_c, VInt 1)] []];
                T None mx_c [] []])
  /\ prop_C05 KAddPolars (mx_fin false mx_frame_rows) (run KAddPolars (mx_fin false mx_frame_rows)) = true.
Proof. vm_compute. auto 8. Qed.

(* a refused frame: "a/b" and "/a/b/" carry different attributes -> ValueError, tree left alone,
   and that is what the predicate demands *)
Example C05_frame_conflict_nonvacuous :
  let rows := [([97; 47; 98]%N, [(mx_c, VInt 1)]); ([47; 97; 47; 98; 47]%N, [(mx_c, VInt 2)])] in
  guards KAddFrame (mx_fin true rows) = true
  /\ o_res (run KAddFrame (mx_fin true rows)) = Some ValueError
  /\ o_tree (run KAddFrame (mx_fin true rows)) = Some mx_small
  /\ prop_C05 KAddFrame (mx_fin true rows) (run KAddFrame (mx_fin true rows)) = true
  /\ o_res (run KPolars (mx_fin true rows)) = Some ValueError
  /\ prop_C05 KPolars (mx_fin true rows) (run KPolars (mx_fin true rows)) = true.
Proof. vm_compute. auto 8. Qed.

(* separator "->" (rendered rows, cf. C05_multi_rendered in Props/C05.v), tree separator "::",
   duplicate names disallowed *)
Example C05_frame_multi_nonvacuous :
  let rows := [([97; 45; 62; 98; 45; 62; 100]%N, [(mx_c, VInt 1)]);          (* "a->b->d"   *)
               ([45; 62; 97; 45; 62; 99; 45; 62]%N, [(mx_c, VNone)])] in     (* "->a->c->"  *)
  let i := MkIn [45; 62]%N false mx_small [58; 58]%N [] mx_P rows in
  guards KAddFrame i = true /\ o_res (run KAddFrame i) = None /\ prop_C05 KAddFrame i (run KAddFrame i) = true
  /\ guards KFrame i = true /\ o_res (run KFrame i) = None /\ prop_C05 KFrame i (run KFrame i) = true.
Proof. vm_compute. auto 8. Qed.
