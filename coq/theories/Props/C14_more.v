(* C14 — the TOTAL outcome of prune_tree / get_subtree (proofs: Algo/C14More.v).

   prop_C14_at makes no claim for an ambiguous path and for nested targets, and accepts any exception for a
   missing path.  Here the outcome of the model is pinned down completely, under the guards of the umbrella
   (`case_ok`: start position exists, paths_ok / strip_ok, wf2 for BinaryNode trees):

     obs_of (run_call_at bin tsep t st call) = expected_outcome bin tsep t st call

   where `expected_outcome` is written from the spec's vocabulary (addressed_at, keep_general, within_depth,
   expected_gen) and `lookup` walks the paths in the order given: the first path that does not address
   exactly one node decides — no node: NotFoundError (get_subtree: ValueError), several nodes: SearchError;
   otherwise the start node's subtree restricted to `keep_general targets exact` (routes to all targets,
   descendants of the lowest targets unless exact) and the depth limit counted from the start node — for any
   target set (nested or not; for non-nested targets keep_general = keep, C14_keep_general_non_nested), any
   depth limit, Node and BinaryNode trees, root and inner start nodes, separators of any positive length. *)
From BT Require Import Base.Prelude Base.Str Base.Rose Base.StrSep Algo.Helper Spec.PC14 Algo.HelperProofs
                       Algo.C14More.

(* one expected outcome for every call of the modelled domain; the model's outcome is equal to it *)
Theorem C14_total_outcome : forall bin tsep t st call,
  case_ok bin tsep t st call ->
  obs_of (run_call_at bin tsep t st call) = expected_outcome bin tsep t st call.
Proof. exact total_C14. Qed.
Print Assumptions C14_total_outcome.

(* the total outcome refines the property predicate: where prop_C14_at makes a claim, it is this one *)
Theorem C14_total_outcome_refines_prop : forall bin tsep t st call,
  case_ok bin tsep t st call ->
  prop_C14_at bin tsep t st call (expected_outcome bin tsep t st call) = true.
Proof. exact expected_outcome_satisfies_prop. Qed.
Print Assumptions C14_total_outcome_refines_prop.

(* prune_tree with the exception itself (not its code) and the returned tree *)
Theorem C14_prune_total : forall bin tsep t st s0 pp exact sep d,
  (bin = true -> wf2 t = true) -> subtree_at t st = Some s0 -> tsep <> [] -> sep <> [] ->
  paths_ok tsep sep (norm_paths pp) ->
  if is_nil (norm_paths pp) && Nat.eqb d 0
  then prune_tree_at bin tsep t st pp exact sep d = Raise ValueError
  else match lookup (hits_x bin tsep sep t st (norm_paths pp)) with
       | Raise e => prune_tree_at bin tsep t st pp exact sep d = Raise e
       | Ret targets =>
           exists r, prune_tree_at bin tsep t st pp exact sep d = Ret r /\
                     obs_tree r = expected_gen bin t st (kept_x (negb (is_nil (norm_paths pp))) targets exact st d)
       end.
Proof. exact prune_tree_at_total. Qed.
Print Assumptions C14_prune_total.

(* the model's search loop = `lookup` on the spec's addressing, in the order of the paths *)
Theorem C14_locate_is_lookup : forall bin tsep sep t st s0 paths,
  subtree_at t st = Some s0 -> paths_ok tsep sep paths ->
  locate_at bin tsep sep (copy_tree t) st paths = lookup (hits_x bin tsep sep t st paths).
Proof. exact locate_at_total. Qed.
Print Assumptions C14_locate_is_lookup.

(* what `lookup` answers: all found -> the targets in path order; an exception is one of the two classes
   and names the first path that is not a singleton *)
Theorem C14_lookup_all_found : forall hits, singletons hits = true -> lookup hits = Ret (concat hits).
Proof. exact lookup_all_found. Qed.
Print Assumptions C14_lookup_all_found.

Theorem C14_lookup_error_cases : forall hits e,
  lookup hits = Raise e ->
  exists pre h post, hits = pre ++ h :: post /\ singletons pre = true /\
    ((h = [] /\ e = NotFoundError) \/ (2 <= length h /\ e = SearchError)).
Proof. exact lookup_raise. Qed.
Print Assumptions C14_lookup_error_cases.

(* a path that addresses no node — the first such path, after paths that address one node each — is
   answered by NotFoundError, whatever follows it *)
Theorem C14_missing_path_is_NotFoundError : forall bin tsep t st s0 pre s post exact sep d,
  subtree_at t st = Some s0 -> tsep <> [] -> sep <> [] -> paths_ok tsep sep (pre ++ s :: post) ->
  singletons (hits_x bin tsep sep t st pre) = true ->
  addressed_at bin tsep t st (replace s sep tsep) = [] ->
  prune_tree_at bin tsep t st (PList (pre ++ s :: post)) exact sep d = Raise NotFoundError.
Proof. exact prune_missing_is_NotFoundError. Qed.
Print Assumptions C14_missing_path_is_NotFoundError.

(* a path that addresses several nodes is answered by SearchError (the documented precondition "names
   unique" violated is reported, never resolved silently) *)
Theorem C14_ambiguous_path_is_SearchError : forall bin tsep t st s0 pre s post exact sep d,
  subtree_at t st = Some s0 -> tsep <> [] -> sep <> [] -> paths_ok tsep sep (pre ++ s :: post) ->
  singletons (hits_x bin tsep sep t st pre) = true ->
  2 <= length (addressed_at bin tsep t st (replace s sep tsep)) ->
  prune_tree_at bin tsep t st (PList (pre ++ s :: post)) exact sep d = Raise SearchError.
Proof. exact prune_ambiguous_is_SearchError. Qed.
Print Assumptions C14_ambiguous_path_is_SearchError.

(* get_subtree: the total outcome, and its two exception classes *)
Theorem C14_get_subtree_total : forall bin tsep t st s0 s d,
  (bin = true -> wf2 t = true) -> subtree_at t st = Some s0 -> tsep <> [] -> strip_ok tsep s ->
  obs_of (get_subtree_at bin tsep t st s d) = expected_subtree_outcome bin tsep t st s d.
Proof. exact get_subtree_at_total. Qed.
Print Assumptions C14_get_subtree_total.

Theorem C14_get_subtree_error_classes : forall bin tsep t st s0 s d,
  subtree_at t st = Some s0 -> tsep <> [] -> s <> [] -> strip_ok tsep s ->
  (addressed_at bin tsep t st s = [] -> get_subtree_at bin tsep t st s d = Raise ValueError) /\
  (2 <= length (addressed_at bin tsep t st s) -> get_subtree_at bin tsep t st s d = Raise SearchError).
Proof. exact get_subtree_at_errors. Qed.
Print Assumptions C14_get_subtree_error_classes.

(* the kept-node set for ANY target set (nested or not) and ANY depth limit, both node classes, any start
   node, on the spec's addressing — C14_prune_kept_nested without its restrictions (depth limit 0, root,
   Node trees, the model's own `locate`) *)
Theorem C14_prune_kept_any_targets : forall bin tsep sep t st s0 paths exact d,
  (bin = true -> wf2 t = true) -> subtree_at t st = Some s0 -> tsep <> [] -> sep <> [] -> paths <> [] ->
  paths_ok tsep sep paths -> singletons (hits_x bin tsep sep t st paths) = true ->
  exists r, prune_tree_at bin tsep t st (PList paths) exact sep d = Ret r /\
            obs_tree r = expected_gen bin t st
                           (fun p => keep_general (concat (hits_x bin tsep sep t st paths)) exact p
                                     && within_depth d (S (length p) - length st)).
Proof. exact prune_kept_general_spec. Qed.
Print Assumptions C14_prune_kept_any_targets.

(* the same on the root of a Node tree, in the vocabulary of C14_prune_kept_multi (without its
   `nested _ = false` guard) *)
Theorem C14_prune_kept_any_targets_root : forall tsep sep t paths exact d,
  tsep <> [] -> sep <> [] -> paths <> [] -> paths_ok tsep sep paths ->
  singletons (hits_g tsep sep t paths) = true ->
  exists r, prune_tree tsep t (PList paths) exact sep d = Ret r /\
            obs_tree r =
            map lbl_of (filter (fun ps => keep_general (concat (hits_g tsep sep t paths)) exact (fst ps)
                                          && within_depth d (S (length (fst ps)))) (pre_pos t)).
Proof. exact prune_kept_general_root. Qed.
Print Assumptions C14_prune_kept_any_targets_root.

(* below an inner start node the surgery keeps exactly keep_general, for any target set below it *)
Theorem C14_detach_rule_general_inner : forall N exact st p,
  N <> [] -> (forall q, In q N -> prefix st q) ->
  survive (fun r => negb (detached N exact (st ++ r))) p = keep_general N exact (st ++ p).
Proof. exact survive_below_general. Qed.
Print Assumptions C14_detach_rule_general_inner.

Local Open Scope N_scope.
(* Node tree r(a(b(e), c), x(b)), separator "/":
   - the guards hold (case_ok) for a nested call with a depth limit;
   - paths r/a and a/b (nested targets [0] and [0;0]) with max_depth 3: the result is r, a, b — c is dropped
     although it lies below the target a (lowest-target rule), e by the depth limit;
   - the name "b" addresses two nodes: SearchError (code 9), also when a missing path follows;
     a missing path first: NotFoundError (code 8); get_subtree "b": SearchError, "z": ValueError (code 2);
   BinaryNode tree 1(2(-,4(6,-)), 3(5,-)), called on node 2 with the nested targets 2 and 4, max_depth 2:
   2 with an empty left slot and 4 with two empty slots. *)
Example C14_total_nonvacuous :
  let t := T None [114] [] [T None [97] [] [T None [98] [] [T None [101] [] []]; T None [99] [] []];
                            T None [120] [] [T None [98] [] []]] in
  let tb := T None [49] [] [T None [50] [] [HOLE; T None [52] [] [T None [54] [] [HOLE; HOLE]; HOLE]];
                            T None [51] [] [T None [53] [] [HOLE; HOLE]; HOLE]] in
  let nestedcall := CPrune (PList [[114; 47; 97]; [97; 47; 98]]) false [47] 3%nat in
  case_ok false [47] t []%list nestedcall
  /\ hits_x false [47] [47] t []%list [[114; 47; 97]; [97; 47; 98]] = [[[0]%nat]; [[0; 0]%nat]]
  /\ nested [[0]; [0; 0]]%nat = true
  /\ expected_outcome false [47] t []%list nestedcall
     = OTree [(1%nat, [114], []); (2%nat, [97], []); (3%nat, [98], [])]
  /\ obs_of (run_call_at false [47] t []%list nestedcall)
     = OTree [(1%nat, [114], []); (2%nat, [97], []); (3%nat, [98], [])]
  /\ length (addressed_at false [47] t []%list [98]) = 2%nat
  /\ run_call_at false [47] t []%list (CPrune (PList [[98]; [122]]) false [47] 0%nat) = Raise SearchError
  /\ run_call_at false [47] t []%list (CPrune (PList [[122]; [98]]) false [47] 0%nat) = Raise NotFoundError
  /\ expected_outcome false [47] t []%list (CPrune (PList [[97]; [98]; [122]]) true [47] 0%nat) = OErr 9%nat
  /\ run_call_at false [47] t []%list (CSubtree [98] 0%nat) = Raise SearchError
  /\ run_call_at false [47] t []%list (CSubtree [122] 1%nat) = Raise ValueError
  /\ expected_outcome true [47] tb [0]%nat (CPrune (PList [[50]; [52]]) false [47] 2%nat)
     = OTree [(1%nat, [50], []); (2%nat, [], []); (2%nat, [52], []); (3%nat, [], []); (3%nat, [], [])]
  /\ obs_of (run_call_at true [47] tb [0]%nat (CPrune (PList [[50]; [52]]) false [47] 2%nat))
     = OTree [(1%nat, [50], []); (2%nat, [], []); (2%nat, [52], []); (3%nat, [], []); (3%nat, [], [])].
Proof.
  cbv zeta. split; [|vm_compute; repeat split].
  split; [eexists; reflexivity|]. split; [discriminate|]. split; [|intros E; discriminate E].
  split; [discriminate|]. apply paths_ok_single.
Qed.
Local Close Scope N_scope.
