(* C14 — the print_tree observation at the level of the captured TEXT, and the newline boundary
   (proofs: Algo/C14More3.v).

   Round 2 (Props/C14_more2.v) proved the print observation of the list of lines print_tree emits.  The
   harness observes stdout: print_tree calls print() once per line (export.py:240), helper.py `_printed`
   splits the captured string at "\n" and drops a final empty piece.  Because of that step trees with a
   newline in a name are not sent through print_tree (accepted blind spot (c) "names containing a newline
   on the print path"; DESIGN **P** "names containing a newline").

   Model of the step: text_of ls (every line followed by "\n"), split_nl (str.split("\n")),
   harness_lines (split, final "" popped); nlf s = "s contains no newline".
   - the step is the identity on the lines IFF no line contains a newline (C14_text_read_back_iff);
   - a printed line contains a newline iff the node's name does, for every style whose three strings are
     newline-free (all six built-in styles);
   - so the total print outcome holds of the TEXT for all trees with newline-free names — Node and
     BinaryNode, any start node, path, depth limit, separator of any positive length
     (C14_print_text_total), it satisfies prop_C14_print, and equals the line-list observation;
   - outside the guard the harness reads strictly more rows than nodes were printed
     (C14_text_rows_too_many; example below): the blind spot is exactly the set of trees for which the
     text reading is wrong, the clause "names containing a newline" is not a gap of the property. *)
From BT Require Import Algo.Render Spec.PC18 Algo.RenderProofs.
From BT Require Import Base.Prelude Base.Str Base.Rose Base.StrSep Algo.Helper Spec.PC14 Algo.HelperProofs
                       Algo.C14More Algo.C14More2 Algo.C14More3.

(* print() per line, then split("\n") and pop the final "": the lines come back iff none has a newline *)
Theorem C14_text_read_back_iff : forall ls,
  harness_lines (text_of ls) = ls <-> (forall l, In l ls -> nlf l = true).
Proof. exact text_read_back_iff. Qed.
Print Assumptions C14_text_read_back_iff.

(* a line with a newline: strictly more lines are read than were printed *)
Theorem C14_text_lines_too_many : forall ls l,
  In l ls -> nlf l = false -> length ls < length (harness_lines (text_of ls)).
Proof. exact harness_lines_too_many. Qed.
Print Assumptions C14_text_lines_too_many.

(* which printed lines contain a newline: exactly those of the nodes whose name does (pre-order) *)
Theorem C14_printed_line_newline_is_name_newline : forall vst c,
  vstyle_nlf vst = true -> map nlf (print_lines vst c) = map (fun x => nlf (snd x)) (plist 0 c).
Proof. exact lines_names. Qed.
Print Assumptions C14_printed_line_newline_is_name_newline.

(* the text of ANY tree with newline-free names, split by the harness and parsed line by line, = its
   pre-order (depth, name) rows *)
Theorem C14_text_read_back : forall vst c,
  vstyle_ok vst = true -> vstyle_distinct vst = true -> vstyle_nlf vst = true -> shown_names_nlf c ->
  read_printed vst (harness_lines (text_of (print_lines vst c))) = map strip_lbl (obs_tree c).
Proof. exact text_read_back_obs. Qed.
Print Assumptions C14_text_read_back.

(* the guard is necessary for every tree: one shown name with a newline and the number of rows read
   exceeds the number of nodes printed *)
Theorem C14_text_rows_too_many : forall vst c x,
  vstyle_nlf vst = true -> In x (plist 0 c) -> nlf (snd x) = false ->
  length (plist 0 c) < length (read_printed vst (harness_lines (text_of (print_lines vst c)))).
Proof. exact text_rows_too_many. Qed.
Print Assumptions C14_text_rows_too_many.

(* the total print outcome, of the captured text: one equation, exceptions included *)
Theorem C14_print_text_total : forall vst bin tsep t st s d,
  vstyle_ok vst = true -> vstyle_distinct vst = true -> vstyle_nlf vst = true ->
  print_ok bin tsep t st s -> names_nl_free t = true ->
  text_obs vst (print_text_at vst bin tsep t st s d) = expected_print_outcome bin tsep t st s d.
Proof. exact print_text_total. Qed.
Print Assumptions C14_print_text_total.

(* it satisfies the property predicate the check evaluates on the print observation *)
Theorem C14_print_text_satisfies_prop : forall vst bin tsep t st s d,
  vstyle_ok vst = true -> vstyle_distinct vst = true -> vstyle_nlf vst = true ->
  print_ok bin tsep t st s -> names_nl_free t = true -> named_ok bin t ->
  prop_C14_print bin tsep t st (CSubtree s d) (Some (text_obs vst (print_text_at vst bin tsep t st s d))) = true.
Proof. exact print_text_satisfies_prop. Qed.
Print Assumptions C14_print_text_satisfies_prop.

(* text observation = line-list observation (round 2) *)
Theorem C14_print_text_is_print_lines : forall vst bin tsep t st s d,
  vstyle_ok vst = true -> vstyle_distinct vst = true -> vstyle_nlf vst = true ->
  print_ok bin tsep t st s -> names_nl_free t = true ->
  text_obs vst (print_text_at vst bin tsep t st s d) = print_obs vst (print_tree_at vst bin tsep t st s d).
Proof. exact print_text_is_print_lines. Qed.
Print Assumptions C14_print_text_is_print_lines.

(* every name of the expected print outcome is a name of the tree: newline-free names in, newline-free
   rows out *)
Theorem C14_expected_print_names : forall bin tsep t st s d L l,
  names_nl_free t = true -> expected_print_outcome bin tsep t st s d = OTree L -> In l L ->
  nlf (lbl_name l) = true.
Proof. exact expected_print_names. Qed.
Print Assumptions C14_expected_print_names.

(* the six built-in styles have newline-free strings *)
Theorem C14_builtin_styles_newline_free :
  forallb vstyle_nlf [vs_ansi; vs_ascii; vs_const; vs_const_bold; vs_rounded; vs_double] = true.
Proof. exact builtin_styles_nlf. Qed.
Print Assumptions C14_builtin_styles_newline_free.

Local Open Scope N_scope.
(* Node tree r(a(b(e), c), x(b)), separator "/", ansi style, print_tree(r, "a", max_depth 2):
   stdout is "a\n|-- b\n`-- c\n"; split and parsed: (1,a) (2,b) (2,c) = the expected print outcome; the
   guards hold.  The name "b" addresses two nodes: SearchError (code 9) — also of the text observation.
   BinaryNode tree 1(2(-,4(6,-)), 3(5,-)) called on node 2: stdout "2\n`-- 4\n    `-- 6\n". *)
Example C14_print_text_nonvacuous :
  let t := T None [114] [] [T None [97] [] [T None [98] [] [T None [101] [] []]; T None [99] [] []];
                            T None [120] [] [T None [98] [] []]] in
  let tb := T None [49] [] [T None [50] [] [HOLE; T None [52] [] [T None [54] [] [HOLE; HOLE]; HOLE]];
                            T None [51] [] [T None [53] [] [HOLE; HOLE]; HOLE]] in
  print_ok false [47] t []%list [97]
  /\ names_nl_free t = true /\ vstyle_nlf vs_ansi = true
  /\ print_text_at vs_ansi false [47] t []%list [97] 2%nat
     = Ret [97; 10; 124; 45; 45; 32; 98; 10; 96; 45; 45; 32; 99; 10]
  /\ text_obs vs_ansi (print_text_at vs_ansi false [47] t []%list [97] 2%nat)
     = OTree [(1%nat, [97], []); (2%nat, [98], []); (2%nat, [99], [])]
  /\ expected_print_outcome false [47] t []%list [97] 2%nat
     = OTree [(1%nat, [97], []); (2%nat, [98], []); (2%nat, [99], [])]
  /\ text_obs vs_ansi (print_text_at vs_ansi false [47] t []%list [98] 0%nat) = OErr 9%nat
  /\ print_text_at vs_ansi true [47] tb [0]%nat [] 0%nat
     = Ret [50; 10; 96; 45; 45; 32; 52; 10; 32; 32; 32; 32; 96; 45; 45; 32; 54; 10]
  /\ text_obs vs_ansi (print_text_at vs_ansi true [47] tb [0]%nat [] 0%nat)
     = expected_print_outcome true [47] tb [0]%nat [] 0%nat.
Proof.
  cbv zeta. split; [|vm_compute; repeat split].
  split; [eexists; split; [reflexivity|intros E; discriminate E]|].
  split; [discriminate|]. split; [apply strip_ok_single|intros E; discriminate E].
Qed.

(* the guard `names_nl_free` is necessary: Node tree r("a\nb"), whole tree.  print_tree writes
   "r\n`-- a\nb\n"; the harness reads THREE rows — (1,r) (2,a) and the unparsable line "b" at depth 0 —
   for a tree of two nodes; the line-list observation (round 2) is still the expected outcome. *)
Example C14_print_text_newline_refuted :
  exists t,
    print_ok false [47] t []%list []%list /\ names_nl_free t = false
    /\ print_text_at vs_ansi false [47] t []%list []%list 0%nat
       = Ret [114; 10; 96; 45; 45; 32; 97; 10; 98; 10]
    /\ text_obs vs_ansi (print_text_at vs_ansi false [47] t []%list []%list 0%nat)
       = OTree [(1%nat, [114], []); (2%nat, [97], []); (0%nat, [98], [])]
    /\ expected_print_outcome false [47] t []%list []%list 0%nat
       = OTree [(1%nat, [114], []); (2%nat, [97; 10; 98], [])]
    /\ print_obs vs_ansi (print_tree_at vs_ansi false [47] t []%list []%list 0%nat)
       = expected_print_outcome false [47] t []%list []%list 0%nat.
Proof.
  exists (T None [114] [] [T None [97; 10; 98] [] []]).
  split; [|vm_compute; repeat split].
  split; [eexists; split; [reflexivity|intros E; discriminate E]|].
  split; [discriminate|]. split; [apply strip_ok_single|intros E; discriminate E].
Qed.
Local Close Scope N_scope.
