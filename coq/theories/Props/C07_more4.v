(* C07, fourth round - copy_nodes over its whole option space (proofs: Heap/C07More4.v).

   Narrows the clause "NOT refined: ... the copy_nodes option variants ..." and the run-time clause "copy_nodes at
   run time: plain / overriding / delete_children / with_full_path only (merge_children, merge_leaves are covered by
   the skeleton theorem ...)": the third round covered merge_children = merge_leaves = False; here ALL THREE flags
   (merge_children, merge_leaves, delete_children) are free:

   - C07_copy_nodes_all_source_kept: for every option combination and every outcome of the single parent
     assignments (accepted, or refused by the loop / duplicate-name checks), the rose tree (shape, order, names,
     identity tags) below every old node whose tree does not contain the destination is exactly as before;
   - C07_copy_nodes_all_from_kept: in particular the tree below from_ when to_ is neither from_ nor below it;
   - C07_fresh_ops_keep_tree: the general step behind it - ANY history of `del k.children`, `k.parent = None`,
     `k.parent = to_` on nodes k above a watermark leaves every tree below the watermark that does not contain
     to_ unchanged, even while the fresh nodes are being hung into the old forest at to_ (the region-based
     C07_rose_independence_history cannot say this: the region of to_ is not link-closed from the fresh one);
   - C07_copy_ops_fresh: every write copy_nodes performs after its copy is such a write. *)
From BT Require Import Base.Prelude Base.Str Heap.Forest Heap.Effects Heap.EffectsProofs Heap.C07More2 Heap.C07More3
     Heap.C07More4.
From BT Require Base.Rose Heap.ForestWF Heap.ForestStep Heap.Abs Heap.AbsSurgery.

Theorem C07_fresh_ops_keep_tree : forall cfg n to_ r ops s,
  ForestWF.WF s ->
  (forall k q, n <= k -> par s k = Some q -> n <= q \/ q = to_) ->
  (forall y, In (Some y) (Abs.tags (Abs.subtree s r)) -> y < n) ->
  ~ In (Some to_) (Abs.tags (Abs.subtree s r)) ->
  Forall (fresh_op n to_) ops ->
  Abs.subtree (run cfg s ops) r = Abs.subtree s r.
Proof. exact fresh_ops_keep_tree. Qed.
Print Assumptions C07_fresh_ops_keep_tree.

Theorem C07_copy_ops_fresh : forall n to_ mc ml dc s c,
  closed (ge n) s -> n <= c -> Forall (fresh_op n to_) (copy_ops to_ mc ml dc s c).
Proof. exact copy_ops_fresh. Qed.
Print Assumptions C07_copy_ops_fresh.

Theorem C07_copy_nodes_all_source_kept : forall cfg h from_ to_ mc ml dc r,
  ForestWF.WF (fr h) -> r < size (fr h) ->
  ~ In (Some to_) (Abs.tags (Abs.subtree (fr h) r)) ->
  Abs.subtree (fr (fst (sk_copy_nodes cfg h from_ to_ mc ml dc))) r = Abs.subtree (fr h) r.
Proof. exact copy_nodes_all_source_kept. Qed.
Print Assumptions C07_copy_nodes_all_source_kept.

Theorem C07_copy_nodes_all_from_kept : forall cfg h from_ to_ mc ml dc,
  ForestWF.WF (fr h) -> from_ < size (fr h) ->
  to_ <> from_ -> ~ In from_ (ancestors (fr h) to_) ->
  Abs.subtree (fr (fst (sk_copy_nodes cfg h from_ to_ mc ml dc))) from_ = Abs.subtree (fr h) from_.
Proof. exact copy_nodes_all_from_kept. Qed.
Print Assumptions C07_copy_nodes_all_from_kept.

(* ------------------------------------------------------------------------------------------ *)
(* non-vacuity.  Node tree r(0) -> a(1), x(2); a -> b(3), c(4); b -> e(5), built through the structural API
   (hence well-formed).  copy_nodes a -> x with merge_children (and delete_children) resp. merge_leaves: the
   writes are accepted - the tree below r changes (x gains the copies 9 = b', 10 = c' resp. 11 = e', 10 = c') -
   while the tree below a, which does not contain x, is as before *)
Definition ex4_cfg : config := {| assertions := true; is_node := true |}.
Definition ex4_nm (x : id) : str :=
  match x with 0 => [114%N] | 1 => [97%N] | 2 => [120%N] | 3 => [98%N] | 4 => [99%N] | _ => [101%N] end.
Definition ex4_s : forest :=
  run ex4_cfg (init 6 ex4_nm (fun _ => [47%N]))
      [SetParent 1 (ANode 0) NoFault; SetParent 2 (ANode 0) NoFault; SetParent 3 (ANode 1) NoFault;
       SetParent 4 (ANode 1) NoFault; SetParent 5 (ANode 3) NoFault].
Definition ex4_h : eheap := EH ex4_s (fun _ => []) (fun x => 10 + x) 20.

Example ex4_WF : ForestWF.WF (fr ex4_h).
Proof. apply ForestStep.run_WF. apply ForestWF.WF_init. Qed.

Example C07_copy_nodes_all_nonvacuous :
  let a := Rose.T (Some 1) [97%N] []
             [Rose.T (Some 3) [98%N] [] [Rose.T (Some 5) [101%N] [] []]; Rose.T (Some 4) [99%N] [] []] in
  let hmc := fst (sk_copy_nodes ex4_cfg ex4_h 1 2 true false true) in
  let hml := fst (sk_copy_nodes ex4_cfg ex4_h 1 2 false true false) in
  1 < size (fr ex4_h) /\ 2 <> 1 /\ ~ In 1 (ancestors (fr ex4_h) 2)
  /\ ~ In (Some 2) (Abs.tags (Abs.subtree (fr ex4_h) 1))
  /\ Abs.subtree (fr ex4_h) 1 = a /\ Abs.subtree (fr hmc) 1 = a /\ Abs.subtree (fr hml) 1 = a
  /\ Abs.subtree (fr hmc) 2
     = Rose.T (Some 2) [120%N] [] [Rose.T (Some 9) [98%N] [] []; Rose.T (Some 10) [99%N] [] []]
  /\ Abs.subtree (fr hml) 2
     = Rose.T (Some 2) [120%N] [] [Rose.T (Some 11) [101%N] [] []; Rose.T (Some 10) [99%N] [] []]
  /\ Abs.subtree (fr hmc) 0 <> Abs.subtree (fr ex4_h) 0
  /\ Abs.subtree (fr hml) 0 <> Abs.subtree (fr ex4_h) 0.
Proof.
  cbn zeta. split; [vm_compute; lia|]. split; [discriminate|].
  split; [vm_compute; intuition discriminate|]. split; [vm_compute; intuition discriminate|].
  split; [vm_compute; reflexivity|]. split; [vm_compute; reflexivity|]. split; [vm_compute; reflexivity|].
  split; [vm_compute; reflexivity|]. split; [vm_compute; reflexivity|].
  split; vm_compute; discriminate.
Qed.
