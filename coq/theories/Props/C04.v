(* C04 — traversals visit each node once, in the documented order, honouring filters.
   Only the property theorems; the proofs live in Algo/IterProofs.v, the model in Algo/Iter.v, the
   algorithm-independent specification in Spec/PC04.v.

   Conventions: a node is the subtree it roots; `filt` / `stop` are arbitrary boolean functions of
   the node; `m` is max_depth (0 = none); `d` is the ABSOLUTE depth of the start node `t`
   (node.depth, root = 1) — the code compares absolute depths with max_depth. *)
From BT Require Import Base.Prelude Base.Rose Spec.PC04 Algo.Iter Algo.IterProofs.
From Coq Require Import Permutation.

(* ---- documented order, stop condition, max_depth, filter: equality with the specification ---- *)

Theorem C04_preorder_spec : forall filt stop m d t,
  preorder filt stop m d t = spec_pre filt stop m d t.
Proof. intros. apply preorder_spec. Qed.
Print Assumptions C04_preorder_spec.

Theorem C04_postorder_spec : forall filt stop m d t,
  postorder filt stop m d t = spec_post filt stop m d t.
Proof. intros. apply postorder_spec. Qed.
Print Assumptions C04_postorder_spec.

Theorem C04_levelorder_spec : forall filt stop m d t,
  levelorder filt stop m d t = spec_levelorder filt stop m d t.
Proof. intros. apply levelorder_spec. Qed.
Print Assumptions C04_levelorder_spec.

Theorem C04_zigzag_spec : forall filt stop m d t,
  zigzag filt stop m d t = spec_zigzag filt stop m d t.
Proof. intros. apply zigzag_spec. Qed.
Print Assumptions C04_zigzag_spec.

Theorem C04_levelordergroup_spec : forall filt stop m d t,
  levelordergroup filt stop m d t = spec_levelordergroup filt stop m d t.
Proof. intros. apply levelordergroup_spec. Qed.
Print Assumptions C04_levelordergroup_spec.

Theorem C04_zigzaggroup_spec : forall filt stop m d t,
  zigzaggroup filt stop m d t = spec_zigzaggroup filt stop m d t.
Proof. intros. apply zigzaggroup_spec. Qed.
Print Assumptions C04_zigzaggroup_spec.

Theorem C04_inorder_spec : forall filt m d b,
  binorder filt m d b = spec_inorder filt m d b.
Proof. intros. apply binorder_spec. Qed.
Print Assumptions C04_inorder_spec.

(* the level recursions run on fuel; any fuel >= the height of the subtree gives the same result
   (so the out-of-fuel branch is never what the entry points return) *)
Theorem C04_fuel_independent : forall filt stop m d t fuel, height t <= fuel ->
  lo filt stop m fuel d [t] = levelorder filt stop m d t
  /\ zz filt stop m fuel d false [t] = zigzag filt stop m d t
  /\ log filt stop m fuel d [t] = levelordergroup filt stop m d t
  /\ zzg filt stop m fuel d false [t] = zigzaggroup filt stop m d t.
Proof.
  intros filt stop m d t fuel H.
  rewrite levelorder_spec, zigzag_spec, levelordergroup_spec, zigzaggroup_spec.
  repeat split; [apply lo_fuel|apply zz_fuel|apply log_fuel|apply zzg_fuel]; exact H.
Qed.
Print Assumptions C04_fuel_independent.

(* ---- each visible node satisfying the filter exactly once ---- *)

Theorem C04_each_once : forall filt stop m d t, NoDup (map ttag (pre t)) ->
  let V := spec_pre filt stop m d t in
  (NoDup (map ttag (preorder filt stop m d t)) /\ Permutation (preorder filt stop m d t) V)
  /\ (NoDup (map ttag (postorder filt stop m d t)) /\ Permutation (postorder filt stop m d t) V)
  /\ (NoDup (map ttag (levelorder filt stop m d t)) /\ Permutation (levelorder filt stop m d t) V)
  /\ (NoDup (map ttag (zigzag filt stop m d t)) /\ Permutation (zigzag filt stop m d t) V).
Proof. intros filt stop m d t. apply each_once. Qed.
Print Assumptions C04_each_once.

(* membership in that set: reached by a route without stopped node, within max_depth, filter true *)
Theorem C04_visible_set : forall filt stop m d t x,
  In x (spec_pre filt stop m d t) <->
  exists r, In r (routes t) /\ snd r = x /\ visible stop m d r = true /\ filt x = true.
Proof. intros. apply spec_pre_In. Qed.
Print Assumptions C04_visible_set.

Example C04_each_once_nonvacuous :
  let t := T (Some 0) [] [] [T (Some 1) [] [] [T (Some 3) [] [] []; T (Some 4) [] [] []; T (Some 5) [] [] []];
                            T (Some 2) [] [] [T (Some 6) [] [] []]] in
  NoDup (map ttag (pre t))
  /\ map ttag (zigzag all_nodes (fun x => tag_is (ttag x) 4) 3 1 t) = [Some 0; Some 2; Some 1; Some 3; Some 5; Some 6].
Proof.
  cbv zeta. split; [|vm_compute; reflexivity].
  cbn. repeat (constructor; [cbn; intuition discriminate|]). constructor.
Qed.

(* ---- grouped variants ---- *)

Theorem C04_group_flatten : forall filt stop m d t,
  concat (levelordergroup filt stop m d t) = levelorder filt stop m d t
  /\ concat (zigzaggroup filt stop m d t) = zigzag filt stop m d t.
Proof. intros. split; [apply levelordergroup_flatten|apply zigzaggroup_flatten]. Qed.
Print Assumptions C04_group_flatten.

(* one group per depth reached: level 0, and level k+1 iff it is within max_depth and a visible node
   of level k has a child *)
Theorem C04_group_count : forall filt stop m d t,
  length (levelordergroup filt stop m d t) = length (group_levels stop m d t)
  /\ length (zigzaggroup filt stop m d t) = length (group_levels stop m d t).
Proof. intros. apply group_count. Qed.
Print Assumptions C04_group_count.

(* the depths reached are an initial segment 0 .. G-1, so group number k is level k *)
Theorem C04_group_levels_prefix : forall stop m d t,
  group_levels stop m d t = seq 0 (length (group_levels stop m d t)).
Proof. intros. apply group_levels_prefix. Qed.
Print Assumptions C04_group_levels_prefix.

(* the grouped iterators end with an empty group when every node of the last level reached is
   stopped (here: root 0 with children 1, 2, both stopped); also a start node that is itself stopped
   or deeper than max_depth gives one empty group.  This is the behaviour of the code (and the
   reading of "depth reached" used by reached/group_levels), recorded as a fact about the model. *)
Example C04_trailing_empty_group :
  let t := T (Some 0) [] [] [T (Some 1) [] [] []; T (Some 2) [] [] []] in
  let st := fun x => tag_is (ttag x) 1 || tag_is (ttag x) 2 in
  map (map ttag) (levelordergroup all_nodes st 0 1 t) = [[Some 0]; []]
  /\ map (map ttag) (levelordergroup all_nodes no_stop 1 2 t) = [[]]
  /\ map ttag (levelorder all_nodes st 0 1 t) = [Some 0].
Proof. vm_compute. repeat split. Qed.

(* ---- a filter condition yields exactly the subsequence of nodes satisfying it ---- *)

Theorem C04_filter_subsequence : forall filt stop m d t,
  preorder filt stop m d t = filter filt (preorder all_nodes stop m d t)
  /\ postorder filt stop m d t = filter filt (postorder all_nodes stop m d t)
  /\ levelorder filt stop m d t = filter filt (levelorder all_nodes stop m d t)
  /\ zigzag filt stop m d t = filter filt (zigzag all_nodes stop m d t)
  /\ levelordergroup filt stop m d t = map (filter filt) (levelordergroup all_nodes stop m d t)
  /\ zigzaggroup filt stop m d t = map (filter filt) (zigzaggroup all_nodes stop m d t).
Proof. intros. apply filter_subsequence. Qed.
Print Assumptions C04_filter_subsequence.

(* ---- without conditions: the textbook traversals of Base/Rose.v ---- *)

Theorem C04_unconditioned : forall d t,
  preorder all_nodes no_stop 0 d t = pre t
  /\ postorder all_nodes no_stop 0 d t = post t
  /\ levelorder all_nodes no_stop 0 d t = flat_map (fun k => level k t) (seq 0 (height t))
  /\ zigzag all_nodes no_stop 0 d t = flat_map (fun k => zig k (level k t)) (seq 0 (height t)).
Proof. intros. apply unconditioned. Qed.
Print Assumptions C04_unconditioned.

(* ---- order laws on the yielded sequences ---- *)

Theorem C04_parent_before_descendants : forall filt stop m d t a1 p a2 n,
  In (a1 ++ p :: a2, n) (routes t) ->
  wanted filt stop m d (a1 ++ p :: a2, n) = true -> filt p = true ->
  before (preorder filt stop m d t) p n.
Proof. intros filt stop m d t. apply parent_before_descendants. Qed.
Print Assumptions C04_parent_before_descendants.

Theorem C04_descendants_before_parent : forall filt stop m d t a1 p a2 n,
  In (a1 ++ p :: a2, n) (routes_post t) ->
  wanted filt stop m d (a1 ++ p :: a2, n) = true -> filt p = true ->
  before (postorder filt stop m d t) n p.
Proof. intros filt stop m d t. apply descendants_before_parent. Qed.
Print Assumptions C04_descendants_before_parent.

Theorem C04_sibling_subtrees_left_to_right : forall filt stop m d t a p l1 k1 l2 k2 l3 r1 r2,
  In (a, p) (routes t) -> tkids p = l1 ++ k1 :: l2 ++ k2 :: l3 ->
  In r1 (routes k1) -> In r2 (routes k2) ->
  wanted filt stop m d (a ++ p :: fst r1, snd r1) = true ->
  wanted filt stop m d (a ++ p :: fst r2, snd r2) = true ->
  before (preorder filt stop m d t) (snd r1) (snd r2).
Proof. intros filt stop m d t. apply sibling_subtrees_left_to_right. Qed.
Print Assumptions C04_sibling_subtrees_left_to_right.

Theorem C04_sibling_subtrees_left_to_right_post : forall filt stop m d t a p l1 k1 l2 k2 l3 r1 r2,
  In (a, p) (routes_post t) -> tkids p = l1 ++ k1 :: l2 ++ k2 :: l3 ->
  In r1 (routes_post k1) -> In r2 (routes_post k2) ->
  wanted filt stop m d (a ++ p :: fst r1, snd r1) = true ->
  wanted filt stop m d (a ++ p :: fst r2, snd r2) = true ->
  before (postorder filt stop m d t) (snd r1) (snd r2).
Proof. intros filt stop m d t. apply sibling_subtrees_left_to_right_post. Qed.
Print Assumptions C04_sibling_subtrees_left_to_right_post.

Example C04_order_laws_nonvacuous :
  let k1 := T (Some 1) [] [] [T (Some 3) [] [] []] in
  let k2 := T (Some 2) [] [] [] in
  let t := T (Some 0) [] [] [k1; k2] in
  In ([] ++ t :: [k1], T (Some 3) [] [] []) (routes t)
  /\ wanted all_nodes no_stop 0 1 ([] ++ t :: [k1], T (Some 3) [] [] []) = true
  /\ In ([], t) (routes t) /\ tkids t = [] ++ k1 :: [] ++ k2 :: []
  /\ In ([k1], T (Some 3) [] [] []) (routes k1) /\ In ([], k2) (routes k2).
Proof. cbv zeta. cbn. intuition. Qed.

(* ---- binary trees: iterating a BinaryNode tree = iterating its image without empty slots ---- *)

Theorem C04_binary_agree : forall ft st fb sb m d b,
  (forall x, fb x = ft (img x)) -> (forall x, sb x = st (img x)) ->
  map img (bpreorder fb sb m d b) = preorder ft st m d (img b)
  /\ map img (bpostorder fb sb m d b) = postorder ft st m d (img b)
  /\ map img (blevelorder fb sb m d b) = levelorder ft st m d (img b)
  /\ map img (bzigzag fb sb m d b) = zigzag ft st m d (img b)
  /\ map (map img) (blevelordergroup fb sb m d b) = levelordergroup ft st m d (img b)
  /\ map (map img) (bzigzaggroup fb sb m d b) = zigzaggroup ft st m d (img b).
Proof.
  intros ft st fb sb m d b Hf Hs. repeat split.
  - apply (bpreorder_agree ft st fb sb m Hf Hs).
  - apply (bpostorder_agree ft st fb sb m Hf Hs).
  - apply (blevelorder_agree ft st fb sb m Hf Hs).
  - apply (bzigzag_agree ft st fb sb m Hf Hs).
  - apply (blevelordergroup_agree ft st fb sb m Hf Hs).
  - apply (bzigzaggroup_agree ft st fb sb m Hf Hs).
Qed.
Print Assumptions C04_binary_agree.

(* the hypotheses are met by conditions that look at the node's identity (as in the check) *)
Example C04_binary_agree_nonvacuous : forall (p : option nat -> bool),
  (forall x, (fun b => p (btag b)) x = (fun t => p (ttag t)) (img x)).
Proof. intros p [g l r]. reflexivity. Qed.

(* ---- boolean form: what the check evaluates on the implementation's outputs holds of the model ---- *)

Theorem C04_model_satisfies_prop : forall filt stop m d t,
  tags_distinct t = true ->
  prop_C04_rose filt stop m d t (observe_rose filt stop m d t) = true.
Proof. intros. apply model_satisfies_prop_rose. assumption. Qed.
Print Assumptions C04_model_satisfies_prop.

Theorem C04_model_satisfies_prop_bin : forall ft st fb sb m d b,
  (forall x, fb x = ft (img x)) -> (forall x, sb x = st (img x)) ->
  tags_distinct (img b) = true ->
  prop_C04_bin ft st fb m d b (observe_bin fb sb m d b) (bnums (binorder fb m d b)) = true.
Proof. intros. apply model_satisfies_prop_bin; assumption. Qed.
Print Assumptions C04_model_satisfies_prop_bin.

Example C04_model_satisfies_prop_nonvacuous :
  tags_distinct (T (Some 0) [] [] [T (Some 1) [] [] [T (Some 3) [] [] []]; T (Some 2) [] [] []]) = true
  /\ tags_distinct (img (B (Some 0) (Some (B (Some 1) None (Some (B (Some 2) None None)))) None)) = true.
Proof. vm_compute. split; reflexivity. Qed.
