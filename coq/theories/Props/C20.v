(* C20 — switching off the optional assertion checks never changes valid behaviour.
   BaseNode / Node share (model Heap/Forest.v: `assertions` is a field of the configuration the
   step function takes).  The BinaryNode / DAGNode shares are restated at the end of this file. *)
From BT Require Import Base.Prelude Base.Str Heap.Forest Heap.ForestWF Heap.ForestOps Heap.ForestStep.

(* an operation accepted with the checks on is accepted with the checks off and yields the very
   same state and outcome *)
Theorem C20_forest_step : forall cfg s o,
  snd (step (with_assert cfg true) s o) = Ok ->
  step (with_assert cfg false) s o = step (with_assert cfg true) s o.
Proof. exact step_switch. Qed.
Print Assumptions C20_forest_step.

(* lifted to histories: a history all of whose operations are accepted with the checks on *)
Fixpoint all_ok (cfg : config) (s : forest) (ops : list op) : bool :=
  match ops with
  | [] => true
  | o :: t => let r := step cfg s o in is_ok (snd r) && all_ok cfg (fst r) t
  end.

Lemma C20_forest_history_aux : forall cfg ops s,
  all_ok (with_assert cfg true) s ops = true ->
  trace (with_assert cfg false) s ops = trace (with_assert cfg true) s ops.
Proof.
  intros cfg. induction ops as [|o ops IH]; intros s H; cbn [trace all_ok] in *; [reflexivity|].
  apply andb_true_iff in H as [H1 H2].
  assert (E : snd (step (with_assert cfg true) s o) = Ok).
  { destruct (snd (step (with_assert cfg true) s o)); [reflexivity|discriminate]. }
  rewrite (step_switch cfg s o E). f_equal. apply IH. exact H2.
Qed.

Theorem C20_forest_history : forall cfg n names seps ops,
  all_ok (with_assert cfg true) (init n names seps) ops = true ->
  trace (with_assert cfg false) (init n names seps) ops
  = trace (with_assert cfg true) (init n names seps) ops.
Proof. intros. apply C20_forest_history_aux. assumption. Qed.
Print Assumptions C20_forest_history.

(* the checks are pure guards: with the switch on, a rejection leaves the state untouched *)
Theorem C20_guards_pure : forall cfg s o,
  WF s -> single_assignment o = true -> snd (step cfg s o) <> Ok -> same (fst (step cfg s o)) s.
Proof. exact step_atomic. Qed.
Print Assumptions C20_guards_pure.

(* turning the checks off only removes rejections: whatever the switch, the outcome with checks off
   differs from the outcome with checks on only where the latter is a rejection *)
Theorem C20_only_removes_rejections : forall cfg s o,
  step (with_assert cfg false) s o = step (with_assert cfg true) s o
  \/ snd (step (with_assert cfg true) s o) <> Ok.
Proof.
  intros cfg s o. destruct (snd (step (with_assert cfg true) s o)) eqn:E.
  - left. apply step_switch. exact E.
  - right. discriminate.
Qed.
Print Assumptions C20_only_removes_rejections.

(* stronger form, covering hook failures and their rollbacks: wherever the run with the checks OFF
   stays inside the modelled domain (no type/loop check would have fired), the run with the checks ON
   computes exactly the same state and outcome *)
Theorem C20_forest_guards_pure_strong : forall cfg s o,
  snd (step (with_assert cfg false) s o) <> Err Unmodelled ->
  step (with_assert cfg true) s o = step (with_assert cfg false) s o.
Proof. exact step_guards_pure. Qed.
Print Assumptions C20_forest_guards_pure_strong.

Example C20_nonvacuous :
  let cfg := {| assertions := true; is_node := true |} in
  let ops := [SetChildren 0 CTuple [ANode 1; ANode 2] NoFault; SetParent 3 (ANode 2) NoFault; Sort 0 [Some 0; Some 2; Some 1; Some 0] true] in
  all_ok (with_assert cfg true) (init 4 (fun i => [N.of_nat i]) (fun _ => [47]%N)) ops = true.
Proof. vm_compute. reflexivity. Qed.
