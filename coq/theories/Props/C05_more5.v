(* C05 — fifth round of partial clauses (proofs: Algo/C05More5.v).

   Still partial after rounds 1-4: "`PG` / `nodup_guard` for separators of length >= 2".  The umbrella
   theorems C05_model_satisfies_prop_{list,dict,add_path,add_dict}_multi and C05_history_adds_prop_multi
   hold under the Prop-level guards PG (the specification's and the code's reading of a path string
   agree), nodup_guard (start names distinct, no character of the tree's separator in a name or path
   component) and attrs_wf, which up to now could be discharged only by a hand proof (one-character
   separator, `rendered` strings).  This file makes all three guards DECIDABLE: executable booleans
   PGb / nodup_guardb / attrs_wfb with reflection theorems, and the umbrella theorems restated under
   boolean hypotheses only.  So for every input with a separator of ANY positive length the statement is
   now: "evaluate pg_guardb && nd_guardb; if true, prop_C05 holds of the model's output" - and where the
   guard evaluates to false (the K3-C05 witness) the predicate really can fail.  nodup_guardb is the
   character-freeness test that prop_C05's own `contains` (substring) guard is weaker than. *)
From BT Require Import Base.Prelude Base.Str Base.StrSep Base.Rose Algo.Construct Spec.PC05 Algo.ConstructProofs
     Algo.C05More Algo.C05More2 Algo.C05More5.

(* ---- the guards are decidable ---------------------------------------------------------------- *)
Theorem C05_parse_guard_decided : forall sp s, PGb sp s = true <-> PG sp s.
Proof. exact PGb_PG. Qed.
Print Assumptions C05_parse_guard_decided.

Theorem C05_parse_guard_dec : forall sp s, {PG sp s} + {~ PG sp s}.
Proof. exact PG_dec. Qed.
Print Assumptions C05_parse_guard_dec.

Theorem C05_parse_guard_rows_decided : forall sp rows,
  pg_guardb sp rows = true <-> (forall r, In r rows -> PG sp (fst r)).
Proof. exact pg_guardb_PG. Qed.
Print Assumptions C05_parse_guard_rows_decided.

Theorem C05_nodup_guard_decided : forall sp wsep b rows,
  nodup_guardb sp wsep b rows = true <-> nodup_guard sp wsep b rows.
Proof. exact nodup_guardb_guard. Qed.
Print Assumptions C05_nodup_guard_decided.

Theorem C05_sfree_decided : forall sp x, sfreeb sp x = true <-> sfree sp x.
Proof. exact sfreeb_sfree. Qed.
Print Assumptions C05_sfree_decided.

Theorem C05_attrs_wf_decided : forall t, attrs_wfb t = true <-> attrs_wf t.
Proof. exact attrs_wfb_wf. Qed.
Print Assumptions C05_attrs_wf_decided.

(* the decided guard is constantly true for one-character separators and true of every rendered string *)
Theorem C05_parse_guardb_single : forall c s, PGb [c] s = true.
Proof. exact PGb_single. Qed.
Print Assumptions C05_parse_guardb_single.

Theorem C05_parse_guardb_rendered : forall sp s, sp <> [] -> rendered sp s -> PGb sp s = true.
Proof. exact PGb_rendered. Qed.
Print Assumptions C05_parse_guardb_rendered.

(* ---- the umbrella theorems, separators of any positive length, boolean guards only -------------
   nd_guardb k wsep i = negb (guards k i) || i_dup i || (wsep non-empty && nodup_guardb ..):
   nothing is asked when prop_C05's own guards fail or duplicates are allowed *)
Theorem C05_model_satisfies_prop_list_multi_dec : forall i,
  is_nil (i_sep i) = false -> pg_guardb (i_sep i) (i_rows i) = true ->
  nd_guardb KList (i_sep i) i = true ->
  prop_C05 KList i (run KList i) = true.
Proof. exact model_satisfies_list_multi_dec. Qed.
Print Assumptions C05_model_satisfies_prop_list_multi_dec.

Theorem C05_model_satisfies_prop_dict_multi_dec : forall i,
  is_nil (i_sep i) = false -> pg_guardb (i_sep i) (i_rows i) = true ->
  nd_guardb KDict (i_sep i) i = true ->
  prop_C05 KDict i (run KDict i) = true.
Proof. exact model_satisfies_dict_multi_dec. Qed.
Print Assumptions C05_model_satisfies_prop_dict_multi_dec.

Theorem C05_model_satisfies_prop_add_path_multi_dec : forall i,
  is_nil (i_sep i) = false -> pg_guardb (i_sep i) (i_rows i) = true -> attrs_wfb (i_tree i) = true ->
  nd_guardb KAddPath (i_tsep i) i = true ->
  prop_C05 KAddPath i (run KAddPath i) = true.
Proof. exact model_satisfies_add_path_multi_dec. Qed.
Print Assumptions C05_model_satisfies_prop_add_path_multi_dec.

Theorem C05_model_satisfies_prop_add_dict_multi_dec : forall i,
  is_nil (i_sep i) = false -> pg_guardb (i_sep i) (i_rows i) = true -> attrs_wfb (i_tree i) = true ->
  nd_guardb KAddDict (i_tsep i) i = true ->
  prop_C05 KAddDict i (run KAddDict i) = true.
Proof. exact model_satisfies_add_dict_multi_dec. Qed.
Print Assumptions C05_model_satisfies_prop_add_dict_multi_dec.

(* histories (duplicates allowed), separators of any positive length, boolean guards on the added
   path strings and the START tree only *)
Theorem C05_history_adds_prop_multi_dec : forall sep tsep pcol ops t,
  is_nil sep = false -> forallb (hop_pgb sep) ops = true -> attrs_wfb t = true ->
  Forall (hist_prop sep true tsep pcol) (hrun tsep sep true t ops).
Proof. exact history_adds_prop_multi_dec. Qed.
Print Assumptions C05_history_adds_prop_multi_dec.

(* ---- non-vacuity: separator "->", tree separator "::", duplicates DISALLOWED; the rows are not all
   in canonical form (leading and trailing separators); every guard evaluates to true, prop_C05's own
   guards are true, the call is accepted and the predicate holds *)
Definition m5_arrow : str := [45; 62]%N.
Definition m5_colons : str := [58; 58]%N.
Definition m5_tree : tree := T (Some 0) [97]%N [([107]%N, VInt 3)] [T (Some 1) [98]%N [] []].
Definition m5_rows : list row :=
  [([97; 45; 62; 98; 45; 62; 100]%N, [([99]%N, VInt 1)]);        (* "a->b->d"   *)
   ([45; 62; 97; 45; 62; 99; 45; 62]%N, []);                      (* "->a->c->"  *)
   ([97; 45; 62; 98]%N, [([98]%N, VInt 0)])].                     (* "a->b"      *)
Example C05_multi_dec_nonvacuous :
  let i := MkIn m5_arrow false m5_tree m5_colons [] [80]%N m5_rows in
  is_nil (i_sep i) = false /\ pg_guardb (i_sep i) (i_rows i) = true /\ attrs_wfb (i_tree i) = true
  /\ nd_guardb KAddPath (i_tsep i) i = true
  /\ guards KAddPath i = true /\ o_res (run KAddPath i) = None
  /\ prop_C05 KAddPath i (run KAddPath i) = true.
Proof. vm_compute. auto 8. Qed.

(* the decided guard separates: on the K3-C05 witness ("r->a-" with separator "->") PGb is false and
   prop_C05 is false on the model's output; so the guard cannot simply be dropped *)
Example C05_multi_dec_guard_false_on_K3 :
  let i := MkIn m5_arrow true m5_tree [47]%N [] [80]%N
                [([114; 45; 62; 97; 45]%N, []); ([114; 45; 62; 98]%N, [])] in
  PGb m5_arrow [114; 45; 62; 97; 45]%N = false /\ pg_guardb (i_sep i) (i_rows i) = false
  /\ prop_C05 KList i (run KList i) = false.
Proof. vm_compute. auto. Qed.
