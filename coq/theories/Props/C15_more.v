(* C15, more - get_tree_diff with separators other than "/", in terms of the two path sets; the clauses that need
   no lookalike_free guard.

   Props/C15.v states the clauses for sep = "/" under the guards domain_C15 "/" and lookalike_free, and the boundary
   of known finding K4-C15 for a one-character separator c <> "/" in terms of kept_paths (the marked path strings
   get_tree_diff hands to dataframe_to_tree).  Here (proofs: Algo/C15More.v):

     C15_kept_paths_from_path_sets   kept_paths for EVERY one-character separator ("/" included) is computed from
                                     the two path sets: the rows of keptM (all paths of either tree, with only_diff
                                     the marked ones) rendered by mpc (the path joined with the separator, removed
                                     and added components suffixed);
     C15_none_iff_nothing_marked     the answer is None iff only_diff is set and no path of either tree is marked -
                                     every one-character separator, NO lookalike_free guard; hence
     C15_identical_none_any_sep      C15_identical_none without that guard and for every one-character separator;
     C15_sep_refused_paths /         K4-C15 from the path sets: TreeError iff two kept nodes are rendered differently,
     C15_sep_refused_two_nodes       i.e. (separator outside " ()+-", lookalike_free) iff at least two nodes are kept;
     C15_other_sep_prop_iff          with a one-character separator other than "/" the predicate of the check holds of
                                     the model's answer iff there is nothing to report;
     C15_any_sep_prop_only_none      for EVERY separator not starting with "/" (multi-character included, no guard at
                                     all) the predicate can only hold when the answer is None and nothing is expected;
                                     without only_diff it is always false (C15_any_sep_all_nodes_refused).

   mpc, keptM are definitions of the proof files; C15_row_path_meaning / C15_kept_rows_meaning restate them with the
   vocabulary of Spec/PC15.v only. *)
From BT Require Import Base.Prelude Base.Str Base.Rose Algo.Diff Spec.PC15 Algo.DiffProofs Algo.C15More.

Theorem C15_kept_paths_from_path_sets : forall c t1 t2 al,
  domain_C15 [c] t1 t2 al = true ->
  forall od, kept_paths [c] t1 t2 od al = map (mpc c al (nodes_of t1) (nodes_of t2)) (keptM al (nodes_of t1) (nodes_of t2) od).
Proof. exact kept_paths_spec. Qed.
Print Assumptions C15_kept_paths_from_path_sets.

Theorem C15_row_path_meaning : forall c al N1 N2 p,
  mpc c al N1 N2 p
  = path_name [c] (map (fun q => last q [] ++ mark_suffix (match status al N1 N2 q with
                                                          | MRem => MRem | MAdd => MAdd | _ => MSame end))
                       (inits p)).
Proof. exact mpc_meaning. Qed.
Print Assumptions C15_row_path_meaning.

Theorem C15_kept_rows_meaning : forall al N1 N2 od,
  keptM al N1 N2 od = filter (fun p => negb od || negb (mark_eqb (status al N1 N2 p) MSame)) (all_paths N1 N2).
Proof. exact keptM_meaning. Qed.
Print Assumptions C15_kept_rows_meaning.

(* None iff only_diff and nothing is marked: every one-character separator, no lookalike_free *)
Theorem C15_none_iff_nothing_marked : forall c t1 t2 od al,
  domain_C15 [c] t1 t2 al = true ->
  (get_tree_diff [c] t1 t2 od al = Ret None <->
   od = true /\ forall p, In p (map fst (nodes_of t1)) \/ In p (map fst (nodes_of t2)) ->
                          status al (nodes_of t1) (nodes_of t2) p = MSame).
Proof. exact none_iff_nothing_marked. Qed.
Print Assumptions C15_none_iff_nothing_marked.

(* C15_identical_none / C15_same_tree_none without the guard lookalike_free, for every one-character separator *)
Theorem C15_identical_none_any_sep : forall c t1 t2 al,
  domain_C15 [c] t1 t2 al = true ->
  (forall p, In p (map fst (nodes_of t1)) <-> In p (map fst (nodes_of t2))) ->
  (forall p a1 a2, In (p, a1) (nodes_of t1) -> In (p, a2) (nodes_of t2) -> diff_attrs al a1 a2 = []) ->
  get_tree_diff [c] t1 t2 true al = Ret None.
Proof. exact identical_none_any_sep. Qed.
Print Assumptions C15_identical_none_any_sep.

Theorem C15_same_tree_none_any_sep : forall c t al,
  domain_C15 [c] t t al = true -> get_tree_diff [c] t t true al = Ret None.
Proof. exact same_tree_none_any_sep. Qed.
Print Assumptions C15_same_tree_none_any_sep.

(* K4-C15 from the two path sets *)
Theorem C15_sep_refused_paths : forall c t1 t2 od al,
  c <> 47%N -> domain_C15 [c] t1 t2 al = true ->
  (get_tree_diff [c] t1 t2 od al = Raise TreeError <->
   exists p q, In p (keptM al (nodes_of t1) (nodes_of t2) od) /\ In q (keptM al (nodes_of t1) (nodes_of t2) od) /\
               mpc c al (nodes_of t1) (nodes_of t2) p <> mpc c al (nodes_of t1) (nodes_of t2) q).
Proof. exact sep_refused_paths. Qed.
Print Assumptions C15_sep_refused_paths.

(* sep_plain c: c is none of the characters of " (-)" and " (+)" *)
Theorem C15_sep_refused_two_nodes : forall c t1 t2 od al,
  c <> 47%N -> sep_plain c -> domain_C15 [c] t1 t2 al = true -> lookalike_free t1 t2 = true ->
  (get_tree_diff [c] t1 t2 od al = Raise TreeError <->
   exists p q, In p (keptM al (nodes_of t1) (nodes_of t2) od) /\ In q (keptM al (nodes_of t1) (nodes_of t2) od) /\ p <> q).
Proof. exact sep_refused_two_nodes. Qed.
Print Assumptions C15_sep_refused_two_nodes.

(* the predicate of the check, for a one-character separator other than "/": true iff nothing to report *)
Theorem C15_other_sep_prop_iff : forall c t1 t2 od al,
  c <> 47%N -> domain_C15 [c] t1 t2 al = true ->
  (prop_C15 [c] t1 t2 od al (obs_of_res (get_tree_diff [c] t1 t2 od al)) = true <->
   od = true /\ forall p, In p (map fst (nodes_of t1)) \/ In p (map fst (nodes_of t2)) ->
                          status al (nodes_of t1) (nodes_of t2) p = MSame).
Proof. exact other_sep_prop_iff. Qed.
Print Assumptions C15_other_sep_prop_iff.

(* every separator that does not start with "/" - any length, any trees, no guard *)
Theorem C15_any_sep_prop_only_none : forall c s t1 t2 od al,
  c <> 47%N ->
  prop_C15 (c :: s) t1 t2 od al (obs_of_res (get_tree_diff (c :: s) t1 t2 od al)) = true ->
  get_tree_diff (c :: s) t1 t2 od al = Ret None /\ expected (c :: s) al (nodes_of t1) (nodes_of t2) od = [].
Proof. exact any_sep_prop_only_none. Qed.
Print Assumptions C15_any_sep_prop_only_none.

Theorem C15_any_sep_all_nodes_refused : forall c s t1 t2 al,
  c <> 47%N ->
  prop_C15 (c :: s) t1 t2 false al (obs_of_res (get_tree_diff (c :: s) t1 t2 false al)) = false.
Proof. exact any_sep_all_nodes_refused. Qed.
Print Assumptions C15_any_sep_all_nodes_refused.

(* ---- non-vacuity ------------------------------------------------------------------------------------- *)

Definition m_r : str := [114%N].                    (* "r"  *)
Definition m_b : str := [98%N].                     (* "b"  *)
Definition m_bc : str := [98; 99]%N.                (* "bc" *)
Definition m_x : str := [120%N].                    (* attribute "x" *)
Definition m_dot : str := [46%N].                   (* "."  *)
Definition mleaf (n : str) (a : attrs) : tree := T None n a [].

(* separator ".": removed b, changed bc, added bc/bc.  only_diff keeps the three marked rows, rendered ".r.b (-)",
   ".r.bc", ".r.bc.bc (+)"; they differ, the call raises TreeError and the predicate is false; sep_plain holds *)
Example C15_more_instance :
  let t1 := T None m_r [] [mleaf m_b []; T None m_bc [(m_x, VInt 1)] [mleaf m_b []]] in
  let t2 := T None m_r [] [T None m_bc [(m_x, VInt 2)] [mleaf m_b []; mleaf m_bc []]] in
  domain_C15 m_dot t1 t2 [m_x] = true /\ lookalike_free t1 t2 = true /\
  keptM [m_x] (nodes_of t1) (nodes_of t2) true = [[m_r; m_b]; [m_r; m_bc]; [m_r; m_bc; m_bc]] /\
  kept_paths m_dot t1 t2 true [m_x]
  = [[46; 114; 46; 98; 32; 40; 45; 41]%N; [46; 114; 46; 98; 99]%N; [46; 114; 46; 98; 99; 46; 98; 99; 32; 40; 43; 41]%N] /\
  get_tree_diff m_dot t1 t2 true [m_x] = Raise TreeError /\
  prop_C15 m_dot t1 t2 true [m_x] (obs_of_res (get_tree_diff m_dot t1 t2 true [m_x])) = false.
Proof. vm_compute. repeat split. Qed.

(* identical trees whose names end in a marker (lookalike_free is false), separator ".": None, predicate true;
   a changed root only: one kept row, the answer is the single node "/r (~)" where ".r (~)" is expected *)
Example C15_more_none_instance :
  let t := T None m_r [(m_x, VInt 1)] [mleaf (m_b ++ mark_suffix MRem) []; mleaf m_b []] in
  let t' := T None m_r [(m_x, VInt 2)] [mleaf (m_b ++ mark_suffix MRem) []; mleaf m_b []] in
  domain_C15 m_dot t t [m_x] = true /\ lookalike_free t t = false /\
  get_tree_diff m_dot t t true [m_x] = Ret None /\
  get_tree_diff slash t t true [m_x] = Ret None /\
  prop_C15 m_dot t t true [m_x] (obs_of_res (get_tree_diff m_dot t t true [m_x])) = true /\
  get_tree_diff m_dot t t' true [m_x] = Ret (Some [([47; 114; 32; 40; 126; 41]%N, [(m_x, (VInt 1, VInt 2))])]) /\
  expected m_dot [m_x] (nodes_of t) (nodes_of t') true = [([46; 114; 32; 40; 126; 41]%N, [(m_x, (VInt 1, VInt 2))])] /\
  prop_C15 m_dot t t' true [m_x] (obs_of_res (get_tree_diff m_dot t t' true [m_x])) = false.
Proof. vm_compute. repeat split. Qed.

(* the guard sep_plain of C15_sep_refused_two_nodes is needed: separator "(", removed node b next to the common
   path "b " / "-)" whose attribute x changed - two kept nodes, both rendered "(r(b (-)", no TreeError *)
Example C15_marker_sep_two_nodes_refuted :
  exists c t1 t2 al p q,
    c <> 47%N /\ domain_C15 [c] t1 t2 al = true /\ lookalike_free t1 t2 = true /\
    In p (keptM al (nodes_of t1) (nodes_of t2) true) /\ In q (keptM al (nodes_of t1) (nodes_of t2) true) /\ p <> q /\
    mpc c al (nodes_of t1) (nodes_of t2) p = mpc c al (nodes_of t1) (nodes_of t2) q /\
    get_tree_diff [c] t1 t2 true al = Ret (Some [([47; 45; 41; 32; 40; 126; 41]%N, [(m_x, (VInt 1, VInt 2))])]).
Proof.
  exists 40%N, wit_t1, wit_t2, [m_x], [m_r; m_b], [m_r; [98; 32]%N; [45; 41]%N].
  split; [discriminate|]. vm_compute. repeat split; auto. discriminate.
Qed.

(* a two-character separator "->": identical trees give None and the predicate holds; any difference, or
   only_diff = false, and it is false *)
Example C15_multichar_sep_instance :
  let arrow : str := [45; 62]%N in
  let t1 := T None m_r [] [mleaf m_b []; mleaf m_bc []] in
  let t2 := T None m_r [] [mleaf m_b []] in
  domain_C15 arrow t1 t2 [] = true /\
  prop_C15 arrow t1 t1 true [] (obs_of_res (get_tree_diff arrow t1 t1 true [])) = true /\
  get_tree_diff arrow t1 t1 true [] = Ret None /\
  prop_C15 arrow t1 t2 true [] (obs_of_res (get_tree_diff arrow t1 t2 true [])) = false /\
  prop_C15 arrow t1 t1 false [] (obs_of_res (get_tree_diff arrow t1 t1 false [])) = false.
Proof. vm_compute. repeat split. Qed.
