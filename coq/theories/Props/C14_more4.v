(* C14 — the hyield_tree observation of the get_subtree call path (proofs: Algo/C14More4.v).

   DESIGN **P** "`hyield_tree` on that path (compared as a multiset of names)"; partial_clauses "Not in the
   umbrella: the print_tree / hyield_tree observation" (print_tree closed in rounds 2-3) and blind spot (d)
   "hyield_tree is compared with print_tree as a multiset of names and only for alphanumeric names".

   export.py:651 — hyield_tree begins with `tree = get_subtree(tree, node_name_or_path, max_depth)`, then lays
   the block out:  hprint_at hst inter bin tsep t st s d = get_subtree_at ; hyield_rows  (Algo/HRender.v).
   - the exceptions of hyield_tree are exactly those of get_subtree, hence of print_tree (the harness's
     `p.get("err") == h.get("err")`), and they are those of the expected outcome of round 2;
   - on success the rows decode with the text-only decoder of C18 to a tree matching get_subtree's result;
     for a result without empty BinaryNode slots the decoded names are, IN PRE-ORDER, the trimmed names of
     the result's nodes (the harness compares the sorted names only, and only alphanumeric ones). *)
From BT Require Import Base.Prelude Base.Str Base.Rose Base.StrSep Algo.Render Algo.HRender Spec.PC18
                       Algo.RenderProofs Corr.RenderCorr Algo.C18More
                       Algo.Helper Spec.PC14 Algo.HelperProofs Algo.C14More Algo.C14More2 Algo.C14More4.

(* hyield_tree raises exactly when get_subtree raises, the same exception: the layout never raises *)
Theorem C14_hprint_error_is_get_subtree : forall hst inter bin tsep t st s d,
  err_of (hprint_at hst inter bin tsep t st s d) = err_of (get_subtree_at bin tsep t st s d).
Proof. exact hprint_error_is_get_subtree. Qed.
Print Assumptions C14_hprint_error_is_get_subtree.

(* ... hence exactly when print_tree raises, the same exception (every style print_tree accepts) *)
Theorem C14_hprint_error_is_print : forall hst inter vst bin tsep t st s d,
  vstyle_ok vst = true ->
  err_of (hprint_at hst inter bin tsep t st s d) = err_of (print_tree_at vst bin tsep t st s d).
Proof. exact hprint_error_is_print. Qed.
Print Assumptions C14_hprint_error_is_print.

(* against the expected outcome (spec vocabulary: addressed_at, expected_gen): an exception iff the expected
   outcome is that exception's code (ValueError: no node addressed, SearchError: several); otherwise
   get_subtree returned, the layout has its h_rows rows, and the expected outcome is a tree *)
Theorem C14_hprint_outcome : forall hst inter bin tsep t st s d,
  print_ok bin tsep t st s ->
  match hprint_at hst inter bin tsep t st s d with
  | Raise e => expected_print_outcome bin tsep t st s d = OErr (exn_code e)
  | Ret rows => exists r L, get_subtree_at bin tsep t st s d = Ret r
                            /\ hyield_rows hst inter r = Ret rows
                            /\ h_rows r rows = true
                            /\ expected_print_outcome bin tsep t st s d = OTree L
  end.
Proof. exact hprint_outcome. Qed.
Print Assumptions C14_hprint_outcome.

(* on success: the text decodes (text-only decoder, band widths) to a tree matching get_subtree's result —
   Node and BinaryNode, any start node / path / depth limit / separator, with and without intermediate names *)
Theorem C14_hprint_decodes : forall hst inter bin tsep t st s d r,
  hglyphs_distinct (glyphs_of hst) = true ->
  get_subtree_at bin tsep t st s d = Ret r -> names_rstripped r = true ->
  exists rows dec,
    hprint_at hst inter bin tsep t st s d = Ret rows
    /\ h_decode (glyphs_of hst) inter (band_widths inter r) None rows = Some dec
    /\ h_match inter dec r = true.
Proof. exact hprint_decodes. Qed.
Print Assumptions C14_hprint_decodes.

(* what `h_match` says about names: no empty slot => the trimmed names, in pre-order *)
Theorem C14_h_match_names : forall t dec,
  hole_free t = true -> h_match true dec t = true ->
  map tname (pre dec) = map (fun x => trim (tname x)) (pre t).
Proof. exact h_match_names. Qed.
Print Assumptions C14_h_match_names.

(* the names hyield_tree shows (default intermediate_node_name=True) = the names of get_subtree's result in
   pre-order, i.e. (C14_print_total_outcome) the names print_tree shows — as a list, not only as a multiset *)
Theorem C14_hprint_names : forall hst bin tsep t st s d r,
  hglyphs_distinct (glyphs_of hst) = true ->
  get_subtree_at bin tsep t st s d = Ret r -> names_rstripped r = true -> hole_free r = true ->
  exists rows dec,
    hprint_at hst true bin tsep t st s d = Ret rows
    /\ h_decode (glyphs_of hst) true (band_widths true r) None rows = Some dec
    /\ map tname (pre dec) = map (fun x => trim (tname x)) (pre r).
Proof. exact hprint_names. Qed.
Print Assumptions C14_hprint_names.

Local Open Scope N_scope.
(* Node tree r(a(b(e), c), x(b)), separator "/", ansi style, hyield_tree(r, "a", max_depth 2):
        /- b
   - a -+
        \- c
   decodes to a(b, c); the names a, b, c = the names of the expected print outcome.  The name "b" addresses
   two nodes: SearchError, "z" none: ValueError — also the expected outcomes. *)
Example C14_hprint_nonvacuous :
  let t := T None [114] [] [T None [97] [] [T None [98] [] [T None [101] [] []]; T None [99] [] []];
                            T None [120] [] [T None [98] [] []]] in
  let r := T None [97] [] [T None [98] [] []; T None [99] [] []] in
  print_ok false [47] t []%list [97]
  /\ hglyphs_distinct (glyphs_of hs_ansi) = true
  /\ get_subtree_at false [47] t []%list [97] 2%nat = Ret r
  /\ names_rstripped r = true /\ hole_free r = true
  /\ hprint_at hs_ansi true false [47] t []%list [97] 2%nat
     = Ret [[32; 32; 32; 32; 32; 47; 45; 32; 98]; [45; 32; 97; 32; 45; 43]; [32; 32; 32; 32; 32; 92; 45; 32; 99]]
  /\ h_decode (glyphs_of hs_ansi) true (band_widths true r) None
       [[32; 32; 32; 32; 32; 47; 45; 32; 98]; [45; 32; 97; 32; 45; 43]; [32; 32; 32; 32; 32; 92; 45; 32; 99]]
     = Some r
  /\ expected_print_outcome false [47] t []%list [97] 2%nat
     = OTree [(1%nat, [97], []); (2%nat, [98], []); (2%nat, [99], [])]
  /\ hprint_at hs_ansi true false [47] t []%list [98] 0%nat = Raise SearchError
  /\ expected_print_outcome false [47] t []%list [98] 0%nat = OErr (exn_code SearchError)
  /\ hprint_at hs_ansi true false [47] t []%list [122] 0%nat = Raise ValueError
  /\ expected_print_outcome false [47] t []%list [122] 0%nat = OErr (exn_code ValueError).
Proof.
  cbv zeta. split; [|vm_compute; repeat split].
  split; [eexists; split; [reflexivity|intros E; discriminate E]|].
  split; [discriminate|]. split; [apply strip_ok_single|intros E; discriminate E].
Qed.
Local Close Scope N_scope.
