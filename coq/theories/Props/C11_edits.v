(* C11, tree level: the accepted operations of BinaryNode ARE binary-tree edits, stated on the binary
   trees `bsubtree s x` (Heap/BinaryAbs.v) that hang below the nodes of a well-formed two-slot heap
   state (BWF; hence of every reachable state, C11_step_preserves_BWF):
     - `c.parent = p`    : the subtree below c moves intact; below every node outside it, it is cut out
                           (its old slot becomes None) and written into the FIRST EMPTY slot of p;
     - `c.parent = None` : the same without the write;
     - `del p.children`  : p becomes a leaf, the former children keep their subtrees;
     - `p.children = [a; b]`, `p.left = a`, `p.right = b`: the new children are cut out wherever they
                           were and the two slots of p are overwritten;
     - sort, extend, the constructor: `C11_every_accepted_step_is_btree_edit`.
   `rm c o` is the slot o with c removed (None if o = Some c, o otherwise); `bcut`, `bgraft`, `bfill`,
   `bcutl`, `bput` are the edits on `btree` defined in Heap/BinaryEdits.v, where the proofs live. *)
From BT Require Import Base.Prelude Base.Rose Heap.Forest Heap.Binary Heap.BinaryProofs Heap.Abs
     Heap.BinaryAbs Spec.PC04 Heap.BinaryEdits.

(* (1) a subtree depends only on the slot lists of its own nodes *)
Theorem C11_subtree_frame : forall s s' x,
  bsize s' = bsize s ->
  (forall y, In (Some y) (tags (img (bsubtree s x))) -> Binary.bkids s' y = Binary.bkids s y) ->
  bsubtree s' x = bsubtree s x.
Proof. exact bsubtree_frame. Qed.
Print Assumptions C11_subtree_frame.

(* (2a) an accepted parent assignment (to a node or to None) moves the subtree below c intact *)
Theorem C11_moved_subtree_intact : forall cfg ft s c a s',
  BWF s -> c < bsize s -> barg_in_range s a = true ->
  bset_parent cfg ft s c a = (s', Ok) ->
  bsubtree s' c = bsubtree s c.
Proof. exact set_parent_subtree_intact. Qed.
Print Assumptions C11_moved_subtree_intact.

(* (2b) every subtree containing neither the old parent q nor the new parent p is unchanged *)
Theorem C11_reparent_frame : forall cfg ft s c a s',
  BWF s -> c < bsize s -> barg_in_range s a = true ->
  bset_parent cfg ft s c a = (s', Ok) ->
  forall x, (forall q, bpar s c = Some q -> ~ In (Some q) (tags (img (bsubtree s x)))) ->
            (forall p, slot_of_arg a = Some p -> ~ In (Some p) (tags (img (bsubtree s x)))) ->
            bsubtree s' x = bsubtree s x.
Proof. exact set_parent_frame. Qed.
Print Assumptions C11_reparent_frame.

(* (2c) the new parent: its slots are the old ones with c removed (the case "c was already a child of
   p" included, as in the model: c first leaves its slot), each remaining occupant with c cut out of
   it (c may have sat below it), and the subtree of c written into the first empty one (`bfill`:
   left before right); one of the two was empty *)
Theorem C11_new_parent_slots : forall cfg ft s c (p : id) s',
  BWF s -> c < bsize s -> p < bsize s ->
  bset_parent cfg ft s c (ANode p) = (s', Ok) ->
  let X := fun k => bcut c (bsubtree s k) in
  let L := option_map X (rm c (slot (Binary.bkids s p) 0)) in
  let R := option_map X (rm c (slot (Binary.bkids s p) 1)) in
  bsubtree s' p = B (Some p) (fst (bfill (bsubtree s c) L R)) (snd (bfill (bsubtree s c) L R))
  /\ (L = None \/ R = None).
Proof. exact set_parent_new_parent. Qed.
Print Assumptions C11_new_parent_slots.

(* ... and the cut is the identity on an occupant that did not contain c *)
Theorem C11_cut_absent : forall c b, ~ In (Some c) (tags (img b)) -> bcut c b = b.
Proof. exact bcut_absent. Qed.
Print Assumptions C11_cut_absent.

(* (2d) the old parent q, when it is not the new parent p and p is not below q: the slot of c is
   None afterwards, the other slot keeps its subtree *)
Theorem C11_old_parent_slot_cleared : forall cfg ft s c (p q : id) s',
  BWF s -> c < bsize s -> p < bsize s ->
  bset_parent cfg ft s c (ANode p) = (s', Ok) ->
  bpar s c = Some q -> q <> p -> ~ In (Some p) (tags (img (bsubtree s q))) ->
  bsubtree s' q = B (Some q) (option_map (bsubtree s) (rm c (slot (Binary.bkids s q) 0)))
                             (option_map (bsubtree s) (rm c (slot (Binary.bkids s q) 1)))
  /\ (slot (Binary.bkids s q) 0 = Some c -> bsubtree s' q = B (Some q) None (bright (bsubtree s q)))
  /\ (slot (Binary.bkids s q) 1 = Some c -> bsubtree s' q = B (Some q) (bleft (bsubtree s q)) None).
Proof. exact set_parent_old_parent. Qed.
Print Assumptions C11_old_parent_slot_cleared.

(* (2), the whole edit: below EVERY node r outside the moved subtree (ancestors of old and new parent
   included), the tree afterwards is the tree before with the c-subtree cut out and written into the
   first empty slot of the node tagged p (`bgraft`; nothing is written for `c.parent = None`) *)
Theorem C11_reparent_is_surgery : forall cfg ft s c a s',
  BWF s -> c < bsize s -> barg_in_range s a = true ->
  bset_parent cfg ft s c a = (s', Ok) ->
  bsubtree s' c = bsubtree s c
  /\ forall r, ~ In (Some r) (tags (img (bsubtree s c))) ->
       bsubtree s' r = bgraft_opt (slot_of_arg a) (bsubtree s c) (bcut c (bsubtree s r)).
Proof. exact set_parent_is_bsurgery. Qed.
Print Assumptions C11_reparent_is_surgery.

Theorem C11_graft_absent : forall p u b, ~ In (Some p) (tags (img b)) -> bgraft p u b = b.
Proof. exact bgraft_absent. Qed.
Print Assumptions C11_graft_absent.

(* (3) `c.parent = None`: c's subtree intact, its old slot emptied, everything not containing the old
   parent unchanged, and below every node outside the c-subtree the c-subtree is cut out *)
Theorem C11_detach_edit : forall cfg ft s c s',
  BWF s -> c < bsize s ->
  bset_parent cfg ft s c ANone = (s', Ok) ->
  bsubtree s' c = bsubtree s c
  /\ (forall q, bpar s c = Some q ->
        bsubtree s' q = B (Some q) (option_map (bsubtree s) (rm c (slot (Binary.bkids s q) 0)))
                                   (option_map (bsubtree s) (rm c (slot (Binary.bkids s q) 1))))
  /\ (forall x, (forall q, bpar s c = Some q -> ~ In (Some q) (tags (img (bsubtree s x)))) ->
                bsubtree s' x = bsubtree s x)
  /\ (forall r, ~ In (Some r) (tags (img (bsubtree s c))) -> bsubtree s' r = bcut c (bsubtree s r)).
Proof. exact set_parent_none_edit. Qed.
Print Assumptions C11_detach_edit.

(* (4) `del p.children`: p becomes a leaf; every subtree not containing p -- in particular the subtree
   of each former child, now a root -- is unchanged *)
Theorem C11_del_children_edit : forall s (p : id), BWF s ->
  let s' := bdel_children s p in
  bsubtree s' p = B (Some p) None None
  /\ (forall x, ~ In (Some p) (tags (img (bsubtree s x))) -> bsubtree s' x = bsubtree s x)
  /\ (forall j k, slot (Binary.bkids s p) j = Some k -> bsubtree s' k = bsubtree s k).
Proof. exact del_children_is_edit. Qed.
Print Assumptions C11_del_children_edit.

(* (5) the children setter (hence `p.left = a`, `p.right = b`): below every node r, the new children
   are cut out wherever they were (`bcutl`) and both slots of p are overwritten with their subtrees
   (`bput`); closed forms at p and away from p *)
Theorem C11_children_assignment_is_edit : forall cfg ft s (p : id) cont args s',
  BWF s -> p < bsize s -> forallb (barg_in_range s) args = true ->
  bset_children cfg ft s p cont args = (s', Ok) ->
  exists a1 a2, norm_args args = [a1; a2]
    /\ let news := [slot_of_arg a1; slot_of_arg a2] in
       let X := fun k => bcutl news (bsubtree s k) in
       (forall r, bsubtree s' r = bput p (option_map X (slot news 0)) (option_map X (slot news 1))
                                         (bcutl news (bsubtree s r)))
       /\ bsubtree s' p = B (Some p) (option_map X (slot_of_arg a1)) (option_map X (slot_of_arg a2))
       /\ (forall r, ~ In (Some p) (tags (img (bsubtree s r))) -> bsubtree s' r = bcutl news (bsubtree s r)).
Proof.
  intros cfg ft s p cont args s' W Hp Hr E.
  destruct (set_children_is_edit cfg ft s p cont args s' W Hp Hr E) as [a1 [a2 [EN H]]].
  exists a1, a2. split; [exact EN|]. cbv zeta. split; [exact H|].
  split; [exact (relink_edit_at _ _ _ _ W H)|]. intros r. exact (relink_edit_frame _ _ _ _ r H).
Qed.
Print Assumptions C11_children_assignment_is_edit.

Theorem C11_cutl_absent : forall news b,
  (forall x, In (Some x) news -> ~ In (Some x) (tags (img b))) -> bcutl news b = b.
Proof. exact bcutl_absent. Qed.
Print Assumptions C11_cutl_absent.

Theorem C11_put_absent : forall p L R b, ~ In (Some p) (tags (img b)) -> bput p L R b = b.
Proof. exact bput_absent. Qed.
Print Assumptions C11_put_absent.

(* capstone: every accepted operation of `bstep` -- parent / children / left / right setters, del
   children, sort, extend (a chain of parent assignments), the constructor (allocation, parent setter,
   children setter) -- is the binary-tree edit `bedit_of` *)
Theorem C11_every_accepted_step_is_btree_edit : forall cfg s o s',
  BWF s -> bstep cfg s o = (s', Ok) -> bedit_of s s' o.
Proof. exact bstep_is_btree_edit. Qed.
Print Assumptions C11_every_accepted_step_is_btree_edit.

(* the same along every history from a fresh set of nodes *)
Theorem C11_edits_on_reachable_states : forall cfg n ops o s',
  let s := brun cfg (binit n) ops in
  bstep cfg s o = (s', Ok) -> bedit_of s s' o.
Proof.
  intros cfg n ops o s' s E. apply (bstep_is_btree_edit cfg s o s'); [|exact E].
  apply brun_BWF, BWF_init.
Qed.
Print Assumptions C11_edits_on_reachable_states.

(* non-vacuity.  0 = [1, 2]; 1.left = 3; 3.right = 4.
   `3.parent = 2`: below 0 the 3-subtree (with 4) is cut out of 1.left and written into 2.left, the
   first empty slot of 2.
   `5.children = [4, 1]`: 4 sits below 1; both are cut out (1 out of 0.left, 4 out of 3.right) and
   become the two slots of 5. *)
Example C11_edits_nonvacuous :
  let cfg := {| assertions := true; is_node := true |} in
  let s := brun cfg (binit 6)
             [BSetChildren 0 CList [ANode 1; ANode 2] NoFault; BSetLeft 1 (ANode 3) NoFault;
              BSetRight 3 (ANode 4) NoFault] in
  let r1 := bset_parent cfg NoFault s 3 (ANode 2) in
  let r2 := bset_children cfg NoFault s 5 CList [ANode 4; ANode 1] in
  let news := [Some 4; Some 1] in
  snd r1 = Ok /\ snd r2 = Ok
  /\ bsubtree s 0 = B (Some 0) (Some (B (Some 1) (Some (B (Some 3) None (Some (B (Some 4) None None)))) None))
                               (Some (B (Some 2) None None))
  /\ bsubtree (fst r1) 0 = B (Some 0) (Some (B (Some 1) None None))
                                      (Some (B (Some 2) (Some (B (Some 3) None (Some (B (Some 4) None None)))) None))
  /\ bsubtree (fst r1) 0 = bgraft 2 (bsubtree s 3) (bcut 3 (bsubtree s 0))
  /\ bsubtree (fst r1) 3 = bsubtree s 3
  /\ bsubtree (fst r1) 1 = B (Some 1) None (bright (bsubtree s 1))
  /\ bsubtree (fst r2) 5 = B (Some 5) (Some (B (Some 4) None None))
                                      (Some (B (Some 1) (Some (B (Some 3) None None)) None))
  /\ bsubtree (fst r2) 0 = B (Some 0) None (Some (B (Some 2) None None))
  /\ bsubtree (fst r2) 0 = bcutl news (bsubtree s 0)
  /\ bsubtree (fst r2) 5 = bput 5 (Some (bcutl news (bsubtree s 4))) (Some (bcutl news (bsubtree s 1)))
                                  (bcutl news (bsubtree s 5)).
Proof. vm_compute. repeat split; reflexivity. Qed.
Print Assumptions C11_edits_nonvacuous.
