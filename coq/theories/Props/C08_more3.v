(* C08 — shift/copy/replace: third batch of further clauses.  Only statements here; the proofs are in Algo/C08More3.v
   (which builds on Algo/ModifyProofs.v, Algo/C08More.v and Algo/C08More2.v).  Model: Algo/Modify.v; documented edit on
   path tables: Spec/PC08.v (edit_cs).

   What is new with respect to Props/C08.v, C08_more.v, C08_more2.v: tree-to-tree merge_children.
   copy_nodes_from_tree_to_tree(tree = s, to_tree = dt, merge_children = True) (no delete_children) for ALL source trees s,
   destination trees dt, source nodes below the root of s (of any shape, with or without children):
   (1) onto an EXISTING node d of dt, no overriding (C08_tt_merge_children_existing): the whole forest after the call is
       explicit — piece 0 is s (the same value: source untouched), piece 1 is dt with fresh copies (retag: tags None, same
       names, attributes, subtrees) of the children of x appended in order after the children d already has, no exception;
       the table of piece 1 is the one Spec.edit_cs prescribes (src = rows s, dst = rows dt, same = false);
   (2) onto an ABSENT destination path (C08_tt_merge_children_absent): the missing intermediate nodes are created in dt
       (ensure), then as (1) under the created parent;
   (3) the observable pieces (C08_tt_merge_children_existing_obs): every path of dt is still a path of the result, at the
       same reference.
   The guard "no child of x has the name of a child of the destination" is the code's own (the clashing assignment raises
   TreeError). *)
From BT Require Import Base.Prelude Base.Str Base.StrSep Base.Rose Algo.Modify Spec.PC08 Corr.ModifyCorr Algo.ModifyProofs
                       Algo.C08More Algo.C08More2 Algo.C08More3.

(* (1) *)
Theorem C08_tt_merge_children_existing : forall c s dt p d x PX PD,
  tt_cfg c -> f_mc (c_fl c) = true -> f_over (c_fl c) = false -> f_dc (c_fl c) = false ->
  wf_t s -> wf_t dt -> p <> [] -> tget s p = Some x -> tpath s p = Some PX -> tpath dt d = Some PD ->
  (forall k, In k (tkids x) -> has (rows dt) (PD ++ [tname k]) = false) ->
  let K := map retag (tkids x) in
  let t2 := app_all d K dt in
  cs_core c [s; dt] (0 :: p) (TNode (1 :: d))
  = ([s; t2; t_remove p (t_setk p [] (retag s)); set_kids (retag x) []], None)
  /\ rows t2 = ins_all PD K (rows dt)
  /\ wf_t t2
  /\ (last PD [] = tname x ->
      edit_cs true false (c_fl c) (rows s) (rows dt) PX (Some PD) = PNext (rows s) (rows t2))
  /\ subseq (rows dt) (rows t2).
Proof. exact (C08_tt_merge_children_existing_stmt). Qed.
Print Assumptions C08_tt_merge_children_existing.

(* the attach step alone (modify.py:1200-1212 with copy, to_tree given) *)
Theorem C08_tt_merge_children_attach : forall c s dt p d x PD,
  tt_cfg c -> f_dc (c_fl c) = false -> wf_t s -> wf_t dt ->
  p <> [] -> tget s p = Some x -> tpath dt d = Some PD ->
  (forall k, In k (tkids x) -> has (rows dt) (PD ++ [tname k]) = false) ->
  let K := map retag (tkids x) in
  let t2 := app_all d K dt in
  attach c true [s; dt] (0 :: p) (Some (1 :: d))
  = ([s; t2; t_remove p (t_setk p [] (retag s)); set_kids (retag x) []], None)
  /\ rows t2 = ins_all PD K (rows dt) /\ wf_t t2
  /\ (forall z P, tpath dt z = Some P -> tpath t2 z = Some P).
Proof. exact (m3_tt_mc_attach). Qed.
Print Assumptions C08_tt_merge_children_attach.

(* (3) *)
Theorem C08_tt_merge_children_existing_obs : forall c s dt p d x PX PD,
  tt_cfg c -> f_mc (c_fl c) = true -> f_over (c_fl c) = false -> f_dc (c_fl c) = false ->
  wf_t s -> wf_t dt -> p <> [] -> tget s p = Some x -> tpath s p = Some PX -> tpath dt d = Some PD ->
  (forall k, In k (tkids x) -> has (rows dt) (PD ++ [tname k]) = false) ->
  let o := cs_core c [s; dt] (0 :: p) (TNode (1 :: d)) in
  snd o = None /\ piece (fst o) 0 = s
  /\ piece (fst o) 1 = app_all d (map retag (tkids x)) dt
  /\ (forall z P, tpath dt z = Some P -> tpath (piece (fst o) 1) z = Some P).
Proof. exact (C08_tt_merge_children_existing_obs). Qed.
Print Assumptions C08_tt_merge_children_existing_obs.

(* add_path_to_tree in piece i+1 of a :: f is add_path_to_tree in piece i of f *)
Theorem C08_add_walk_other_piece : forall (a : tree) comps (f : forest) i h f' r,
  add_walk f (i :: h) comps = (f', r) ->
  add_walk (a :: f) (S i :: h) comps = (a :: f', m3_rsh r).
Proof. exact (m3_add_walk_shift). Qed.
Print Assumptions C08_add_walk_other_piece.

(* (2) *)
Theorem C08_tt_merge_children_absent : forall c s dt p x comps PX,
  let Q := tname dt :: comps in
  tt_cfg c -> f_mc (c_fl c) = true -> f_dc (c_fl c) = false ->
  wf_t s -> wf_t dt -> p <> [] -> tget s p = Some x -> tpath s p = Some PX ->
  (forall cc, In cc comps -> cc <> []) ->
  has (rows dt) (Q ++ [tname x]) = false ->
  (forall k, In k (tkids x) -> has (rows dt) (Q ++ [tname k]) = false) ->
  let K := map retag (tkids x) in
  exists t2 rest,
    cs_core c [s; dt] (0 :: p) (TNew comps) = (s :: t2 :: rest, None)
    /\ rows t2 = ins_all Q K (ensure (rows dt) [tname dt] comps)
    /\ wf_t t2
    /\ edit_cs true false (c_fl c) (rows s) (rows dt) PX (Some (Q ++ [tname x])) = PNext (rows s) (rows t2)
    /\ subseq (rows dt) (rows t2).
Proof. exact (C08_tt_merge_children_absent_stmt). Qed.
Print Assumptions C08_tt_merge_children_absent.

(* ---- the hypotheses are satisfiable by non-trivial inputs ------------------------------------------------------ *)

Ltac conj := repeat match goal with |- _ /\ _ => split end.
Ltac fin_ex := first [ vm_compute; reflexivity | apply wf_tb_sound; vm_compute; reflexivity | discriminate ].

(* source r( x[v=7]( 1( k, m( u[a=1] ) ), 2, 3( w ) ), y ), destination s( x( q ), z ).
   Code points: r 114, x 120, y 121, z 122, k 107, m 109, u 117, w 119, q 113, n 110, s 115, 1 49, 2 50, 3 51 *)
Definition mx3 : tree :=
  T (Some 1) [120%N] [([118%N], VInt 7%Z)]
    [ T (Some 2) [49%N] [] [T (Some 3) [107%N] [] []; T (Some 4) [109%N] [] [T (Some 5) [117%N] [([97%N], VInt 1%Z)] []]];
      T (Some 6) [50%N] [] [];
      T (Some 7) [51%N] [] [T (Some 8) [119%N] [] []] ].
Definition src3 : tree := T (Some 0) [114%N] [] [ mx3; T (Some 9) [121%N] [] [] ].
Definition dst3 : tree :=
  T (Some 20) [115%N] [] [T (Some 21) [120%N] [] [T (Some 22) [113%N] [] []]; T (Some 23) [122%N] [] []].
Definition fl_mc3 : mflags := MF false false true false false true.
Definition PX3 : list str := [[114%N]; [120%N]].
Definition PD3 : list str := [[115%N]; [120%N]].

(* copy_nodes_from_tree_to_tree(src3, dst3, ["r/x"], ["s/x"], merge_children=True): s/x exists; the hypotheses of
   C08_tt_merge_children_existing hold and the run shows its conclusion: fresh copies of the three children of r/x (one of
   height 3) after q, the source tree untouched, prop_C08 accepts *)
Example C08_tt_merge_children_existing_nonvacuous :
  let i := MI OpCopyTT fl_mc3 [47%N] src3 [47%N] dst3 [47%N] [[114;47;120]%N] [Some [115;47;120]%N] in
  tt_cfg (cfg_of i) /\ f_mc (c_fl (cfg_of i)) = true /\ f_over (c_fl (cfg_of i)) = false /\ f_dc (c_fl (cfg_of i)) = false
  /\ wf_t src3 /\ wf_t dst3 /\ tget src3 [0] = Some mx3 /\ tpath src3 [0] = Some PX3 /\ tpath dst3 [0] = Some PD3
  /\ forallb (fun k => negb (has (rows dst3) (PD3 ++ [tname k]))) (tkids mx3) = true
  /\ last PD3 [] = tname mx3 /\ height mx3 = 4 /\ length (tkids mx3) = 3
  /\ piece (fst (run i)) 0 = src3
  /\ piece (fst (run i)) 1
     = T (Some 20) [115%N] []
         [ T (Some 21) [120%N] [] (T (Some 22) [113%N] [] [] :: map retag (tkids mx3)); T (Some 23) [122%N] [] [] ]
  /\ piece (fst (run i)) 1 = app_all [0] (map retag (tkids mx3)) dst3
  /\ rows (piece (fst (run i)) 1) = ins_all PD3 (map retag (tkids mx3)) (rows dst3)
  /\ snd (run i) = None /\ prop_C08 i (obs_of i (run i)) None = true.
Proof. cbv zeta. conj; try fin_ex. split; reflexivity. Qed.

(* ... ["r/x"] -> ["s/z/n/x"]: s/z/n is created, the copies arrive under it; C08_tt_merge_children_absent with comps = [z; n] *)
Example C08_tt_merge_children_absent_nonvacuous :
  let TX := [[115%N]; [122%N]; [110%N]; [120%N]] in
  let i := MI OpCopyTT fl_mc3 [47%N] src3 [47%N] dst3 [47%N] [[114;47;120]%N] [Some [115;47;122;47;110;47;120]%N] in
  removelast TX = tname dst3 :: [[122%N]; [110%N]] /\ has (rows dst3) TX = false
  /\ forallb (fun k => negb (has (rows dst3) (removelast TX ++ [tname k]))) (tkids mx3) = true
  /\ piece (fst (run i)) 0 = src3
  /\ piece (fst (run i)) 1
     = T (Some 20) [115%N] []
         [ T (Some 21) [120%N] [] [T (Some 22) [113%N] [] []];
           T (Some 23) [122%N] [] [ T None [110%N] [] (map retag (tkids mx3)) ] ]
  /\ rows (piece (fst (run i)) 1)
     = ins_all (removelast TX) (map retag (tkids mx3)) (ensure (rows dst3) [tname dst3] [[122%N]; [110%N]])
  /\ edit_cs true false fl_mc3 (rows src3) (rows dst3) PX3 (Some TX) = PNext (rows src3) (rows (piece (fst (run i)) 1))
  /\ snd (run i) = None /\ prop_C08 i (obs_of i (run i)) None = true.
Proof. cbv zeta. conj; fin_ex. Qed.
