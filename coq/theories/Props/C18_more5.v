(* C18, fifth round — tree_to_dot (statements only; proofs in Algo/C18More5.v).
   Round 4 derived the guard "the nodes have pairwise different path names" (`paths_distinct`) from
   the shape of the tree for a ONE-character separator [c].  Here the same structural guard
   (`sibs_wf c`: the children of one node have pairwise different names and no non-root name contains
   c) gives it for EVERY non-empty separator c :: rest (node.sep may be any string): only the first
   character of the separator has to be absent from the names, its other characters may occur in
   them.  `sibs_wf_sep sep` states the guard on the separator itself (false for the empty one).
   The empty separator is refuted; for a several-character separator "no name contains the whole
   separator" is shown not to be enough. *)
From BT Require Import Base.Prelude Base.Str Base.Rose Algo.Render Algo.Dot Spec.PC18 Algo.RenderProofs
     Corr.RenderCorr Algo.C18More3 Algo.C18More4 Algo.C18More5.

(* the structural guard implies the path-name guard, for every tree and every non-empty separator *)
Theorem C18_dot_paths_distinct_shape_sep : forall c rest t,
  sibs_wf c (compact t) = true -> paths_distinct (c :: rest) t = true.
Proof. exact sibs_wf_paths_distinct_sep. Qed.
Print Assumptions C18_dot_paths_distinct_shape_sep.

(* the underlying fact at any start prefix *)
Theorem C18_dot_paths_NoDup_shape_sep : forall c rest t pp,
  sibs_wf c t = true -> NoDup (map snd (label_paths (c :: rest) pp t)).
Proof. exact sibs_wf_paths_NoDup_sep. Qed.
Print Assumptions C18_dot_paths_NoDup_shape_sep.

(* the same with the guard stated on the separator string *)
Theorem C18_dot_paths_distinct_any_sep : forall sep t,
  sibs_wf_sep sep (compact t) = true -> paths_distinct sep t = true.
Proof. exact sibs_wf_sep_paths_distinct. Qed.
Print Assumptions C18_dot_paths_distinct_any_sep.

(* vertex ids unique for any separator: no label on more than ten nodes, structural guard, no colon (K5) *)
Theorem C18_dot_ids_injective_shape_sep : forall sep t,
  labels_at_most_ten t = true -> sibs_wf_sep sep (compact t) = true -> no_label_has_colon t = true ->
  graph_ids_distinct (dot_nodes sep t) = true.
Proof. exact dot_ids_injective_shape_sep. Qed.
Print Assumptions C18_dot_ids_injective_shape_sep.

(* the whole graph clause under these guards, any separator *)
Theorem C18_dot_graph_shape_sep : forall sep t,
  labels_at_most_ten t = true -> sibs_wf_sep sep (compact t) = true -> no_label_has_colon t = true ->
  prop_C18_g t (dot_nodes sep t) (dot_edges sep t) = true.
Proof. exact dot_graph_shape_sep. Qed.
Print Assumptions C18_dot_graph_shape_sep.

(* with the K2 guard of the first round in place of the multiplicity guard *)
Theorem C18_dot_graph_shape_nodigit_sep : forall sep t,
  no_label_ends_in_digit t = true -> sibs_wf_sep sep (compact t) = true -> no_label_has_colon t = true ->
  prop_C18_g t (dot_nodes sep t) (dot_edges sep t) = true.
Proof. exact dot_graph_shape_nodigit_sep. Qed.
Print Assumptions C18_dot_graph_shape_nodigit_sep.

(* every tree with at most ten existing nodes, any separator: structural guards only *)
Theorem C18_dot_graph_shape_small_trees_sep : forall sep t,
  tsize (compact t) <= 10 -> sibs_wf_sep sep (compact t) = true -> no_label_has_colon t = true ->
  prop_C18_g t (dot_nodes sep t) (dot_edges sep t) = true.
Proof. exact dot_graph_shape_small_trees_sep. Qed.
Print Assumptions C18_dot_graph_shape_small_trees_sep.

(* ---------------------------------------------------------------------------------------------- *)
Local Open Scope N_scope.
(* a binary tree 1(2(1, -), 1>(-, 1(x2, 1))): empty slots, the name 1 on four nodes in different
   branches and depths, names ending in digits, one name containing '>' — the SECOND character of
   the separator "->" = [45; 62] *)
Definition ex_tree_b5 : tree :=
  Nd [49] [Nd [50] [Nd [49] []; Hole];
           Nd [49; 62] [Hole; Nd [49] [Nd [120; 50] []; Nd [49] []]]].
(* r(a(b(x)), ab(x)) *)
Definition empty_sep_witness : tree :=
  Nd [114] [Nd [97] [Nd [98] [Nd [120] []]]; Nd [97; 98] [Nd [120] []]].
(* r(xa(y(z)), x(ay(z))) with the separator "aa": no name contains "aa" *)
Definition long_sep_witness : tree :=
  Nd [114] [Nd [120; 97] [Nd [121] [Nd [122] []]]; Nd [120] [Nd [97; 121] [Nd [122] []]]].
Local Close Scope N_scope.

(* non-vacuity: the guards hold for the two-character separator "->", a name contains its second
   character, and the conclusion is shown on the concrete ids *)
Example C18_dot_shape_sep_witness :
  sibs_wf_sep [45; 62]%N (compact ex_tree_b5) = true /\ sibs_wf 62%N (compact ex_tree_b5) = false
  /\ labels_at_most_ten ex_tree_b5 = true
  /\ no_label_has_colon ex_tree_b5 = true /\ no_label_ends_in_digit ex_tree_b5 = false
  /\ paths_distinct [45; 62]%N ex_tree_b5 = true
  /\ map fst (dot_nodes [45; 62]%N ex_tree_b5)
     = [[49; 48]; [50; 48]; [49; 49]; [49; 62; 48]; [49; 50]; [120; 50; 48]; [49; 51]]%N
  /\ prop_C18_g ex_tree_b5 (dot_nodes [45; 62]%N ex_tree_b5) (dot_edges [45; 62]%N ex_tree_b5) = true.
Proof. vm_compute. repeat split. Qed.

(* the empty separator is out: sibling names pairwise different everywhere (sibs_wf for a character
   that occurs nowhere), yet both nodes x get the path name rabx and the id x0 *)
Example C18_dot_empty_sep_refuted :
  exists t, labels_at_most_ten t = true /\ no_label_has_colon t = true /\ no_label_ends_in_digit t = true
            /\ sibs_wf 47%N (compact t) = true /\ sibs_wf_sep [] (compact t) = false
            /\ paths_distinct [] t = false
            /\ graph_ids_distinct (dot_nodes [] t) = false
            /\ graph_ids_distinct (dot_nodes [47%N] t) = true.
Proof. exists empty_sep_witness. vm_compute. repeat split. Qed.

(* for a several-character separator the absence of the WHOLE separator from the names is not
   enough: with "aa", sibling names pairwise different and no name containing "aa", both nodes z get
   the path name aaraaxaaayaaz and the id z0 (names contain the first character a) *)
Example C18_dot_first_char_needed_refuted :
  exists t, labels_at_most_ten t = true /\ no_label_has_colon t = true /\ no_label_ends_in_digit t = true
            /\ sibs_wf 47%N (compact t) = true
            /\ sibs_wf_sep [97; 97]%N (compact t) = false /\ paths_distinct [97; 97]%N t = false
            /\ graph_ids_distinct (dot_nodes [97; 97]%N t) = false.
Proof. exists long_sep_witness. vm_compute. repeat split. Qed.
