(* C02, BinaryNode share — a rejected or failing parent / children / left / right assignment
   changes nothing.  Model: Heap/Binary.v (transliteration of bigtree/node/binarynode.py);
   proofs: Heap/BinaryProofs.v. *)
From BT Require Import Base.Prelude Heap.Forest Heap.Binary Spec.PC11 Heap.BinaryProofs.

(* any single assignment on binary nodes that does not return normally (wrong type or length, loop,
   "parent already has two children" raised inside the try, failing pre-/post-assign hook) leaves
   every parent pointer and every slot list exactly as it was.  (extend and the constructor are
   sequences of assignments and are covered assignment by assignment: set_parent_sound /
   set_children_sound in Heap/BinaryProofs.v.) *)
Theorem C02_binary_atomic : forall cfg s o, BWF s -> atomic_op o = true ->
  snd (bstep cfg s o) <> Ok -> beq (fst (bstep cfg s o)) s.
Proof. exact binary_atomic. Qed.
Print Assumptions C02_binary_atomic.

Theorem C02_binary_every_history : forall cfg n ops o, atomic_op o = true ->
  let s := brun cfg (binit n) ops in
  snd (bstep cfg s o) <> Ok -> beq (fst (bstep cfg s o)) s.
Proof. intros cfg n ops o Ho s H. apply binary_atomic; [apply brun_BWF, BWF_init|exact Ho|exact H]. Qed.
Print Assumptions C02_binary_every_history.
