(* C11 — a BinaryNode always has exactly a left and a right slot.
   This file contains only the property theorems; the proofs live in Heap/BinaryProofs.v.
   Model: Heap/Binary.v (statement-by-statement transliteration of bigtree/node/binarynode.py);
   predicates: Spec/PC11.v (the same booleans are evaluated on the implementation's states by
   Corr/BinaryCorr.v). *)
From BT Require Import Base.Prelude Heap.Forest Heap.Binary Spec.PC11 Heap.BinaryProofs.

(* -- the invariant ---------------------------------------------------------------------------- *)

Theorem C11_init : forall n, bwf_b (binit n) = true.
Proof. intros n. exact (BWF_bwf_b _ (BWF_init n)). Qed.
Print Assumptions C11_init.

(* every operation — accepted, rejected by a guard, or failing in a user hook before / after the
   assignment — leaves exactly two slots per node, slot/parent agreement, each child in exactly one
   slot of exactly its parent, no cycle *)
Theorem C11_step_preserves_BWF : forall cfg s o, BWF s -> BWF (fst (bstep cfg s o)).
Proof. exact bstep_BWF. Qed.
Print Assumptions C11_step_preserves_BWF.

Theorem C11_reachable : forall cfg n ops, bwf_b (brun cfg (binit n) ops) = true.
Proof. intros cfg n ops. exact (BWF_bwf_b _ (brun_BWF cfg ops _ (BWF_init n))). Qed.
Print Assumptions C11_reachable.

(* the same for every intermediate state of a history, i.e. also right after a rejected or failing op *)
Theorem C11_reachable_trace : forall cfg n ops,
  Forall (fun r => bwf_b (fst r) = true) (btrace cfg (binit n) ops).
Proof.
  intros cfg n ops. eapply Forall_impl; [|exact (btrace_BWF cfg ops _ (BWF_init n))].
  intros r H. exact (BWF_bwf_b _ H).
Qed.
Print Assumptions C11_reachable_trace.

(* `left` and `right` are those two slots and never raise on a reachable state *)
Theorem C11_getters : forall cfg n ops,
  let s := brun cfg (binit n) ops in getters_ok_b s (fun p => (left_of s p, right_of s p)) = true.
Proof. intros cfg n ops. exact (getters_sound _ (brun_BWF cfg ops _ (BWF_init n))). Qed.
Print Assumptions C11_getters.

(* the fuelled ancestor walk used by the loop guards ends at a root within bsize steps *)
Theorem C11_walk_terminates : forall cfg n ops c,
  let s := brun cfg (binit n) ops in breaches_root s (bsize s) c = true.
Proof.
  intros cfg n ops c s. pose proof (brun_BWF cfg ops _ (BWF_init n)) as [_ _ _ _ Hb [r Hr]]. fold s in Hb, Hr.
  apply breaches_len. rewrite (banc_fix s r Hr Hb (bsize s) c (le_n _)). exact (banc_len_le s r Hr Hb c).
Qed.
Print Assumptions C11_walk_terminates.

(* -- the effect clauses, on every reachable state (operations on live ids) ---------------------- *)

(* assigning a child to a slot (left / right / children setter) empties the slot it came from *)
Theorem C11_slot_moves : forall cfg s o, BWF s -> bop_in_range s o = true ->
  slot_moves_b s o (fst (bstep cfg s o)) (is_ok (snd (bstep cfg s o))) = true.
Proof. exact slot_moves_sound. Qed.
Print Assumptions C11_slot_moves.

(* attaching by parent fills the first empty slot, left before right *)
Theorem C11_parent_first_empty : forall cfg s o, BWF s -> bop_in_range s o = true ->
  parent_first_empty_b s o (fst (bstep cfg s o)) (is_ok (snd (bstep cfg s o))) = true.
Proof. exact parent_first_empty_sound. Qed.
Print Assumptions C11_parent_first_empty.

(* ... or is refused when both slots are taken — and, loops and failing hooks apart, only then *)
Theorem C11_full_refused : forall cfg s o, BWF s -> bop_in_range s o = true ->
  full_refused_b s o (is_ok (snd (bstep cfg s o))) = true.
Proof. exact full_refused_sound. Qed.
Print Assumptions C11_full_refused.

(* deleting children empties both slots *)
Theorem C11_del_empties_both : forall cfg s o, BWF s -> bop_in_range s o = true ->
  del_empties_b s o (fst (bstep cfg s o)) (is_ok (snd (bstep cfg s o))) = true.
Proof. exact del_empties_sound. Qed.
Print Assumptions C11_del_empties_both.

(* all clauses together, along every history *)
Theorem C11_history : forall cfg n ops o,
  let s := brun cfg (binit n) ops in
  bop_in_range s o = true ->
  prop_C11_step s o (fst (bstep cfg s o)) (is_ok (snd (bstep cfg s o))) = true.
Proof. intros cfg n ops o s Hr. exact (prop_C11_step_sound cfg s o (brun_BWF cfg ops _ (BWF_init n)) Hr). Qed.
Print Assumptions C11_history.

(* -- the hypotheses are satisfiable by non-trivial inputs --------------------------------------- *)

Definition cfg_on : config := {| assertions := true; is_node := true |}.

(* 0 = [_, 1]; 2.parent = 0 goes to the left slot; 3.parent = 0 is refused; 1 re-attached stays right *)
Example C11_first_empty_witness :
  let s := brun cfg_on (binit 4) [BSetRight 0 (ANode 1) NoFault] in
  bkids s 0 = [None; Some 1]
  /\ bkids (fst (bstep cfg_on s (BSetParent 2 (ANode 0) NoFault))) 0 = [Some 2; Some 1]
  /\ bop_in_range s (BSetParent 2 (ANode 0) NoFault) = true.
Proof. vm_compute. repeat split. Qed.

Example C11_full_refused_witness :
  let s := brun cfg_on (binit 4) [BSetChildren 0 CList [ANode 1; ANode 2] NoFault] in
  snd (bstep cfg_on s (BSetParent 3 (ANode 0) NoFault)) = Err TreeError
  /\ bkids (fst (bstep cfg_on s (BSetParent 3 (ANode 0) NoFault))) 0 = [Some 1; Some 2]
  /\ bpar (fst (bstep cfg_on s (BSetParent 3 (ANode 0) NoFault))) 3 = None.
Proof. vm_compute. repeat split. Qed.

(* 1 sits in 0.left; assigning it to 2.right empties 0.left *)
Example C11_slot_moves_witness :
  let s := brun cfg_on (binit 3) [BSetLeft 0 (ANode 1) NoFault] in
  let s' := fst (bstep cfg_on s (BSetRight 2 (ANode 1) NoFault)) in
  bkids s 0 = [Some 1; None] /\ bkids s' 0 = [None; None] /\ bkids s' 2 = [None; Some 1] /\ bpar s' 1 = Some 2.
Proof. vm_compute. repeat split. Qed.

Example C11_del_witness :
  let s := brun cfg_on (binit 3) [BSetRight 0 (ANode 1) NoFault] in
  let s' := fst (bstep cfg_on s (BDelChildren 0)) in
  bkids s' 0 = [None; None] /\ bpar s' 1 = None /\ left_of s' 0 = Some None.
Proof. vm_compute. repeat split. Qed.

(* a failing post-assign hook on a children assignment that steals from two donors *)
Example C11_rollback_witness :
  let s := brun cfg_on (binit 5) [BSetLeft 0 (ANode 1) NoFault; BSetRight 2 (ANode 3) NoFault] in
  let r := bstep cfg_on s (BSetChildren 4 CList [ANode 3; ANode 1] PostFail) in
  snd r = Err TreeError /\ bkids (fst r) 0 = [Some 1; None] /\ bkids (fst r) 2 = [None; Some 3]
  /\ bkids (fst r) 4 = [None; None] /\ bpar (fst r) 1 = Some 0 /\ bpar (fst r) 3 = Some 2.
Proof. vm_compute. repeat split. Qed.
