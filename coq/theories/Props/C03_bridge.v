(* C03 bridge — path names: heap versus exported path column.
   `path_name s y` of the heap model (Heap/Forest.v, walking parent pointers as node.py:113-121 does) is
   the string that the exporters of C06 (`c_path` over `nodes_under`, Spec/PC06.v: the "path" column of
   tree_to_dataframe / tree_to_polars and the keys of tree_to_dict) and search.py's model
   (`ln_path_name`, Algo/Search.v) compute for the node tagged y of the rose tree `subtree s r` below a
   root r of a well-formed heap state; depths agree as well.  `tag_ids t` lists the ids tagging `pre t`
   in that order (all tags of a subtree are ids: C03_exported_ids_are_the_tags).
   Consequently C03's heap-level distinctness theorem gives: the exported path column of every reachable
   Node state has no duplicates.      Proofs: Heap/AbsPaths.v. *)
From BT Require Import Base.Prelude Base.Str Base.StrSep Base.Rose Algo.Export Spec.PC06 Algo.ExportProofs
     Algo.Search.
From BT Require Import Heap.Forest Heap.ForestWF Heap.ForestOps Heap.ForestStep Heap.ForestPath
     Heap.ForestNames Heap.ForestLookup Heap.Abs Heap.AbsPaths.

(* the ids whose path names are listed below are exactly the tags of the exported tree, in pre-order;
   they are pairwise distinct and are x together with the nodes having x among their ancestors *)
Theorem C03_exported_ids_are_the_tags : forall s x, WF s ->
  map Some (tag_ids (subtree s x)) = tags (subtree s x)
  /\ NoDup (tag_ids (subtree s x))
  /\ (forall y, In y (tag_ids (subtree s x)) <-> y = x \/ In x (ancestors s y)).
Proof.
  intros s x W. split; [apply tag_ids_tags; exact W|].
  split; [apply tag_ids_subtree_nodup; exact W|intros y; apply tag_ids_members; exact W].
Qed.
Print Assumptions C03_exported_ids_are_the_tags.

(* (1) export of a whole tree: the path column is the heap's path_name, node by node in pre-order *)
Theorem C03_exported_paths_are_path_names : forall s r, WF s -> par s r = None ->
  map (c_path (sep s r)) (nodes_under [] (subtree s r))
  = map (Forest.path_name s) (tag_ids (subtree s r)).
Proof. exact exported_paths_root. Qed.
Print Assumptions C03_exported_paths_are_path_names.

(* (2) the exported depth is the heap's depth *)
Theorem C03_exported_depth_is_depth : forall s r, WF s -> par s r = None ->
  map c_depth (nodes_under [] (subtree s r)) = map (depth s) (tag_ids (subtree s r)).
Proof. exact exported_depths_root. Qed.
Print Assumptions C03_exported_depth_is_depth.

(* (1)+(2) read pointwise: the context exported for a node carries a tag y, the path name of y and the
   depth of y *)
Theorem C03_exported_context_pointwise : forall s r c, WF s -> par s r = None ->
  In c (nodes_under [] (subtree s r)) ->
  exists y, In y (tag_ids (subtree s r)) /\ ttag (snd c) = Some y
            /\ c_path (sep s r) c = Forest.path_name s y /\ c_depth c = depth s y.
Proof. exact exported_context_pointwise. Qed.
Print Assumptions C03_exported_context_pointwise.

(* (3) export started at an inner node x, at child-index position p below the root r: the exporter's
   ancestor names (`anc_names`, Spec/PC06.v) are the heap names of the ancestors of x, root first, the
   exported contexts are those of `nodes_from`, and paths and depths are again the heap's *)
Theorem C03_exported_paths_inner_start : forall s r p x, WF s -> par s r = None -> node_at s r p = Some x ->
  nodes_from (subtree s r) p = Some (nodes_under (map (name s) (rev (ancestors s x))) (subtree s x))
  /\ anc_names (subtree s r) p = map (name s) (rev (ancestors s x))
  /\ map (c_path (sep s r)) (nodes_under (anc_names (subtree s r) p) (subtree s x))
     = map (Forest.path_name s) (tag_ids (subtree s x))
  /\ map c_depth (nodes_under (anc_names (subtree s r) p) (subtree s x))
     = map (depth s) (tag_ids (subtree s x)).
Proof. exact exported_paths_inner. Qed.
Print Assumptions C03_exported_paths_inner_start.

(* the same without positions: start at ANY node x of a well-formed state, ancestor names from the heap *)
Theorem C03_exported_paths_any_start : forall s x, WF s ->
  map (c_path (sep s x)) (nodes_under (map (name s) (rev (ancestors s x))) (subtree s x))
  = map (Forest.path_name s) (tag_ids (subtree s x)).
Proof. exact exported_paths_from. Qed.
Print Assumptions C03_exported_paths_any_start.

(* positions of the rose tree are positions of the heap *)
Theorem C03_positions_agree : forall s, WF s -> forall p x,
  subtree_at (subtree s x) p = option_map (subtree s) (node_at s x p).
Proof. exact subtree_at_heap. Qed.
Print Assumptions C03_positions_agree.

(* (4) in every state reachable through the structural API of Node, under the guard of
   C03_paths_distinct_partial (one-character separator occurring in no name of the tree, names
   non-empty), the exported path column of a whole tree has no duplicates *)
Theorem C03_exported_paths_distinct : forall cfg n names seps ops r c,
  is_node cfg = true ->
  let s := Forest.run cfg (init n names seps) ops in
  par s r = None -> ForestLookup.sep_safe s r c ->
  NoDup (map (c_path (sep s r)) (nodes_under [] (subtree s r))).
Proof. exact reachable_exported_paths_nodup. Qed.
Print Assumptions C03_exported_paths_distinct.

(* ... for any well-formed state with unique sibling names, and for separators of any positive length
   (guard of C03_paths_distinct_multi_partial) *)
Theorem C03_exported_paths_distinct_multi : forall s r, WF s -> SU s -> par s r = None ->
  sep_safe_multi s r -> NoDup (map (c_path (sep s r)) (nodes_under [] (subtree s r))).
Proof. exact exported_paths_nodup_multi. Qed.
Print Assumptions C03_exported_paths_distinct_multi.

(* hence no key of tree_to_dict is lost to a collision: the keys of the full export are the heap's path
   names in pre-order *)
Theorem C03_tree_to_dict_keys_are_path_names : forall s r, WF s -> SU s -> par s r = None ->
  sep_safe_multi s r ->
  exists d, tree_to_dict (subtree s r) (sep s r) [] full_opts = Ret d
            /\ map fst d = map (Forest.path_name s) (tag_ids (subtree s r)).
Proof. exact tree_to_dict_keys_are_path_names. Qed.
Print Assumptions C03_tree_to_dict_keys_are_path_names.

(* (5) search.py's path of a located node (the string find_path / find_paths test, Algo/Search.v) is the
   exported one on every tree, hence the heap's path_name on the trees of well-formed states *)
Theorem C03_search_paths_are_exported_paths : forall sp t,
  map (ln_path_name sp) (preorder_iter (fun _ => true) 0 [] t) = map (c_path sp) (nodes_under [] t).
Proof. exact search_paths_are_exported. Qed.
Print Assumptions C03_search_paths_are_exported_paths.

Theorem C03_search_paths_are_path_names : forall s r, WF s -> par s r = None ->
  map (ln_path_name (sep s r)) (preorder_iter (fun _ => true) 0 [] (subtree s r))
  = map (Forest.path_name s) (tag_ids (subtree s r)).
Proof. exact search_paths_are_path_names. Qed.
Print Assumptions C03_search_paths_are_path_names.

(* non-vacuity: the 5-node Node tree a(b(d, e), c) with separator "/", built through the API.  Whole
   export: ids 0 1 3 4 2, paths /a /a/b /a/b/d /a/b/e /a/c on both sides, depths 1 2 3 3 2; export
   started at b (position [0]): ancestor names ["a"], paths /a/b /a/b/d /a/b/e on both sides *)
Definition br_nm (i : id) : str := nth i [[97]; [98]; [99]; [100]; [101]]%N [].
Definition br_s : forest :=
  Forest.run {| assertions := true; is_node := true |} (init 5 br_nm (fun _ => [47]%N))
      [SetParent 1 (ANode 0) NoFault; SetParent 2 (ANode 0) NoFault; SetParent 3 (ANode 1) NoFault;
       SetParent 4 (ANode 1) NoFault].

Example C03_bridge_nonvacuous :
  par br_s 0 = None
  /\ tag_ids (subtree br_s 0) = [0; 1; 3; 4; 2]
  /\ map (c_path (sep br_s 0)) (nodes_under [] (subtree br_s 0))
     = [[47; 97]; [47; 97; 47; 98]; [47; 97; 47; 98; 47; 100]; [47; 97; 47; 98; 47; 101]; [47; 97; 47; 99]]%N
  /\ map (Forest.path_name br_s) (tag_ids (subtree br_s 0))
     = [[47; 97]; [47; 97; 47; 98]; [47; 97; 47; 98; 47; 100]; [47; 97; 47; 98; 47; 101]; [47; 97; 47; 99]]%N
  /\ map c_depth (nodes_under [] (subtree br_s 0)) = [1; 2; 3; 3; 2]
  /\ map (depth br_s) (tag_ids (subtree br_s 0)) = [1; 2; 3; 3; 2]
  /\ node_at br_s 0 [0] = Some 1
  /\ anc_names (subtree br_s 0) [0] = [[97]]%N
  /\ option_map (map (c_path (sep br_s 0))) (nodes_from (subtree br_s 0) [0])
     = Some [[47; 97; 47; 98]; [47; 97; 47; 98; 47; 100]; [47; 97; 47; 98; 47; 101]]%N
  /\ map (Forest.path_name br_s) (tag_ids (subtree br_s 1))
     = [[47; 97; 47; 98]; [47; 97; 47; 98; 47; 100]; [47; 97; 47; 98; 47; 101]]%N
  /\ map (ln_path_name (sep br_s 0)) (preorder_iter (fun _ => true) 0 [] (subtree br_s 0))
     = map (Forest.path_name br_s) [0; 1; 3; 4; 2].
Proof. vm_compute. repeat split. Qed.

(* the guard of C03_exported_paths_distinct is met by that state *)
Example C03_bridge_guard_nonvacuous : ForestLookup.sep_safe br_s 0 47%N.
Proof.
  split; [vm_compute; reflexivity|]. intros x Hx.
  do 5 (destruct x as [|x]; [vm_compute; split; [discriminate|intros H; repeat (destruct H as [H|H]; [discriminate|]); exact H]|]).
  vm_compute in Hx. discriminate.
Qed.
