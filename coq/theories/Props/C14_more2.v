(* C14 — the print_tree(node_name_or_path, max_depth) observation inside the total outcome
   (proofs: Algo/C14More2.v).

   Round 1 (Props/C14_more.v) pinned the outcome of prune_tree / get_subtree down completely
   (`C14_total_outcome`), but the second observation the harness makes for every get_subtree call — the
   same (node_name_or_path, max_depth) sent through print_tree, the printed lines read back as
   (depth, name) rows; predicate `prop_C14_print` — was decided on the implementation's output only.

   Here the print path is the composition of the two existing models,
       print_tree_at vst bin tsep t st s d =
         get_subtree_at (Algo/Helper.v) ; skip the empty BinaryNode slots ; print_lines vst (Algo/Render.v,
         the yield_tree loop; one TEXT line per node),
   the harness's reading of the text (helper.py `_printed`) is `read_printed` (4-character cells: stem-or-gap
   cells, then one connector; the parser of Spec/PC18.v), and

       print_obs vst (print_tree_at vst bin tsep t st s d) = expected_print_outcome bin tsep t st s d

   where `expected_print_outcome` is written from the spec's vocabulary only: the path addresses no node ->
   ValueError, several nodes -> SearchError, otherwise the rows (depth from the addressed node, name) of the
   real nodes of `expected_gen bin t q (within_depth d ...)` in pre-order — for Node and BinaryNode trees,
   root and inner start nodes, any path, any depth limit, separators of any positive length, every style
   whose three strings have one length and whose connectors differ from its stem and gap (all six built-in
   styles).  Guards: those of the umbrella (`case_ok`) plus "the start node is a node" (BinaryNode: the
   start position is not an empty slot); for the step to `prop_C14_print` on Node trees additionally "every
   node has a non-empty name" (`named_ok`) — both shown necessary below. *)
From BT Require Import Algo.Render Spec.PC18 Algo.RenderProofs.
From BT Require Import Base.Prelude Base.Str Base.Rose Base.StrSep Algo.Helper Spec.PC14 Algo.HelperProofs
                       Algo.C14More Algo.C14More2.

(* what print_tree shows = the expected subtree outcome; one equation, no "not claimed" branch *)
Theorem C14_print_total_outcome : forall vst bin tsep t st s d,
  vstyle_ok vst = true -> vstyle_distinct vst = true -> print_ok bin tsep t st s ->
  print_obs vst (print_tree_at vst bin tsep t st s d) = expected_print_outcome bin tsep t st s d.
Proof. exact print_tree_at_total. Qed.
Print Assumptions C14_print_total_outcome.

(* C14_total_outcome extended to the print observation: both observations of every call of the modelled
   domain are equal to their expected outcome *)
Theorem C14_total_outcome_with_print : forall vst bin tsep t st call,
  vstyle_ok vst = true -> vstyle_distinct vst = true -> case_ok_print bin tsep t st call ->
  obs_of (run_call_at bin tsep t st call) = expected_outcome bin tsep t st call /\
  print_call_at vst bin tsep t st call = expected_print bin tsep t st call.
Proof. exact total_C14_with_print. Qed.
Print Assumptions C14_total_outcome_with_print.

(* the expected print outcome = the real nodes (by depth and name) of the expected get_subtree outcome,
   exceptions unchanged *)
Theorem C14_print_expected_is_shown_of_subtree : forall bin tsep t st s d,
  expected_print_outcome bin tsep t st s d = shown_obs bin (expected_subtree_outcome bin tsep t st s d).
Proof. exact expected_print_of_subtree. Qed.
Print Assumptions C14_print_expected_is_shown_of_subtree.

(* the same on the models: print_tree shows the real nodes of what get_subtree returns and raises what
   get_subtree raises *)
Theorem C14_print_is_shown_of_get_subtree : forall vst bin tsep t st s d,
  vstyle_ok vst = true -> vstyle_distinct vst = true -> print_ok bin tsep t st s ->
  print_obs vst (print_tree_at vst bin tsep t st s d) = shown_obs bin (obs_of (get_subtree_at bin tsep t st s d)).
Proof. exact print_is_shown_of_get_subtree. Qed.
Print Assumptions C14_print_is_shown_of_get_subtree.

(* the total print outcome refines the property predicate, and so does the model *)
Theorem C14_print_outcome_refines_prop : forall bin tsep t st s d,
  named_ok bin t ->
  prop_C14_print bin tsep t st (CSubtree s d) (Some (expected_print_outcome bin tsep t st s d)) = true.
Proof. exact expected_print_satisfies_prop. Qed.
Print Assumptions C14_print_outcome_refines_prop.

Theorem C14_print_model_satisfies_prop : forall vst bin tsep t st s d,
  vstyle_ok vst = true -> vstyle_distinct vst = true -> print_ok bin tsep t st s -> named_ok bin t ->
  prop_C14_print bin tsep t st (CSubtree s d) (Some (print_obs vst (print_tree_at vst bin tsep t st s d))) = true.
Proof. exact print_model_satisfies_prop. Qed.
Print Assumptions C14_print_model_satisfies_prop.

(* the umbrella with the print observation: the three property predicates check_C14 evaluates hold of the
   models' outputs for every case of the modelled domain *)
Theorem C14_umbrella_with_print : forall vst bin tsep t st call,
  vstyle_ok vst = true -> vstyle_distinct vst = true -> case_ok_print bin tsep t st call -> named_ok bin t ->
  prop_C14_at bin tsep t st call (obs_of (run_call_at bin tsep t st call))
  && prop_C14_top call (obs_of (run_call_at bin tsep t st call)) (top_depth st call)
  && prop_C14_print bin tsep t st call (print_call_at vst bin tsep t st call) = true.
Proof. exact umbrella_C14_with_print. Qed.
Print Assumptions C14_umbrella_with_print.

(* the text of ANY tree read back by the harness's line parser = its pre-order (depth, name) rows *)
Theorem C14_printed_text_read_back : forall vst c,
  vstyle_ok vst = true -> vstyle_distinct vst = true ->
  read_printed vst (print_lines vst c) = map strip_lbl (obs_tree c).
Proof. exact read_printed_obs. Qed.
Print Assumptions C14_printed_text_read_back.

(* for any returned tree (BinaryNode: empty slots are leaves, the root is a node) the printed rows are
   `shown` of its observation — the formula the correspondence check compares with (agree_print) *)
Theorem C14_print_of_any_result : forall vst bin r,
  vstyle_ok vst = true -> vstyle_distinct vst = true ->
  (bin = true -> holes_leaf r = true /\ Helper.is_hole r = false) ->
  read_printed vst (print_lines vst (print_view bin r)) = shown_x bin (obs_tree r).
Proof. exact print_of_result. Qed.
Print Assumptions C14_print_of_any_result.

(* skipping the empty slots of a BinaryNode tree = keeping the rows of its real nodes *)
Theorem C14_drop_holes_is_real_rows : forall r,
  holes_leaf r = true -> Helper.is_hole r = false -> obs_tree (drop_holes r) = real_obs r.
Proof. exact drop_holes_obs. Qed.
Print Assumptions C14_drop_holes_is_real_rows.

(* Node trees in which every node has a name: shown_x = shown *)
Theorem C14_shown_of_named_tree : forall bin t q P,
  named_ok bin t -> shown_x bin (expected_gen bin t q P) = shown (expected_gen bin t q P).
Proof. exact shown_x_shown. Qed.
Print Assumptions C14_shown_of_named_tree.

(* a style whose strings differ in length: ValueError, but the exceptions of get_subtree come first *)
Theorem C14_print_bad_style : forall vst bin tsep t st s d,
  vstyle_ok vst = false ->
  print_tree_at vst bin tsep t st s d =
  match get_subtree_at bin tsep t st s d with Raise e => Raise e | Ret _ => Raise ValueError end.
Proof. exact print_tree_at_bad_style. Qed.
Print Assumptions C14_print_bad_style.

(* the six built-in styles meet the two style guards *)
Theorem C14_print_builtin_styles :
  forallb (fun vst => vstyle_ok vst && vstyle_distinct vst)
          [vs_ansi; vs_ascii; vs_const; vs_const_bold; vs_rounded; vs_double] = true.
Proof. exact builtin_styles_ok. Qed.
Print Assumptions C14_print_builtin_styles.

(* Node trees: the print model is the C18 model of yield_tree (Algo/Render.v, start node given as a
   position) at the position the path addresses, with the same depth limit *)
Theorem C14_print_is_C18_yield_tree : forall vst tsep t st s0 s d r,
  subtree_at t st = Some s0 -> get_subtree_at false tsep t st s d = Ret r ->
  exists q, prefix st q /\
    match Render.yield_tree vst (copy_tree t) q d with
    | Ret ls => print_tree_at vst false tsep t st s d = Ret (map line_of ls)
    | Raise e => print_tree_at vst false tsep t st s d = Raise e
    end.
Proof. exact print_is_render_yield_tree. Qed.
Print Assumptions C14_print_is_C18_yield_tree.

Local Open Scope N_scope.
(* Node tree r(a(b(e), c), x(b)), separator "/", ansi style:
   - print_tree(r, "a", max_depth 2) prints the three lines  a / |-- b / `-- c ; read back: (1,a) (2,b) (2,c),
     which is the expected print outcome (e is cut by the depth limit); the guards hold;
   - the whole tree: seven lines with stems ("|   |   `-- e"), read back with depths 1 2 3 4 3 2 3;
   - the name "b" addresses two nodes: SearchError (code 9); "z" none: ValueError (code 2);
   BinaryNode tree 1(2(-,4(6,-)), 3(5,-)):
   - called on node 2: the empty slots are skipped, lines  2 / `-- 4 /     `-- 6 ;
   - from the root with max_depth 2: (1,1) (2,2) (2,3), while get_subtree's observation carries four
     empty-slot rows in addition. *)
Example C14_print_nonvacuous :
  let t := T None [114] [] [T None [97] [] [T None [98] [] [T None [101] [] []]; T None [99] [] []];
                            T None [120] [] [T None [98] [] []]] in
  let tb := T None [49] [] [T None [50] [] [HOLE; T None [52] [] [T None [54] [] [HOLE; HOLE]; HOLE]];
                            T None [51] [] [T None [53] [] [HOLE; HOLE]; HOLE]] in
  (case_ok_print false [47] t []%list (CSubtree [97] 2%nat) /\ named_ok false t)
  /\ print_tree_at vs_ansi false [47] t []%list [97] 2%nat
     = Ret [[97]; [124; 45; 45; 32; 98]; [96; 45; 45; 32; 99]]
  /\ print_obs vs_ansi (print_tree_at vs_ansi false [47] t []%list [97] 2%nat)
     = OTree [(1%nat, [97], []); (2%nat, [98], []); (2%nat, [99], [])]
  /\ expected_print_outcome false [47] t []%list [97] 2%nat
     = OTree [(1%nat, [97], []); (2%nat, [98], []); (2%nat, [99], [])]
  /\ print_tree_at vs_ansi false [47] t []%list [] 0%nat
     = Ret [[114]; [124; 45; 45; 32; 97]; [124; 32; 32; 32; 124; 45; 45; 32; 98];
            [124; 32; 32; 32; 124; 32; 32; 32; 96; 45; 45; 32; 101];
            [124; 32; 32; 32; 96; 45; 45; 32; 99]; [96; 45; 45; 32; 120];
            [32; 32; 32; 32; 96; 45; 45; 32; 98]]
  /\ expected_print_outcome false [47] t []%list [] 0%nat
     = OTree [(1%nat, [114], []); (2%nat, [97], []); (3%nat, [98], []); (4%nat, [101], []);
              (3%nat, [99], []); (2%nat, [120], []); (3%nat, [98], [])]
  /\ print_obs vs_ansi (print_tree_at vs_ansi false [47] t []%list [98] 0%nat) = OErr 9%nat
  /\ expected_print_outcome false [47] t []%list [98] 0%nat = OErr 9%nat
  /\ print_obs vs_ansi (print_tree_at vs_ansi false [47] t []%list [122] 1%nat) = OErr 2%nat
  /\ expected_print_outcome false [47] t []%list [122] 1%nat = OErr 2%nat
  /\ print_tree_at vs_ansi true [47] tb [0]%nat [] 0%nat
     = Ret [[50]; [96; 45; 45; 32; 52]; [32; 32; 32; 32; 96; 45; 45; 32; 54]]
  /\ expected_print_outcome true [47] tb [0]%nat [] 0%nat
     = OTree [(1%nat, [50], []); (2%nat, [52], []); (3%nat, [54], [])]
  /\ print_obs vs_ansi (print_tree_at vs_ansi true [47] tb []%list [] 2%nat)
     = OTree [(1%nat, [49], []); (2%nat, [50], []); (2%nat, [51], [])]
  /\ expected_subtree_outcome true [47] tb []%list [] 2%nat
     = OTree [(1%nat, [49], []); (2%nat, [50], []); (3%nat, [], []); (3%nat, [], []);
              (2%nat, [51], []); (3%nat, [], []); (3%nat, [], [])]
  /\ prop_C14_print true [47] tb [0]%nat (CSubtree [52] 1%nat)
       (print_call_at vs_ansi true [47] tb [0]%nat (CSubtree [52] 1%nat)) = true.
Proof.
  cbv zeta. split; [|vm_compute; repeat split].
  split; [|intros _; vm_compute; reflexivity].
  split; [|intros E; discriminate E].
  split; [eexists; reflexivity|]. split; [discriminate|]. split; [apply strip_ok_single|intros E; discriminate E].
Qed.

(* the guard `named_ok` is necessary for the step to prop_C14_print: print_tree prints a Node whose name is
   empty (a line "|-- "), `shown` drops the row.  Node tree r("", a), whole tree. *)
Example C14_print_unnamed_node_refuted :
  exists t,
    print_ok false [47] t []%list []%list /\ all_named t = false
    /\ print_obs vs_ansi (print_tree_at vs_ansi false [47] t []%list []%list 0%nat)
       = OTree [(1%nat, [114], []); (2%nat, []%list, []); (2%nat, [97], [])]
    /\ print_obs vs_ansi (print_tree_at vs_ansi false [47] t []%list []%list 0%nat)
       = expected_print_outcome false [47] t []%list []%list 0%nat
    /\ prop_C14_print false [47] t []%list (CSubtree []%list 0%nat)
         (Some (print_obs vs_ansi (print_tree_at vs_ansi false [47] t []%list []%list 0%nat))) = false.
Proof.
  exists (T None [114] [] [T None []%list [] []; T None [97] [] []]).
  split; [|vm_compute; repeat split].
  split; [eexists; split; [reflexivity|intros E; discriminate E]|].
  split; [discriminate|]. split; [apply strip_ok_single|intros E; discriminate E].
Qed.

(* the guard "the start position is not an empty slot" is necessary in the model: started on the empty left
   slot of node 2 the composition would print one line with an empty name, `shown` expects no row.  (No
   call of the library can start there: an empty slot is `None`, not a node.) *)
Example C14_print_empty_slot_start_refuted :
  exists tb st,
    case_ok true [47] tb st (CSubtree []%list 0%nat)
    /\ print_obs vs_ansi (print_tree_at vs_ansi true [47] tb st []%list 0%nat) = OTree [(1%nat, []%list, [])]
    /\ expected_print_outcome true [47] tb st []%list 0%nat = OTree []%list.
Proof.
  exists (T None [49] [] [T None [50] [] [HOLE; T None [52] [] [T None [54] [] [HOLE; HOLE]; HOLE]];
                          T None [51] [] [T None [53] [] [HOLE; HOLE]; HOLE]]), [0; 0]%nat.
  split; [|vm_compute; repeat split].
  split; [eexists; reflexivity|]. split; [discriminate|]. split; [apply strip_ok_single|intros _; vm_compute; reflexivity].
Qed.
Local Close Scope N_scope.
