(* C08 — shift/copy/replace: further clauses.  Only statements here; the proofs are in Algo/C08More.v (which builds on
   Algo/ModifyProofs.v).  Model: Algo/Modify.v; documented edit on path tables: Spec/PC08.v (edit_cs, prop_C08).

   What is new with respect to Props/C08.v:
   (1) merge_children over its whole option space.  Props/C08.v has merge_children for shift_nodes without
       delete_children (C08_merge_children, C08_merge_children_existing).  Here: with COPY (copy_nodes), with
       DELETE_CHILDREN, and with both — destination absent (created) and destination present (no overriding).
       C08_merge_children_all / C08_merge_children_existing_all are the umbrella statements (the old theorems are the
       instance copy = false, delete_children = false);
   (2) the same as whole calls on path strings with prop_C08 on the model's output — in particular the first
       "merge row onto an existing destination" with a prop_C08 statement (C08_prop_existing_generic is the tool,
       companion of C08_prop_absent_generic);
   (3) overriding TOGETHER with merge_children onto an existing destination is a plain override (the F5 scenario:
       modify.py:1164 `merge_children = False` for this pair only) — core and string level;
   (4) two refused families as prop_C08 statements for ALL inputs: from_paths / to_paths of different lengths (all five
       functions) and copy with an empty to-path. *)
From BT Require Import Base.Prelude Base.Str Base.StrSep Base.Rose Algo.Modify Spec.PC08 Corr.ModifyCorr Algo.ModifyProofs
                       Algo.C08More.

(* ---- (4) refused before any pair is looked at, for all inputs ------------------------------------------------- *)

(* from_paths and to_paths of different lengths: ValueError, nothing changed, prop_C08 accepts it — every one of the five
   functions, every flag combination, every separator (empty ones included), every tree, every path list *)
Theorem C08_prop_length_mismatch : forall i,
  length (mi_from i) <> length (mi_to i) ->
  run i = (init_forest i, Some ValueError) /\ prop_C08 i (obs_of i (run i)) None = true.
Proof. exact C08_prop_length_mismatch_stmt. Qed.
Print Assumptions C08_prop_length_mismatch.

(* copy_nodes / copy_nodes_from_tree_to_tree with a to-path that is None or "" (has_empty_to): ValueError, nothing changed *)
Theorem C08_prop_copy_empty_to : forall i,
  is_replace (mi_op i) = false -> is_copy (mi_op i) = true -> has_empty_to (mi_to i) = true ->
  run i = (init_forest i, Some ValueError) /\ prop_C08 i (obs_of i (run i)) None = true.
Proof. exact C08_prop_copy_empty_to_stmt. Qed.
Print Assumptions C08_prop_copy_empty_to.

(* ---- (1) merge_children with copy / delete_children ------------------------------------------------------------ *)

(* copy_nodes with merge_children, destination absent (created): the children of the COPY of the source node — new
   objects (retag: tag None), same names, attributes and subtrees — are appended in order under the destination
   parent; every row of the tree is still there (subseq); = Spec.edit_cs *)
Theorem C08_merge_children_copy : forall sep tsep fl t p x comps PX,
  f_mc fl = true -> f_ml fl = false -> f_dc fl = false -> wf_t t ->
  p <> [] -> tget t p = Some x -> tpath t p = Some PX ->
  (forall cc, In cc comps -> cc <> []) ->
  pfx PX (tname t :: comps) = false ->
  has (rows t) ((tname t :: comps) ++ [tname x]) = false ->
  (forall k, In k (tkids x) -> has (rows t) ((tname t :: comps) ++ [tname k]) = false) ->
  exists t2 rest,
    cs_core (cfg_same true sep tsep fl) [t] (0 :: p) (TNew comps) = (t2 :: rest, None)
    /\ rows t2 = ins_all (tname t :: comps) (map retag (tkids x)) (ensure (rows t) [tname t] comps)
    /\ edit_cs true true fl (rows t) (rows t) PX (Some ((tname t :: comps) ++ [tname x])) = PNext (rows t2) (rows t2)
    /\ subseq (rows t) (rows t2).
Proof. exact C08_merge_children_copy_stmt. Qed.
Print Assumptions C08_merge_children_copy.

(* copy_nodes with merge_children onto a destination node that EXISTS (no overriding).  The destination is any node
   other than the source node: unrelated, an ancestor, the root, or inside the source subtree (a copy cannot loop);
   the Spec.edit_cs clause excludes the last case, where the predicate is lenient *)
Theorem C08_merge_children_copy_existing : forall sep tsep fl t p d x PX PD,
  f_mc fl = true -> f_over fl = false -> f_dc fl = false -> wf_t t ->
  p <> [] -> p <> d -> tget t p = Some x -> tpath t p = Some PX -> tpath t d = Some PD ->
  (forall k, In k (tkids x) -> has (rows t) (PD ++ [tname k]) = false) ->
  exists t2 rest,
    cs_core (cfg_same true sep tsep fl) [t] (0 :: p) (TNode (0 :: d)) = (t2 :: rest, None)
    /\ rows t2 = ins_all PD (map retag (tkids x)) (rows t)
    /\ (pfx PX PD = false -> last PD [] = tname x ->
        edit_cs true true fl (rows t) (rows t) PX (Some PD) = PNext (rows t2) (rows t2))
    /\ subseq (rows t) (rows t2).
Proof. exact C08_merge_children_copy_existing_stmt. Qed.
Print Assumptions C08_merge_children_copy_existing.

(* shift_nodes with merge_children AND delete_children, destination absent: the BARE children (bare k = k without its
   own children; same object, same attributes) arrive in order, the source node and everything below it is gone *)
Theorem C08_merge_children_dc : forall sep tsep fl t p x comps PX,
  f_mc fl = true -> f_ml fl = false -> f_dc fl = true -> wf_t t ->
  p <> [] -> tget t p = Some x -> tpath t p = Some PX ->
  (forall cc, In cc comps -> cc <> []) ->
  pfx PX (tname t :: comps) = false ->
  has (rows t) ((tname t :: comps) ++ [tname x]) = false ->
  (forall k, In k (tkids x) -> has (rows t) ((tname t :: comps) ++ [tname k]) = false) ->
  exists t2 rest,
    cs_core (cfg_same false sep tsep fl) [t] (0 :: p) (TNew comps) = (t2 :: rest, None)
    /\ rows t2 = minus (ins_all (tname t :: comps) (map bare (tkids x))
                                (minus_strict (ensure (rows t) [tname t] comps) PX)) PX
    /\ edit_cs false true fl (rows t) (rows t) PX (Some ((tname t :: comps) ++ [tname x])) = PNext (rows t2) (rows t2)
    /\ subseq (minus (rows t) PX) (rows t2).
Proof. exact C08_merge_children_dc_stmt. Qed.
Print Assumptions C08_merge_children_dc.

Theorem C08_merge_children_dc_existing : forall sep tsep fl t p d x PX PD,
  f_mc fl = true -> f_over fl = false -> f_dc fl = true -> wf_t t ->
  p <> [] -> tget t p = Some x -> tpath t p = Some PX -> tpath t d = Some PD ->
  pfx PX PD = false -> last PD [] = tname x ->
  (forall k, In k (tkids x) -> has (rows t) (PD ++ [tname k]) = false) ->
  exists t2 rest,
    cs_core (cfg_same false sep tsep fl) [t] (0 :: p) (TNode (0 :: d)) = (t2 :: rest, None)
    /\ rows t2 = minus (ins_all PD (map bare (tkids x)) (minus_strict (rows t) PX)) PX
    /\ edit_cs false true fl (rows t) (rows t) PX (Some PD) = PNext (rows t2) (rows t2)
    /\ subseq (minus (rows t) PX) (rows t2).
Proof. exact C08_merge_children_dc_existing_stmt. Qed.
Print Assumptions C08_merge_children_dc_existing.

(* copy_nodes with merge_children AND delete_children: the bare copies (bare_copies x = map (bare o retag) (tkids x)) *)
Theorem C08_merge_children_copy_dc : forall sep tsep fl t p x comps PX,
  f_mc fl = true -> f_ml fl = false -> f_dc fl = true -> wf_t t ->
  p <> [] -> tget t p = Some x -> tpath t p = Some PX ->
  (forall cc, In cc comps -> cc <> []) ->
  pfx PX (tname t :: comps) = false ->
  has (rows t) ((tname t :: comps) ++ [tname x]) = false ->
  (forall k, In k (tkids x) -> has (rows t) ((tname t :: comps) ++ [tname k]) = false) ->
  exists t2 rest,
    cs_core (cfg_same true sep tsep fl) [t] (0 :: p) (TNew comps) = (t2 :: rest, None)
    /\ rows t2 = ins_all (tname t :: comps) (bare_copies x) (ensure (rows t) [tname t] comps)
    /\ edit_cs true true fl (rows t) (rows t) PX (Some ((tname t :: comps) ++ [tname x])) = PNext (rows t2) (rows t2)
    /\ subseq (rows t) (rows t2).
Proof. exact C08_merge_children_copy_dc_stmt. Qed.
Print Assumptions C08_merge_children_copy_dc.

Theorem C08_merge_children_copy_dc_existing : forall sep tsep fl t p d x PX PD,
  f_mc fl = true -> f_over fl = false -> f_dc fl = true -> wf_t t ->
  p <> [] -> p <> d -> tget t p = Some x -> tpath t p = Some PX -> tpath t d = Some PD ->
  (forall k, In k (tkids x) -> has (rows t) (PD ++ [tname k]) = false) ->
  exists t2 rest,
    cs_core (cfg_same true sep tsep fl) [t] (0 :: p) (TNode (0 :: d)) = (t2 :: rest, None)
    /\ rows t2 = ins_all PD (bare_copies x) (rows t)
    /\ (pfx PX PD = false -> last PD [] = tname x ->
        edit_cs true true fl (rows t) (rows t) PX (Some PD) = PNext (rows t2) (rows t2))
    /\ subseq (rows t) (rows t2).
Proof. exact C08_merge_children_copy_dc_existing_stmt. Qed.
Print Assumptions C08_merge_children_copy_dc_existing.

(* the umbrella: merge_children for shift / copy (cp) x with / without delete_children (f_dc fl free), destination absent.
   mc_kids cp dc x = the children of x, retagged when cp, bare when dc; mc_table cp Q PX K tb = K appended in order
   under Q and, when shifting, the block at PX removed.  Props/C08.v's C08_merge_children is cp = false, f_dc = false *)
Theorem C08_merge_children_all : forall (cp : bool) sep tsep fl t p x comps PX,
  f_mc fl = true -> f_ml fl = false -> wf_t t ->
  p <> [] -> tget t p = Some x -> tpath t p = Some PX ->
  (forall cc, In cc comps -> cc <> []) ->
  pfx PX (tname t :: comps) = false ->
  has (rows t) ((tname t :: comps) ++ [tname x]) = false ->
  (forall k, In k (tkids x) -> has (rows t) ((tname t :: comps) ++ [tname k]) = false) ->
  exists t2 rest,
    cs_core (cfg_same cp sep tsep fl) [t] (0 :: p) (TNew comps) = (t2 :: rest, None)
    /\ rows t2 = mc_table cp (tname t :: comps) PX (mc_kids cp (f_dc fl) x) (ensure (rows t) [tname t] comps)
    /\ edit_cs cp true fl (rows t) (rows t) PX (Some ((tname t :: comps) ++ [tname x])) = PNext (rows t2) (rows t2)
    /\ subseq (if cp then rows t else minus (rows t) PX) (rows t2).
Proof. exact C08_merge_children_all_stmt. Qed.
Print Assumptions C08_merge_children_all.

(* ... and onto a destination that exists, without overriding *)
Theorem C08_merge_children_existing_all : forall (cp : bool) sep tsep fl t p d x PX PD,
  f_mc fl = true -> f_over fl = false -> wf_t t ->
  p <> [] -> tget t p = Some x -> tpath t p = Some PX -> tpath t d = Some PD ->
  pfx PX PD = false -> last PD [] = tname x ->
  (forall k, In k (tkids x) -> has (rows t) (PD ++ [tname k]) = false) ->
  exists t2 rest,
    cs_core (cfg_same cp sep tsep fl) [t] (0 :: p) (TNode (0 :: d)) = (t2 :: rest, None)
    /\ rows t2 = mc_table cp PD PX (mc_kids cp (f_dc fl) x) (rows t)
    /\ edit_cs cp true fl (rows t) (rows t) PX (Some PD) = PNext (rows t2) (rows t2)
    /\ subseq (if cp then rows t else minus (rows t) PX) (rows t2).
Proof. exact C08_merge_children_existing_all_stmt. Qed.
Print Assumptions C08_merge_children_existing_all.

(* ---- (2) the string layer ------------------------------------------------------------------------------------------ *)

(* the tool for a destination that exists: a proved TNode row of the decision table whose table is edit_cs's table
   gives the whole string-level call (sl_in: one pair, separators of any positive length, sep <> tree.sep and leading
   separators allowed, with_full_path) and prop_C08 on its output *)
Theorem C08_prop_existing_generic : forall a1 o1 a2 o2 cp fl t lf lt PX PD p d x t2 rest,
  Forall (sgood (a1 :: o1)) PX -> Forall (sgood (a2 :: o2)) PX ->
  Forall (sgood (a1 :: o1)) PD -> Forall (sgood (a2 :: o2)) PD ->
  f_full fl = true -> f_mc fl && f_ml fl = false -> wf_t t ->
  p <> [] -> tget t p = Some x -> tpath t p = Some PX -> tpath t d = Some PD -> last PD [] = tname x ->
  cs_core (cfg_same cp (a1 :: o1) (a2 :: o2) fl) [t] (0 :: p) (TNode (0 :: d)) = (t2 :: rest, None) ->
  edit_cs cp true fl (rows t) (rows t) PX (Some PD) = PNext (rows t2) (rows t2) ->
  let i := sl_in cp fl (a1 :: o1) (a2 :: o2) t lf PX lt PD in
  run i = (t2 :: rest, None) /\ prop_C08 i (obs_of i (run i)) None = true.
Proof. exact C08_prop_existing_generic_stmt. Qed.
Print Assumptions C08_prop_existing_generic.

(* ACCEPTED, merge_children (shift_nodes / copy_nodes, with or without delete_children), destination absent *)
Theorem C08_prop_merge_children_absent : forall a1 o1 a2 o2 (cp : bool) fl t lf lt PX p x comps,
  let Q := tname t :: comps in
  let TX := Q ++ [tname x] in
  Forall (sgood (a1 :: o1)) PX -> Forall (sgood (a2 :: o2)) PX ->
  Forall (sgood (a1 :: o1)) Q -> Forall (sgood (a2 :: o2)) Q ->
  f_full fl = true -> f_mc fl = true -> f_ml fl = false -> wf_t t ->
  p <> [] -> tget t p = Some x -> tpath t p = Some PX ->
  pfx PX Q = false -> has (rows t) TX = false ->
  (forall k, In k (tkids x) -> has (rows t) (Q ++ [tname k]) = false) ->
  let i := sl_in cp fl (a1 :: o1) (a2 :: o2) t lf PX lt TX in
  exists t2 rest, run i = (t2 :: rest, None)
    /\ rows t2 = mc_table cp Q PX (mc_kids cp (f_dc fl) x) (ensure (rows t) [tname t] comps)
    /\ edit_cs cp true fl (rows t) (rows t) PX (Some TX) = PNext (rows t2) (rows t2)
    /\ prop_C08 i (obs_of i (run i)) None = true.
Proof. exact C08_prop_merge_children_absent_stmt. Qed.
Print Assumptions C08_prop_merge_children_absent.

(* ACCEPTED, merge_children onto an existing destination, no overriding *)
Theorem C08_prop_merge_children_existing : forall a1 o1 a2 o2 (cp : bool) fl t lf lt p d x PX PD,
  Forall (sgood (a1 :: o1)) PX -> Forall (sgood (a2 :: o2)) PX ->
  Forall (sgood (a1 :: o1)) PD -> Forall (sgood (a2 :: o2)) PD ->
  f_full fl = true -> f_mc fl = true -> f_ml fl = false -> f_over fl = false -> wf_t t ->
  p <> [] -> tget t p = Some x -> tpath t p = Some PX -> tpath t d = Some PD ->
  pfx PX PD = false -> last PD [] = tname x ->
  (forall k, In k (tkids x) -> has (rows t) (PD ++ [tname k]) = false) ->
  let i := sl_in cp fl (a1 :: o1) (a2 :: o2) t lf PX lt PD in
  exists t2 rest, run i = (t2 :: rest, None)
    /\ rows t2 = mc_table cp PD PX (mc_kids cp (f_dc fl) x) (rows t)
    /\ edit_cs cp true fl (rows t) (rows t) PX (Some PD) = PNext (rows t2) (rows t2)
    /\ prop_C08 i (obs_of i (run i)) None = true.
Proof. exact C08_prop_merge_children_existing_stmt. Qed.
Print Assumptions C08_prop_merge_children_existing.

(* ---- (3) overriding together with merge_children ------------------------------------------------------------------ *)

(* Props/C08.v's C08_override with merge_children=True as well: the same result — the destination node is detached,
   the source subtree (not its children) takes its place as last child of the destination's parent *)
Theorem C08_override_merge_children : forall sep tsep fl t p d x D PX PD,
  f_over fl = true -> f_mc fl = true -> f_ml fl = false -> f_dc fl = false -> wf_t t ->
  p <> [] -> d <> [] -> tget t p = Some x -> tget t d = Some D ->
  tpath t p = Some PX -> tpath t d = Some PD ->
  pfx PX PD = false -> pfx PD PX = false -> tname D = tname x ->
  exists t2,
    cs_core (cfg_same false sep tsep fl) [t] (0 :: p) (TNode (0 :: d)) = ([t2; D], None)
    /\ rows t2 = insert_last (minus (minus (rows t) PD) PX) (removelast PD) (rows_from (removelast PD) x)
    /\ edit_cs false true fl (rows t) (rows t) PX (Some PD) = PNext (rows t2) (rows t2)
    /\ has (minus (rows t2) (removelast PD ++ [tname x])) PD = false
    /\ subseq (minus (minus (rows t) PD) PX) (rows t2).
Proof. exact C08_override_merge_children_stmt. Qed.
Print Assumptions C08_override_merge_children.

Theorem C08_prop_override_merge_children : forall a1 o1 a2 o2 fl t lf lt p d x D PX PD,
  Forall (sgood (a1 :: o1)) PX -> Forall (sgood (a2 :: o2)) PX ->
  Forall (sgood (a1 :: o1)) PD -> Forall (sgood (a2 :: o2)) PD ->
  f_full fl = true -> f_over fl = true -> f_mc fl = true -> f_ml fl = false -> f_dc fl = false -> wf_t t ->
  p <> [] -> d <> [] -> tget t p = Some x -> tget t d = Some D ->
  tpath t p = Some PX -> tpath t d = Some PD ->
  pfx PX PD = false -> pfx PD PX = false -> tname D = tname x ->
  let i := sl_in false fl (a1 :: o1) (a2 :: o2) t lf PX lt PD in
  exists t2, run i = ([t2; D], None)
    /\ rows t2 = insert_last (minus (minus (rows t) PD) PX) (removelast PD) (rows_from (removelast PD) x)
    /\ prop_C08 i (obs_of i (run i)) None = true.
Proof. exact C08_prop_override_merge_children_stmt. Qed.
Print Assumptions C08_prop_override_merge_children.

(* ---- the hypotheses are satisfiable by non-trivial inputs ------------------------------------------------------ *)

Ltac conj := repeat match goal with |- _ /\ _ => split end.

(* r( x[v=7]( 1[w=1](k), 2 ), y( x(o) ), z )  — names as code points: r 114, x 120, y 121, z 122, k 107, o 111, n 110 *)
Definition mt : tree :=
  T (Some 0) [114%N] []
    [ T (Some 1) [120%N] [([118%N], VInt 7%Z)]
        [ T (Some 2) [49%N] [([119%N], VInt 1%Z)] [T (Some 3) [107%N] [] []]; T (Some 4) [50%N] [] [] ];
      T (Some 5) [121%N] [] [ T (Some 6) [120%N] [] [T (Some 7) [111%N] [] []] ];
      T (Some 8) [122%N] [] [] ].
Definition mx : tree :=
  T (Some 1) [120%N] [([118%N], VInt 7%Z)]
    [ T (Some 2) [49%N] [([119%N], VInt 1%Z)] [T (Some 3) [107%N] [] []]; T (Some 4) [50%N] [] [] ].
Definition PXm : list str := [[114%N]; [120%N]].
Definition PDm : list str := [[114%N]; [121%N]; [120%N]].
Definition fl_mc (dc : bool) : mflags := MF false false true false dc true.

(* copy_nodes("r/x" -> "r/y/x", merge_children, delete_children), r/y/x exists: the hypotheses of
   C08_prop_merge_children_existing hold, and the run shows its conclusion — bare fresh copies 1, 2 appended after o,
   the source untouched, prop_C08 accepts *)
Example C08_merge_children_copy_dc_existing_nonvacuous :
  let i := sl_in true (fl_mc true) [47%N] [47%N] mt false PXm false PDm in
  wf_t mt /\ tget mt [0] = Some mx /\ tpath mt [0] = Some PXm /\ tpath mt [1; 0] = Some PDm
  /\ pfx PXm PDm = false /\ last PDm [] = tname mx
  /\ forallb (fun k => negb (has (rows mt) (PDm ++ [tname k]))) (tkids mx) = true
  /\ trees_ok i = true
  /\ fst (run i)
     = [ T (Some 0) [114%N] []
           [ mx;
             T (Some 5) [121%N] []
               [ T (Some 6) [120%N] []
                   [ T (Some 7) [111%N] [] []; T None [49%N] [([119%N], VInt 1%Z)] []; T None [50%N] [] [] ] ];
             T (Some 8) [122%N] [] [] ];
         T None [114%N] [] [ T None [121%N] [] [T None [120%N] [] [T None [111%N] [] []]]; T None [122%N] [] [] ];
         T None [107%N] [] [];
         T None [120%N] [([118%N], VInt 7%Z)] [] ]
  /\ rows (piece (fst (run i)) 0) = mc_table true PDm PXm (mc_kids true true mx) (rows mt)
  /\ snd (run i) = None
  /\ prop_C08 i (obs_of i (run i)) None = true.
Proof.
  cbv zeta. conj; try (vm_compute; reflexivity). apply wf_tb_sound. vm_compute. reflexivity.
Qed.

(* shift_nodes("r/x" -> "r/z/n/x", merge_children, delete_children), destination absent (n is created): the bare
   children — the same objects, tags 2 and 4 — arrive under r/z/n, x and k are detached *)
Example C08_merge_children_dc_absent_nonvacuous :
  let TX := [[114%N]; [122%N]; [110%N]; [120%N]] in
  let i := sl_in false (fl_mc true) [58;58]%N [47%N] mt true PXm false TX in
  pfx PXm (removelast TX) = false /\ has (rows mt) TX = false
  /\ forallb (fun k => negb (has (rows mt) (removelast TX ++ [tname k]))) (tkids mx) = true
  /\ fst (run i)
     = [ T (Some 0) [114%N] []
           [ T (Some 5) [121%N] [] [ T (Some 6) [120%N] [] [T (Some 7) [111%N] [] []] ];
             T (Some 8) [122%N] []
               [ T None [110%N] [] [ T (Some 2) [49%N] [([119%N], VInt 1%Z)] []; T (Some 4) [50%N] [] [] ] ] ];
         T (Some 3) [107%N] [] [];
         T (Some 1) [120%N] [([118%N], VInt 7%Z)] [] ]
  /\ rows (piece (fst (run i)) 0)
     = mc_table false (removelast TX) PXm (mc_kids false true mx) (ensure (rows mt) [tname mt] [[122%N]; [110%N]])
  /\ prop_C08 i (obs_of i (run i)) None = true.
Proof. cbv zeta. conj; vm_compute; reflexivity. Qed.

(* overriding + merge_children: r( a(b(k)), c(b(m), e) ), shift r/a/b onto r/c/b: b(m) is detached, b(k) — not k —
   becomes the last child of c *)
Definition ot : tree :=
  T (Some 0) [114%N] [] [ T (Some 1) [97%N] [] [T (Some 2) [98%N] [] [T (Some 3) [107%N] [] []]];
                         T (Some 4) [99%N] [] [T (Some 5) [98%N] [] [T (Some 6) [109%N] [] []]; T (Some 7) [101%N] [] []] ].
Example C08_override_merge_children_nonvacuous :
  let fl := MF false true true false false true in
  let i := sl_in false fl [47%N] [47%N] ot false [[114%N]; [97%N]; [98%N]] false [[114%N]; [99%N]; [98%N]] in
  f_over fl = true /\ f_mc fl = true /\ wf_t ot
  /\ tpath ot [0; 0] = Some [[114%N]; [97%N]; [98%N]] /\ tpath ot [1; 0] = Some [[114%N]; [99%N]; [98%N]]
  /\ run i = ([ T (Some 0) [114%N] [] [ T (Some 1) [97%N] [] [];
                                       T (Some 4) [99%N] [] [T (Some 7) [101%N] [] []; T (Some 2) [98%N] [] [T (Some 3) [107%N] [] []]] ];
                T (Some 5) [98%N] [] [T (Some 6) [109%N] [] []] ], None)
  /\ prop_C08 i (obs_of i (run i)) None = true.
Proof. cbv zeta. conj; try (vm_compute; reflexivity). apply wf_tb_sound. vm_compute. reflexivity. Qed.

(* refused: shift_and_replace_nodes with two from-paths and one to-path; copy_nodes with an empty to-path *)
Example C08_prop_refused_more_nonvacuous :
  let i1 := MI OpShiftReplace (MF false false false false false true) [47%N] mt [47%N] (T None [] [] []) [47%N]
               [[114;47;120]%N; [114;47;122]%N] [Some [114;47;121;47;120]%N] in
  let i2 := MI OpCopy (MF false false false false false true) [47%N] mt [47%N] (T None [] [] []) [47%N]
               [[114;47;120]%N; [114;47;122]%N] [Some [114;47;121;47;120;47;120]%N; Some []] in
  length (mi_from i1) <> length (mi_to i1) /\ trees_ok i1 = true /\ run i1 = ([mt], Some ValueError)
  /\ has_empty_to (mi_to i2) = true /\ length (mi_from i2) = length (mi_to i2) /\ trees_ok i2 = true
  /\ run i2 = ([mt], Some ValueError).
Proof. cbv zeta. conj; try (vm_compute; reflexivity). vm_compute. discriminate. Qed.
