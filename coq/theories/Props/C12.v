(* C12 — derived node queries agree with their definitions.
   Only the property theorems; the proofs live in Algo/DerivedProofs.v.
   A node is (tree t, position p); `valid t p = true` says p is a node of t.  The right-hand sides
   (the spec_..., dist and prop_C12_... functions) are the first-principles definitions of Spec/PC12.v: sets of nodes of
   the whole tree selected by a relation on positions, in document order. *)
From BT Require Import Base.Prelude Base.Rose Algo.Derived Spec.PC12 Corr.DerivedCorr Algo.DerivedProofs.

(* a non-trivial tree used to show that the hypotheses below are satisfiable:
   0 -- 1 -- 3        node [1;0;0] has depth 4; the diameter 5 is attained between [0;0] and [1;0;0]
     |    `- 4
     `- 2 -- 5 -- 6
          `- 7 *)
Definition ex_tree : tree :=
  T (Some 0) [] [] [T (Some 1) [] [] [T (Some 3) [] [] []; T (Some 4) [] [] []];
                    T (Some 2) [] [] [T (Some 5) [] [] [T (Some 6) [] [] []]; T (Some 7) [] [] []]].

(* depth is one plus the number of ancestors *)
Theorem C12_depth : forall p, node_depth p = 1 + length (node_ancestors p).
Proof. exact node_depth_ancestors. Qed.
Print Assumptions C12_depth.

(* ancestors = the nodes of the tree that are proper prefixes of p, nearest first *)
Theorem C12_ancestors : forall t p, valid t p = true -> node_ancestors p = spec_ancestors t p.
Proof. exact clause_ancestors. Qed.
Print Assumptions C12_ancestors.

Theorem C12_root : forall t p, valid t p = true ->
  spec_root t p = Some (node_root p) /\ node_root p = [] /\ last (p :: node_ancestors p) [] = node_root p
  /\ (node_is_root p = true <-> p = node_root p).
Proof. exact clause_root. Qed.
Print Assumptions C12_root.

Theorem C12_node_path : forall t p, valid t p = true ->
  node_path p = spec_node_path t p /\ node_path p = rev (p :: node_ancestors p).
Proof. exact clause_node_path. Qed.
Print Assumptions C12_node_path.

Theorem C12_siblings : forall t p, valid t p = true -> node_siblings t p = spec_siblings t p.
Proof. exact clause_siblings. Qed.
Print Assumptions C12_siblings.

Theorem C12_left_right_sibling : forall t p, valid t p = true ->
  node_left_sibling t p = spec_left_sibling t p /\ node_right_sibling t p = spec_right_sibling t p.
Proof. exact clause_left_right. Qed.
Print Assumptions C12_left_right_sibling.

(* the same in explicit form: the child of the same parent with index one less / one more, if any *)
Theorem C12_left_right_sibling_explicit : forall t par i, valid t (par ++ [i]) = true ->
  node_left_sibling t (par ++ [i]) = match i with 0 => None | S j => Some (par ++ [j]) end
  /\ node_right_sibling t (par ++ [i]) = if valid t (par ++ [S i]) then Some (par ++ [S i]) else None.
Proof. exact clause_left_right_explicit. Qed.
Print Assumptions C12_left_right_sibling_explicit.

(* descendants = the proper pre-order of the subtree *)
Theorem C12_descendants : forall t p s, subtree_at t p = Some s ->
  node_descendants t p = spec_descendants t p /\ node_descendants t p = map (app p) (tl (positions s)).
Proof. exact clause_descendants. Qed.
Print Assumptions C12_descendants.

Theorem C12_leaves : forall t p, valid t p = true -> node_leaves t p = spec_leaves t p.
Proof. exact clause_leaves. Qed.
Print Assumptions C12_leaves.

Theorem C12_is_leaf : forall t p, valid t p = true -> (node_is_leaf t p = true <-> node_descendants t p = []).
Proof. exact clause_is_leaf. Qed.
Print Assumptions C12_is_leaf.

(* max_depth, asked of ANY node, is the depth of the deepest node of the whole tree *)
Theorem C12_max_depth : forall t p,
  node_max_depth t p = spec_max_depth t
  /\ (forall q, In q (positions t) -> node_depth q <= node_max_depth t p)
  /\ (exists q, In q (positions t) /\ node_depth q = node_max_depth t p).
Proof. exact clause_max_depth. Qed.
Print Assumptions C12_max_depth.

(* diameter = the largest number of edges between two nodes of the subtree *)
Theorem C12_diameter_upper : forall t p a b, valid t p = true ->
  In a (positions t) -> In b (positions t) -> is_prefix p a = true -> is_prefix p b = true ->
  dist a b <= node_diameter t p.
Proof. exact clause_diameter_upper. Qed.
Print Assumptions C12_diameter_upper.

Theorem C12_diameter_attained : forall t p, valid t p = true ->
  exists a b, In a (positions t) /\ In b (positions t) /\ is_prefix p a = true /\ is_prefix p b = true
              /\ dist a b = node_diameter t p.
Proof. exact clause_diameter_attained. Qed.
Print Assumptions C12_diameter_attained.

Theorem C12_diameter : forall t p, valid t p = true -> node_diameter t p = spec_diameter t p.
Proof. exact clause_diameter. Qed.
Print Assumptions C12_diameter.

(* all thirteen values of a node at once, in the form the check evaluates on the implementation *)
Theorem C12_node_all : forall t p, valid t p = true -> prop_C12_node t p (model_qvals t p) = true.
Proof. exact prop_C12_node_model. Qed.
Print Assumptions C12_node_all.

(* go_to inside one tree: up from p to (excluding) the lowest common ancestor, then down to q; the
   result is a simple path of the tree (valid nodes, consecutive nodes joined by an edge, no
   repetition, from p to q) with dist p q edges *)
Theorem C12_go_to : forall t i p q, valid t p = true -> valid t q = true ->
  exists path, node_go_to (i, p) (GNode (i, q)) = Ret path
               /\ path = spec_go_to p q /\ prop_C12_goto t p q path = true
               /\ NoDup path /\ length path = S (dist p q).
Proof. exact clause_go_to. Qed.
Print Assumptions C12_go_to.

(* that path is the only simple path of the tree from p to q *)
Theorem C12_go_to_unique : forall t p q path, valid t p = true -> valid t q = true ->
  simple_path t p q path = true -> path = spec_go_to p q.
Proof. exact simple_path_unique. Qed.
Print Assumptions C12_go_to_unique.

Theorem C12_go_to_other_tree_refused : forall i j p q, i <> j ->
  node_go_to (i, p) (GNode (j, q)) = Raise TreeError.
Proof. exact node_go_to_other_tree. Qed.
Print Assumptions C12_go_to_other_tree_refused.

Theorem C12_go_to_non_node_refused : forall self, node_go_to self GJunk = Raise TypeError.
Proof. exact node_go_to_junk. Qed.
Print Assumptions C12_go_to_non_node_refused.

(* BinaryNode.is_leaf: true exactly when no slot holds a node *)
Theorem C12_binary_is_leaf : forall (slots : list (option nat)),
  prop_C12_binary_leaf slots (binary_is_leaf slots) = true
  /\ (binary_is_leaf slots = true <-> forall c, In c slots -> c = None).
Proof. exact (fun slots => conj (binary_is_leaf_spec slots) (binary_is_leaf_iff slots)). Qed.
Print Assumptions C12_binary_is_leaf.

(* the hypotheses are satisfiable by non-trivial inputs *)
Example C12_nonvacuous :
  valid ex_tree [1; 0; 0] = true /\ valid ex_tree [0; 0] = true
  /\ node_depth [1; 0; 0] = 4 /\ node_max_depth ex_tree [0] = 4
  /\ node_diameter ex_tree [] = 5 /\ dist [0; 0] [1; 0; 0] = 5 /\ node_diameter ex_tree [1] = 3
  /\ node_siblings ex_tree [1; 0] = [[1; 1]] /\ node_leaves ex_tree [] = [[0; 0]; [0; 1]; [1; 0; 0]; [1; 1]]
  /\ node_go_to (0, [0; 0]) (GNode (0, [1; 0; 0])) = Ret [[0; 0]; [0]; []; [1]; [1; 0]; [1; 0; 0]]
  /\ simple_path ex_tree [0; 0] [1; 0; 0] [[0; 0]; [0]; []; [1]; [1; 0]; [1; 0; 0]] = true
  /\ node_go_to (0, [1; 0; 0]) (GNode (0, [1])) = Ret [[1; 0; 0]; [1; 0]; [1]].
Proof. vm_compute. repeat split. Qed.

(* The inherited queries on BinaryNode trees (BinaryNode.children is always the pair of slots, an
   empty one being None).  `bt_to_rose b` is the image of b without the empty slots. *)

(* BaseNode.diameter on a BinaryNode (as repaired by 8c12410, which skips the empty slots) is the
   largest number of edges between two nodes of the image tree *)
Theorem C12_binary_diameter : forall b,
  bt_diameter b = spec_diameter (bt_to_rose b) []
  /\ (forall p q, In p (positions (bt_to_rose b)) -> In q (positions (bt_to_rose b)) -> dist p q <= bt_diameter b)
  /\ (exists p q, In p (positions (bt_to_rose b)) /\ In q (positions (bt_to_rose b)) /\ dist p q = bt_diameter b).
Proof. exact clause_binary_diameter. Qed.
Print Assumptions C12_binary_diameter.

(* BaseNode.siblings on a BinaryNode: the other entries of the parent's pair of slots, in order,
   an empty slot being None; no parent, no siblings *)
Theorem C12_binary_siblings : forall root g,
  prop_C12_binary_siblings (option_map (fun parent => map (option_map bt_tag) (bt_children parent)) (bt_parent_of root g))
                           g (bt_siblings root g) = true.
Proof. exact clause_binary_siblings. Qed.
Print Assumptions C12_binary_siblings.

(* the slot semantics on concrete trees: an only child has the empty slot as its sibling entry;
   the one-child tree that made diameter crash before 8c12410 has diameter 1 *)
Example C12_binary_examples :
  bt_siblings (BT 0 (Some (BT 1 None None)) None) 1 = [None]
  /\ bt_siblings (BT 0 None (Some (BT 1 None None))) 1 = [None]
  /\ bt_siblings (BT 0 (Some (BT 1 None None)) (Some (BT 2 None None))) 1 = [Some 2]
  /\ bt_siblings (BT 0 (Some (BT 1 None None)) (Some (BT 2 None None))) 2 = [Some 1]
  /\ bt_siblings (BT 0 (Some (BT 1 None None)) None) 0 = []
  /\ bt_diameter (BT 0 (Some (BT 1 None None)) None) = 1
  /\ bt_diameter (BT 0 (Some (BT 1 (Some (BT 3 None None)) (Some (BT 4 None None)))) (Some (BT 2 None None))) = 3
  /\ bt_diameter (BT 0 None (Some (BT 1 (Some (BT 2 None (Some (BT 3 None None)))) None))) = 3.
Proof. vm_compute. repeat split. Qed.
