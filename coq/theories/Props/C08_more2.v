(* C08 — shift/copy/replace: second batch of further clauses.  Only statements here; the proofs are in Algo/C08More2.v
   (which builds on Algo/ModifyProofs.v and Algo/C08More.v).  Model: Algo/Modify.v; documented edit on path tables:
   Spec/PC08.v (edit_cs, prop_C08).

   What is new with respect to Props/C08.v and Props/C08_more.v:
   (1) merge_leaves for source subtrees of ANY depth.  Props/C08.v has C08_merge_leaves_partial under the guard "every child
       of the source node is a leaf", shift only, destination absent only.  Here the guard is gone (only: the source node
       has children), for shift_nodes AND copy_nodes (cp), destination ABSENT (created) and EXISTING, from == to, and
       overriding TOGETHER with merge_leaves.  lvs x = the leaves of x in pre-order (= Base.Rose.leaves), prune x = x without
       its leaves (the skeleton of nodes that have children), lrows_f PX (tkids x) = the rows Spec.edit_cs calls `leafs`,
       ml_kids cp x = the leaves (cp: their fresh copies), ml_table cp tb leafs = tb without the leaf rows (cp: tb).
       New guard, which the code needs as well: the leaf NAMES are pairwise distinct (two leaves of the same name in
       different branches make the second assignment raise TreeError).
   (2) the loop itself (`for children in from_node.leaves: children.parent = to_node` over a snapshot of references into a
       shrinking tree), for any forest position: C08_merge_leaves_loop.
   (3) delete_children TOGETHER with overriding (shift), with or without merge_children.
   (4) from == to with merge_children (shift and copy, no delete_children).
   (5) tree-to-tree: copy_nodes_from_tree_to_tree with merge_leaves onto an existing node of the destination tree.
   (6) all of (1), (3), (4) as whole calls on path strings with prop_C08 on the model's output. *)
From BT Require Import Base.Prelude Base.Str Base.StrSep Base.Rose Algo.Modify Spec.PC08 Corr.ModifyCorr Algo.ModifyProofs
                       Algo.C08More Algo.C08More2.

(* lvs is Base.Rose.leaves: the sub-trees without children, in pre-order *)
Theorem C08_leaves_are_rose_leaves : forall t,
lvs t = leaves t.
Proof. exact (m2_lvs_is_leaves). Qed.
Print Assumptions C08_leaves_are_rose_leaves.

(* under the guard of Props/C08.v (every child is a leaf) the leaves are the children *)
Theorem C08_merge_leaves_flat_guard : forall x,
tkids x <> [] -> Forall (fun k => tkids k = []) (tkids x) -> lvs x = tkids x.
Proof. exact (m2_lvs_flat). Qed.
Print Assumptions C08_merge_leaves_flat_guard.

(* the loop of modify.py:1214-1217 for ANY forest f, any source reference fr (any piece) whose node x has children, any
   destination reference y outside fr: every leaf of x is moved, in pre-order and as the same object, to the end of the
   children of y; x keeps its pruned skeleton; no exception (nm = the names of the children of y before the call) *)
Theorem C08_merge_leaves_loop : forall nr (f : forest) fr y x nm,
  fr <> [] -> fget fr f = Some x -> is_leaf x = false -> is_prefix fr y = false ->
  knames y f = Some nm -> NoDup (nm ++ map tname (lvs x)) ->
  ml_loop nr f (leaf_refs f fr) (fun z => z) (Some y)
  = (fapp_all y (lvs x) (fsetk fr (prune_f (tkids x)) f), None).
Proof. exact (m2_ml_top). Qed.
Print Assumptions C08_merge_leaves_loop.

(* the attach step as TREES, shift: the tree after the call is explicit *)
Theorem C08_merge_leaves_attach_shift : forall c t1 rest p q x Q,
  c_copy c = false -> f_ml (c_fl c) = true -> wf_t t1 -> p <> [] -> tget t1 p = Some x -> is_leaf x = false ->
  tpath t1 q = Some Q -> is_prefix p q = false ->
  (forall l, In l (lvs x) -> has (rows t1) (Q ++ [tname l]) = false) -> NoDup (map tname (lvs x)) ->
  let s := t_setk p (prune_f (tkids x)) t1 in
  attach c false (t1 :: rest) (0 :: p) (Some (0 :: q)) = (app_all q (lvs x) s :: rest, None)
  /\ rows (app_all q (lvs x) s) = ins_all Q (lvs x) (rows s) /\ wf_t (app_all q (lvs x) s).
Proof. exact (m2_attach_ml_shift). Qed.
Print Assumptions C08_merge_leaves_attach_shift.

(* ... and copy: the leaves of the deep copy are moved, the tree itself only gains them *)
Theorem C08_merge_leaves_attach_copy : forall c t1 rest p q x Q,
  c_copy c = true -> f_ml (c_fl c) = true -> wf_t t1 -> p <> [] -> tget t1 p = Some x -> is_leaf x = false ->
  tpath t1 q = Some Q ->
  (forall l, In l (lvs x) -> has (rows t1) (Q ++ [tname l]) = false) -> NoDup (map tname (lvs x)) ->
  let L := map retag (lvs x) in
  attach c false (t1 :: rest) (0 :: p) (Some (0 :: q))
  = (app_all q L t1 :: rest ++ [t_setk p (prune_f (tkids (retag x))) (retag t1)], None)
  /\ rows (app_all q L t1) = ins_all Q L (rows t1) /\ wf_t (app_all q L t1).
Proof. exact (m2_attach_ml_copy). Qed.
Print Assumptions C08_merge_leaves_attach_copy.

(* the rows Spec.edit_cs calls `leafs` (rows of the source block without rows strictly below them) are the leaf rows *)
Theorem C08_merge_leaves_spec_leafs : forall t p x PX,
  wf_t t -> p <> [] -> tget t p = Some x -> tpath t p = Some PX -> is_leaf x = false ->
  filter (leaf_in (rows t)) (sub_rows (rows t) PX) = lrows_f PX (tkids x).
Proof. exact (m2_spec_leafs). Qed.
Print Assumptions C08_merge_leaves_spec_leafs.

(* dropping them from the table (Spec.edit_cs: drop_leafs) = pruning the source node *)
Theorem C08_merge_leaves_rows_pruned : forall t p x PX,
  wf_t t -> p <> [] -> tget t p = Some x -> tpath t p = Some PX ->
  minus_rows (rows t) (lrows_f PX (tkids x)) = rows (t_setk p (prune_f (tkids x)) t).
Proof. exact (m2_rows_pruned). Qed.
Print Assumptions C08_merge_leaves_rows_pruned.

(* (1) destination ABSENT (created): C08_merge_leaves_partial without its guard, and for copy as well *)
Theorem C08_merge_leaves_deep : forall (cp : bool) sep tsep fl t p x comps PX,
  f_mc fl = false -> f_ml fl = true -> wf_t t ->
  p <> [] -> tget t p = Some x -> tpath t p = Some PX -> tkids x <> [] ->
  (forall cc, In cc comps -> cc <> []) ->
  pfx PX (tname t :: comps) = false ->
  has (rows t) ((tname t :: comps) ++ [tname x]) = false ->
  (forall l, In l (lvs x) -> has (rows t) ((tname t :: comps) ++ [tname l]) = false) ->
  NoDup (map tname (lvs x)) ->
  exists t2 rest,
    cs_core (cfg_same cp sep tsep fl) [t] (0 :: p) (TNew comps) = (t2 :: rest, None)
    /\ rows t2 = ins_all (tname t :: comps) (ml_kids cp x)
                         (ml_table cp (ensure (rows t) [tname t] comps) (lrows_f PX (tkids x)))
    /\ edit_cs cp true fl (rows t) (rows t) PX (Some ((tname t :: comps) ++ [tname x])) = PNext (rows t2) (rows t2)
    /\ subseq (ml_table cp (rows t) (lrows_f PX (tkids x))) (rows t2)
    /\ (cp = false -> rest = []).
Proof. exact (C08_merge_leaves_deep_stmt). Qed.
Print Assumptions C08_merge_leaves_deep.

(* (1) destination EXISTS, no overriding: the leaves are appended after the destination's own children *)
Theorem C08_merge_leaves_existing : forall (cp : bool) sep tsep fl t p d x PX PD,
  f_mc fl = false -> f_ml fl = true -> f_over fl = false -> wf_t t ->
  p <> [] -> tget t p = Some x -> tpath t p = Some PX -> tpath t d = Some PD -> tkids x <> [] ->
  pfx PX PD = false -> last PD [] = tname x ->
  (forall l, In l (lvs x) -> has (rows t) (PD ++ [tname l]) = false) ->
  NoDup (map tname (lvs x)) ->
  exists t2 rest,
    cs_core (cfg_same cp sep tsep fl) [t] (0 :: p) (TNode (0 :: d)) = (t2 :: rest, None)
    /\ rows t2 = ins_all PD (ml_kids cp x) (ml_table cp (rows t) (lrows_f PX (tkids x)))
    /\ edit_cs cp true fl (rows t) (rows t) PX (Some PD) = PNext (rows t2) (rows t2)
    /\ subseq (ml_table cp (rows t) (lrows_f PX (tkids x))) (rows t2)
    /\ (cp = false -> rest = []).
Proof. exact (C08_merge_leaves_existing_stmt). Qed.
Print Assumptions C08_merge_leaves_existing.

(* (1) from == to with merge_leaves: the leaves become the last children of the node's parent *)
Theorem C08_merge_leaves_same_node : forall (cp : bool) sep tsep fl t p x PX,
  f_mc fl = false -> f_ml fl = true -> wf_t t ->
  p <> [] -> tget t p = Some x -> tpath t p = Some PX -> tkids x <> [] ->
  (forall l, In l (lvs x) -> has (rows t) (removelast PX ++ [tname l]) = false) ->
  NoDup (map tname (lvs x)) ->
  exists t2 rest,
    cs_core (cfg_same cp sep tsep fl) [t] (0 :: p) (TNode (0 :: p)) = (t2 :: rest, None)
    /\ rows t2 = ins_all (removelast PX) (ml_kids cp x) (ml_table cp (rows t) (lrows_f PX (tkids x)))
    /\ edit_cs cp true fl (rows t) (rows t) PX (Some PX) = PNext (rows t2) (rows t2)
    /\ subseq (ml_table cp (rows t) (lrows_f PX (tkids x))) (rows t2)
    /\ (cp = false -> rest = []).
Proof. exact (C08_merge_leaves_same_node_stmt). Qed.
Print Assumptions C08_merge_leaves_same_node.

(* (1) overriding + merge_leaves: the destination first loses its children (rest = tkids D when shifting), no name check needed *)
Theorem C08_override_merge_leaves : forall (cp : bool) sep tsep fl t p d x D PX PD,
  f_mc fl = false -> f_ml fl = true -> f_over fl = true -> wf_t t ->
  p <> [] -> tget t p = Some x -> tget t d = Some D -> tpath t p = Some PX -> tpath t d = Some PD -> tkids x <> [] ->
  pfx PX PD = false -> pfx PD PX = false -> last PD [] = tname x ->
  NoDup (map tname (lvs x)) ->
  exists t2 rest,
    cs_core (cfg_same cp sep tsep fl) [t] (0 :: p) (TNode (0 :: d)) = (t2 :: rest, None)
    /\ rows t2 = ins_all PD (ml_kids cp x) (ml_table cp (minus_strict (rows t) PD) (lrows_f PX (tkids x)))
    /\ edit_cs cp true fl (rows t) (rows t) PX (Some PD) = PNext (rows t2) (rows t2)
    /\ subseq (ml_table cp (minus_strict (rows t) PD) (lrows_f PX (tkids x))) (rows t2)
    /\ (cp = false -> rest = tkids D).
Proof. exact (C08_override_merge_leaves_stmt). Qed.
Print Assumptions C08_override_merge_leaves.

(* (6) whole calls on path strings (sl_in: one pair, separators of any positive length, possibly different, leading separators allowed, with_full_path) *)
Theorem C08_prop_merge_leaves_absent : forall a1 o1 a2 o2 (cp : bool) fl t lf lt PX p x comps,
  let Q := tname t :: comps in
  let TX := Q ++ [tname x] in
  Forall (sgood (a1 :: o1)) PX -> Forall (sgood (a2 :: o2)) PX ->
  Forall (sgood (a1 :: o1)) Q -> Forall (sgood (a2 :: o2)) Q ->
  f_full fl = true -> f_mc fl = false -> f_ml fl = true -> wf_t t ->
  p <> [] -> tget t p = Some x -> tpath t p = Some PX -> tkids x <> [] ->
  pfx PX Q = false -> has (rows t) TX = false ->
  (forall l, In l (lvs x) -> has (rows t) (Q ++ [tname l]) = false) -> NoDup (map tname (lvs x)) ->
  let i := sl_in cp fl (a1 :: o1) (a2 :: o2) t lf PX lt TX in
  exists t2 rest, run i = (t2 :: rest, None)
    /\ rows t2 = ins_all Q (ml_kids cp x) (ml_table cp (ensure (rows t) [tname t] comps) (lrows_f PX (tkids x)))
    /\ edit_cs cp true fl (rows t) (rows t) PX (Some TX) = PNext (rows t2) (rows t2)
    /\ prop_C08 i (obs_of i (run i)) None = true.
Proof. exact (C08_prop_merge_leaves_absent_stmt). Qed.
Print Assumptions C08_prop_merge_leaves_absent.

(* (6) *)
Theorem C08_prop_merge_leaves_existing : forall a1 o1 a2 o2 (cp : bool) fl t lf lt p d x PX PD,
  Forall (sgood (a1 :: o1)) PX -> Forall (sgood (a2 :: o2)) PX ->
  Forall (sgood (a1 :: o1)) PD -> Forall (sgood (a2 :: o2)) PD ->
  f_full fl = true -> f_mc fl = false -> f_ml fl = true -> f_over fl = false -> wf_t t ->
  p <> [] -> tget t p = Some x -> tpath t p = Some PX -> tpath t d = Some PD -> tkids x <> [] ->
  pfx PX PD = false -> last PD [] = tname x ->
  (forall l, In l (lvs x) -> has (rows t) (PD ++ [tname l]) = false) -> NoDup (map tname (lvs x)) ->
  let i := sl_in cp fl (a1 :: o1) (a2 :: o2) t lf PX lt PD in
  exists t2 rest, run i = (t2 :: rest, None)
    /\ rows t2 = ins_all PD (ml_kids cp x) (ml_table cp (rows t) (lrows_f PX (tkids x)))
    /\ edit_cs cp true fl (rows t) (rows t) PX (Some PD) = PNext (rows t2) (rows t2)
    /\ prop_C08 i (obs_of i (run i)) None = true.
Proof. exact (C08_prop_merge_leaves_existing_stmt). Qed.
Print Assumptions C08_prop_merge_leaves_existing.

(* (6) *)
Theorem C08_prop_merge_leaves_same_node : forall a1 o1 a2 o2 (cp : bool) fl t lf lt p x PX,
  Forall (sgood (a1 :: o1)) PX -> Forall (sgood (a2 :: o2)) PX ->
  f_full fl = true -> f_mc fl = false -> f_ml fl = true -> wf_t t ->
  p <> [] -> tget t p = Some x -> tpath t p = Some PX -> tkids x <> [] ->
  (forall l, In l (lvs x) -> has (rows t) (removelast PX ++ [tname l]) = false) -> NoDup (map tname (lvs x)) ->
  let i := sl_in cp fl (a1 :: o1) (a2 :: o2) t lf PX lt PX in
  exists t2 rest, run i = (t2 :: rest, None)
    /\ rows t2 = ins_all (removelast PX) (ml_kids cp x) (ml_table cp (rows t) (lrows_f PX (tkids x)))
    /\ edit_cs cp true fl (rows t) (rows t) PX (Some PX) = PNext (rows t2) (rows t2)
    /\ prop_C08 i (obs_of i (run i)) None = true.
Proof. exact (C08_prop_merge_leaves_same_node_stmt). Qed.
Print Assumptions C08_prop_merge_leaves_same_node.

(* (6) *)
Theorem C08_prop_override_merge_leaves : forall a1 o1 a2 o2 (cp : bool) fl t lf lt p d x D PX PD,
  Forall (sgood (a1 :: o1)) PX -> Forall (sgood (a2 :: o2)) PX ->
  Forall (sgood (a1 :: o1)) PD -> Forall (sgood (a2 :: o2)) PD ->
  f_full fl = true -> f_mc fl = false -> f_ml fl = true -> f_over fl = true -> wf_t t ->
  p <> [] -> tget t p = Some x -> tget t d = Some D -> tpath t p = Some PX -> tpath t d = Some PD -> tkids x <> [] ->
  pfx PX PD = false -> pfx PD PX = false -> last PD [] = tname x -> NoDup (map tname (lvs x)) ->
  let i := sl_in cp fl (a1 :: o1) (a2 :: o2) t lf PX lt PD in
  exists t2 rest, run i = (t2 :: rest, None)
    /\ rows t2 = ins_all PD (ml_kids cp x) (ml_table cp (minus_strict (rows t) PD) (lrows_f PX (tkids x)))
    /\ edit_cs cp true fl (rows t) (rows t) PX (Some PD) = PNext (rows t2) (rows t2)
    /\ prop_C08 i (obs_of i (run i)) None = true.
Proof. exact (C08_prop_override_merge_leaves_stmt). Qed.
Print Assumptions C08_prop_override_merge_leaves.

(* (3) delete_children + overriding (f_mc free): D is detached, the children of x become trees of their own, the bare x (same object) is the last child of D's former parent *)
Theorem C08_override_dc : forall sep tsep fl t p d x D PX PD,
  f_over fl = true -> f_ml fl = false -> f_dc fl = true -> wf_t t ->
  p <> [] -> d <> [] -> tget t p = Some x -> tget t d = Some D ->
  tpath t p = Some PX -> tpath t d = Some PD ->
  pfx PX PD = false -> pfx PD PX = false -> tname D = tname x ->
  exists t2,
    cs_core (cfg_same false sep tsep fl) [t] (0 :: p) (TNode (0 :: d)) = (t2 :: D :: tkids x, None)
    /\ rows t2 = insert_last (minus (minus (rows t) PD) PX) (removelast PD) [(PD, ttag x, tattrs x)]
    /\ edit_cs false true fl (rows t) (rows t) PX (Some PD) = PNext (rows t2) (rows t2)
    /\ subseq (minus (minus (rows t) PD) PX) (rows t2).
Proof. exact (C08_override_dc_stmt). Qed.
Print Assumptions C08_override_dc.

(* (6) *)
Theorem C08_prop_override_dc : forall a1 o1 a2 o2 fl t lf lt p d x D PX PD,
  Forall (sgood (a1 :: o1)) PX -> Forall (sgood (a2 :: o2)) PX ->
  Forall (sgood (a1 :: o1)) PD -> Forall (sgood (a2 :: o2)) PD ->
  f_full fl = true -> f_over fl = true -> f_ml fl = false -> f_dc fl = true -> wf_t t ->
  p <> [] -> d <> [] -> tget t p = Some x -> tget t d = Some D ->
  tpath t p = Some PX -> tpath t d = Some PD ->
  pfx PX PD = false -> pfx PD PX = false -> tname D = tname x ->
  let i := sl_in false fl (a1 :: o1) (a2 :: o2) t lf PX lt PD in
  exists t2, run i = (t2 :: D :: tkids x, None)
    /\ rows t2 = insert_last (minus (minus (rows t) PD) PX) (removelast PD) [(PD, ttag x, tattrs x)]
    /\ prop_C08 i (obs_of i (run i)) None = true.
Proof. exact (C08_prop_override_dc_stmt). Qed.
Print Assumptions C08_prop_override_dc.

(* (4) from == to with merge_children: x is detached (also when copying), its children (mcs_kids cp x: copies when cp) are appended to its former parent *)
Theorem C08_merge_children_same_node : forall (cp : bool) sep tsep fl t p x PX,
  f_mc fl = true -> f_dc fl = false -> wf_t t ->
  p <> [] -> tget t p = Some x -> tpath t p = Some PX ->
  (forall k, In k (tkids x) -> has (minus (rows t) PX) (removelast PX ++ [tname k]) = false) ->
  exists t2 rest,
    cs_core (cfg_same cp sep tsep fl) [t] (0 :: p) (TNode (0 :: p)) = (t2 :: rest, None)
    /\ rows t2 = ins_all (removelast PX) (mcs_kids cp x) (minus (rows t) PX)
    /\ edit_cs cp true fl (rows t) (rows t) PX (Some PX) = PNext (rows t2) (rows t2)
    /\ subseq (minus (rows t) PX) (rows t2).
Proof. exact (C08_merge_children_same_node_stmt). Qed.
Print Assumptions C08_merge_children_same_node.

(* (6) *)
Theorem C08_prop_merge_children_same_node : forall a1 o1 a2 o2 (cp : bool) fl t lf lt p x PX,
  Forall (sgood (a1 :: o1)) PX -> Forall (sgood (a2 :: o2)) PX ->
  f_full fl = true -> f_mc fl = true -> f_ml fl = false -> f_dc fl = false -> wf_t t ->
  p <> [] -> tget t p = Some x -> tpath t p = Some PX ->
  (forall k, In k (tkids x) -> has (minus (rows t) PX) (removelast PX ++ [tname k]) = false) ->
  let i := sl_in cp fl (a1 :: o1) (a2 :: o2) t lf PX lt PX in
  exists t2 rest, run i = (t2 :: rest, None)
    /\ rows t2 = ins_all (removelast PX) (mcs_kids cp x) (minus (rows t) PX)
    /\ edit_cs cp true fl (rows t) (rows t) PX (Some PX) = PNext (rows t2) (rows t2)
    /\ prop_C08 i (obs_of i (run i)) None = true.
Proof. exact (C08_prop_merge_children_same_node_stmt). Qed.
Print Assumptions C08_prop_merge_children_same_node.

(* (5) tree-to-tree (forest [s; dt], destination = piece 1), merge_leaves onto the existing node d of dt: the source tree is piece 0, unchanged *)
Theorem C08_tt_merge_leaves_existing : forall c s dt p d x PX PD,
  tt_cfg c -> f_mc (c_fl c) = false -> f_ml (c_fl c) = true -> f_over (c_fl c) = false ->
  wf_t s -> wf_t dt -> p <> [] -> tget s p = Some x -> tpath s p = Some PX -> tpath dt d = Some PD -> tkids x <> [] ->
  (forall l, In l (lvs x) -> has (rows dt) (PD ++ [tname l]) = false) -> NoDup (map tname (lvs x)) ->
  let L := map retag (lvs x) in
  let t2 := app_all d L dt in
  (exists rest, cs_core c [s; dt] (0 :: p) (TNode (1 :: d)) = (s :: t2 :: rest, None))
  /\ rows t2 = ins_all PD L (rows dt)
  /\ (last PD [] = tname x ->
      edit_cs true false (c_fl c) (rows s) (rows dt) PX (Some PD) = PNext (rows s) (rows t2))
  /\ subseq (rows dt) (rows t2).
Proof. exact (C08_tt_merge_leaves_existing_stmt). Qed.
Print Assumptions C08_tt_merge_leaves_existing.

(* ---- the hypotheses are satisfiable by non-trivial inputs ------------------------------------------------------ *)

Ltac conj := repeat match goal with |- _ /\ _ => split end.
Ltac fin_ex := first [ vm_compute; reflexivity | apply wf_tb_sound; vm_compute; reflexivity
                     | apply nodup_names_sound; vm_compute; reflexivity | discriminate ].

(* r( x[v=7]( 1( k, m( u[a=1] ) ), 2, 3( w ) ), y( x( o ) ), z ): the source node r/x has height 4, its leaves k, u, 2, w sit at
   three different depths.  Code points: r 114, x 120, y 121, z 122, k 107, m 109, u 117, w 119, o 111, n 110, 1 49, 2 50, 3 51 *)
Definition mx2 : tree :=
  T (Some 1) [120%N] [([118%N], VInt 7%Z)]
    [ T (Some 2) [49%N] [] [T (Some 3) [107%N] [] []; T (Some 4) [109%N] [] [T (Some 5) [117%N] [([97%N], VInt 1%Z)] []]];
      T (Some 6) [50%N] [] [];
      T (Some 7) [51%N] [] [T (Some 8) [119%N] [] []] ].
Definition dx2 : tree := T (Some 10) [120%N] [] [T (Some 11) [111%N] [] []].
Definition dt2 : tree :=
  T (Some 0) [114%N] [] [ mx2; T (Some 9) [121%N] [] [dx2]; T (Some 12) [122%N] [] [] ].
Definition PX2 : list str := [[114%N]; [120%N]].
Definition PD2 : list str := [[114%N]; [121%N]; [120%N]].
Definition fl_ml2 (ov : bool) : mflags := MF false ov false true false true.
Definition lk : tree := T (Some 3) [107%N] [] [].
Definition lu : tree := T (Some 5) [117%N] [([97%N], VInt 1%Z)] [].
Definition l2 : tree := T (Some 6) [50%N] [] [].
Definition lw : tree := T (Some 8) [119%N] [] [].
Definition mx2_pruned : tree :=
  T (Some 1) [120%N] [([118%N], VInt 7%Z)] [ T (Some 2) [49%N] [] [T (Some 4) [109%N] [] []]; T (Some 7) [51%N] [] [] ].

(* shift_nodes("r/x" -> "r/y/x", merge_leaves), r/y/x exists: the hypotheses of C08_prop_merge_leaves_existing hold (and the guard
   of C08_merge_leaves_partial does not), and the run shows its conclusion — the four leaves, the same objects (tags 3, 5, 6,
   8), appended after o in pre-order; x keeps 1(m) and 3; prop_C08 accepts *)
Example C08_merge_leaves_existing_nonvacuous :
  let i := sl_in false (fl_ml2 false) [47%N] [47%N] dt2 false PX2 false PD2 in
  wf_t dt2 /\ tget dt2 [0] = Some mx2 /\ tpath dt2 [0] = Some PX2 /\ tpath dt2 [1; 0] = Some PD2 /\ tkids mx2 <> []
  /\ pfx PX2 PD2 = false /\ last PD2 [] = tname mx2
  /\ forallb (fun l => negb (has (rows dt2) (PD2 ++ [tname l]))) (lvs mx2) = true
  /\ NoDup (map tname (lvs mx2))
  /\ ~ Forall (fun k => tkids k = []) (tkids mx2)
  /\ height mx2 = 4 /\ lvs mx2 = [lk; lu; l2; lw] /\ prune mx2 = mx2_pruned
  /\ run i = ([ T (Some 0) [114%N] []
                  [ mx2_pruned;
                    T (Some 9) [121%N] [] [ T (Some 10) [120%N] [] [T (Some 11) [111%N] [] []; lk; lu; l2; lw] ];
                    T (Some 12) [122%N] [] [] ] ], None)
  /\ rows (piece (fst (run i)) 0) = ins_all PD2 (ml_kids false mx2) (ml_table false (rows dt2) (lrows_f PX2 (tkids mx2)))
  /\ prop_C08 i (obs_of i (run i)) None = true.
Proof.
  cbv zeta. conj; try fin_ex. intros H. inversion H as [|? ? Hk _]. discriminate Hk.
Qed.

(* copy_nodes("::r::x" -> "r::z::n::x", merge_leaves) with sep "::" and tree.sep "/", destination absent (n is created): fresh
   copies of the four leaves under r/z/n, the tree otherwise untouched (piece 1 is what is left of the deep copy) *)
Example C08_merge_leaves_copy_absent_nonvacuous :
  let TX := [[114%N]; [122%N]; [110%N]; [120%N]] in
  let i := sl_in true (fl_ml2 false) [58;58]%N [47%N] dt2 true PX2 false TX in
  pfx PX2 (removelast TX) = false /\ has (rows dt2) TX = false
  /\ forallb (fun l => negb (has (rows dt2) (removelast TX ++ [tname l]))) (lvs mx2) = true
  /\ piece (fst (run i)) 0
     = T (Some 0) [114%N] []
         [ mx2; T (Some 9) [121%N] [] [dx2];
           T (Some 12) [122%N] [] [ T None [110%N] [] (map retag [lk; lu; l2; lw]) ] ]
  /\ rows (piece (fst (run i)) 0)
     = ins_all (removelast TX) (ml_kids true mx2)
               (ml_table true (ensure (rows dt2) [tname dt2] [[122%N]; [110%N]]) (lrows_f PX2 (tkids mx2)))
  /\ snd (run i) = None /\ prop_C08 i (obs_of i (run i)) None = true.
Proof. cbv zeta. conj; fin_ex. Qed.

(* from == to with merge_leaves: shift_nodes("r/x" -> "r/x", merge_leaves): the leaves become the last children of r *)
Example C08_merge_leaves_same_node_nonvacuous :
  let i := sl_in false (fl_ml2 false) [47%N] [47%N] dt2 false PX2 false PX2 in
  forallb (fun l => negb (has (rows dt2) (removelast PX2 ++ [tname l]))) (lvs mx2) = true
  /\ run i = ([ T (Some 0) [114%N] [] [ mx2_pruned; T (Some 9) [121%N] [] [dx2]; T (Some 12) [122%N] [] []; lk; lu; l2; lw ] ], None)
  /\ prop_C08 i (obs_of i (run i)) None = true.
Proof. cbv zeta. conj; fin_ex. Qed.

(* overriding + merge_leaves onto r/y/x: its child o becomes a tree of its own, then the leaves arrive *)
Example C08_override_merge_leaves_nonvacuous :
  let i := sl_in false (fl_ml2 true) [47%N] [47%N] dt2 false PX2 false PD2 in
  tget dt2 [1; 0] = Some dx2 /\ pfx PD2 PX2 = false
  /\ run i = ([ T (Some 0) [114%N] []
                  [ mx2_pruned; T (Some 9) [121%N] [] [ T (Some 10) [120%N] [] [lk; lu; l2; lw] ]; T (Some 12) [122%N] [] [] ];
                T (Some 11) [111%N] [] [] ], None)
  /\ rows (piece (fst (run i)) 0)
     = ins_all PD2 (ml_kids false mx2) (ml_table false (minus_strict (rows dt2) PD2) (lrows_f PX2 (tkids mx2)))
  /\ prop_C08 i (obs_of i (run i)) None = true.
Proof. cbv zeta. conj; fin_ex. Qed.

(* overriding + delete_children (+ merge_children): r/y/x is detached, the children of r/x become trees, the bare x is y's child *)
Example C08_override_dc_nonvacuous :
  let fl := MF false true true false true true in
  let i := sl_in false fl [47%N] [47%N] dt2 false PX2 false PD2 in
  f_over fl = true /\ f_dc fl = true /\ f_mc fl = true /\ tname dx2 = tname mx2
  /\ run i = ( T (Some 0) [114%N] [] [ T (Some 9) [121%N] [] [T (Some 1) [120%N] [([118%N], VInt 7%Z)] []]; T (Some 12) [122%N] [] [] ]
               :: dx2 :: tkids mx2, None)
  /\ rows (piece (fst (run i)) 0)
     = insert_last (minus (minus (rows dt2) PD2) PX2) (removelast PD2) [(PD2, ttag mx2, tattrs mx2)]
  /\ prop_C08 i (obs_of i (run i)) None = true.
Proof. cbv zeta. conj; fin_ex. Qed.

(* from == to with merge_children, copy_nodes: x is detached (piece 1), fresh copies of its three children become r's last children *)
Example C08_merge_children_same_node_nonvacuous :
  let fl := MF false false true false false true in
  let i := sl_in true fl [47%N] [47%N] dt2 false PX2 false PX2 in
  forallb (fun k => negb (has (minus (rows dt2) PX2) (removelast PX2 ++ [tname k]))) (tkids mx2) = true
  /\ fst (run i) = [ T (Some 0) [114%N] [] ([ T (Some 9) [121%N] [] [dx2]; T (Some 12) [122%N] [] [] ] ++ map retag (tkids mx2));
                     mx2; T None [120%N] [([118%N], VInt 7%Z)] [] ]
  /\ rows (piece (fst (run i)) 0) = ins_all (removelast PX2) (mcs_kids true mx2) (minus (rows dt2) PX2)
  /\ snd (run i) = None /\ prop_C08 i (obs_of i (run i)) None = true.
Proof. cbv zeta. conj; fin_ex. Qed.

(* tree-to-tree: copy_nodes_from_tree_to_tree(dt2, s(x(q)), "r/x" -> "s/x", merge_leaves): copies of the leaves after q, dt2 untouched *)
Definition st2 : tree := T (Some 20) [115%N] [] [T (Some 21) [120%N] [] [T (Some 22) [113%N] [] []]].
Example C08_tt_merge_leaves_nonvacuous :
  let i := MI OpCopyTT (fl_ml2 false) [47%N] dt2 [47%N] st2 [47%N] [[114;47;120]%N] [Some [115;47;120]%N] in
  tt_cfg (cfg_of i) /\ wf_t st2 /\ tpath st2 [0] = Some [[115%N]; [120%N]]
  /\ forallb (fun l => negb (has (rows st2) ([[115%N]; [120%N]] ++ [tname l]))) (lvs mx2) = true
  /\ piece (fst (run i)) 0 = dt2
  /\ piece (fst (run i)) 1
     = T (Some 20) [115%N] [] [T (Some 21) [120%N] [] (T (Some 22) [113%N] [] [] :: map retag [lk; lu; l2; lw])]
  /\ piece (fst (run i)) 1 = app_all [0] (map retag (lvs mx2)) st2
  /\ snd (run i) = None /\ prop_C08 i (obs_of i (run i)) None = true.
Proof. cbv zeta. conj; try fin_ex. split; reflexivity. Qed.
