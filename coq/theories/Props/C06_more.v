(* C06, partial exports re-imported (closes the clause "re-import NOT proved in general, only shown on
   the model: skip_depth / leaf_only / inner start node, where dict_to_tree re-creates the missing
   ancestors as bare nodes; the frame and nested variants of the partial re-import").
   Statements only; definitions and proofs in Algo/C06More.v.

   `induced sel f anc t` (Algo/C06More.v) is the tree induced on t by the ancestor closure of the
   selected nodes: a node is kept iff it or a node below it is selected, kept children stay in source
   order, a selected node carries `f`, a node kept only as an ancestor is bare (no attributes).
   `chain l x` puts bare nodes named l, one below the other, above x.
   `dict_sel o anc t` = `selected o (anc ++ [name], t)` of Spec/PC06.v (the three gates at absolute
   depth), `dict_attrs o anc t` = the node's exported record without the key "name". *)
From BT Require Import Base.Prelude Base.Str Base.StrSep Base.Rose Algo.Export Spec.PC06 Algo.ExportProofs
  Algo.C06More.

(* ---------------------------------------------------------------------------------------------- *)
(* dict: every gate combination, every start node, every record option *)

(* dict_to_tree (tree_to_dict root sp p o) = bare chain of the start node's ancestors above the tree
   induced by the selected nodes; ValueError iff nothing is selected; Unmodelled iff p is no position *)
Theorem C06_dict_reimport_partial : forall sp root p o,
  valid_tree root = true -> sep_free sp root = true ->
  reimport_dict root sp p o = spec_reimport_dict root p o.
Proof. exact reimport_dict_induced. Qed.
Print Assumptions C06_dict_reimport_partial.

(* the selection is the exporter's gate test at depth 1 + number of ancestors *)
Theorem C06_dict_sel_is_gates : forall o anc t, dict_sel o anc t = gates o (S (length anc)) t.
Proof. exact dict_sel_gates. Qed.
Print Assumptions C06_dict_sel_is_gates.

(* `induced` without recursion over the tree: in pre-order, the (name path, attributes) of the nodes of
   the induced tree are those of the source nodes that are selected or have a selected node below them
   (`keeps`), a selected node carrying F and the others nothing *)
Theorem C06_induced_nodes : forall (S : cnode -> bool) (F : cnode -> record) t anc,
  map (fun c : cnode => (fst c, tattrs (snd c)))
      (flat_map (nodes_under anc) (olist (induced (fun a x => S (a ++ [tname x], x)) (fun a x => F (a ++ [tname x], x)) anc t)))
  = map (fun c : cnode => (fst c, if S c then F c else [])) (filter (keeps S) (nodes_under anc t)).
Proof. exact induced_nodes. Qed.
Print Assumptions C06_induced_nodes.

(* nothing kept <-> nothing selected *)
Theorem C06_induced_none : forall (S : cnode -> bool) (F : cnode -> record) anc t,
  induced (fun a x => S (a ++ [tname x], x)) (fun a x => F (a ++ [tname x], x)) anc t = None
  <-> existsb S (nodes_under anc t) = false.
Proof. exact induced_none_iff. Qed.
Print Assumptions C06_induced_none.

(* full records (name + all public attributes), any gates: a selected node carries its public
   attributes in key order *)
Theorem C06_dict_reimport_gates : forall sp root p md sd lo,
  valid_tree root = true -> sep_free sp root = true ->
  reimport_dict root sp p (full_gates md sd lo)
  = match subtree_at root p with
    | None => Raise Unmodelled
    | Some t => match induced (dict_sel (full_gates md sd lo)) (fun _ x => norm_of x) (anc_names root p) t with
                | Some x => Ret (chain (anc_names root p) x)
                | None => Raise ValueError
                end
    end.
Proof. exact reimport_dict_gates. Qed.
Print Assumptions C06_dict_reimport_gates.

(* the three shapes of C06_partial_reimport_shapes (Props/C06.v), for all trees *)

(* inner start node, no gate: the start node's subtree under the bare chain of its ancestors *)
Theorem C06_dict_reimport_inner_start : forall sp root p t,
  valid_tree root = true -> sep_free sp root = true -> subtree_at root p = Some t ->
  reimport_dict root sp p full_opts = Ret (chain (anc_names root p) (norm_tree false t)).
Proof. exact reimport_dict_inner_start. Qed.
Print Assumptions C06_dict_reimport_inner_start.

(* leaf_only: the shape is untouched, only the leaves carry attributes *)
Theorem C06_dict_reimport_leaf_only : forall sp root p t,
  valid_tree root = true -> sep_free sp root = true -> subtree_at root p = Some t ->
  reimport_dict root sp p (full_gates 0 0 true) = Ret (chain (anc_names root p) (leaf_attrs norm_of t)).
Proof. exact reimport_dict_leaf_only. Qed.
Print Assumptions C06_dict_reimport_leaf_only.

(* skip_depth = s: the nodes at depth <= s are bare and survive only above a node deeper than s *)
Theorem C06_dict_reimport_skip_depth : forall sp root p s t,
  valid_tree root = true -> sep_free sp root = true -> subtree_at root p = Some t ->
  reimport_dict root sp p (full_gates 0 s false)
  = match skip_tree norm_of (s - length p) t with
    | Some x => Ret (chain (anc_names root p) x)
    | None => Raise ValueError
    end.
Proof. exact reimport_dict_skip_depth. Qed.
Print Assumptions C06_dict_reimport_skip_depth.

(* ---------------------------------------------------------------------------------------------- *)
(* nested: only max_depth exists and the recursion sits inside the gate -- any start node, any
   max_depth, any option set with full records *)
Theorem C06_nested_reimport_partial : forall root p o t,
  valid_tree root = true -> subtree_at root p = Some t ->
  o_name_key o = s_name -> o_all_attrs o = true ->
  bind (tree_to_nested_dict root p o) (nested_dict_to_tree s_name)
  = if Nat.eqb (o_max_depth o) 0 then Ret (norm_tree false t)
    else if Nat.leb (S (length p)) (o_max_depth o)
         then Ret (norm_tree false (prune (o_max_depth o - S (length p)) t))
         else Raise KeyError.
Proof. exact reimport_nested_partial. Qed.
Print Assumptions C06_nested_reimport_partial.

(* ---------------------------------------------------------------------------------------------- *)
(* frames (pandas and polars: the same model code), full records, any gates, any start node.
   Guard as in the full round trip: no attribute called "path" (frame_safe). *)

(* the exact tree: a selected node carries, in column order, its non-null cells of the attribute
   columns of the EXPORTED (partial) frame *)
Theorem C06_dataframe_reimport_partial_exact : forall sp root p md sd lo,
  valid_tree root = true -> sep_free sp root = true -> frame_safe root = true ->
  reimport_frame root sp p (full_gates md sd lo)
  = match subtree_at root p with
    | None => Raise Unmodelled
    | Some t => match induced (dict_sel (full_gates md sd lo))
                              (fun _ x => frame_attrs_of (partial_cols sp root p (full_gates md sd lo)) x)
                              (anc_names root p) t with
                | Some x => Ret (chain (anc_names root p) x)
                | None => Raise ValueError
                end
    end.
Proof. exact reimport_frame_exact. Qed.
Print Assumptions C06_dataframe_reimport_partial_exact.

(* attributes as finite maps: a selected node carries exactly its public non-null attributes *)
Theorem C06_dataframe_reimport_partial : forall sp root p md sd lo,
  valid_tree root = true -> sep_free sp root = true -> frame_safe root = true ->
  res_map sort_tree (bind (tree_to_dataframe root sp p (full_gates md sd lo)) (fun d => dataframe_to_tree d sp))
  = match subtree_at root p with
    | None => Raise Unmodelled
    | Some t => match induced (dict_sel (full_gates md sd lo)) (fun _ x => norm_attrs true (tattrs x))
                              (anc_names root p) t with
                | Some x => Ret (chain (anc_names root p) x)
                | None => Raise ValueError
                end
    end.
Proof. exact reimport_frame_sorted. Qed.
Print Assumptions C06_dataframe_reimport_partial.

Theorem C06_polars_reimport_partial : forall sp root p md sd lo,
  valid_tree root = true -> sep_free sp root = true -> frame_safe root = true ->
  res_map sort_tree (bind (tree_to_polars root sp p (full_gates md sd lo)) (fun d => polars_to_tree d sp))
  = match subtree_at root p with
    | None => Raise Unmodelled
    | Some t => match induced (dict_sel (full_gates md sd lo)) (fun _ x => norm_attrs true (tattrs x))
                              (anc_names root p) t with
                | Some x => Ret (chain (anc_names root p) x)
                | None => Raise ValueError
                end
    end.
Proof. exact reimport_frame_sorted. Qed.
Print Assumptions C06_polars_reimport_partial.

Theorem C06_dataframe_reimport_inner_start : forall sp root p t,
  valid_tree root = true -> sep_free sp root = true -> frame_safe root = true -> subtree_at root p = Some t ->
  res_map sort_tree (reimport_frame root sp p full_opts) = Ret (chain (anc_names root p) (norm_tree true t)).
Proof. exact reimport_frame_inner_start. Qed.
Print Assumptions C06_dataframe_reimport_inner_start.

Theorem C06_dataframe_reimport_leaf_only : forall sp root p t,
  valid_tree root = true -> sep_free sp root = true -> frame_safe root = true -> subtree_at root p = Some t ->
  res_map sort_tree (reimport_frame root sp p (full_gates 0 0 true))
  = Ret (chain (anc_names root p) (leaf_attrs norm_null_of t)).
Proof. exact reimport_frame_leaf_only. Qed.
Print Assumptions C06_dataframe_reimport_leaf_only.

Theorem C06_dataframe_reimport_skip_depth : forall sp root p s t,
  valid_tree root = true -> sep_free sp root = true -> frame_safe root = true -> subtree_at root p = Some t ->
  res_map sort_tree (reimport_frame root sp p (full_gates 0 s false))
  = match skip_tree norm_null_of (s - length p) t with
    | Some x => Ret (chain (anc_names root p) x)
    | None => Raise ValueError
    end.
Proof. exact reimport_frame_skip_depth. Qed.
Print Assumptions C06_dataframe_reimport_skip_depth.

(* ---------------------------------------------------------------------------------------------- *)
(* non-vacuity: a 9-node tree of depth 4, the two-character separator "->"
     a(age=90, q=None) [ b(age=65, _h=1) [ d ; e [ g(x=True) ] ] ; c(w=None) ; f [ h(z=1, age=2) [ i ] ] ] *)
Definition pm_tree : tree :=
  T None [97]%N [([97; 103; 101]%N, VInt 90); ([113]%N, VNone)]
    [T None [98]%N [([97; 103; 101]%N, VInt 65); ([95; 104]%N, VInt 1)]
       [T None [100]%N [] []; T None [101]%N [] [T None [103]%N [([120]%N, VBool true)] []]];
     T None [99]%N [([119]%N, VNone)] [];
     T None [102]%N [] [T None [104]%N [([122]%N, VInt 1); ([97; 103; 101]%N, VInt 2)] [T None [105]%N [] []]]].
Definition pm_bare (n : N) (ks : list tree) : tree := T None [n] [] ks.
(* name_key "n", parent_key "p", attr_dict {age: y}, max_depth 3, skip_depth 2 *)
Definition pm_opts : opts := Opts [110]%N [112]%N s_path [([97; 103; 101]%N, [121]%N)] false 3 2 false.

Example C06_partial_reimport_nonvacuous :
  valid_tree pm_tree = true /\ sep_free [45; 62]%N pm_tree = true /\ frame_safe pm_tree = true
  /\ tsize pm_tree = 9
  (* general options, inner start node f: only h is selected; a and f come back bare *)
  /\ reimport_dict pm_tree [45; 62]%N [2] pm_opts
     = Ret (pm_bare 97 [pm_bare 102 [T None [104]%N [([110]%N, VStr [104]%N); ([112]%N, VStr [102]%N); ([121]%N, VInt 2)] []]])
  /\ spec_reimport_dict pm_tree [2] pm_opts = reimport_dict pm_tree [45; 62]%N [2] pm_opts
  (* skip_depth = 2 from the root: a, b, f bare, c gone *)
  /\ reimport_dict pm_tree [45; 62]%N [] (full_gates 0 2 false)
     = Ret (pm_bare 97 [pm_bare 98 [pm_bare 100 []; pm_bare 101 [T None [103]%N [([120]%N, VBool true)] []]];
                        pm_bare 102 [T None [104]%N [([97; 103; 101]%N, VInt 2); ([122]%N, VInt 1)] [pm_bare 105 []]]])
  (* nothing selected: c sits at depth 2 *)
  /\ reimport_dict pm_tree [45; 62]%N [1] (full_gates 0 2 false) = Raise ValueError
  (* frame, leaf_only below b *)
  /\ reimport_frame pm_tree [45; 62]%N [0] (full_gates 0 0 true)
     = Ret (pm_bare 97 [pm_bare 98 [pm_bare 100 []; pm_bare 101 [T None [103]%N [([120]%N, VBool true)] []]]])
  (* nested, max_depth = 3 from b (depth 2): b with its children, g cut *)
  /\ bind (tree_to_nested_dict pm_tree [0] (full_gates 3 0 false)) (nested_dict_to_tree s_name)
     = Ret (T None [98]%N [([97; 103; 101]%N, VInt 65)] [pm_bare 100 []; pm_bare 101 []]).
Proof. vm_compute. repeat split. Qed.
