(* C17 — DAG exports are complete and re-importing them reproduces the DAG.
   Only the property theorems; the proofs live in Algo/DagAlgoProofs.v.  The models (Algo/DagIO.v on
   top of Algo/DagAlgo.v) are tied to bigtree/dag/export.py, bigtree/dag/construct.py and the loop
   guard of bigtree/node/dagnode.py by check_C17 (Corr/DagAlgoCorr.v).
   A constructor model returns the node table it built (names in creation order, edges as index
   pairs in insertion order) and the returned node; `HasEdge b pn cn` = "the table links the node
   named pn to the node named cn"; `SameNames g names` = "names lists every node name of g once". *)
From BT Require Import Base.Prelude Base.Str Base.Rose Algo.DagAlgo Algo.DagIO Spec.PC16 Spec.PC17
                       Algo.DagAlgoProofs.

(* dag_to_list: every edge exactly once, as (parent name, child name), from every start node *)
Theorem C17_list_edges_exact : forall g r x,
  Wf g -> Ranked g r -> DistinctNames g -> WeaklyConnected g -> x < dsize g ->
  (forall pn cn, In (pn, cn) (dag_to_list g x) <->
                 exists p c, Edge g p c /\ pn = name g p /\ cn = name g c)
  /\ NoDup (dag_to_list g x).
Proof. exact list_edges_exact. Qed.
Print Assumptions C17_list_edges_exact.

(* list_to_dag (dag_to_list g x) succeeds and has the same node names and the same edge set *)
Theorem C17_roundtrip_list : forall g r x,
  Wf g -> Ranked g r -> DistinctNames g -> WeaklyConnected g -> x < dsize g -> (exists p c, Edge g p c) ->
  exists b ret, list_to_dag (dag_to_list g x) = Ret (b, Some ret)
    /\ SameNames g (b_names b)
    /\ NoDup (b_edges b)
    /\ (forall pn cn, HasEdge b pn cn <-> exists p c, Edge g p c /\ pn = name g p /\ cn = name g c).
Proof. exact roundtrip_list. Qed.
Print Assumptions C17_roundtrip_list.

(* dag_to_dict: exactly one entry per node, holding the names of the node's parents (no parent key
   for a root) and its requested attributes *)
Theorem C17_dict_nodes_edges_attrs : forall g r x md,
  Wf g -> Ranked g r -> DistinctNames g -> WeaklyConnected g -> x < dsize g -> (exists p c, Edge g p c) ->
  exists d, dag_to_dict g x md = Ret d
    /\ NoDup (map de_name d)
    /\ (forall s, In s (map de_name d) <-> exists y, y < dsize g /\ name g y = s)
    /\ (forall y, y < dsize g -> exists e, In e d /\ de_name e = name g y
          /\ de_attrs e = export_attrs md (nattrs g y)
          /\ (parents g y = [] -> de_parents e = None)
          /\ (parents g y <> [] -> exists ps, de_parents e = Some ps /\ NoDup ps
                /\ forall s, In s ps <-> exists p, In p (parents g y) /\ s = name g p)).
Proof. exact dict_nodes_edges_attrs. Qed.
Print Assumptions C17_dict_nodes_edges_attrs.

(* dag_to_dataframe: the rows are pairwise different in (name, parent); every row is either the row
   of an edge (child name, parent name, child's non-None attributes) or the row of a root that has a
   child (name, no parent, attributes); every edge and every such root has its row *)
Theorem C17_df_rows_exact : forall g r x md,
  Wf g -> Ranked g r -> DistinctNames g -> WeaklyConnected g -> x < dsize g ->
  let rows := dag_to_dataframe g x md in
  let na := fun y => non_null (export_attrs md (nattrs g y)) in
  NoDup (map row_key rows)
  /\ (forall rw, In rw rows -> exists y, y < dsize g /\ dr_name rw = name g y /\ dr_attrs rw = na y
        /\ ((dr_parent rw = None /\ parents g y = [] /\ exists c, Edge g y c)
            \/ exists p, Edge g p y /\ dr_parent rw = Some (name g p)))
  /\ (forall p c, Edge g p c -> exists rw, In rw rows /\ dr_name rw = name g c /\ dr_parent rw = Some (name g p))
  /\ (forall y c, Edge g y c -> parents g y = [] ->
        exists rw, In rw rows /\ dr_name rw = name g y /\ dr_parent rw = None).
Proof. exact df_rows_exact. Qed.
Print Assumptions C17_df_rows_exact.

(* dict_to_dag (dag_to_dict g x md) succeeds; same node names, same edge set, and every node carries
   exactly the exported attributes.  Guards: the exported keys of a node are pairwise distinct and
   none is a reserved word (parent / parents / children), which dict_to_dag rejects *)
Theorem C17_roundtrip_dict : forall g r x md,
  Wf g -> Ranked g r -> DistinctNames g -> WeaklyConnected g -> x < dsize g -> (exists p c, Edge g p c) ->
  (forall y, y < dsize g -> NoDup (map fst (export_attrs md (nattrs g y)))) ->
  (forall y, y < dsize g -> existsb (fun kv => reserved (fst kv)) (export_attrs md (nattrs g y)) = false) ->
  exists d b ret, dag_to_dict g x md = Ret d /\ dict_to_dag d = Ret (b, Some ret)
    /\ SameNames g (b_names b)
    /\ NoDup (b_edges b)
    /\ (forall pn cn, HasEdge b pn cn <-> exists p c, Edge g p c /\ pn = name g p /\ cn = name g c)
    /\ length (b_attrs b) = bsize b
    /\ (forall i y, i < bsize b -> y < dsize g -> bname b i = name g y ->
          nth i (b_attrs b) [] = export_attrs md (nattrs g y)).
Proof. exact roundtrip_dict. Qed.
Print Assumptions C17_roundtrip_dict.

(* dataframe_to_dag (dag_to_dataframe g x md) succeeds; same node names, same edge set, and every
   node carries exactly the exported attributes that are not None (a frame cannot hold None) *)
Theorem C17_roundtrip_df : forall g r x md,
  Wf g -> Ranked g r -> DistinctNames g -> WeaklyConnected g -> x < dsize g -> (exists p c, Edge g p c) ->
  (forall y, y < dsize g -> NoDup (map fst (export_attrs md (nattrs g y)))) ->
  exists b ret, dataframe_to_dag (dag_to_dataframe g x md) = Ret (b, Some ret)
    /\ SameNames g (b_names b)
    /\ NoDup (b_edges b)
    /\ (forall pn cn, HasEdge b pn cn <-> exists p c, Edge g p c /\ pn = name g p /\ cn = name g c)
    /\ length (b_attrs b) = bsize b
    /\ (forall i y, i < bsize b -> y < dsize g -> bname b i = name g y ->
          nth i (b_attrs b) [] = non_null (export_attrs md (nattrs g y))).
Proof. exact roundtrip_df. Qed.
Print Assumptions C17_roundtrip_df.

(* the three constructors refuse every input whose relations, read as a graph on names, contain a
   cycle (HasCycle: some name reaches itself through listed (parent, child) pairs) *)
Theorem C17_cycle_refused :
  (forall rel, HasCycle rel -> forall r, list_to_dag rel <> Ret r)
  /\ (forall d, HasCycle (dict_relations d) -> forall r, dict_to_dag d <> Ret r)
  /\ (forall rows, HasCycle (df_relations rows) -> forall r, dataframe_to_dag rows <> Ret r).
Proof. split; [exact list_cycle_refused|split; [exact dict_cycle_refused|exact df_cycle_refused]]. Qed.
Print Assumptions C17_cycle_refused.

(* the boolean cycle test used on the implementation's output is sound for HasCycle *)
Theorem C17_cycle_refused_bool : forall rel,
  has_cycle rel = true -> exists e, list_to_dag rel = Raise e.
Proof.
  intros rel H. apply has_cycle_sound in H.
  destruct (list_to_dag rel) as [r|e] eqn:E; [|exists e; reflexivity].
  exfalso. exact (list_cycle_refused rel H r E).
Qed.
Print Assumptions C17_cycle_refused_bool.

(* non-vacuity: the example DAG of Props/C16.v (a->b, a->c, b->d, c->d, a->d) meets the hypotheses;
   a three-cycle is refused, the export of the example is rebuilt *)
Definition ex_dag : dag :=
  [ DN [97]%N [] [] [1; 2; 3];  DN [98]%N [] [0] [3];  DN [99]%N [] [0] [3];  DN [100]%N [] [1; 2; 0] [] ].
Example ex_export :
  dag_to_list ex_dag 3 = [([98], [100]); ([99], [100]); ([97], [100]); ([97], [98]); ([97], [99])]%N
  /\ (exists b, list_to_dag (dag_to_list ex_dag 3) = Ret (b, Some 3)
                /\ b_names b = [[98]; [100]; [99]; [97]]%N
                /\ b_edges b = [(0, 1); (2, 1); (3, 1); (3, 0); (3, 2)]).
Proof. vm_compute. split; [reflexivity|]. eexists. repeat split. Qed.
Example ex_cycle : HasCycle [([97], [98]); ([98], [99]); ([99], [97])]%N
                   /\ list_to_dag [([97], [98]); ([98], [99]); ([99], [97])]%N = Raise LoopError.
Proof.
  split; [|vm_compute; reflexivity].
  exists [97]%N. eapply NRS; [left; reflexivity|]. eapply NRS; [right; left; reflexivity|].
  apply NR1. right. right. left. reflexivity.
Qed.

(* the attribute guards of the dict / DataFrame round trips are satisfiable, and the conclusions are
   not trivial: the example DAG with an attribute `step` exported under the key `s` *)
Definition ex_dag_attrs : dag :=
  [ DN [97]%N [([115; 116; 101; 112]%N, VInt 1)] [] [1; 2; 3];  DN [98]%N [([115; 116; 101; 112]%N, VInt 2)] [0] [3];
    DN [99]%N [] [0] [3];  DN [100]%N [([115; 116; 101; 112]%N, VInt 3)] [1; 2; 0] [] ].
Definition ex_mode : amode := AttrDict [([115; 116; 101; 112]%N, [115]%N)].
Example ex_guards : forall y, y < dsize ex_dag_attrs ->
  NoDup (map fst (export_attrs ex_mode (nattrs ex_dag_attrs y)))
  /\ existsb (fun kv => reserved (fst kv)) (export_attrs ex_mode (nattrs ex_dag_attrs y)) = false.
Proof.
  intros y Hy. cbn in Hy.
  destruct y as [|[|[|[|y]]]]; [| | | |lia]; (split; [cbn; constructor; [intros []|constructor]|reflexivity]).
Qed.
Example ex_roundtrips :
  (exists d b, dag_to_dict ex_dag_attrs 3 ex_mode = Ret d /\ dict_to_dag d = Ret (b, Some 3)
     /\ b_names b = [[100]; [98]; [99]; [97]]%N
     /\ b_attrs b = [[([115]%N, VInt 3)]; [([115]%N, VInt 2)]; [([115]%N, VNone)]; [([115]%N, VInt 1)]])
  /\ (exists b, dataframe_to_dag (dag_to_dataframe ex_dag_attrs 3 ex_mode) = Ret (b, Some 3)
     /\ b_attrs b = [[([115]%N, VInt 3)]; [([115]%N, VInt 2)]; []; [([115]%N, VInt 1)]]
     /\ b_edges b = [(1, 0); (2, 0); (3, 0); (3, 1); (3, 2)]).
Proof. vm_compute. split; [eexists; eexists; repeat split|eexists; repeat split]. Qed.
