(* C07, second round - further refinement theorems for the effect skeletons (proofs: Heap/C07More2.v).

   Closes / narrows the clause "NOT refined: clone_tree (recursive allocation), prune_tree by prune paths
   (position/id correspondence of filter_tree), ..., the other exporters" of the C07 partial clauses and gives
   the rose-level form of C07_independence ("later changes to either side are not visible on the other"):

   - C07_rose_independence(_history): a later history inside one link-closed region leaves the rose tree
     (esubtree: names, public attributes, shape, order, identity tags) below every node of a disjoint
     link-closed region unchanged;
   - C07_result_mutation_invisible / C07_input_mutation_invisible with C07_skeletons_return_results: for copy,
     the exporters, get_subtree, prune_tree, clone_tree and get_tree_diff, mutating the result does not show in
     the rose trees of the input and vice versa; C07_copy_two_sided;
   - C07_prune_paths_refines: prune_tree WITH prune paths (any target set, exact or not, any depth limit, any
     start node) returns the tag-level pruning `ptags` of the start node's tree with fresh tags;
     C07_prune_paths_agrees / C07_prune_tree_agrees: that is Algo/Helper.v's filter_tree on positions
     (prune_paths_at / prune_tree_at, the model of C14) whenever the positions address the target nodes;
     the position/id correspondence itself: C07_subtree_at_is_node_at, C07_node_at_ancestors, C07_node_at_inj;
   - C07_clone_refines: clone_tree's recursively allocated clone abstracts to the input's rose tree;
   - C07_export_all_refines: tree_to_dataframe / tree_to_polars / tree_to_nested_dict besides tree_to_dict;
   - C07_copy_nodes_is_graft: copy_nodes (plain case) is AbsSurgery.graft of a fresh copy, nothing is cut;
   - C07_dag_copy_refines / C07_dag_graph_independence: the DAG statements on the pure graph `dabs s`. *)
From BT Require Import Base.Prelude Base.Str Heap.Forest Heap.Effects Heap.EffectsProofs Heap.C07More2.
From BT Require Base.Rose Heap.ForestWF Heap.ForestStep Heap.Abs Heap.AbsSurgery Heap.Dag Heap.DagAbs
     Algo.Helper Algo.HelperProofs Algo.Export Algo.DagAlgo.

(* ------------------------------------------------------------------------------------------ *)
(* rose-level independence *)

Theorem C07_rose_independence : forall dec (A B : region) cfg o h x,
  (forall y, A y = true -> B y = false) -> closed A (fr h) -> closed B (fr h) ->
  op_in A o = true -> B x = true ->
  esubtree dec (with_fr h (fst (step cfg (fr h) o))) x = esubtree dec h x.
Proof. exact rose_independence_step. Qed.
Print Assumptions C07_rose_independence.

Theorem C07_rose_independence_history : forall dec (A B : region) cfg ops h x,
  (forall y, A y = true -> B y = false) -> closed A (fr h) -> closed B (fr h) ->
  forallb (op_in A) ops = true -> B x = true ->
  esubtree dec (with_fr h (run cfg (fr h) ops)) x = esubtree dec h x.
Proof. exact rose_independence_run. Qed.
Print Assumptions C07_rose_independence_history.

(* result_of h0 h': the heap grew, the parent / children / name / attributes of every old node are as
   before, the new part is link-closed.  Any later history whose operands are new nodes leaves the rose tree
   below every old node as it was before the call ... *)
Theorem C07_result_mutation_invisible : forall dec cfg h0 h' ops x,
  ForestWF.WF (fr h0) -> result_of h0 h' ->
  forallb (op_in (ge (size (fr h0)))) ops = true -> x < size (fr h0) ->
  esubtree dec (with_fr h' (run cfg (fr h') ops)) x = esubtree dec h0 x.
Proof. exact result_mutation_invisible. Qed.
Print Assumptions C07_result_mutation_invisible.

(* ... and any later history whose operands are old nodes leaves the rose tree below every new node as the
   call returned it *)
Theorem C07_input_mutation_invisible : forall dec cfg h0 h' ops y,
  ForestWF.WF (fr h0) -> result_of h0 h' ->
  forallb (op_in (lt_r (size (fr h0)))) ops = true -> size (fr h0) <= y ->
  esubtree dec (with_fr h' (run cfg (fr h') ops)) y = esubtree dec h' y.
Proof. exact input_mutation_invisible. Qed.
Print Assumptions C07_input_mutation_invisible.

(* every copying skeleton returns such a heap *)
Theorem C07_skeletons_return_results : forall cfg h start,
  result_of h (fst (sk_copy h start))
  /\ result_of h (sk_export h start)
  /\ (forall found md, result_of h (fst (sk_get_subtree cfg h start found md)))
  /\ (forall targets exact md, result_of h (fst (sk_prune cfg h start targets exact md)))
  /\ (clean (fr h) -> result_of h (fst (sk_clone cfg h start)))
  /\ (clean (fr h) -> forall t2 shape, result_of h (fst (sk_diff cfg h start t2 shape))).
Proof.
  intros cfg h start. split; [apply copy_result_of|]. split; [apply export_result_of|].
  split; [intros; apply get_subtree_result_of|]. split; [intros; apply prune_result_of|].
  split; [apply clone_result_of | intros; now apply diff_result_of].
Qed.
Print Assumptions C07_skeletons_return_results.

(* node.copy(): both directions, with the refinement of C07_copy_refines - the copy keeps abstracting to the
   original's tree as it was at the call, whatever is done to the original afterwards *)
Theorem C07_copy_two_sided : forall dec cfg h r x,
  ForestWF.WF (fr h) -> In x (comp (fr h) r) ->
  let h1 := deep_copy h r in
  (forall ops, forallb (op_in (ge (size (fr h)))) ops = true ->
     esubtree dec (with_fr h1 (run cfg (fr h1) ops)) x = esubtree dec h x)
  /\ (forall ops, forallb (op_in (lt_r (size (fr h)))) ops = true ->
        esubtree dec (with_fr h1 (run cfg (fr h1) ops)) (phi (fr h) r x)
        = relabel (phi (fr h) r) (esubtree dec h x)).
Proof. exact copy_two_sided. Qed.
Print Assumptions C07_copy_two_sided.

(* ------------------------------------------------------------------------------------------ *)
(* prune_tree with prune paths *)

(* the heap state after the detaches of prune_tree: a node of the walk set (the targets' ancestors, plus the
   targets when exact) keeps the children that are in the walk set or targets; every other node keeps all *)
Theorem C07_prune_detaches : forall cfg s ts exact, ForestWF.WF s ->
  let W := walk_ids s ts exact in
  let s' := run cfg s (prune_ops s ts exact) in
  ForestWF.WF s' /\ size s' = size s
  /\ (forall y, kids s' y = filter (keepk W ts y) (kids s y))
  /\ (forall y, name s' y = name s y).
Proof. exact prune_run_spec. Qed.
Print Assumptions C07_prune_detaches.

(* ptags W ts: at every node tagged y, keep the children tagged k with  y not in W, or k in W, or k in ts *)
Theorem C07_prune_paths_refines : forall dec cfg h start targets exact md,
  ForestWF.WF (fr h) -> start < size (fr h) -> (forall t, In t targets -> In t (comp (fr h) start)) ->
  let '(h', r') := sk_prune cfg h start targets exact md in
  esubtree dec h' r'
  = relabel (phi (fr h) start)
      (Helper.depth_cut md (ptags (walk_ids (fr h) targets exact) targets (esubtree dec h start))).
Proof. exact prune_paths_refines. Qed.
Print Assumptions C07_prune_paths_refines.

(* without paths: the whole (depth-cut) tree, fresh tags included, also for max_depth = 0 *)
Theorem C07_prune_depth_refines_tags : forall dec cfg h start exact md,
  ForestWF.WF (fr h) -> start < size (fr h) ->
  let '(h', r') := sk_prune cfg h start [] exact md in
  esubtree dec h' r' = relabel (phi (fr h) start) (Helper.depth_cut md (esubtree dec h start)).
Proof. exact prune_depth_refines_tags. Qed.
Print Assumptions C07_prune_depth_refines_tags.

(* the position / id correspondence: node_at s x q is the node reached from x by the child-index route q *)
Theorem C07_subtree_at_is_node_at : forall dec h, ForestWF.WF (fr h) -> forall q x,
  Rose.subtree_at (esubtree dec h x) q = option_map (esubtree dec h) (node_at (fr h) x q).
Proof. exact subtree_at_esubtree. Qed.
Print Assumptions C07_subtree_at_is_node_at.

Theorem C07_node_at_ancestors : forall s rt, ForestWF.WF s -> par s rt = None -> forall q y,
  node_at s rt q = Some y ->
  forall z, In z (ancestors s y) <-> exists q', HelperProofs.prefix q' q /\ q' <> q /\ node_at s rt q' = Some z.
Proof. exact node_at_ancestors. Qed.
Print Assumptions C07_node_at_ancestors.

Theorem C07_node_at_inj : forall s rt, ForestWF.WF s -> par s rt = None -> forall q1 q2 y,
  node_at s rt q1 = Some y -> node_at s rt q2 = Some y -> q1 = q2.
Proof. exact node_at_inj. Qed.
Print Assumptions C07_node_at_inj.

(* the detach rule of Algo/Helper.v (on positions) is the rule of the heap skeleton (on node ids) *)
Theorem C07_detach_rule_positions_ids : forall s rt tp ts, ForestWF.WF s -> par s rt = None -> addr s rt tp ts ->
  forall exact pfx i x k, node_at s rt pfx = Some x -> node_at s rt (pfx ++ [i]) = Some k ->
    negb (Helper.detached tp exact (pfx ++ [i])) = keepk (walk_ids s ts exact) ts x k.
Proof. exact alive_child. Qed.
Print Assumptions C07_detach_rule_positions_ids.

(* the two models side by side *)
Theorem C07_prune_paths_agrees : forall dec cfg h start targets exact md rt st tp,
  ForestWF.WF (fr h) -> rt < size (fr h) -> par (fr h) rt = None ->
  node_at (fr h) rt st = Some start -> addr (fr h) rt tp targets ->
  let '(h', r') := sk_prune cfg h start targets exact md in
  Helper.copy_tree (esubtree dec h' r')
  = Helper.depth_cut md (Helper.prune_paths_at false tp exact st (Helper.copy_tree (esubtree dec h start))).
Proof. exact prune_paths_agrees. Qed.
Print Assumptions C07_prune_paths_agrees.

Theorem C07_prune_tree_agrees : forall dec cfg h start targets exact md rt st tp tsep sep pp res,
  ForestWF.WF (fr h) -> rt < size (fr h) -> par (fr h) rt = None ->
  node_at (fr h) rt st = Some start -> addr (fr h) rt tp targets ->
  Helper.norm_paths pp <> [] ->
  Helper.locate_at false tsep sep (Helper.copy_tree (esubtree dec h rt)) st (Helper.norm_paths pp) = Ret tp ->
  Helper.prune_tree_at false tsep (esubtree dec h rt) st pp exact sep md = Ret res ->
  Helper.copy_tree (esubtree dec (fst (sk_prune cfg h start targets exact md))
                             (snd (sk_prune cfg h start targets exact md))) = res.
Proof. exact prune_tree_agrees. Qed.
Print Assumptions C07_prune_tree_agrees.

(* ------------------------------------------------------------------------------------------ *)
(* clone_tree *)

(* guard: in a Node tree no two siblings have the same name (what node.py's duplicate-name hook keeps);
   no guard for BaseNode (is_node cfg = false) *)
Theorem C07_clone_refines : forall dec cfg h start,
  ForestWF.WF (fr h) -> start < size (fr h) ->
  (is_node cfg = true -> forall p, NoDup (map (name (fr h)) (kids (fr h) p))) ->
  let '(h', r') := sk_clone cfg h start in
  Helper.copy_tree (esubtree dec h' r') = Helper.copy_tree (esubtree dec h (root (fr h) start)).
Proof. exact clone_refines. Qed.
Print Assumptions C07_clone_refines.

(* ------------------------------------------------------------------------------------------ *)
(* the exporters that start with tree.copy() *)

Theorem C07_export_all_refines : forall dec h start x,
  ForestWF.WF (fr h) -> In x (comp (fr h) start) ->
  let h' := sk_export h start in
  let c := esubtree dec h' (phi (fr h) start x) in
  let t := esubtree dec h x in
  unchanged_below (size (fr h)) h h'
  /\ (forall sep p o, Export.tree_to_dict c sep p o = Export.tree_to_dict t sep p o)
  /\ (forall sep p o, Export.tree_to_dataframe c sep p o = Export.tree_to_dataframe t sep p o)
  /\ (forall sep p o, Export.tree_to_polars c sep p o = Export.tree_to_polars t sep p o)
  /\ (forall p o, Export.tree_to_nested_dict c p o = Export.tree_to_nested_dict t p o).
Proof. exact export_all_refines. Qed.
Print Assumptions C07_export_all_refines.

(* ------------------------------------------------------------------------------------------ *)
(* copy_nodes (plain case) as rose-tree surgery (AbsSurgery.graft: append as the last child of the node tagged
   to_): either the parent assignment is refused (duplicate name under to_) and every old tree is as before, or
   the tree below EVERY old node is the old one with a fresh copy of the from-subtree grafted below to_ - nothing
   is cut out of the source (shift_nodes is cut + graft, C08_move_is_tag_surgery) *)
Theorem C07_copy_nodes_is_graft : forall cfg h from_ to_,
  ForestWF.WF (fr h) -> from_ < size (fr h) -> to_ < size (fr h) ->
  let s := fr h in
  let g := phi s from_ in
  let h' := fst (sk_copy_attach cfg h from_ to_) in
  let c := snd (sk_copy_attach cfg h from_ to_) in
  c = g from_
  /\ ((forall r, r < size s -> Abs.subtree (fr h') r = Abs.subtree s r)
      \/ ((forall r, r < size s ->
             Abs.subtree (fr h') r = AbsSurgery.graft to_ (relabel g (Abs.subtree s from_)) (Abs.subtree s r))
          /\ Abs.subtree (fr h') c = relabel g (Abs.subtree s from_))).
Proof. exact copy_attach_is_graft. Qed.
Print Assumptions C07_copy_nodes_is_graft.

(* ------------------------------------------------------------------------------------------ *)
(* DAGNode, on the pure graph of C16 / C17 *)

Theorem C07_dag_copy_refines : forall s r,
  let s' := ddeep_copy s r in
  (forall x, In x (dcomp s r) ->
     DagAlgo.node (DagAbs.dabs s') (dphi s r x)
     = DagAlgo.DN (Dag.dname s x) [] (map (dphi s r) (Dag.parents s x)) (map (dphi s r) (Dag.children s x)))
  /\ (forall x, x < Dag.dsize s -> DagAlgo.node (DagAbs.dabs s') x = DagAlgo.node (DagAbs.dabs s) x).
Proof. exact dag_copy_refines. Qed.
Print Assumptions C07_dag_copy_refines.

Theorem C07_dag_graph_independence : forall (A B : region) cfg s o x,
  (forall y, A y = true -> B y = false) -> dclosed A s -> dop_in A o = true ->
  B x = true -> x < Dag.dsize s ->
  DagAlgo.node (DagAbs.dabs (fst (Dag.dstep cfg s o))) x = DagAlgo.node (DagAbs.dabs s) x.
Proof. exact dag_graph_independence. Qed.
Print Assumptions C07_dag_graph_independence.

(* ------------------------------------------------------------------------------------------ *)
(* non-vacuity.  Node tree r(0) -> a(1), x(2); a -> b(3)[attribute 0 = 5], c(4); b -> e(5), separator "/",
   built through the structural API (hence well-formed) *)
Definition ex2_cfg : config := {| assertions := true; is_node := true |}.
Definition ex2_nm (x : id) : str :=
  match x with 0 => [114%N] | 1 => [97%N] | 2 => [120%N] | 3 => [98%N] | 4 => [99%N] | _ => [101%N] end.
Definition ex2_s : forest :=
  run ex2_cfg (init 6 ex2_nm (fun _ => [47%N]))
      [SetParent 1 (ANode 0) NoFault; SetParent 2 (ANode 0) NoFault; SetParent 3 (ANode 1) NoFault;
       SetParent 4 (ANode 1) NoFault; SetParent 5 (ANode 3) NoFault].
Definition ex2_h : eheap := EH ex2_s (fun x => match x with 3 => [(0, 5, 1)] | _ => [] end) (fun x => 10 + x) 20.
Definition ex2_dec (l : list (nat * nat)) : Rose.attrs :=
  map (fun kc => ([N.of_nat (fst kc)], Rose.VInt (Z.of_nat (snd kc)))) l.

Example ex2_WF : ForestWF.WF (fr ex2_h).
Proof. apply ForestStep.run_WF. apply ForestWF.WF_init. Qed.

(* prune_tree(a, "a/b", exact=True) called on the inner node a: the hypotheses of C07_prune_tree_agrees hold
   (Algo/Helper.v's own search resolves the path string to position [0;0], which addresses node 3), the
   operation is not a no-op (c and e are cut loose), and both models return a -> b *)
Example C07_prune_paths_nonvacuous :
  let T := esubtree ex2_dec ex2_h 0 in
  let pp := Helper.PList [[97%N; 47%N; 98%N]] in
  let res := Rose.T None [97%N] [] [Rose.T None [98%N] [([0%N], Rose.VInt 5)] []] in
  0 < size (fr ex2_h) /\ par (fr ex2_h) 0 = None
  /\ node_at (fr ex2_h) 0 [0] = Some 1 /\ addr (fr ex2_h) 0 [[0; 0]] [3]
  /\ Helper.norm_paths pp <> []
  /\ Helper.locate_at false [47%N] [47%N] (Helper.copy_tree T) [0] (Helper.norm_paths pp) = Ret [[0; 0]]
  /\ Helper.prune_tree_at false [47%N] T [0] pp true [47%N] 0 = Ret res
  /\ Helper.copy_tree (esubtree ex2_dec (fst (sk_prune ex2_cfg ex2_h 1 [3] true 0))
                                (snd (sk_prune ex2_cfg ex2_h 1 [3] true 0))) = res
  /\ Helper.copy_tree (esubtree ex2_dec ex2_h 1)
     = Rose.T None [97%N] [] [Rose.T None [98%N] [([0%N], Rose.VInt 5)] [Rose.T None [101%N] [] []];
                             Rose.T None [99%N] [] []]
  /\ walk_ids (fr ex2_h) [3] true = [1; 0; 3].
Proof.
  cbn zeta. split; [vm_compute; lia|]. split; [vm_compute; reflexivity|]. split; [vm_compute; reflexivity|].
  split; [constructor; [vm_compute; reflexivity | constructor]|]. split; [discriminate|].
  repeat split; vm_compute; reflexivity.
Qed.

(* two prune paths from the root with a depth limit: r/a/b and x, max_depth 3 (e is cut by the depth limit, c by
   the paths), with the fresh tags of the copy *)
Example C07_prune_paths_refines_example :
  let '(h', r') := sk_prune ex2_cfg ex2_h 0 [3; 2] false 3 in
  esubtree ex2_dec h' r'
  = Rose.T (Some 6) [114%N] []
      [Rose.T (Some 7) [97%N] [] [Rose.T (Some 9) [98%N] [([0%N], Rose.VInt 5)] []]; Rose.T (Some 8) [120%N] [] []]
  /\ Helper.prune_tree_at false [47%N] (esubtree ex2_dec ex2_h 0) []
       (Helper.PList [[114%N; 47%N; 97%N; 47%N; 98%N]; [120%N]]) false [47%N] 3
     = Ret (Helper.copy_tree (esubtree ex2_dec h' r')).
Proof. vm_compute. split; reflexivity. Qed.

(* clone_tree from the inner node b: the clone of the WHOLE tree, the attribute of b included *)
Example C07_clone_refines_example :
  (forall p, NoDup (map (name (fr ex2_h)) (kids (fr ex2_h) p)))
  /\ let '(h', r') := sk_clone ex2_cfg ex2_h 3 in
     r' = 6 /\ root (fr ex2_h) 3 = 0
     /\ Helper.copy_tree (esubtree ex2_dec h' r')
        = Rose.T None [114%N] []
            [Rose.T None [97%N] [] [Rose.T None [98%N] [([0%N], Rose.VInt 5)] [Rose.T None [101%N] [] []];
                                    Rose.T None [99%N] [] []];
             Rose.T None [120%N] [] []].
Proof.
  split.
  - intros p. do 6 (destruct p as [|p]; [vm_compute; repeat (constructor; [cbn; intuition discriminate|]); constructor|]).
    vm_compute. constructor.
  - vm_compute. repeat split; reflexivity.
Qed.

(* the guard of C07_clone_refines is needed in the model: two siblings named "a" under a Node configuration -
   the duplicate-name hook refuses the second clone *)
Definition ex2_dup : eheap :=
  EH (mk 3 (fun x => match x with 0 => None | _ => Some 0 end) (fun x => match x with 0 => [1; 2] | _ => [] end)
         (fun x => match x with 0 => [114%N] | _ => [97%N] end) (fun _ => [47%N]))
     (fun _ => []) (fun x => 10 + x) 20.
Example C07_clone_needs_unique_sibling_names_refuted :
  Helper.copy_tree (esubtree ex2_dec (fst (sk_clone ex2_cfg ex2_dup 0)) (snd (sk_clone ex2_cfg ex2_dup 0)))
  = Rose.T None [114%N] [] [Rose.T None [97%N] [] []]
  /\ Helper.copy_tree (esubtree ex2_dec ex2_dup 0)
     = Rose.T None [114%N] [] [Rose.T None [97%N] [] []; Rose.T None [97%N] [] []].
Proof. vm_compute. split; reflexivity. Qed.

(* both sides of a copy: detaching the copy of b (id 9) changes the copy's tree and not the original's;
   `del a.children` on the original changes the original's tree and not the copy's *)
Example C07_copy_two_sided_example :
  let h1 := deep_copy ex2_h 0 in
  let onres := [SetParent 9 ANone NoFault] in
  let onin := [DelChildren 1] in
  forallb (op_in (ge 6)) onres = true /\ forallb (op_in (lt_r 6)) onin = true
  /\ esubtree ex2_dec (with_fr h1 (run ex2_cfg (fr h1) onres)) 0 = esubtree ex2_dec ex2_h 0
  /\ esubtree ex2_dec (with_fr h1 (run ex2_cfg (fr h1) onres)) 7 = Rose.T (Some 7) [97%N] [] [Rose.T (Some 10) [99%N] [] []]
  /\ esubtree ex2_dec (with_fr h1 (run ex2_cfg (fr h1) onin)) 1 = Rose.T (Some 1) [97%N] [] []
  /\ esubtree ex2_dec (with_fr h1 (run ex2_cfg (fr h1) onin)) 7
     = Rose.T (Some 7) [97%N] []
         [Rose.T (Some 9) [98%N] [([0%N], Rose.VInt 5)] [Rose.T (Some 11) [101%N] [] []]; Rose.T (Some 10) [99%N] [] []].
Proof. vm_compute. repeat split; reflexivity. Qed.

(* copy_nodes b -> below x: the tree below r gains a fresh copy of b(e) as the last child of x, a keeps b *)
Example C07_copy_nodes_is_graft_example :
  let h' := fst (sk_copy_attach ex2_cfg ex2_h 3 2) in
  Abs.subtree (fr h') 0
  = Rose.T (Some 0) [114%N] []
      [Rose.T (Some 1) [97%N] [] [Rose.T (Some 3) [98%N] [] [Rose.T (Some 5) [101%N] [] []]; Rose.T (Some 4) [99%N] [] []];
       Rose.T (Some 2) [120%N] [] [Rose.T (Some 9) [98%N] [] [Rose.T (Some 11) [101%N] [] []]]]
  /\ Abs.subtree (fr h') 0
     = AbsSurgery.graft 2 (relabel (phi (fr ex2_h) 3) (Abs.subtree (fr ex2_h) 3)) (Abs.subtree (fr ex2_h) 0).
Proof. vm_compute. split; reflexivity. Qed.
