(* C06, textual half (Newick, printed tree): property theorems only; proofs in Algo/TextIOProofs.v. *)
From BT Require Import Base.Prelude Base.Str Base.Rose Algo.TextIO Spec.PC06Text Algo.TextIOProofs.
