(* C06, textual half (Newick, printed tree): property theorems only; proofs in Algo/TextIOProofs.v.

   Models: Algo/TextIO.v (tree_to_newick, newick_to_tree, yield_tree/print_tree, str_to_tree with
   tree_prefix_list = []).  Predicates and alphabets: Spec/PC06Text.v.  *)
From BT Require Import Base.Prelude Base.Str Base.Rose Algo.TextIO Spec.PC06Text Algo.TextIOProofs.

Local Open Scope N_scope.

(* ------------------------------------------------------------------------------------------ *)
(* Newick                                                                                      *)

(* Round trip, export without length / attributes and with intermediate node names, for ANY length_sep /
   attr_sep / attribute prefix (they are not used then), exported from the root or from an inner node.
   Guard = newick_alphabet: every name non-empty and without the quote character, sibling names distinct.
   (The general theorem, with lengths, attributes and suppressed names, is C06_newick_roundtrip below.) *)
Theorem C06_newick_roundtrip_anysep :
  forall lsep pf asep dflt isroot t,
    newick_alphabet (NwOpt true [] [] pf dflt) isroot t = true ->
    exists s back,
      nw_write (NwCfg true [] lsep [] pf asep) isroot t = Ret s
      /\ nw_parse (la_of (NwOpt true [] [] pf dflt)) pf s = Ret back
      /\ prop_newick_back (NwOpt true [] [] pf dflt) isroot t back = true.
Proof.
  intros lsep pf asep dflt isroot t H.
  pose proof (alphabet_tree_ok pf dflt isroot t H) as Hok.
  exists (nw_plain t), (erase t). split; [apply (nw_write_plain lsep pf asep)|]. split.
  - apply nw_parse_plain. exact Hok.
  - unfold prop_newick_back. cbn [o_inter]. fold (opt_plain pf dflt).
    rewrite nw_view_plain. apply tree_eqb_refl.
Qed.
Print Assumptions C06_newick_roundtrip_anysep.

(* The equality is literal: the rebuilt tree is the input with tags and attributes erased. *)
Theorem C06_newick_roundtrip_exact :
  forall la lsep pf asep dflt isroot t,
    newick_alphabet (NwOpt true [] [] pf dflt) isroot t = true ->
    exists s, nw_write (NwCfg true [] lsep [] pf asep) isroot t = Ret s /\ nw_parse la pf s = Ret (erase t).
Proof.
  intros la lsep pf asep dflt isroot t H.
  exists (nw_plain t). split; [apply (nw_write_plain lsep pf asep)|].
  apply nw_parse_plain. exact (alphabet_tree_ok pf dflt isroot t H).
Qed.
Print Assumptions C06_newick_roundtrip_exact.

(* Every node exactly once, nested as the tree is, exact (quoted) name: the exported text, read by the
   reference grammar of the spec, denotes the tree (same fragment and guard as above). *)
Theorem C06_newick_nodes_once_anysep :
  forall lsep pf asep dflt isroot t,
    newick_alphabet (NwOpt true [] [] pf dflt) isroot t = true ->
    exists s,
      nw_write (NwCfg true [] lsep [] pf asep) isroot t = Ret s
      /\ prop_newick_export (NwOpt true [] [] pf dflt) isroot t s = true.
Proof.
  intros lsep pf asep dflt isroot t H.
  pose proof (alphabet_tree_ok pf dflt isroot t H) as Hok.
  exists (nw_plain t). split; [apply (nw_write_plain lsep pf asep)|].
  unfold prop_newick_export. rewrite (newick_read_plain _ pf t Hok).
  fold (opt_plain pf dflt). rewrite nw_view_plain. apply tree_eqb_refl.
Qed.
Print Assumptions C06_newick_nodes_once_anysep.

(* ROUND TRIP, all export options the importer can read back: any length attribute, any list of requested
   attributes, any prefix, exported from the root or from an inner node, intermediate node names written
   or suppressed, the default ':' separators (the only ones newick_to_tree knows).
   Guard = newick_alphabet (Spec/PC06Text.v): names / keys / string values without the quote character;
   keys distinct, not `name`, not starting with `_`, different from the length attribute; requested
   attributes absent, None or a non-empty string; lengths positive integers on every node but the real
   root; sibling names distinct; no name of the form nodeN when intermediate names are suppressed.
   Conclusion: the export succeeds, the import of that text succeeds, and the rebuilt tree equals the
   original in names, shape, sibling order and exported attributes (prop_newick_back: tree_eqb after
   sorting attributes by key; invented names of internal nodes are not compared when they were
   suppressed). *)
Theorem C06_newick_roundtrip :
  forall inter len keys pf isroot t,
    newick_alphabet (NwOpt inter len keys pf true) isroot t = true ->
    exists s back,
      nw_write (NwCfg inter len [58] keys pf [58]) isroot t = Ret s
      /\ nw_parse (la_of (NwOpt inter len keys pf true)) pf s = Ret back
      /\ prop_newick_back (NwOpt inter len keys pf true) isroot t back = true.
Proof. exact newick_roundtrip_gen. Qed.
Print Assumptions C06_newick_roundtrip.

(* EXPORT CLAUSE, same options and guard: the text, read by the reference grammar of the spec (recursive
   descent, Spec/PC06Text.v), denotes the tree: every node exactly once, nested as the tree is, exact
   name (blank where suppressed), the length and exactly the requested attributes the node has. *)
Theorem C06_newick_nodes_once :
  forall inter len keys pf isroot t,
    newick_alphabet (NwOpt inter len keys pf true) isroot t = true ->
    exists s,
      nw_write (NwCfg inter len [58] keys pf [58]) isroot t = Ret s
      /\ prop_newick_export (NwOpt inter len keys pf true) isroot t s = true.
Proof. exact newick_export_gen. Qed.
Print Assumptions C06_newick_nodes_once.

(* ROUND TRIP WITH FLOAT LENGTHS.  Lengths are exact decimals: a float is the fraction (digits of its repr
   without the dot) / 10^k, resp. mantissa x 10^exponent for the exponent form (this is how the harness
   encodes every float it sees, input and rebuilt).  The model writes them as Python's repr does
   (positional for decimal exponent -4 <= e < 16, else d[.ddd]e+XX / d[.ddd]e-XX) and reads literals
   [-]digits[.digits][(e|E)[+|-]digits] with <= 15 significant digits and |exponent| <= 290 exactly.
   Guard: newick_alphabet_ext (as newick_alphabet, lengths may be any non-zero float) and
   lengths_canonical: every exported length v satisfies lit_okb v, i.e. str(v) is a token without
   special characters and int()/float() of that token is v again (same type, same fraction n / 10^k).
   IN: positive integers; floats of either sign in every repr form -- 0.5, 2.0, 100.0, 0.0001,
   1234567.5, 1e-05, 2.5e-07, 1e+16, -3e+20 (dot or no dot, exponent sign + or -), see the Example.
   OUT (lit_okb false): length 0 / 0.0 (falsy: the exporter raises), negative integers (-5 is read back as
   the float -5.0: C06_newick_negative_int_length_refuted), non-numeric lengths, floats with more than 15
   significant digits or |exponent| > 290, fractions that are not the repr's own digits (e.g. 50/100). *)
Theorem C06_newick_roundtrip_float :
  forall inter len keys pf isroot t,
    newick_alphabet_ext (NwOpt inter len keys pf true) isroot t = true ->
    lengths_canonical len isroot t = true ->
    exists s back,
      nw_write (NwCfg inter len [58] keys pf [58]) isroot t = Ret s
      /\ nw_parse (la_of (NwOpt inter len keys pf true)) pf s = Ret back
      /\ prop_newick_back (NwOpt inter len keys pf true) isroot t back = true.
Proof. exact newick_roundtrip_ext. Qed.
Print Assumptions C06_newick_roundtrip_float.

(* non-vacuity: one tree with a length in every form; the text the model writes is
   ((c:-2.5e-07)a:1e-05,b:1e+16,d:0.0001,e:7,f:2.0,g:-3e+20,h:1234567.5)r *)
Definition ex_float_tree : tree :=
  T None [114] []
    [ T None [97] [([76], VFloat 1 100000)] [ T None [99] [([76], VFloat (-25) 100000000)] [] ];
      T None [98] [([76], VFloat 10000000000000000 1)] [];
      T None [100] [([76], VFloat 1 10000)] [];
      T None [101] [([76], VInt 7)] [];
      T None [102] [([76], VFloat 20 10)] [];
      T None [103] [([76], VFloat (-300000000000000000000) 1)] [];
      T None [104] [([76], VFloat 12345675 10)] [] ].
Example C06_newick_float_guard_satisfiable :
  newick_alphabet_ext (NwOpt true [76] [] [] true) true ex_float_tree = true
  /\ lengths_canonical [76] true ex_float_tree = true
  /\ nw_write (NwCfg true [76] [58] [] [] [58]) true ex_float_tree
     = Ret [40; 40; 99; 58; 45; 50; 46; 53; 101; 45; 48; 55; 41; 97; 58; 49; 101; 45; 48; 53; 44;
            98; 58; 49; 101; 43; 49; 54; 44; 100; 58; 48; 46; 48; 48; 48; 49; 44; 101; 58; 55; 44;
            102; 58; 50; 46; 48; 44; 103; 58; 45; 51; 101; 43; 50; 48; 44;
            104; 58; 49; 50; 51; 52; 53; 54; 55; 46; 53; 41; 114].
Proof. repeat split; vm_compute; reflexivity. Qed.

(* which length values are literals that read back as themselves *)
Example C06_newick_length_literals :
  map lit_okb [VInt 7; VFloat 5 10; VFloat 20 10; VFloat 1 100000; VFloat (-25) 100000000;
               VFloat 10000000000000000 1; VFloat (-15) 10;
               VInt 0; VFloat 0 10; VInt (-5); VStr [120]; VFloat 50 100; VFloat 1 3]
  = [true; true; true; true; true; true; true; false; false; false; false; false; false].
Proof. vm_compute. reflexivity. Qed.

(* outside: a negative integer length is written "-5" and comes back as the float -5.0 *)
Example C06_newick_negative_int_length_refuted :
  exists t s back,
    nw_write (NwCfg true [76] [58] [] [] [58]) true t = Ret s
    /\ nw_parse [76] [] s = Ret back
    /\ prop_newick_back (NwOpt true [76] [] [] true) true t back = false.
Proof.
  exists (T None [114] [] [ T None [98] [([76], VInt (-5))] [] ]). eexists. eexists.
  split; [vm_compute; reflexivity|]. split; vm_compute; reflexivity.
Qed.

(* outside: a length 0 is "missing" for the exporter (ValueError "Length attribute does not exist") *)
Example C06_newick_zero_length_refuted :
  nw_write (NwCfg true [76] [58] [] [] [58]) true (T None [114] [] [ T None [98] [([76], VInt 0)] [] ])
  = Raise ValueError.
Proof. vm_compute. reflexivity. Qed.

(* Node classes: the models never compare nodes (no ==, in, index on nodes) and build fresh nodes by name
   only, so neither a value-equality subclass (__eq__/__hash__ by name) used for the input tree nor the
   node_type handed to the importers can matter for either round trip; the harness exercises both
   (input class ValueEq, node_type = subclass) on every stratum and demands nodes of the requested class. *)

(* non-vacuity of the guard with a length and two attributes (one of them with a special key) *)
Definition ex_attr_tree : tree :=
  T (Some 0%nat) [97] [([65], VInt 90); ([107], VStr [104; 117]); ([120; 58; 121], VStr [40; 49; 41])]
    [ T (Some 1%nat) [98; 32; 99] [([65], VInt 65); ([107], VStr [118])]
        [ T (Some 2%nat) [100] [([65], VInt 40); ([107], VNone); ([120; 58; 121], VStr [61])] [] ];
      T (Some 3%nat) [101] [([65], VInt 7)] [] ].
Example C06_newick_attr_guard_satisfiable :
  newick_alphabet (NwOpt true [65] [[107]; [120; 58; 121]] [38; 38; 78; 72; 88; 58] true) true ex_attr_tree = true
  /\ exists s, nw_write (NwCfg true [65] [58] [[107]; [120; 58; 121]] [38; 38; 78; 72; 88; 58] [58]) true ex_attr_tree = Ret s
               /\ length s = 71%nat.
Proof. split; [vm_compute; reflexivity|]. eexists. split; vm_compute; reflexivity. Qed.

(* non-vacuity with suppressed intermediate names: the importer invents node0, node1, ... *)
Example C06_newick_nointer_guard_satisfiable :
  newick_alphabet (NwOpt false [65] [[107]] [] true) true ex_attr_tree = true
  /\ exists s back, nw_write (NwCfg false [65] [58] [[107]] [] [58]) true ex_attr_tree = Ret s
                    /\ nw_parse [65] [] s = Ret back
                    /\ tname back = [110; 111; 100; 101; 49].
Proof. split; [vm_compute; reflexivity|]. eexists. eexists. repeat split; vm_compute; reflexivity. Qed.

(* non-vacuity: a tree with fan-out 3, depth 3, names containing every special character *)
Definition ex_tree : tree :=
  T (Some 0%nat) [97; 32; 98] []
    [ T (Some 1%nat) [120; 58; 121] [] [ T (Some 2%nat) [40] [] []; T (Some 3%nat) [41; 44] [] [] ];
      T (Some 4%nat) [91; 61; 93] [] [];
      T (Some 5%nat) [99] [] [ T (Some 6%nat) [110; 111; 100; 101; 48] [] [] ] ].
Example C06_newick_guard_satisfiable :
  newick_alphabet (NwOpt true [] [] [38; 38] true) true ex_tree = true
  /\ nw_write (NwCfg true [] [58] [] [38; 38] [58]) true ex_tree
     = Ret [40; 40; 39; 40; 39; 44; 39; 41; 44; 39; 41; 39; 120; 58; 121; 39; 44;
            39; 91; 61; 93; 39; 44; 40; 110; 111; 100; 101; 48; 41; 99; 41; 97; 32; 98].
Proof. split; vm_compute; reflexivity. Qed.

(* outside the alphabet: the quote character is rewritten, the round trip does not return the name *)
Example C06_newick_quote_refuted :
  exists t s back,
    nw_write (NwCfg true [] [58] [] [] [58]) true t = Ret s
    /\ nw_parse default_len [] s = Ret back
    /\ tree_eqb (erase t) back = false.
Proof.
  exists (T None [105; 116; 39; 115] [] []). eexists. eexists.
  split; [vm_compute; reflexivity|]. split; vm_compute; reflexivity.
Qed.

(* outside the alphabet: without intermediate names, a leaf called node0 collides with the name the
   importer invents for its unnamed sibling (TreeError "Duplicate node") *)
Example C06_newick_autoname_refuted :
  exists t s,
    nw_write (NwCfg false [] [58] [] [] [58]) true t = Ret s
    /\ nw_parse default_len [] s = Raise TreeError.
Proof.
  exists (T None [97] [] [ T None [107] [] [ T None [97] [] [] ]; T None [110; 111; 100; 101; 48] [] [] ]).
  eexists. split; vm_compute; reflexivity.
Qed.

(* ------------------------------------------------------------------------------------------ *)
(* printed tree                                                                                *)

(* one line per node, pre-order, indentation = nesting, exact name: for EVERY style whose three strings have
   one length (all six built-in styles) and every name, print_tree writes exactly the textbook recursive
   rendering ref_print of the spec (yield_tree's set of unclosed depths is equivalent to passing the
   accumulated prefix down) *)
Theorem C06_print_export :
  forall stem branch final t,
    length stem = length branch -> length branch = length final ->
    exists s, print_str (stem, branch, final) t = Ret s
              /\ prop_print_export (stem, branch, final) t s = true.
Proof.
  intros stem branch final t H1 H2. exists (ref_print (stem, branch, final) t).
  split; [apply print_is_ref; assumption|]. unfold prop_print_export. apply str_eqb_refl.
Qed.
Print Assumptions C06_print_export.

(* a tree is determined by its pre-order list of (depth, name): forest_of_pre (Base/Rose.v) decodes it *)
Theorem C06_print_tree_of_preorder_depths :
  forall t fuel, (length (pn 0 t) <= fuel)%nat -> forest_of_pre mk_plain fuel 0 (pn 0 t) = [erase t].
Proof. exact forest_of_pre_pn. Qed.
Print Assumptions C06_print_tree_of_preorder_depths.

(* str_to_tree (print_tree t) = t for every style made of non-ASCII characters and blanks (const,
   const_bold, rounded, double and custom ones) and non-empty printable-ASCII names without a leading
   blank, sibling names distinct (guard = print_alphabet). *)
Theorem C06_print_roundtrip :
  forall stem branch final t,
    print_alphabet (stem, branch, final) t = true ->
    exists s back,
      print_str (stem, branch, final) t = Ret s
      /\ str_to_tree_m s = Ret back
      /\ prop_print_back t back = true.
Proof.
  intros stem branch final t H.
  destruct (print_roundtrip stem branch final t H) as (s & H1 & H2).
  exists s, (erase t). split; [exact H1|]. split; [exact H2|].
  unfold prop_print_back. apply tree_eqb_refl.
Qed.
Print Assumptions C06_print_roundtrip.

(* The same on the printed TEXT, literally: str_to_tree gives back the input with tags and attributes
   erased.  The only name guard is print_alphabet's: non-empty, printable ASCII (no newline, no
   non-ASCII character, hence never a style glyph), no leading blank.  There is NO bracket / digit /
   inner-blank restriction: names such as argv[1], docs [draft], x[0] next to x[1], a [age=90], 1, 1.5,
   1e-05 are inside (Example below). *)
Theorem C06_print_roundtrip_text :
  forall stem branch final t,
    print_alphabet (stem, branch, final) t = true ->
    exists s, print_str (stem, branch, final) t = Ret s /\ str_to_tree_m s = Ret (erase t).
Proof. exact print_roundtrip. Qed.
Print Assumptions C06_print_roundtrip_text.

(* argv[1](docs [draft](x[0], x[1], a [age=90](b [x=1, y=2])), 1e-05, 1.5, 1) *)
Definition ex_bracket_tree : tree :=
  T None [97; 114; 103; 118; 91; 49; 93] []
    [ T None [100; 111; 99; 115; 32; 91; 100; 114; 97; 102; 116; 93] []
        [ T None [120; 91; 48; 93] [] []; T None [120; 91; 49; 93] [] [];
          T None [97; 32; 91; 97; 103; 101; 61; 57; 48; 93] [] [ T None [98; 32; 91; 120; 61; 49; 44; 32; 121; 61; 50; 93] [] [] ] ];
      T None [49; 101; 45; 48; 53] [] []; T None [49; 46; 53] [] []; T None [49] [] [] ].
Example C06_print_bracket_names :
  print_alphabet style_const ex_bracket_tree = true
  /\ exists s, print_str style_const ex_bracket_tree = Ret s /\ str_to_tree_m s = Ret (erase ex_bracket_tree).
Proof. split; [vm_compute; reflexivity|]. eexists. split; vm_compute; reflexivity. Qed.

Example C06_print_guard_satisfiable :
  print_alphabet style_const (T None [97; 32; 98] [] [ T None [120] [] [ T None [40; 121; 41] [] [ T None [122; 32] [] [] ]; T None [49] [] [] ];
                                                       T None [43; 45; 45] [] [] ]) = true
  /\ print_alphabet style_const_bold ex_tree = true
  /\ print_alphabet style_rounded ex_tree = true
  /\ print_alphabet style_double ex_tree = true.
Proof. repeat split; vm_compute; reflexivity. Qed.

(* outside the alphabet: with the ansi / ascii styles the default branch of str_to_tree cannot infer
   the prefix ("Invalid prefix") *)
Example C06_print_ascii_style_refuted :
  exists t s, print_str style_ansi t = Ret s /\ str_to_tree_m s = Raise ValueError.
Proof.
  exists (T None [97] [] [ T None [98] [] [] ]). eexists. split; vm_compute; reflexivity.
Qed.
