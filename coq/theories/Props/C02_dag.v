(* C02, DAGNode share — a rejected or failing parents / children assignment changes nothing.
   Model: Heap/Dag.v (transliteration of bigtree/node/dagnode.py); proofs: Heap/DagProofs.v. *)
From BT Require Import Base.Prelude Heap.Dag Spec.PC10 Heap.DagProofs.

(* any assignment / deletion / >> / << on DAG nodes that raises for any reason (type, loop,
   repeated member, failing pre- or post-assign hook) leaves every parents list and every children
   list, order included, exactly as it was *)
Theorem C02_dag_atomic : forall cfg s o, DWF s -> is_new o = false ->
  snd (dstep cfg s o) <> Ok -> same_state (fst (dstep cfg s o)) s.
Proof. exact dag_atomic. Qed.
Print Assumptions C02_dag_atomic.

(* the constructor DAGNode(name, parents=..., children=...) is TWO assignments: when it raises,
   either nothing is linked or exactly the (accepted) parents assignment is in place *)
Theorem C02_dag_constructor : forall cfg s nm pa ca ftp ftc, DWF s ->
  dop_in_range s (DNew nm pa ca ftp ftc) = true ->
  snd (dstep cfg s (DNew nm pa ca ftp ftc)) <> Ok ->
  same_state (fst (dstep cfg s (DNew nm pa ca ftp ftc))) (alloc s nm)
  \/ exists s2, set_parents cfg ftp (alloc s nm) (dsize s) (carg_cont pa) (carg_args pa) = (s2, Ok)
                /\ same_state (fst (dstep cfg s (DNew nm pa ca ftp ftc))) s2.
Proof. exact dag_new_atomic. Qed.
Print Assumptions C02_dag_constructor.

Theorem C02_dag_every_history : forall cfg n names ops o,
  is_new o = false ->
  let s := drun cfg (dinit n names) ops in
  snd (dstep cfg s o) <> Ok -> same_state (fst (dstep cfg s o)) s.
Proof. intros cfg n names ops o Ho s H. apply dag_atomic; [apply drun_DWF, DWF_init|exact Ho|exact H]. Qed.
Print Assumptions C02_dag_every_history.
