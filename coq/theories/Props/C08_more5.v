(* C08, round 5 (statements only; proofs in Algo/C08More5.v).                                        *)
(* copy_nodes with overriding + delete_children onto an existing destination D.                      *)
From BT Require Import Base.Prelude Base.Str Base.StrSep Base.Rose Algo.Modify Spec.PC08 Corr.ModifyCorr Algo.ModifyProofs
  Algo.C08More Algo.C08More2 Algo.C08More5 Props.C08_more2.
From Coq Require Import List Arith Lia Bool.
Import ListNotations.

(* (1) attach of a copy with delete_children on the two-piece forest left by the overriding detach *)
Theorem C08_attach_dc_copy_two : forall c t D p q x ks,
  dc_copy c -> p <> [] -> tget t p = Some x -> (exists PX, tpath t p = Some PX) ->
  fkids q (tkids t) = Some ks -> (forall k, In k ks -> tname k <> tname x) ->
  exists rest,
  attach c false [t; D] (0 :: p) (Some (0 :: q)) = (t_append q (set_kids (retag x) []) t :: D :: rest, None).
Proof. exact attach_dc_copy_two_stmt. Qed.
Print Assumptions C08_attach_dc_copy_two.

(* (2) copy_nodes, overriding + delete_children, existing destination: D is detached (piece 1, the same object),   *)
(* a fresh (untagged) childless copy of x is the last child of D's parent, the table is the old one minus D's     *)
(* subtree plus that one row, and the source x is still the same object under the same path.                     *)
Theorem C08_override_dc_copy : forall sep tsep fl t p d x D PX PD,
  f_over fl = true -> f_mc fl = false -> f_ml fl = false -> f_dc fl = true -> wf_t t ->
  p <> [] -> d <> [] -> tget t p = Some x -> tget t d = Some D ->
  tpath t p = Some PX -> tpath t d = Some PD ->
  pfx PX PD = false -> pfx PD PX = false -> tname D = tname x ->
  let t2 := t_append (removelast d) (set_kids (retag x) []) (t_remove d t) in
  (exists rest, cs_core (cfg_same true sep tsep fl) [t] (0 :: p) (TNode (0 :: d)) = (t2 :: D :: rest, None))
  /\ rows t2 = insert_last (minus (rows t) PD) (removelast PD) [(PD, None, tattrs x)]
  /\ tget (t_remove d t) (adj' d p) = Some x
  /\ tpath (t_remove d t) (adj' d p) = Some PX.
Proof. exact C08_override_dc_copy_stmt. Qed.
Print Assumptions C08_override_dc_copy.

Example C08_override_dc_copy_nonvacuous :
  let fl := MF false true false false true true in
  let c := cfg_same true [47%N] [47%N] fl in
  f_over fl = true /\ f_mc fl = false /\ f_ml fl = false /\ f_dc fl = true
  /\ wf_t dt2 /\ tget dt2 [0] = Some mx2 /\ tget dt2 [1; 0] = Some dx2
  /\ tpath dt2 [0] = Some PX2 /\ tpath dt2 [1; 0] = Some PD2
  /\ pfx PX2 PD2 = false /\ pfx PD2 PX2 = false /\ tname dx2 = tname mx2 /\ tkids mx2 <> []
  /\ piece (fst (cs_core c [dt2] [0; 0] (TNode [0; 1; 0]))) 0
     = T (Some 0) [114%N] [] [ mx2; T (Some 9) [121%N] [] [set_kids (retag mx2) []]; T (Some 12) [122%N] [] [] ]
  /\ piece (fst (cs_core c [dt2] [0; 0] (TNode [0; 1; 0]))) 1 = dx2
  /\ snd (cs_core c [dt2] [0; 0] (TNode [0; 1; 0])) = None
  /\ rows (piece (fst (cs_core c [dt2] [0; 0] (TNode [0; 1; 0]))) 0)
     = insert_last (minus (rows dt2) PD2) (removelast PD2) [(PD2, None, tattrs mx2)].
Proof. cbv zeta. conj; try fin_ex; try discriminate. Qed.
