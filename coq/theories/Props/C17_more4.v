(* C17 — DAG exports are complete and re-importing them reproduces the DAG: the dict half of "for all
   ... edge orders" on the import side, left open by round 3 (`dict_to_dag` not yet).  Only statements;
   the proofs live in Algo/C17More4.v.
     - dict_to_dag on ANY dictionary describing a DAG g under the attribute mode md (`DictOf g md d`:
       pairwise distinct keys, one entry per node, the node's exported attributes, a parents list
       holding exactly the names of the node's parents — in any order, repetitions allowed, an empty
       list written [] or left out; the entries in any order) succeeds, when no reserved key is
       exported, and rebuilds g's names, g's edge set and the exported attributes (read as a dict);
     - two such dictionaries are rebuilt to the same names, the same edges and the same attributes;
     - dag_to_dict g x md is such a dictionary, hence every rearrangement of it (`SameDict`; in
       particular every permutation of its entries combined with a permutation of each parents list)
       round-trips, and the rebuilt table is again a DAG like g that re-exports to the first export
       (RebuiltLike, Algo/C17More.v). *)
From BT Require Import Base.Prelude Base.Str Base.Rose Algo.DagAlgo Algo.DagIO Spec.PC16 Spec.PC17
     Algo.DagAlgoProofs Algo.C17More Algo.C17More4.
Require Import Permutation.

(* any dictionary describing g, entries and parents lists in any order, is rebuilt to g *)
Theorem C17_dict_to_dag_any_description : forall g r md d,
  Wf g -> Ranked g r -> DistinctNames g -> WeaklyConnected g -> (exists p c, Edge g p c) ->
  (forall y, y < dsize g -> existsb (fun kv => reserved (fst kv)) (export_attrs md (nattrs g y)) = false) ->
  NoDup (map de_name d)
  /\ (forall y, y < dsize g -> exists e, In e d /\ de_name e = name g y)
  /\ (forall e, In e d -> exists y, y < dsize g /\ de_name e = name g y
        /\ de_attrs e = export_attrs md (nattrs g y)
        /\ (forall pn, In pn (entry_parents e) <-> exists p, In p (parents g y) /\ pn = name g p)) ->
  exists b ret, dict_to_dag d = Ret (b, Some ret)
    /\ Good b
    /\ SameNames g (b_names b)
    /\ NoDup (b_edges b)
    /\ (forall pn cn, HasEdge b pn cn <-> exists p c, Edge g p c /\ pn = name g p /\ cn = name g c)
    /\ length (b_attrs b) = bsize b
    /\ (forall i y, i < bsize b -> y < dsize g -> bname b i = name g y ->
          nth i (b_attrs b) [] = norm (export_attrs md (nattrs g y))).
Proof. exact dict_any_description. Qed.
Print Assumptions C17_dict_to_dag_any_description.

(* ... and the rebuilt table is a DAG like g that re-exports to g's export *)
Theorem C17_dict_to_dag_any_description_rebuilt : forall g r x md d,
  Wf g -> Ranked g r -> DistinctNames g -> WeaklyConnected g -> x < dsize g -> (exists p c, Edge g p c) ->
  (forall y, y < dsize g -> existsb (fun kv => reserved (fst kv)) (export_attrs md (nattrs g y)) = false) ->
  DictOf g md d ->
  exists b ret, dict_to_dag d = Ret (b, Some ret) /\ RebuiltLike g x b.
Proof. exact dict_any_description_rebuilt. Qed.
Print Assumptions C17_dict_to_dag_any_description_rebuilt.

(* two descriptions of the same DAG: same node names, same edges (by name), same attributes per name *)
Theorem C17_dict_to_dag_order_independent : forall g r md d d',
  Wf g -> Ranked g r -> DistinctNames g -> WeaklyConnected g -> (exists p c, Edge g p c) ->
  (forall y, y < dsize g -> existsb (fun kv => reserved (fst kv)) (export_attrs md (nattrs g y)) = false) ->
  DictOf g md d -> DictOf g md d' ->
  exists b ret b' ret', dict_to_dag d = Ret (b, Some ret) /\ dict_to_dag d' = Ret (b', Some ret')
    /\ Permutation (b_names b) (b_names b')
    /\ (forall pn cn, HasEdge b pn cn <-> HasEdge b' pn cn)
    /\ (forall i j, i < bsize b -> j < bsize b' -> bname b i = bname b' j ->
          nth i (b_attrs b) [] = nth j (b_attrs b') []).
Proof. exact dict_two_descriptions_agree. Qed.
Print Assumptions C17_dict_to_dag_order_independent.

(* the export is such a description *)
Theorem C17_dag_to_dict_is_description : forall g r x md,
  Wf g -> Ranked g r -> DistinctNames g -> WeaklyConnected g -> x < dsize g -> (exists p c, Edge g p c) ->
  exists d, dag_to_dict g x md = Ret d /\ DictOf g md d.
Proof. exact export_is_description. Qed.
Print Assumptions C17_dag_to_dict_is_description.

(* every rearrangement of the export — the same keys in some order, under each key the same attributes
   and a parents list with the same names — round-trips *)
Theorem C17_roundtrip_dict_any_arrangement : forall g r x md d',
  Wf g -> Ranked g r -> DistinctNames g -> WeaklyConnected g -> x < dsize g -> (exists p c, Edge g p c) ->
  (forall y, y < dsize g -> existsb (fun kv => reserved (fst kv)) (export_attrs md (nattrs g y)) = false) ->
  (exists d, dag_to_dict g x md = Ret d
     /\ Permutation (map de_name d) (map de_name d')
     /\ forall e e', In e d -> In e' d' -> de_name e = de_name e' ->
          de_attrs e = de_attrs e' /\ forall pn, In pn (entry_parents e) <-> In pn (entry_parents e')) ->
  exists b ret, dict_to_dag d' = Ret (b, Some ret)
    /\ SameNames g (b_names b)
    /\ NoDup (b_edges b)
    /\ (forall pn cn, HasEdge b pn cn <-> exists p c, Edge g p c /\ pn = name g p /\ cn = name g c)
    /\ length (b_attrs b) = bsize b
    /\ (forall i y, i < bsize b -> y < dsize g -> bname b i = name g y ->
          nth i (b_attrs b) [] = norm (export_attrs md (nattrs g y)))
    /\ RebuiltLike g x b.
Proof. exact dict_any_arrangement. Qed.
Print Assumptions C17_roundtrip_dict_any_arrangement.

(* ... in particular every order of the entries and every order of each parents list *)
Theorem C17_roundtrip_dict_any_order : forall g r x md d0 d',
  Wf g -> Ranked g r -> DistinctNames g -> WeaklyConnected g -> x < dsize g -> (exists p c, Edge g p c) ->
  (forall y, y < dsize g -> existsb (fun kv => reserved (fst kv)) (export_attrs md (nattrs g y)) = false) ->
  (exists d, dag_to_dict g x md = Ret d /\ Forall2 PermEntry d d0 /\ Permutation d0 d') ->
  exists b ret, dict_to_dag d' = Ret (b, Some ret)
    /\ SameNames g (b_names b)
    /\ NoDup (b_edges b)
    /\ (forall pn cn, HasEdge b pn cn <-> exists p c, Edge g p c /\ pn = name g p /\ cn = name g c)
    /\ length (b_attrs b) = bsize b
    /\ (forall i y, i < bsize b -> y < dsize g -> bname b i = name g y ->
          nth i (b_attrs b) [] = norm (export_attrs md (nattrs g y)))
    /\ RebuiltLike g x b.
Proof. exact dict_any_order. Qed.
Print Assumptions C17_roundtrip_dict_any_order.

(* not vacuous: ex17 (a -> b, a -> c, b -> d, c -> d, a -> d; `step` on a, b, d) meets the hypotheses;
   d17 is its export from d; d17_rev has the entries reversed and each parents list reversed
   (Forall2 PermEntry + Permutation); d17_odd additionally writes a's missing parents as [] and
   repeats a parent of d (SameDict).  All three are rebuilt — with different node numberings and
   different returned nodes — to the names a..d, the five edges and the same attributes. *)
Definition m_step4 : amode := AttrDict [(k_step, [115]%N)].
Definition d17 : list dentry :=
  [DE [100]%N (Some [[98]; [99]; [97]]%N) [([115]%N, VInt 3)];
   DE [97]%N None [([115]%N, VInt 1)];
   DE [98]%N (Some [[97]]%N) [([115]%N, VInt 2)];
   DE [99]%N (Some [[97]]%N) [([115]%N, VNone)]].
Definition d17_mid : list dentry :=
  [DE [100]%N (Some (rev [[98]; [99]; [97]]%N)) [([115]%N, VInt 3)];
   DE [97]%N None [([115]%N, VInt 1)];
   DE [98]%N (Some [[97]]%N) [([115]%N, VInt 2)];
   DE [99]%N (Some [[97]]%N) [([115]%N, VNone)]].
Definition d17_odd : list dentry :=
  [DE [99]%N (Some [[97]]%N) [([115]%N, VNone)];
   DE [97]%N (Some []) [([115]%N, VInt 1)];
   DE [100]%N (Some [[97]; [99]; [97]; [98]]%N) [([115]%N, VInt 3)];
   DE [98]%N (Some [[97]]%N) [([115]%N, VInt 2)]].

Example C17_more4_values :
  Wf ex17 /\ Ranked ex17 ex17_rank /\ DistinctNames ex17 /\ WeaklyConnected ex17 /\ 3 < dsize ex17
  /\ (exists p c, Edge ex17 p c)
  /\ (forall y, y < dsize ex17 ->
        existsb (fun kv => reserved (fst kv)) (export_attrs m_step4 (nattrs ex17 y)) = false)
  /\ dag_to_dict ex17 3 m_step4 = Ret d17
  /\ Forall2 PermEntry d17 d17_mid /\ Permutation d17_mid (rev d17_mid) /\ rev d17_mid <> d17
  /\ SameDict d17 d17_odd
  /\ dict_to_dag d17
     = Ret (BLD [[100]; [98]; [99]; [97]]%N
                [[([115]%N, VInt 3)]; [([115]%N, VInt 2)]; [([115]%N, VNone)]; [([115]%N, VInt 1)]]
                [(1, 0); (2, 0); (3, 0); (3, 1); (3, 2)], Some 3)
  /\ dict_to_dag (rev d17_mid)
     = Ret (BLD [[99]; [97]; [98]; [100]]%N
                [[([115]%N, VNone)]; [([115]%N, VInt 1)]; [([115]%N, VInt 2)]; [([115]%N, VInt 3)]]
                [(1, 0); (1, 2); (1, 3); (0, 3); (2, 3)], Some 2)
  /\ exists b ret, dict_to_dag d17_odd = Ret (b, Some ret)
       /\ b_names b = [[99]; [97]; [100]; [98]]%N
       /\ b_attrs b = [[([115]%N, VNone)]; [([115]%N, VInt 1)]; [([115]%N, VInt 3)]; [([115]%N, VInt 2)]]
       /\ Permutation (b_edges b) [(1, 0); (1, 2); (0, 2); (3, 2); (1, 3)].
Proof.
  split; [exact ex17_wf|]. split; [exact ex17_ranked|]. split; [exact ex17_distinct|].
  split; [exact ex17_connected|]. split; [vm_compute; lia|]. split; [exact ex17_edge|].
  split; [intros y Hy; cbn in Hy; destruct y as [|[|[|[|y]]]]; [| | | |lia]; vm_compute; reflexivity|].
  split; [vm_compute; reflexivity|].
  split; [repeat constructor; apply Permutation_rev|].
  split; [apply Permutation_rev|]. split; [vm_compute; discriminate|].
  split.
  { split.
    - cbn. apply NoDup_Permutation.
      + repeat constructor; cbn; intuition discriminate.
      + repeat constructor; cbn; intuition discriminate.
      + intros s. cbn. tauto.
    - intros e e' He He' E. cbn in He, He'.
      destruct He as [<-|[<-|[<-|[<-|[]]]]]; destruct He' as [<-|[<-|[<-|[<-|[]]]]]; cbn in E;
        try discriminate E; (split; [reflexivity|intros pn; cbn; tauto]). }
  split; [vm_compute; reflexivity|]. split; [vm_compute; reflexivity|].
  vm_compute. eexists. eexists. split; [reflexivity|]. split; [reflexivity|]. split; [reflexivity|].
  apply Permutation_refl.
Qed.
