(* C14 — prune_tree and get_subtree return exactly the specified part of the tree.
   Only the property theorems; the proofs are in Algo/HelperProofs.v, the model in Algo/Helper.v,
   the predicate prop_C14 in Spec/PC14.v.

   Vocabulary: a node is its position (child indices from the root); `pre_pos t` lists all
   (position, node) in pre-order; `lbl_of` = (depth, name, attributes); `obs_tree r` = the labels of
   r in pre-order (this list determines the ordered tree r up to object identity);
   `addressed tsep t s` = the positions whose path_name has `s` (without trailing separators) as a
   trailing part; `keep targets exact p` = p is on a route root -> target, or (unless exact) below a
   target.  Guards: the start node is a root (built into the model), the targets are non-nested
   (`nested _ = false`), and — where the statement speaks about `addressed` — the tree's separator is
   a single character `[c]` (K3: with a multi-character separator str.rstrip strips a character set;
   see C14_multichar_sep_refuted). *)
From BT Require Import Base.Prelude Base.Str Base.Rose Base.StrSep Algo.Helper Spec.PC14 Algo.HelperProofs.

(* The model satisfies the whole property predicate — the predicate the check evaluates on the
   implementation's outputs — for every tree, call, flag, depth limit and one-character separator. *)
Theorem C14_model_satisfies_prop : forall c t call,
  call_ok call -> prop_C14 [c] t call (obs_of (run_call [c] t call)) = true.
Proof. exact model_satisfies_C14. Qed.
Print Assumptions C14_model_satisfies_prop.

(* Kept-node set.  pre-order labels of the result = filter keep (pre-order of the input), for the
   targets the paths address, non-nested; any depth limit d (0 = none) on top. *)
Theorem C14_prune_kept : forall c sep t paths exact d,
  sep <> [] -> paths <> [] ->
  singletons (hits_of c sep t paths) = true ->
  nested (concat (hits_of c sep t paths)) = false ->
  exists r, prune_tree [c] t (PList paths) exact sep d = Ret r /\
            obs_tree r =
            map lbl_of (filter (fun ps => keep (concat (hits_of c sep t paths)) exact (fst ps)
                                          && within_depth d (S (length (fst ps)))) (pre_pos t)).
Proof. exact prune_kept_spec. Qed.
Print Assumptions C14_prune_kept.

Local Open Scope N_scope.
Example C14_prune_kept_nonvacuous :
  let t := T None [114] [] [T None [97] [] [T None [99] [] []; T None [100] [] []];
                            T None [120; 97] [] [T None [101] [] []]; T None [98] [] []] in
  let paths := [[114; 47; 97; 47; 99]; [98]] in
  singletons (hits_of 47 [47] t paths) = true
  /\ nested (concat (hits_of 47 [47] t paths)) = false
  /\ concat (hits_of 47 [47] t paths) = [[0; 0]; [2]]%nat.
Proof. vm_compute. repeat split. Qed.
Local Close Scope N_scope.

(* The same statement on the targets the model's own find_path returns: holds for all separators,
   including multi-character ones. *)
Theorem C14_prune_kept_any_sep : forall tsep sep t paths exact targets,
  tsep <> [] -> sep <> [] -> paths <> [] ->
  locate tsep sep (copy_tree t) paths = Ret targets -> nested targets = false ->
  exists r, prune_tree tsep t (PList paths) exact sep 0 = Ret r /\
            obs_tree r = map lbl_of (filter (fun ps => keep targets exact (fst ps)) (pre_pos t)).
Proof. exact prune_kept_model. Qed.
Print Assumptions C14_prune_kept_any_sep.

(* The detach rule on positions: a node survives the surgery iff it is kept (non-nested targets). *)
Theorem C14_detach_rule : forall N exact p,
  N <> [] -> non_nested N ->
  survive (fun c => negb (detached N exact c)) p = keep N exact p.
Proof. exact survive_eq_keep. Qed.
Print Assumptions C14_detach_rule.

(* Depth limit alone: exactly the nodes of depth <= max_depth. *)
Theorem C14_prune_depth : forall tsep t exact sep d,
  tsep <> [] -> sep <> [] -> 0 < d ->
  exists r, prune_tree tsep t (PList []) exact sep d = Ret r /\
            obs_tree r = filter (fun l => Nat.leb (lbl_depth l) d) (obs_tree t).
Proof. exact prune_depth. Qed.
Print Assumptions C14_prune_depth.

(* the level-group formulation of the code = the structural cut *)
Theorem C14_depth_cut_levels : forall d t,
  obs_tree (depth_cut d t) = filter (fun l => within_depth d (lbl_depth l)) (obs_tree t).
Proof. exact depth_cut_obs. Qed.
Print Assumptions C14_depth_cut_levels.

(* Original order and attributes: whatever prune_tree returns is an order-preserving selection of
   the input's nodes, each with its depth, name and attributes — no guard at all. *)
Theorem C14_prune_attrs_order : forall tsep t pp exact sep d r,
  prune_tree tsep t pp exact sep d = Ret r ->
  exists P, obs_tree r = map lbl_of (filter (fun ps => P (fst ps)) (pre_pos t)).
Proof. exact prune_attrs_order. Qed.
Print Assumptions C14_prune_attrs_order.

(* A path that addresses no node is an error, also next to paths that do match. *)
Theorem C14_missing_path_error : forall c sep t paths exact d s,
  sep <> [] -> In s paths -> addressed [c] t (replace s sep [c]) = [] ->
  exists e, prune_tree [c] t (PList paths) exact sep d = Raise e.
Proof. exact missing_path_error. Qed.
Print Assumptions C14_missing_path_error.

Theorem C14_missing_subtree_error : forall c t s d,
  s <> [] -> addressed [c] t s = [] -> get_subtree [c] t s d = Raise ValueError.
Proof. exact missing_subtree_error. Qed.
Print Assumptions C14_missing_subtree_error.

Local Open Scope N_scope.
Example C14_missing_path_nonvacuous :
  let t := T None [114] [] [T None [97] [] []; T None [98] [] []] in
  addressed [47] t (replace [122; 122] [47] [47]) = []
  /\ addressed [47] t (replace [97] [47] [47]) = [[0]]%nat.
Proof. vm_compute. split; reflexivity. Qed.
Local Close Scope N_scope.

Theorem C14_no_arguments_error : forall tsep t exact sep,
  prune_tree tsep t (PStr []) exact sep 0 = Raise ValueError /\
  prune_tree tsep t (PList []) exact sep 0 = Raise ValueError.
Proof. exact prune_no_arguments. Qed.
Print Assumptions C14_no_arguments_error.

(* get_subtree: the addressed node and its descendants down to relative depth d, depths counted
   from the new root, original order, names and attributes. *)
Theorem C14_subtree_spec : forall c t s d q,
  s <> [] -> addressed [c] t s = [q] ->
  exists r, get_subtree [c] t s d = Ret r /\
            obs_tree r =
            map (fun ps => (S (length (fst ps)) - length q, tname (snd ps), tattrs (snd ps)))
                (filter (fun ps => prefixb q (fst ps)
                                   && within_depth d (S (length (fst ps)) - length q)) (pre_pos t)).
Proof. exact subtree_spec. Qed.
Print Assumptions C14_subtree_spec.

Theorem C14_subtree_root_spec : forall tsep t d,
  tsep <> [] ->
  exists r, get_subtree tsep t [] d = Ret r /\ obs_tree r = expected_subtree t [] d.
Proof. exact subtree_root_spec. Qed.
Print Assumptions C14_subtree_root_spec.

Local Open Scope N_scope.
Example C14_subtree_nonvacuous :
  let t := T None [114] [] [T None [97] [] [T None [99] [] [T None [101] [] []]; T None [100] [] []];
                            T None [98] [] []] in
  addressed [47] t [97] = [[0]]%nat
  /\ expected_subtree t [0]%nat 2%nat = [(1%nat, [97], []); (2%nat, [99], []); (2%nat, [100], [])].
Proof. vm_compute. split; reflexivity. Qed.
Local Close Scope N_scope.

(* ---- inner start node: prune_tree / get_subtree called on the node at position st of a bigger
   tree (general model run_call_at / predicate prop_C14_at; bin = false: Node trees).  Reading of the
   property: "the tree" is the start node's subtree; paths are matched by absolute path_name against
   the nodes of that subtree only; depths (limit and result) are counted from the start node. ---- *)

Theorem C14_model_satisfies_prop_inner : forall c t st s0 call,
  subtree_at t st = Some s0 -> call_ok call ->
  prop_C14_at false [c] t st call (obs_of (run_call_at false [c] t st call)) = true.
Proof. exact model_satisfies_C14_at. Qed.
Print Assumptions C14_model_satisfies_prop_inner.

(* called on the root, the general model is the model of the theorems above *)
Theorem C14_inner_generalises_root : forall tsep t call,
  run_call_at false tsep t [] call = run_call tsep t call.
Proof. exact run_call_at_root. Qed.
Print Assumptions C14_inner_generalises_root.

Theorem C14_prune_kept_inner : forall c sep t st s0 paths exact d,
  subtree_at t st = Some s0 -> sep <> [] -> paths <> [] ->
  singletons (hits_at c sep t st paths) = true -> nested (concat (hits_at c sep t st paths)) = false ->
  exists r, prune_tree_at false [c] t st (PList paths) exact sep d = Ret r /\
            obs_tree r =
            map (rel_lbl st)
                (filter (fun ps => prefixb st (fst ps)
                                   && (keep (concat (hits_at c sep t st paths)) exact (fst ps)
                                       && within_depth d (S (length (fst ps)) - length st))) (pre_pos t)).
Proof. exact prune_kept_inner. Qed.
Print Assumptions C14_prune_kept_inner.

Theorem C14_subtree_spec_inner : forall c t st s0 s d q,
  subtree_at t st = Some s0 -> s <> [] -> addressed_at false [c] t st s = [q] ->
  prefix st q /\
  exists r, get_subtree_at false [c] t st s d = Ret r /\ obs_tree r = expected_subtree t q d.
Proof. exact subtree_spec_inner. Qed.
Print Assumptions C14_subtree_spec_inner.

(* a path that addresses nothing below the start node — e.g. a node elsewhere in the tree — is an error *)
Theorem C14_missing_path_error_inner : forall c sep t st s0 paths exact d s,
  subtree_at t st = Some s0 -> sep <> [] -> In s paths ->
  addressed_at false [c] t st (replace s sep [c]) = [] ->
  exists e, prune_tree_at false [c] t st (PList paths) exact sep d = Raise e.
Proof. exact missing_path_error_inner. Qed.
Print Assumptions C14_missing_path_error_inner.

Local Open Scope N_scope.
Example C14_inner_nonvacuous :
  let t := T None [114] [] [T None [97] [] [T None [99] [] [T None [101] [] []]; T None [100] [] []];
                            T None [98] [] []] in
  subtree_at t [0]%nat <> None
  /\ hits_at 47 [47] t [0]%nat [[97; 47; 99]] = [[[0; 0]%nat]]
  /\ addressed_at false [47] t [0]%nat [98] = []
  /\ obs_of (run_call_at false [47] t [0]%nat (CPrune (PList [[97; 47; 99]]) true [47] 0%nat))
     = OTree [(1%nat, [97], []); (2%nat, [99], [])].
Proof. vm_compute. repeat split. discriminate. Qed.
Local Close Scope N_scope.

(* ---- BinaryNode trees (empty slot = HOLE; `holes_leaf`: nothing hangs below an empty slot).
   Path pruning: the real nodes of the result are exactly the kept real nodes (order, depth, name,
   attributes), and no slot moves: slot i of every remaining node holds what it held, or is empty.
   (The BinaryNode depth cut and the link from `addressed_at true` to the model's search are covered
   by the correspondence run only.) ---- *)

Theorem C14_binary_prune_kept : forall N exact t,
  holes_leaf t = true -> N <> [] -> nested N = false ->
  real_obs (prune_paths_at true N exact [] t) =
  map lbl_of (filter (fun ps => keep N exact (fst ps) && negb (is_hole (snd ps))) (pre_pos t)).
Proof. exact binary_prune_kept. Qed.
Print Assumptions C14_binary_prune_kept.

Theorem C14_binary_slots_preserved : forall alive g n a ks,
  length (tkids (filter_tree_b alive (T g n a ks))) = length ks /\
  forall i, nth_error (tkids (filter_tree_b alive (T g n a ks))) i =
            option_map (fun k => if is_hole k then k
                                 else if alive [i] then filter_tree_b (fun p => alive (i :: p)) k else HOLE)
                       (nth_error ks i).
Proof. exact binary_slots_preserved. Qed.
Print Assumptions C14_binary_slots_preserved.

Local Open Scope N_scope.
Example C14_binary_nonvacuous :
  let t := T None [49] [] [T None [50] [] [HOLE; T None [52] [] [T None [54] [] [HOLE; HOLE]; HOLE]];
                           T None [51] [] [T None [53] [] [HOLE; HOLE]; HOLE]] in
  holes_leaf t = true
  /\ obs_of (run_call_at true [47] t []%list (CPrune (PStr [52]) true [47] 0%nat))
     = OTree [(1%nat, [49], []); (2%nat, [50], []); (3%nat, [], []); (3%nat, [52], []);
              (4%nat, [], []); (4%nat, [], []); (2%nat, [], [])].
Proof. vm_compute. split; reflexivity. Qed.
Local Close Scope N_scope.

(* ---- separators of any positive length.  The code strips the character *set* of the separator from
   the right of a path (str.rstrip), the property strips whole separators; `strip_ok tsep s` = the two
   agree on the path s.  It holds for every path when the separator is one character
   (C14_paths_ok_one_char) and, for every separator, for every well-formed path: optional text in front,
   then components that are non-empty and contain no character of the separator — in particular names of
   nodes of a tree whose names are all `sgood tsep` — joined by the separator, then any number of whole
   trailing separators (C14_paths_ok_wellformed).  `paths_ok tsep sep paths` = every path, after
   replace(sep, tsep), is strip_ok.  The one-character theorems above are the instances tsep = [c]. ---- *)

Theorem C14_paths_ok_one_char : forall c s, strip_ok [c] s.
Proof. exact strip_ok_single. Qed.
Print Assumptions C14_paths_ok_one_char.

Theorem C14_paths_ok_wellformed : forall tsep lead L k,
  tsep <> [] -> L <> [] -> Forall (sgood tsep) L ->
  strip_ok tsep (lead ++ join tsep L ++ repeat_str tsep k).
Proof. exact strip_ok_wellformed. Qed.
Print Assumptions C14_paths_ok_wellformed.

Theorem C14_model_satisfies_prop_multi : forall tsep t call,
  tsep <> [] -> call_ok_g tsep call -> prop_C14 tsep t call (obs_of (run_call tsep t call)) = true.
Proof. exact model_satisfies_C14_g. Qed.
Print Assumptions C14_model_satisfies_prop_multi.

Theorem C14_model_satisfies_prop_inner_multi : forall tsep t st s0 call,
  subtree_at t st = Some s0 -> tsep <> [] -> call_ok_g tsep call ->
  prop_C14_at false tsep t st call (obs_of (run_call_at false tsep t st call)) = true.
Proof. exact model_satisfies_C14_at_g. Qed.
Print Assumptions C14_model_satisfies_prop_inner_multi.

Theorem C14_prune_kept_multi : forall tsep sep t paths exact d,
  tsep <> [] -> sep <> [] -> paths <> [] -> paths_ok tsep sep paths ->
  singletons (hits_g tsep sep t paths) = true -> nested (concat (hits_g tsep sep t paths)) = false ->
  exists r, prune_tree tsep t (PList paths) exact sep d = Ret r /\
            obs_tree r =
            map lbl_of (filter (fun ps => keep (concat (hits_g tsep sep t paths)) exact (fst ps)
                                          && within_depth d (S (length (fst ps)))) (pre_pos t)).
Proof. exact prune_kept_spec_g. Qed.
Print Assumptions C14_prune_kept_multi.

Theorem C14_missing_path_error_multi : forall tsep sep t paths exact d s,
  tsep <> [] -> sep <> [] -> paths_ok tsep sep paths -> In s paths ->
  addressed tsep t (replace s sep tsep) = [] ->
  exists e, prune_tree tsep t (PList paths) exact sep d = Raise e.
Proof. exact missing_path_error_g. Qed.
Print Assumptions C14_missing_path_error_multi.

Theorem C14_missing_subtree_error_multi : forall tsep t s d,
  tsep <> [] -> s <> [] -> strip_ok tsep s -> addressed tsep t s = [] ->
  get_subtree tsep t s d = Raise ValueError.
Proof. exact missing_subtree_error_g. Qed.
Print Assumptions C14_missing_subtree_error_multi.

Theorem C14_subtree_spec_multi : forall tsep t s d q,
  tsep <> [] -> s <> [] -> strip_ok tsep s -> addressed tsep t s = [q] ->
  exists r, get_subtree tsep t s d = Ret r /\ obs_tree r = expected_subtree t q d.
Proof. exact subtree_spec_g. Qed.
Print Assumptions C14_subtree_spec_multi.

Local Open Scope N_scope.
(* sep "->": tree r(a(c), b); paths "r->a->" (trailing separator) and "b" are well formed and address
   exactly one node each *)
Example C14_multi_nonvacuous :
  let sp := [45; 62] in
  let t := T None [114] [] [T None [97] [] [T None [99] [] []]; T None [98] [] []] in
  let paths := [[114] ++ sp ++ [97] ++ sp; [98]] in
  Forall (sgood sp) [[114]; [97]; [98]]
  /\ paths_ok sp sp paths
  /\ hits_g sp sp t paths = [[[0]%nat]; [[1]%nat]]
  /\ obs_of (run_call sp t (CPrune (PList paths) true sp 0%nat))
     = OTree [(1%nat, [114], []); (2%nat, [97], []); (2%nat, [98], [])].
Proof.
  cbv zeta. split; [|split; [|split; vm_compute; reflexivity]].
  - repeat constructor; try discriminate; intros ch [<-|[<-|[]]] [E|[]]; discriminate.
  - repeat constructor; vm_compute; reflexivity.
Qed.

(* the guard on the PATH is needed even when every name of the tree is free of separator characters:
   with sep "->" the malformed path "b>" is looked up as "b" (rstrip strips the set {'-','>'}), so a
   path that addresses no node is not reported.  Same mechanism as K3. *)
Example C14_multichar_malformed_path_refuted :
  let sp := [45; 62] in
  let t := T None [114] [] [T None [98] [] []] in
  Forall (sgood sp) [[114]; [98]]
  /\ addressed sp t [98; 62] = []
  /\ obs_of (run_call sp t (CPrune (PStr [98; 62]) false sp 0%nat)) = OTree [(1%nat, [114], []); (2%nat, [98], [])]
  /\ prop_C14 sp t (CPrune (PStr [98; 62]) false sp 0%nat)
               (obs_of (run_call sp t (CPrune (PStr [98; 62]) false sp 0%nat))) = false.
Proof.
  cbv zeta. split; [|vm_compute; repeat split].
  repeat constructor; try discriminate; intros ch [<-|[<-|[]]] [E|[]]; discriminate.
Qed.
Local Close Scope N_scope.

(* ---- (1) the path strings users pass: names written with the `sep` argument.  replace(sep, tree.sep)
   turns them into the same path written with the tree separator, and they satisfy `paths_ok` when no
   character of either separator occurs in a name. ---- *)

Theorem C14_replace_rendered : forall sep tsep lead L k,
  sep <> [] -> L <> [] -> Forall (sfree sep) L ->
  replace (rendered sep lead L k) sep tsep = rendered tsep lead L k.
Proof. exact replace_rendered. Qed.
Print Assumptions C14_replace_rendered.

Theorem C14_paths_ok_of_rendered : forall tsep sep paths,
  tsep <> [] -> sep <> [] -> Forall (rendered_ok tsep sep) paths -> paths_ok tsep sep paths.
Proof. exact paths_ok_of_rendered. Qed.
Print Assumptions C14_paths_ok_of_rendered.

Local Open Scope N_scope.
(* prune_tree(tree, "a.b", sep=".") on a "/" tree, and ".a.b." on a "->" tree *)
Example C14_rendered_nonvacuous :
  rendered_ok [47] [46] [97; 46; 98] /\ replace [97; 46; 98] [46] [47] = [97; 47; 98]
  /\ rendered_ok [45; 62] [46] [46; 97; 46; 98; 46]
  /\ replace [46; 97; 46; 98; 46] [46] [45; 62] = [45; 62; 97; 45; 62; 98; 45; 62].
Proof.
  assert (G : forall sp : str, ~ In 97 sp -> ~ In 98 sp -> Forall (sgood sp) [[97]; [98]]).
  { intros sp Ha Hb. repeat constructor; try discriminate; intros ch Hch [E|[]]; subst; contradiction. }
  assert (F : Forall (sfree [46]) [[97]; [98]]).
  { repeat constructor; intros ch [<-|[]] [E|[]]; discriminate. }
  split; [|split; [vm_compute; reflexivity|split; [|vm_compute; reflexivity]]].
  - exists false, [[97]; [98]], 0%nat. split; [discriminate|]. split; [|split; [exact F|reflexivity]].
    apply G; intros [E|[]]; discriminate.
  - exists true, [[97]; [98]], 1%nat. split; [discriminate|]. split; [|split; [exact F|reflexivity]].
    apply G; intros [E|[E|[]]]; discriminate.
Qed.
Local Close Scope N_scope.

(* ---- (2) BinaryNode depth cut.  `cutb k` keeps k+1 levels: a real node of the last level gets two empty
   slots, every other slot stays where it is, empty slots stay empty. ---- *)

Theorem C14_binary_depth_cut : forall k t,
  holes_leaf t = true -> depth_cut_x true (S k) t = cutb k t.
Proof. exact binary_depth_cut. Qed.
Print Assumptions C14_binary_depth_cut.

Theorem C14_binary_depth_cut_slots : forall k g n a ks,
  is_nil n = false ->
  cutb 0 (T g n a ks) = T g n a [HOLE; HOLE] /\
  cutb (S k) (T g n a ks) = T g n a (map (cutb k) ks) /\
  (forall i, nth_error (tkids (cutb (S k) (T g n a ks))) i = option_map (cutb k) (nth_error ks i)) /\
  (forall h, is_hole h = true -> cutb k h = h).
Proof. exact cutb_slots. Qed.
Print Assumptions C14_binary_depth_cut_slots.

Theorem C14_binary_depth_cut_real : forall k t,
  holes_leaf t = true ->
  real_obs (depth_cut_x true (S k) t) = filter (fun l => Nat.leb (lbl_depth l) (S k)) (real_obs t).
Proof. exact binary_depth_cut_real. Qed.
Print Assumptions C14_binary_depth_cut_real.

Theorem C14_binary_prune_depth : forall tsep t exact sep k,
  holes_leaf t = true -> tsep <> [] -> sep <> [] ->
  prune_tree_at true tsep t [] (PList []) exact sep (S k) = Ret (cutb k (copy_tree t)).
Proof. exact binary_prune_depth. Qed.
Print Assumptions C14_binary_prune_depth.

Local Open Scope N_scope.
(* 1(2(-,4(6,-)), 3(5,-)) cut at depth 2: 2 and 3 keep their place and get two empty slots *)
Example C14_binary_depth_nonvacuous :
  let t := T None [49] [] [T None [50] [] [HOLE; T None [52] [] [T None [54] [] [HOLE; HOLE]; HOLE]];
                           T None [51] [] [T None [53] [] [HOLE; HOLE]; HOLE]] in
  holes_leaf t = true
  /\ cutb 1 t = T None [49] [] [T None [50] [] [HOLE; HOLE]; T None [51] [] [HOLE; HOLE]].
Proof. vm_compute. split; reflexivity. Qed.
Local Close Scope N_scope.

(* ---- (3) BinaryNode addressing: the search of the model (pre-order without the empty slots) finds
   exactly the real nodes the path addresses; with it path pruning (+ depth limit) and the missing-path
   clause on the spec's addressing, for any separator. ---- *)

Theorem C14_binary_addressing : forall tsep t st s0 s,
  subtree_at t st = Some s0 -> strip_ok tsep s ->
  find_paths_pos_at true tsep (copy_tree t) st s = addressed_at true tsep t st s.
Proof. exact find_paths_at_addressed_bin. Qed.
Print Assumptions C14_binary_addressing.

Theorem C14_binary_prune_kept_spec : forall tsep sep t paths exact d,
  holes_leaf t = true -> tsep <> [] -> sep <> [] -> paths <> [] -> paths_ok tsep sep paths ->
  singletons (hits_bin tsep sep t [] paths) = true ->
  nested (concat (hits_bin tsep sep t [] paths)) = false ->
  exists r, prune_tree_at true tsep t [] (PList paths) exact sep d = Ret r /\
            real_obs r =
            map lbl_of (filter (fun ps => keep (concat (hits_bin tsep sep t [] paths)) exact (fst ps)
                                          && negb (is_hole (snd ps))
                                          && within_depth d (S (length (fst ps)))) (pre_pos t)).
Proof. exact binary_prune_spec. Qed.
Print Assumptions C14_binary_prune_kept_spec.

Theorem C14_binary_missing_path_error : forall tsep sep t paths exact d s,
  tsep <> [] -> sep <> [] -> paths_ok tsep sep paths -> In s paths ->
  addressed_at true tsep t [] (replace s sep tsep) = [] ->
  exists e, prune_tree_at true tsep t [] (PList paths) exact sep d = Raise e.
Proof. exact binary_missing_path_error. Qed.
Print Assumptions C14_binary_missing_path_error.

Local Open Scope N_scope.
Example C14_binary_addressing_nonvacuous :
  let t := T None [49] [] [T None [50] [] [HOLE; T None [52] [] [HOLE; HOLE]];
                           T None [51] [] [T None [53] [] [HOLE; HOLE]; HOLE]] in
  holes_leaf t = true
  /\ hits_bin [47] [47] t []%list [[50; 47; 52]; [53]] = [[[0; 1]%nat]; [[1; 0]%nat]]
  /\ addressed_at true [47] t []%list [57] = [].
Proof. vm_compute. repeat split. Qed.
Local Close Scope N_scope.

(* ---- (4) any set of targets, nested or not.  What the code does: routes to all targets are kept;
   descendants (unless exact) only of the *lowest* targets — a target that lies above another target is
   in ancestors_to_prune and loses its other children like any ancestor. ---- *)

Theorem C14_detach_rule_general : forall N exact p,
  N <> [] -> survive (fun c => negb (detached N exact c)) p = keep_general N exact p.
Proof. exact survive_eq_keep_general. Qed.
Print Assumptions C14_detach_rule_general.

Theorem C14_prune_kept_nested : forall tsep sep t paths exact targets,
  tsep <> [] -> sep <> [] -> paths <> [] ->
  locate tsep sep (copy_tree t) paths = Ret targets ->
  exists r, prune_tree tsep t (PList paths) exact sep 0 = Ret r /\
            obs_tree r = map lbl_of (filter (fun ps => keep_general targets exact (fst ps)) (pre_pos t)).
Proof. exact prune_kept_general_model. Qed.
Print Assumptions C14_prune_kept_nested.

Theorem C14_keep_general_non_nested : forall N exact p,
  nested N = false -> keep_general N exact p = keep N exact p.
Proof. exact keep_general_non_nested. Qed.
Print Assumptions C14_keep_general_non_nested.

Local Open Scope N_scope.
(* r(a(b, c)), paths r/a and r/a/b, exact off: the code returns r, a, b.  The union "routes + everything
   below every target" would also contain c (it is below the target a): that formula is false for nested
   targets, which is why they are outside the claim. *)
Example C14_nested_union_refuted :
  let t := T None [114] [] [T None [97] [] [T None [98] [] []; T None [99] [] []]] in
  let paths := [[114; 47; 97]; [114; 47; 97; 47; 98]] in
  locate [47] [47] (copy_tree t) paths = Ret [[0]; [0; 0]]%nat
  /\ nested [[0]; [0; 0]]%nat = true
  /\ obs_of (run_call [47] t (CPrune (PList paths) false [47] 0%nat))
     = OTree [(1%nat, [114], []); (2%nat, [97], []); (3%nat, [98], [])]
  /\ map lbl_of (filter (fun ps => keep [[0]; [0; 0]]%nat false (fst ps)) (pre_pos t))
     = [(1%nat, [114], []); (2%nat, [97], []); (3%nat, [98], []); (3%nat, [99], [])].
Proof. vm_compute. repeat split. Qed.
Local Close Scope N_scope.

(* ---- (5) inner start node: what is above the returned node.  The whole copy after the surgery is
   `keep` of the whole tree (the start node's ancestors lose their other children), every node on the
   way to the start node is kept (the returned node is still attached, its depth stays absolute), and
   below the start node the whole copy shows exactly the returned subtree. ---- *)

Theorem C14_inner_result_in_whole_copy : forall N exact t st s,
  subtree_at t st = Some s -> N <> [] -> nested N = false -> (forall q, In q N -> prefix st q) ->
  obs_tree (prune_paths N exact (copy_tree t)) = sel (keep N exact) t /\
  keep N exact st = true /\
  sel (fun p => prefixb st p && keep N exact p) t =
  map (lbl_add (length st)) (obs_tree (prune_paths_at false N exact st (copy_tree s))).
Proof. exact inner_result_in_whole_copy. Qed.
Print Assumptions C14_inner_result_in_whole_copy.

Local Open Scope N_scope.
(* r(a(c, d), b), called on a with target r/a/c: the whole copy is r(a(c)) — b is gone too *)
Example C14_inner_whole_nonvacuous :
  let t := T None [114] [] [T None [97] [] [T None [99] [] []; T None [100] [] []]; T None [98] [] []] in
  subtree_at t [0]%nat <> None /\ nested [[0; 0]%nat] = false
  /\ obs_tree (prune_paths [[0; 0]%nat] false (copy_tree t))
     = [(1%nat, [114], []); (2%nat, [97], []); (3%nat, [99], [])].
Proof. vm_compute. repeat split. discriminate. Qed.
Local Close Scope N_scope.

(* ---- the umbrella: every case of the modelled domain — Node and BinaryNode trees, root and inner start
   nodes, prune_tree (any path list, str or list, exact on/off, every depth limit) and get_subtree, every
   tree separator of positive length.  Guards (`case_ok`): the start position exists; the paths satisfy
   `paths_ok` / `strip_ok` (C14_paths_ok_one_char, C14_paths_ok_wellformed, C14_paths_ok_of_rendered); for
   BinaryNode trees the encoding invariant `wf2` (an empty slot is HOLE, a real node has two slots — what
   the harness emits).  Inside prop_C14_at: ambiguous paths and nested targets make no claim. ---- *)

Theorem C14_umbrella : forall bin tsep t st call,
  case_ok bin tsep t st call ->
  prop_C14_at bin tsep t st call (obs_of (run_call_at bin tsep t st call)) = true /\
  prop_C14_top call (obs_of (run_call_at bin tsep t st call)) (top_depth st call) = true.
Proof. exact umbrella_C14. Qed.
Print Assumptions C14_umbrella.

(* the BinaryNode family on its own: prune_tree on root and inner nodes, get_subtree (addressed node and
   descendants to the given depth as a new root, every slot where it was, empty-slot markers included) *)
Theorem C14_model_satisfies_prop_binary : forall tsep t st s0 call,
  wf2 t = true -> subtree_at t st = Some s0 -> tsep <> [] -> call_ok_g tsep call ->
  prop_C14_at true tsep t st call (obs_of (run_call_at true tsep t st call)) = true.
Proof. exact model_satisfies_C14_bin. Qed.
Print Assumptions C14_model_satisfies_prop_binary.

Theorem C14_binary_get_subtree : forall tsep t st s0 s d,
  wf2 t = true -> subtree_at t st = Some s0 -> tsep <> [] -> strip_ok tsep s ->
  prop_C14_at true tsep t st (CSubtree s d) (obs_of (get_subtree_at true tsep t st s d)) = true.
Proof. exact get_subtree_at_bin_satisfies. Qed.
Print Assumptions C14_binary_get_subtree.

Theorem C14_binary_inner_prune : forall tsep t st s0 pp exact sep d,
  wf2 t = true -> subtree_at t st = Some s0 -> tsep <> [] -> sep <> [] -> paths_ok tsep sep (norm_paths pp) ->
  prop_C14_at true tsep t st (CPrune pp exact sep d) (obs_of (prune_tree_at true tsep t st pp exact sep d)) = true.
Proof. exact prune_tree_at_bin_satisfies. Qed.
Print Assumptions C14_binary_inner_prune.

(* the observation of the BinaryNode surgery, markers included; the depth cut is the same surgery *)
Theorem C14_binary_observation : forall t alive,
  wf2 t = true -> obs_tree (filter_tree_b alive t) = selb_gen true (survive alive) t.
Proof. exact obs_filter_b. Qed.
Print Assumptions C14_binary_observation.

Theorem C14_binary_depth_cut_is_surgery : forall d t,
  wf2 t = true -> depth_cut_x true d t = filter_tree_b (fun p => within_depth d (S (length p))) t.
Proof. exact depth_cut_x_true_filter. Qed.
Print Assumptions C14_binary_depth_cut_is_surgery.

Local Open Scope N_scope.
(* BinaryNode tree 1(2(-,4(6,-)), 3(5,-)), called on node 2: prune to "4" exact; get_subtree "4" depth 1 *)
Example C14_umbrella_nonvacuous :
  let t := T None [49] [] [T None [50] [] [HOLE; T None [52] [] [T None [54] [] [HOLE; HOLE]; HOLE]];
                           T None [51] [] [T None [53] [] [HOLE; HOLE]; HOLE]] in
  case_ok true [47] t [0]%nat (CPrune (PStr [52]) true [47] 0%nat)
  /\ obs_of (run_call_at true [47] t [0]%nat (CPrune (PStr [52]) true [47] 0%nat))
     = OTree [(1%nat, [50], []); (2%nat, [], []); (2%nat, [52], []); (3%nat, [], []); (3%nat, [], [])]
  /\ obs_of (run_call_at true [47] t [0]%nat (CSubtree [52] 1%nat))
     = OTree [(1%nat, [52], []); (2%nat, [], []); (2%nat, [], [])].
Proof.
  cbv zeta. split; [|split; vm_compute; reflexivity].
  split; [eexists; reflexivity|]. split; [discriminate|]. split; [|intros _; vm_compute; reflexivity].
  split; [discriminate|]. apply paths_ok_single.
Qed.
Local Close Scope N_scope.

(* ---- inner start node with a depth limit: the whole copy the returned node stays attached to.  It is
   `whole_expect`: kept by the path rule (if paths were given) and, below the start node only, within
   max_depth levels counted from the start node; above and beside the start node the depth limit changes
   nothing; below it the whole copy shows exactly the returned subtree.  `whole_copy_at` is compared with
   result.root on every inner-node prune_tree call of the correspondence run. ---- *)

Theorem C14_inner_whole_copy_depth : forall given N exact st d t,
  (given = true -> N <> [] /\ nested N = false) ->
  obs_tree (whole_copy_at given N exact st d t) = sel (whole_expect given N exact st d) t.
Proof. exact whole_copy_obs. Qed.
Print Assumptions C14_inner_whole_copy_depth.

Theorem C14_inner_whole_copy_above_below : forall given N exact st d t s,
  subtree_at t st = Some s ->
  (given = true -> N <> [] /\ nested N = false /\ (forall q, In q N -> prefix st q)) ->
  (forall p, prefixb st p = false -> whole_expect given N exact st d p = (negb given || keep N exact p)) /\
  sel (fun p => prefixb st p && whole_expect given N exact st d p) t =
  map (lbl_add (length st))
      (obs_tree (depth_cut_x false d (if given then prune_paths_at false N exact st (copy_tree s) else copy_tree s))).
Proof. exact whole_copy_above_below. Qed.
Print Assumptions C14_inner_whole_copy_above_below.

Local Open Scope N_scope.
(* r(a(c(e), d), b), prune_tree(a, max_depth=2): the whole copy is r(a(c, d), b) — b stays, e goes *)
Example C14_inner_whole_depth_nonvacuous :
  let t := T None [114] [] [T None [97] [] [T None [99] [] [T None [101] [] []]; T None [100] [] []];
                            T None [98] [] []] in
  obs_tree (whole_copy_at false [] false [0]%nat 2%nat t)
  = [(1%nat, [114], []); (2%nat, [97], []); (3%nat, [99], []); (3%nat, [100], []); (2%nat, [98], [])].
Proof. vm_compute. reflexivity. Qed.
Local Close Scope N_scope.

(* K3 (known finding): with the two-character separator "->" the faithful model — like the code —
   looks "r->a-" up as "r->a" (rstrip strips the character set {'-','>'}) and keeps the wrong node. *)
Example C14_multichar_sep_refuted :
  exists tsep t call,
    call_ok call /\ prop_C14 tsep t call (obs_of (run_call tsep t call)) = false.
Proof.
  exists [45; 62]%N.
  exists (T None [114%N] [] [T None [97%N] [] [T None [99%N] [] []];
                             T None [97%N; 45%N] [] [T None [100%N] [] []]]).
  exists (CPrune (PStr [114; 45; 62; 97; 45]%N) false [45; 62]%N 0).
  split; [discriminate|vm_compute; reflexivity].
Qed.
