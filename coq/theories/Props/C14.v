(* C14 — prune_tree and get_subtree return exactly the specified part of the tree.
   Only the property theorems; the proofs are in Algo/HelperProofs.v, the model in Algo/Helper.v,
   the predicate prop_C14 in Spec/PC14.v.

   Vocabulary: a node is its position (child indices from the root); `pre_pos t` lists all
   (position, node) in pre-order; `lbl_of` = (depth, name, attributes); `obs_tree r` = the labels of
   r in pre-order (this list determines the ordered tree r up to object identity);
   `addressed tsep t s` = the positions whose path_name has `s` (without trailing separators) as a
   trailing part; `keep targets exact p` = p is on a route root -> target, or (unless exact) below a
   target.  Guards: the start node is a root (built into the model), the targets are non-nested
   (`nested _ = false`), and — where the statement speaks about `addressed` — the tree's separator is
   a single character `[c]` (K3: with a multi-character separator str.rstrip strips a character set;
   see C14_multichar_sep_refuted). *)
From BT Require Import Base.Prelude Base.Str Base.Rose Algo.Helper Spec.PC14 Algo.HelperProofs.

(* The model satisfies the whole property predicate — the predicate the check evaluates on the
   implementation's outputs — for every tree, call, flag, depth limit and one-character separator. *)
Theorem C14_model_satisfies_prop : forall c t call,
  call_ok call -> prop_C14 [c] t call (obs_of (run_call [c] t call)) = true.
Proof. exact model_satisfies_C14. Qed.
Print Assumptions C14_model_satisfies_prop.

(* Kept-node set.  pre-order labels of the result = filter keep (pre-order of the input), for the
   targets the paths address, non-nested; any depth limit d (0 = none) on top. *)
Theorem C14_prune_kept : forall c sep t paths exact d,
  sep <> [] -> paths <> [] ->
  singletons (hits_of c sep t paths) = true ->
  nested (concat (hits_of c sep t paths)) = false ->
  exists r, prune_tree [c] t (PList paths) exact sep d = Ret r /\
            obs_tree r =
            map lbl_of (filter (fun ps => keep (concat (hits_of c sep t paths)) exact (fst ps)
                                          && within_depth d (S (length (fst ps)))) (pre_pos t)).
Proof. exact prune_kept_spec. Qed.
Print Assumptions C14_prune_kept.

Local Open Scope N_scope.
Example C14_prune_kept_nonvacuous :
  let t := T None [114] [] [T None [97] [] [T None [99] [] []; T None [100] [] []];
                            T None [120; 97] [] [T None [101] [] []]; T None [98] [] []] in
  let paths := [[114; 47; 97; 47; 99]; [98]] in
  singletons (hits_of 47 [47] t paths) = true
  /\ nested (concat (hits_of 47 [47] t paths)) = false
  /\ concat (hits_of 47 [47] t paths) = [[0; 0]; [2]]%nat.
Proof. vm_compute. repeat split. Qed.
Local Close Scope N_scope.

(* The same statement on the targets the model's own find_path returns: holds for all separators,
   including multi-character ones. *)
Theorem C14_prune_kept_any_sep : forall tsep sep t paths exact targets,
  tsep <> [] -> sep <> [] -> paths <> [] ->
  locate tsep sep (copy_tree t) paths = Ret targets -> nested targets = false ->
  exists r, prune_tree tsep t (PList paths) exact sep 0 = Ret r /\
            obs_tree r = map lbl_of (filter (fun ps => keep targets exact (fst ps)) (pre_pos t)).
Proof. exact prune_kept_model. Qed.
Print Assumptions C14_prune_kept_any_sep.

(* The detach rule on positions: a node survives the surgery iff it is kept (non-nested targets). *)
Theorem C14_detach_rule : forall N exact p,
  N <> [] -> non_nested N ->
  survive (fun c => negb (detached N exact c)) p = keep N exact p.
Proof. exact survive_eq_keep. Qed.
Print Assumptions C14_detach_rule.

(* Depth limit alone: exactly the nodes of depth <= max_depth. *)
Theorem C14_prune_depth : forall tsep t exact sep d,
  tsep <> [] -> sep <> [] -> 0 < d ->
  exists r, prune_tree tsep t (PList []) exact sep d = Ret r /\
            obs_tree r = filter (fun l => Nat.leb (lbl_depth l) d) (obs_tree t).
Proof. exact prune_depth. Qed.
Print Assumptions C14_prune_depth.

(* the level-group formulation of the code = the structural cut *)
Theorem C14_depth_cut_levels : forall d t,
  obs_tree (depth_cut d t) = filter (fun l => within_depth d (lbl_depth l)) (obs_tree t).
Proof. exact depth_cut_obs. Qed.
Print Assumptions C14_depth_cut_levels.

(* Original order and attributes: whatever prune_tree returns is an order-preserving selection of
   the input's nodes, each with its depth, name and attributes — no guard at all. *)
Theorem C14_prune_attrs_order : forall tsep t pp exact sep d r,
  prune_tree tsep t pp exact sep d = Ret r ->
  exists P, obs_tree r = map lbl_of (filter (fun ps => P (fst ps)) (pre_pos t)).
Proof. exact prune_attrs_order. Qed.
Print Assumptions C14_prune_attrs_order.

(* A path that addresses no node is an error, also next to paths that do match. *)
Theorem C14_missing_path_error : forall c sep t paths exact d s,
  sep <> [] -> In s paths -> addressed [c] t (replace s sep [c]) = [] ->
  exists e, prune_tree [c] t (PList paths) exact sep d = Raise e.
Proof. exact missing_path_error. Qed.
Print Assumptions C14_missing_path_error.

Theorem C14_missing_subtree_error : forall c t s d,
  s <> [] -> addressed [c] t s = [] -> get_subtree [c] t s d = Raise ValueError.
Proof. exact missing_subtree_error. Qed.
Print Assumptions C14_missing_subtree_error.

Local Open Scope N_scope.
Example C14_missing_path_nonvacuous :
  let t := T None [114] [] [T None [97] [] []; T None [98] [] []] in
  addressed [47] t (replace [122; 122] [47] [47]) = []
  /\ addressed [47] t (replace [97] [47] [47]) = [[0]]%nat.
Proof. vm_compute. split; reflexivity. Qed.
Local Close Scope N_scope.

Theorem C14_no_arguments_error : forall tsep t exact sep,
  prune_tree tsep t (PStr []) exact sep 0 = Raise ValueError /\
  prune_tree tsep t (PList []) exact sep 0 = Raise ValueError.
Proof. exact prune_no_arguments. Qed.
Print Assumptions C14_no_arguments_error.

(* get_subtree: the addressed node and its descendants down to relative depth d, depths counted
   from the new root, original order, names and attributes. *)
Theorem C14_subtree_spec : forall c t s d q,
  s <> [] -> addressed [c] t s = [q] ->
  exists r, get_subtree [c] t s d = Ret r /\
            obs_tree r =
            map (fun ps => (S (length (fst ps)) - length q, tname (snd ps), tattrs (snd ps)))
                (filter (fun ps => prefixb q (fst ps)
                                   && within_depth d (S (length (fst ps)) - length q)) (pre_pos t)).
Proof. exact subtree_spec. Qed.
Print Assumptions C14_subtree_spec.

Theorem C14_subtree_root_spec : forall tsep t d,
  tsep <> [] ->
  exists r, get_subtree tsep t [] d = Ret r /\ obs_tree r = expected_subtree t [] d.
Proof. exact subtree_root_spec. Qed.
Print Assumptions C14_subtree_root_spec.

Local Open Scope N_scope.
Example C14_subtree_nonvacuous :
  let t := T None [114] [] [T None [97] [] [T None [99] [] [T None [101] [] []]; T None [100] [] []];
                            T None [98] [] []] in
  addressed [47] t [97] = [[0]]%nat
  /\ expected_subtree t [0]%nat 2%nat = [(1%nat, [97], []); (2%nat, [99], []); (2%nat, [100], [])].
Proof. vm_compute. split; reflexivity. Qed.
Local Close Scope N_scope.

(* K3 (known finding): with the two-character separator "->" the faithful model — like the code —
   looks "r->a-" up as "r->a" (rstrip strips the character set {'-','>'}) and keeps the wrong node. *)
Example C14_multichar_sep_refuted :
  exists tsep t call,
    call_ok call /\ prop_C14 tsep t call (obs_of (run_call tsep t call)) = false.
Proof.
  exists [45; 62]%N.
  exists (T None [114%N] [] [T None [97%N] [] [T None [99%N] [] []];
                             T None [97%N; 45%N] [] [T None [100%N] [] []]]).
  exists (CPrune (PStr [114; 45; 62; 97; 45]%N) false [45; 62]%N 0).
  split; [discriminate|vm_compute; reflexivity].
Qed.
