(* C17 — DAG exports are complete and re-importing them reproduces the DAG: more of the property.
   Only statements; the proofs live in Algo/C17More.v (on top of Algo/DagAlgoProofs.v).
     - the dict / DataFrame round trips without the guard "the exported keys of a node are pairwise
       distinct" (`norm a` = the exported attribute list a read as a Python dict), and the exact
       boundary of the remaining guard of the dict round trip (reserved keys);
     - the three exports do not depend on the start node;
     - a DAG without edges exports to nothing and the constructors refuse that;
     - the rebuilt table is again a well-formed, acyclic, weakly connected DAG with distinct names and
       the same number of nodes, and exporting it again, from any of its nodes, gives the first export;
     - all of it for the graphs `dabs s` built by DAGNode operation histories (heap model of C10).
   Both DAG models define `dag`, `dsize`, `parents`, `children`; heap names are written `Dag.x`. *)
From BT Require Import Base.Prelude Base.Str Base.Rose Heap.Dag Heap.DagProofs
     Algo.DagAlgo Algo.DagIO Spec.PC16 Spec.PC17 Algo.DagAlgoProofs Heap.DagAbs Algo.C17More.
Require Import Permutation.

(* ------------------------------------------------------------------------------------------- *)
(* `norm a` = dict(a): distinct keys, the keys of a, each with its LAST value in a; a itself when the
   keys of a are already distinct (so the theorems below contain C17_roundtrip_dict / _df) *)
Theorem C17_norm_is_the_dict : forall a,
  NoDup (map fst (norm a))
  /\ (forall k, In k (map fst (norm a)) <-> In k (map fst a))
  /\ (forall k, get_attr (norm a) k = get_attr (rev a) k)
  /\ (NoDup (map fst a) -> norm a = a).
Proof.
  intros a. split; [apply norm_nodup|]. split; [intros k; apply norm_keys|].
  split; [intros k; apply norm_get|apply norm_id].
Qed.
Print Assumptions C17_norm_is_the_dict.

(* dict_to_dag (dag_to_dict g x md) for ANY attribute selection that exports no reserved key: same
   names, same edges, and every node carries the dict of its exported attributes *)
Theorem C17_roundtrip_dict_any_keys : forall g r x md,
  Wf g -> Ranked g r -> DistinctNames g -> WeaklyConnected g -> x < DagAlgo.dsize g -> (exists p c, Edge g p c) ->
  (forall y, y < DagAlgo.dsize g -> existsb (fun kv => reserved (fst kv)) (export_attrs md (nattrs g y)) = false) ->
  exists d b ret, dag_to_dict g x md = Ret d /\ dict_to_dag d = Ret (b, Some ret)
    /\ Good b
    /\ SameNames g (b_names b)
    /\ NoDup (b_edges b)
    /\ (forall pn cn, HasEdge b pn cn <-> exists p c, Edge g p c /\ pn = name g p /\ cn = name g c)
    /\ length (b_attrs b) = bsize b
    /\ (forall i y, i < bsize b -> y < DagAlgo.dsize g -> bname b i = name g y ->
          nth i (b_attrs b) [] = norm (export_attrs md (nattrs g y))).
Proof. exact roundtrip_dict_general. Qed.
Print Assumptions C17_roundtrip_dict_any_keys.

(* the remaining guard is exact: a node exporting parent / parents / children makes dict_to_dag
   refuse the (successfully) exported dictionary with ValueError ... *)
Theorem C17_roundtrip_dict_reserved_refused : forall g r x md,
  Wf g -> Ranked g r -> DistinctNames g -> WeaklyConnected g -> x < DagAlgo.dsize g -> (exists p c, Edge g p c) ->
  (exists y, y < DagAlgo.dsize g /\ existsb (fun kv => reserved (fst kv)) (export_attrs md (nattrs g y)) = true) ->
  exists d, dag_to_dict g x md = Ret d /\ dict_to_dag d = Raise ValueError.
Proof. exact roundtrip_dict_reserved_refused. Qed.
Print Assumptions C17_roundtrip_dict_reserved_refused.

(* ... so the dict round trip succeeds exactly when no reserved key is exported *)
Theorem C17_roundtrip_dict_succeeds_iff : forall g r x md,
  Wf g -> Ranked g r -> DistinctNames g -> WeaklyConnected g -> x < DagAlgo.dsize g -> (exists p c, Edge g p c) ->
  exists d, dag_to_dict g x md = Ret d
    /\ ((exists bl, dict_to_dag d = Ret bl)
        <-> forall y, y < DagAlgo.dsize g -> existsb (fun kv => reserved (fst kv)) (export_attrs md (nattrs g y)) = false).
Proof. exact roundtrip_dict_succeeds_iff. Qed.
Print Assumptions C17_roundtrip_dict_succeeds_iff.

(* dataframe_to_dag (dag_to_dataframe g x md) for ANY attribute selection: no guard at all *)
Theorem C17_roundtrip_df_any_keys : forall g r x md,
  Wf g -> Ranked g r -> DistinctNames g -> WeaklyConnected g -> x < DagAlgo.dsize g -> (exists p c, Edge g p c) ->
  exists b ret, dataframe_to_dag (dag_to_dataframe g x md) = Ret (b, Some ret)
    /\ Good b
    /\ SameNames g (b_names b)
    /\ NoDup (b_edges b)
    /\ (forall pn cn, HasEdge b pn cn <-> exists p c, Edge g p c /\ pn = name g p /\ cn = name g c)
    /\ length (b_attrs b) = bsize b
    /\ (forall i y, i < bsize b -> y < DagAlgo.dsize g -> bname b i = name g y ->
          nth i (b_attrs b) [] = norm (non_null (export_attrs md (nattrs g y)))).
Proof. exact roundtrip_df_general. Qed.
Print Assumptions C17_roundtrip_df_any_keys.

(* ------------------------------------------------------------------------------------------- *)
(* the exports do not depend on the node they are started from: same relations, same rows, same
   entries (names, attributes, parents up to order) *)
Theorem C17_list_start_independent : forall g r x x',
  Wf g -> Ranked g r -> DistinctNames g -> WeaklyConnected g -> x < DagAlgo.dsize g -> x' < DagAlgo.dsize g ->
  Permutation (dag_to_list g x) (dag_to_list g x').
Proof. exact list_start_independent. Qed.
Print Assumptions C17_list_start_independent.

Theorem C17_df_start_independent : forall g r x x' md,
  Wf g -> Ranked g r -> DistinctNames g -> WeaklyConnected g -> x < DagAlgo.dsize g -> x' < DagAlgo.dsize g ->
  Permutation (dag_to_dataframe g x md) (dag_to_dataframe g x' md).
Proof. exact df_start_independent. Qed.
Print Assumptions C17_df_start_independent.

Theorem C17_dict_start_independent : forall g r x x' md,
  Wf g -> Ranked g r -> DistinctNames g -> WeaklyConnected g -> x < DagAlgo.dsize g -> x' < DagAlgo.dsize g ->
  (exists p c, Edge g p c) ->
  exists d d', dag_to_dict g x md = Ret d /\ dag_to_dict g x' md = Ret d'
    /\ Permutation (map de_name d) (map de_name d')
    /\ forall e e', In e d -> In e' d' -> de_name e = de_name e' ->
         de_attrs e = de_attrs e' /\ same_parents (de_parents e) (de_parents e').
Proof. exact dict_start_independent. Qed.
Print Assumptions C17_dict_start_independent.

(* ------------------------------------------------------------------------------------------- *)
(* a DAG without edges (weakly connected: a single node) exports to nothing in all three formats,
   and each constructor refuses that export with ValueError *)
Theorem C17_no_edge_exports_nothing : forall g x md,
  Wf g -> (forall p c, ~ Edge g p c) ->
  dag_to_list g x = [] /\ dag_to_dict g x md = Ret [] /\ dag_to_dataframe g x md = []
  /\ list_to_dag (dag_to_list g x) = Raise ValueError
  /\ (forall d, dag_to_dict g x md = Ret d -> dict_to_dag d = Raise ValueError)
  /\ dataframe_to_dag (dag_to_dataframe g x md) = Raise ValueError.
Proof. exact no_edge_exports_nothing. Qed.
Print Assumptions C17_no_edge_exports_nothing.

Theorem C17_connected_without_edge_is_single : forall g,
  WeaklyConnected g -> (forall p c, ~ Edge g p c) -> DagAlgo.dsize g <= 1.
Proof. exact connected_no_edge_single. Qed.
Print Assumptions C17_connected_without_edge_is_single.

(* ------------------------------------------------------------------------------------------- *)
(* any table with g's names and g's edges (by name) that satisfies the constructors' invariant is a
   DAG like g ... *)
Theorem C17_rebuilt_is_dag : forall g b,
  DistinctNames g -> WeaklyConnected g -> Good b -> SameNames g (b_names b) ->
  (forall pn cn, HasEdge b pn cn <-> exists p c, Edge g p c /\ pn = name g p /\ cn = name g c) ->
  Wf (b_dag b) /\ Acyclic (b_dag b) /\ DistinctNames (b_dag b) /\ WeaklyConnected (b_dag b)
  /\ DagAlgo.dsize (b_dag b) = DagAlgo.dsize g.
Proof. exact rebuilt_is_dag. Qed.
Print Assumptions C17_rebuilt_is_dag.

(* ... and for the three round trips: the rebuilt DAG is such a DAG, and dag_to_list of it, from any
   of its nodes, is the first export again (RebuiltLike g x b, Algo/C17More.v) *)
Theorem C17_reexport_list : forall g r x,
  Wf g -> Ranked g r -> DistinctNames g -> WeaklyConnected g -> x < DagAlgo.dsize g -> (exists p c, Edge g p c) ->
  exists b ret, list_to_dag (dag_to_list g x) = Ret (b, Some ret)
    /\ Wf (b_dag b) /\ Acyclic (b_dag b) /\ DistinctNames (b_dag b) /\ WeaklyConnected (b_dag b)
    /\ DagAlgo.dsize (b_dag b) = DagAlgo.dsize g
    /\ forall z, z < bsize b -> Permutation (dag_to_list (b_dag b) z) (dag_to_list g x).
Proof. exact roundtrip_list_reexport. Qed.
Print Assumptions C17_reexport_list.

Theorem C17_reexport_dict : forall g r x md,
  Wf g -> Ranked g r -> DistinctNames g -> WeaklyConnected g -> x < DagAlgo.dsize g -> (exists p c, Edge g p c) ->
  (forall y, y < DagAlgo.dsize g -> existsb (fun kv => reserved (fst kv)) (export_attrs md (nattrs g y)) = false) ->
  exists d b ret, dag_to_dict g x md = Ret d /\ dict_to_dag d = Ret (b, Some ret)
    /\ Wf (b_dag b) /\ Acyclic (b_dag b) /\ DistinctNames (b_dag b) /\ WeaklyConnected (b_dag b)
    /\ DagAlgo.dsize (b_dag b) = DagAlgo.dsize g
    /\ forall z, z < bsize b -> Permutation (dag_to_list (b_dag b) z) (dag_to_list g x).
Proof. exact roundtrip_dict_reexport. Qed.
Print Assumptions C17_reexport_dict.

Theorem C17_reexport_df : forall g r x md,
  Wf g -> Ranked g r -> DistinctNames g -> WeaklyConnected g -> x < DagAlgo.dsize g -> (exists p c, Edge g p c) ->
  exists b ret, dataframe_to_dag (dag_to_dataframe g x md) = Ret (b, Some ret)
    /\ Wf (b_dag b) /\ Acyclic (b_dag b) /\ DistinctNames (b_dag b) /\ WeaklyConnected (b_dag b)
    /\ DagAlgo.dsize (b_dag b) = DagAlgo.dsize g
    /\ forall z, z < bsize b -> Permutation (dag_to_list (b_dag b) z) (dag_to_list g x).
Proof. exact roundtrip_df_reexport. Qed.
Print Assumptions C17_reexport_df.

(* ------------------------------------------------------------------------------------------- *)
(* bridge to the heap model of DAGNode (C10): for every state s reachable through the structural API,
   the exports of `dabs s` list exactly the heap's links by name (heap_edge s pn cn: some p in the
   parents list of some c, pn / cn their names), from every start node, and the constructors rebuild
   a DAG with the heap's names (heap_names) and links; the heap model has no user attributes *)
Theorem C17_list_roundtrip_on_reachable_states : forall cfg n names ops x,
  let s := drun cfg (dinit n names) ops in
  let g := dabs s in
  DistinctNames g -> WeaklyConnected g -> x < Dag.dsize s -> (exists p c, In p (Dag.parents s c)) ->
  (forall pn cn, In (pn, cn) (dag_to_list g x) <-> heap_edge s pn cn)
  /\ NoDup (dag_to_list g x)
  /\ (forall x', x' < Dag.dsize s -> Permutation (dag_to_list g x) (dag_to_list g x'))
  /\ exists b ret, list_to_dag (dag_to_list g x) = Ret (b, Some ret)
       /\ heap_names s (b_names b) /\ NoDup (b_edges b)
       /\ (forall pn cn, HasEdge b pn cn <-> heap_edge s pn cn)
       /\ RebuiltLike g x b.
Proof. exact reachable_list_roundtrip. Qed.
Print Assumptions C17_list_roundtrip_on_reachable_states.

Theorem C17_dict_roundtrip_on_reachable_states : forall cfg n names ops x md,
  let s := drun cfg (dinit n names) ops in
  let g := dabs s in
  DistinctNames g -> WeaklyConnected g -> x < Dag.dsize s -> (exists p c, In p (Dag.parents s c)) ->
  existsb (fun kv => reserved (fst kv)) (export_attrs md []) = false ->
  exists d b ret, dag_to_dict g x md = Ret d /\ dict_to_dag d = Ret (b, Some ret)
       /\ heap_names s (b_names b) /\ NoDup (b_edges b)
       /\ (forall pn cn, HasEdge b pn cn <-> heap_edge s pn cn)
       /\ length (b_attrs b) = bsize b
       /\ (forall i, i < bsize b -> nth i (b_attrs b) [] = norm (export_attrs md []))
       /\ RebuiltLike g x b.
Proof. exact reachable_dict_roundtrip. Qed.
Print Assumptions C17_dict_roundtrip_on_reachable_states.

Theorem C17_df_roundtrip_on_reachable_states : forall cfg n names ops x md,
  let s := drun cfg (dinit n names) ops in
  let g := dabs s in
  DistinctNames g -> WeaklyConnected g -> x < Dag.dsize s -> (exists p c, In p (Dag.parents s c)) ->
  exists b ret, dataframe_to_dag (dag_to_dataframe g x md) = Ret (b, Some ret)
       /\ heap_names s (b_names b) /\ NoDup (b_edges b)
       /\ (forall pn cn, HasEdge b pn cn <-> heap_edge s pn cn)
       /\ length (b_attrs b) = bsize b
       /\ (forall i, i < bsize b -> nth i (b_attrs b) [] = norm (non_null (export_attrs md [])))
       /\ RebuiltLike g x b.
Proof. exact reachable_df_roundtrip. Qed.
Print Assumptions C17_df_roundtrip_on_reachable_states.

(* ------------------------------------------------------------------------------------------- *)
(* not vacuous.  ex17 (Algo/C17More.v): a -> b, a -> c, b -> d, c -> d, a -> d; `step` on a, b, d and
   `lvl` on a, d.  m_dup exports BOTH attributes under the one key "s" (the guard of
   C17_roundtrip_dict / _df fails), m_res exports `step` under the reserved key "parent". *)
Definition m_dup : amode := AttrDict [(k_step, [115]%N); (k_lvl, [115]%N)].
Definition m_res : amode := AttrDict [(k_step, [112; 97; 114; 101; 110; 116]%N)].

Example C17_more_hypotheses :
  Wf ex17 /\ Ranked ex17 ex17_rank /\ DistinctNames ex17 /\ WeaklyConnected ex17 /\ 3 < DagAlgo.dsize ex17
  /\ (exists p c, Edge ex17 p c)
  /\ (forall y, y < DagAlgo.dsize ex17 ->
        existsb (fun kv => reserved (fst kv)) (export_attrs m_dup (nattrs ex17 y)) = false)
  /\ (exists y, y < DagAlgo.dsize ex17 /\ existsb (fun kv => reserved (fst kv)) (export_attrs m_res (nattrs ex17 y)) = true)
  /\ ~ NoDup (map fst (export_attrs m_dup (nattrs ex17 0))).
Proof.
  split; [exact ex17_wf|]. split; [exact ex17_ranked|]. split; [exact ex17_distinct|].
  split; [exact ex17_connected|]. split; [vm_compute; lia|]. split; [exact ex17_edge|].
  split; [intros y Hy; cbn in Hy; destruct y as [|[|[|[|y]]]]; [| | | |lia]; vm_compute; reflexivity|].
  split; [exists 0; split; [vm_compute; lia|vm_compute; reflexivity]|].
  vm_compute. intros H. inversion H as [|? ? Hn _]. apply Hn. left. reflexivity.
Qed.

Example C17_more_values :
  (* both attributes under one key: the rebuilt nodes hold the dict (last value wins) *)
  (exists d b, dag_to_dict ex17 3 m_dup = Ret d /\ dict_to_dag d = Ret (b, Some 3)
     /\ b_names b = [[100]; [98]; [99]; [97]]%N
     /\ b_attrs b = [[([115]%N, VInt 9)]; [([115]%N, VNone)]; [([115]%N, VNone)]; [([115]%N, VInt 7)]]
     /\ b_edges b = [(1, 0); (2, 0); (3, 0); (3, 1); (3, 2)])
  /\ (exists b, dataframe_to_dag (dag_to_dataframe ex17 3 m_dup) = Ret (b, Some 3)
     /\ b_attrs b = [[([115]%N, VInt 9)]; [([115]%N, VInt 2)]; []; [([115]%N, VInt 7)]])
  (* a reserved key: exported, then refused *)
  /\ (exists d, dag_to_dict ex17 3 m_res = Ret d /\ dict_to_dag d = Raise ValueError)
  (* two start nodes: different lists, same relations *)
  /\ dag_to_list ex17 3 = [([98], [100]); ([99], [100]); ([97], [100]); ([97], [98]); ([97], [99])]%N
  /\ dag_to_list ex17 0 = [([97], [98]); ([97], [99]); ([97], [100]); ([98], [100]); ([99], [100])]%N
  (* exporting the rebuilt DAG from the node the constructor returned *)
  /\ (exists b, list_to_dag (dag_to_list ex17 3) = Ret (b, Some 3)
        /\ dag_to_list (b_dag b) 3 = [([97], [100]); ([97], [98]); ([97], [99]); ([98], [100]); ([99], [100])]%N)
  (* a single node: nothing to export, nothing to build *)
  /\ dag_to_list [DN [97]%N [] [] []] 0 = [] /\ list_to_dag [] = Raise ValueError.
Proof.
  vm_compute.
  split; [eexists; eexists; repeat split|]. split; [eexists; repeat split|].
  split; [eexists; repeat split|]. split; [reflexivity|]. split; [reflexivity|].
  split; [eexists; repeat split|]. split; reflexivity.
Qed.

(* the history of Props/C10.v / C16_bridge.v (ex17_state: 0 -> 1 -> 2 -> 3 plus 0 -> 2, names a..d)
   meets the hypotheses of the bridge theorems; its links are exported, by name, from both ends, and
   rebuilt *)
Example C17_more_bridge_values :
  let s := ex17_state in
  DistinctNames (dabs s) /\ WeaklyConnected (dabs s) /\ 0 < Dag.dsize s /\ (exists p c, In p (Dag.parents s c))
  /\ dag_to_list (dabs s) 0 = [([97], [98]); ([97], [99]); ([98], [99]); ([99], [100])]%N
  /\ dag_to_list (dabs s) 3 = [([99], [100]); ([98], [99]); ([97], [99]); ([97], [98])]%N
  /\ exists b, list_to_dag (dag_to_list (dabs s) 0) = Ret (b, Some 2)
       /\ b_names b = [[97]; [98]; [99]; [100]]%N /\ b_edges b = [(0, 1); (0, 2); (1, 2); (2, 3)].
Proof.
  destruct ex17_state_hyps as [H1 [H2 [H3 H4]]].
  split; [exact H1|]. split; [exact H2|]. split; [exact H3|]. split; [exact H4|].
  vm_compute. split; [reflexivity|]. split; [reflexivity|]. eexists. repeat split.
Qed.
