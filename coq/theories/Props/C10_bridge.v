(* C10, graph view — every operation of the DAGNode API is an edit of the edge set of the pure graph
   `dabs s` (Heap/DagAbs.v) on which the DAG algorithms of C16 are stated (`Edge`, `Reach` of
   Spec/PC16.v).  Model: Heap/Dag.v; list-level effects: Heap/DagProofs.v (Props/C10.v, Props/C02_dag.v);
   proofs of this file: Heap/DagEdits.v.

     asks s o a b     : the assignment o, called in state s, requests the edge a -> b (DagProofs.v)
     removes s o a b  : the deletion o, called in state s, names the edge a -> b      (DagEdits.v)
     survives cfg s post a b : running post from s, no accepted deletion names a -> b (DagEdits.v)

   Both models define `dag`, `dsize`, `parents`, `children`; heap names are written `Dag.x`. *)
From BT Require Import Base.Prelude Base.Str Base.Rose Heap.Dag Spec.PC10 Heap.DagProofs
     Algo.DagAlgo Spec.PC16 Algo.DagAlgoProofs Heap.DagAbs Heap.DagEdits.

(* --- (1) assignments only add edges ---------------------------------------------------------- *)

(* parents setter, children setter, >>, <<, constructor -- whatever the outcome (accepted, refused,
   failing hook): every edge of the graph before is an edge of the graph after *)
Theorem C10_edges_only_added : forall cfg s o, DWF s -> is_assignment o = true ->
  forall a b, Edge (dabs s) a b -> Edge (dabs (fst (dstep cfg s o))) a b.
Proof. exact edges_only_added. Qed.
Print Assumptions C10_edges_only_added.

(* --- (2) the exact edge set after an accepted operation --------------------------------------- *)

(* all assignments at once *)
Theorem C10_assignment_edges_exact : forall cfg s o s', DWF s -> is_assignment o = true ->
  dstep cfg s o = (s', Ok) ->
  forall a b, Edge (dabs s') a b <-> Edge (dabs s) a b \/ asks s o a b.
Proof. exact assignment_edges_exact. Qed.
Print Assumptions C10_assignment_edges_exact.

(* c.parents = ps *)
Theorem C10_set_parents_edges_exact : forall cfg s c cont args ft s', DWF s ->
  dstep cfg s (SetParents c cont args ft) = (s', Ok) ->
  forall a b, Edge (dabs s') a b <-> Edge (dabs s) a b \/ (b = c /\ In a (ids_of args)).
Proof. exact set_parents_edges_exact. Qed.
Print Assumptions C10_set_parents_edges_exact.

(* p.children = cs *)
Theorem C10_set_children_edges_exact : forall cfg s p cont args ft s', DWF s ->
  dstep cfg s (SetKids p cont args ft) = (s', Ok) ->
  forall a b, Edge (dabs s') a b <-> Edge (dabs s) a b \/ (a = p /\ In b (ids_of args)).
Proof. exact set_children_edges_exact. Qed.
Print Assumptions C10_set_children_edges_exact.

(* p >> c   and   c << p *)
Theorem C10_shift_edges_exact : forall cfg s p c ft s', DWF s ->
  dstep cfg s (DRShift p c ft) = (s', Ok) \/ dstep cfg s (DLShift c p ft) = (s', Ok) ->
  forall a b, Edge (dabs s') a b <-> Edge (dabs s) a b \/ (a = p /\ b = c).
Proof.
  intros cfg s p c ft s' W [E|E].
  - exact (rshift_edges_exact cfg s p c ft s' W E).
  - exact (lshift_edges_exact cfg s c p ft s' W E).
Qed.
Print Assumptions C10_shift_edges_exact.

(* DAGNode(nm, parents=pa, children=ca); the fresh object is node `Dag.dsize s` *)
Theorem C10_constructor_edges_exact : forall cfg s nm pa ca ftp ftc s', DWF s ->
  dstep cfg s (DNew nm pa ca ftp ftc) = (s', Ok) ->
  forall a b, Edge (dabs s') a b <->
    Edge (dabs s) a b \/ (b = Dag.dsize s /\ In a (ids_of (carg_args pa)))
                      \/ (a = Dag.dsize s /\ In b (ids_of (carg_args ca))).
Proof. exact construct_edges_exact. Qed.
Print Assumptions C10_constructor_edges_exact.

(* deletions: `del p.children` removes exactly the edges that start in p; `del p[nm]` (accepted iff
   at most one child of p is called nm) removes exactly the edge from p to that child *)
Theorem C10_deletion_edges_exact : forall cfg s o s', DWF s -> is_assignment o = false ->
  dstep cfg s o = (s', Ok) ->
  forall a b, Edge (dabs s') a b <-> Edge (dabs s) a b /\ ~ removes s o a b.
Proof. exact deletion_edges_exact. Qed.
Print Assumptions C10_deletion_edges_exact.

Theorem C10_del_children_edges_exact : forall cfg s p s', DWF s ->
  dstep cfg s (DelKids p) = (s', Ok) ->
  forall a b, Edge (dabs s') a b <-> Edge (dabs s) a b /\ a <> p.
Proof. exact del_children_edges_exact. Qed.
Print Assumptions C10_del_children_edges_exact.

Theorem C10_del_item_edges_exact : forall cfg s p nm s', DWF s ->
  dstep cfg s (DelKid p nm) = (s', Ok) ->
  forall a b, Edge (dabs s') a b <-> Edge (dabs s) a b /\ ~ (a = p /\ Dag.dname s b = nm).
Proof. exact del_item_edges_exact. Qed.
Print Assumptions C10_del_item_edges_exact.

(* every accepted operation in one formula: old edges minus the named ones plus the requested ones *)
Theorem C10_step_edges_exact : forall cfg s o s', DWF s -> dstep cfg s o = (s', Ok) ->
  forall a b, Edge (dabs s') a b <-> (Edge (dabs s) a b /\ ~ removes s o a b) \/ asks s o a b.
Proof. exact step_edges_exact. Qed.
Print Assumptions C10_step_edges_exact.

(* --- (3) reachability -------------------------------------------------------------------------- *)

(* assignments (any outcome) only extend Reach, and the graph after ANY operation has no cycle *)
Theorem C10_reach_monotone_and_acyclic : forall cfg s o, DWF s ->
  (is_assignment o = true ->
     forall a b, Reach (dabs s) a b -> Reach (dabs (fst (dstep cfg s o))) a b)
  /\ (forall y, ~ Reach (dabs (fst (dstep cfg s o))) y y).
Proof.
  intros cfg s o W. split.
  - intros Ha. exact (reach_monotone cfg s o W Ha).
  - exact (step_acyclic cfg s o W).
Qed.
Print Assumptions C10_reach_monotone_and_acyclic.

(* deletions (any outcome) only shrink Edge and Reach *)
Theorem C10_deletion_reach_antitone : forall cfg s o, DWF s -> is_assignment o = false ->
  forall a b, (Edge (dabs (fst (dstep cfg s o))) a b -> Edge (dabs s) a b)
           /\ (Reach (dabs (fst (dstep cfg s o))) a b -> Reach (dabs s) a b).
Proof.
  intros cfg s o W Hd a b. split.
  - exact (deletion_only_removes cfg s o W Hd a b).
  - exact (reach_antitone_deletion cfg s o W Hd a b).
Qed.
Print Assumptions C10_deletion_reach_antitone.

(* an accepted request a -> b never points back: b is not a and b does not reach a *)
Theorem C10_accepted_request_no_back_path : forall cfg s o s', DWF s ->
  dstep cfg s o = (s', Ok) ->
  forall a b, asks s o a b -> a <> b /\ ~ Reach (dabs s) b a.
Proof. exact accepted_request_no_back_path. Qed.
Print Assumptions C10_accepted_request_no_back_path.

(* a history of assignments only extends Reach *)
Theorem C10_reach_monotone_history : forall cfg ops s, DWF s ->
  forallb is_assignment ops = true ->
  forall a b, Reach (dabs s) a b -> Reach (dabs (drun cfg s ops)) a b.
Proof. exact reach_monotone_run. Qed.
Print Assumptions C10_reach_monotone_history.

(* --- (4) refused / failing operations ------------------------------------------------------------ *)

(* any setter / deleter / >> / << that raises for any reason (type, loop, repeated member, failing
   pre- or post-assign hook, ambiguous name, id out of range) leaves Edge and Reach as they were *)
Theorem C10_refused_operation_keeps_graph : forall cfg s o, DWF s -> is_new o = false ->
  snd (dstep cfg s o) <> Ok ->
  forall a b, (Edge (dabs (fst (dstep cfg s o))) a b <-> Edge (dabs s) a b)
           /\ (Reach (dabs (fst (dstep cfg s o))) a b <-> Reach (dabs s) a b).
Proof.
  intros cfg s o W Hn Herr a b. split.
  - exact (refused_keeps_edges cfg s o W Hn Herr a b).
  - exact (refused_keeps_reach cfg s o W Hn Herr a b).
Qed.
Print Assumptions C10_refused_operation_keeps_graph.

(* the constructor is two assignments: when it raises, no edge was added, or exactly the edges of
   the accepted `parents=` argument are in place *)
Theorem C10_refused_constructor_keeps_graph : forall cfg s nm pa ca ftp ftc, DWF s ->
  snd (dstep cfg s (DNew nm pa ca ftp ftc)) <> Ok ->
  (forall a b, Edge (dabs (fst (dstep cfg s (DNew nm pa ca ftp ftc)))) a b <-> Edge (dabs s) a b)
  \/ (snd (set_parents cfg ftp (alloc s nm) (Dag.dsize s) (carg_cont pa) (carg_args pa)) = Ok
      /\ forall a b, Edge (dabs (fst (dstep cfg s (DNew nm pa ca ftp ftc)))) a b <->
                     Edge (dabs s) a b \/ (b = Dag.dsize s /\ In a (ids_of (carg_args pa)))).
Proof. exact refused_constructor_edges. Qed.
Print Assumptions C10_refused_constructor_keeps_graph.

(* --- (5) histories --------------------------------------------------------------------------------- *)

(* from n fresh objects: every edge of the graph after ops was requested by an assignment of ops --
   accepted (a constructor call may have raised after its accepted `parents=` part) -- and no accepted
   deletion has named it since *)
Theorem C10_history_edges_requested : forall cfg n names ops a b,
  Edge (dabs (drun cfg (dinit n names) ops)) a b ->
  exists pre o post, ops = pre ++ o :: post
    /\ is_assignment o = true
    /\ asks (drun cfg (dinit n names) pre) o a b
    /\ (is_new o = false -> snd (dstep cfg (drun cfg (dinit n names) pre) o) = Ok)
    /\ survives cfg (fst (dstep cfg (drun cfg (dinit n names) pre) o)) post a b.
Proof. exact reachable_edges_requested. Qed.
Print Assumptions C10_history_edges_requested.

(* from any well-formed state, with the point of addition made explicit *)
Theorem C10_history_edges_requested_from : forall cfg ops s0 a b, DWF s0 ->
  Edge (dabs (drun cfg s0 ops)) a b ->
  (Edge (dabs s0) a b /\ survives cfg s0 ops a b)
  \/ exists pre o post, ops = pre ++ o :: post
       /\ is_assignment o = true
       /\ asks (drun cfg s0 pre) o a b
       /\ ~ Edge (dabs (drun cfg s0 pre)) a b
       /\ Edge (dabs (fst (dstep cfg (drun cfg s0 pre) o))) a b
       /\ (is_new o = false -> snd (dstep cfg (drun cfg s0 pre) o) = Ok)
       /\ survives cfg (fst (dstep cfg (drun cfg s0 pre) o)) post a b.
Proof. exact history_edges_requested. Qed.
Print Assumptions C10_history_edges_requested_from.

(* conversely: requested by an accepted assignment and not deleted since => in the graph; and an edge
   that is present and survives is still present *)
Theorem C10_history_requested_edge_present : forall cfg s0 pre o post a b, DWF s0 ->
  snd (dstep cfg (drun cfg s0 pre) o) = Ok ->
  asks (drun cfg s0 pre) o a b ->
  survives cfg (fst (dstep cfg (drun cfg s0 pre) o)) post a b ->
  Edge (dabs (drun cfg s0 (pre ++ o :: post))) a b.
Proof. exact requested_edge_present. Qed.
Print Assumptions C10_history_requested_edge_present.

Theorem C10_history_surviving_edge_present : forall cfg post s a b, DWF s ->
  Edge (dabs s) a b -> survives cfg s post a b -> Edge (dabs (drun cfg s post)) a b.
Proof. exact survives_Edge. Qed.
Print Assumptions C10_history_surviving_edge_present.

(* --- the hypotheses are satisfiable by non-trivial inputs ----------------------------------------- *)

Definition bx_cfg := {| dassertions := true |}.
Definition bx_names : id -> str := fun i => [N.of_nat i].
(* 0 -> 1 -> 2 -> 3 plus the diamond 0 -> 2 *)
Definition bx_ops : list dop :=
  [DRShift 0 1 DNoFault; SetKids 1 DTuple [DNode 2] DNoFault; DLShift 3 2 DNoFault;
   SetParents 2 DList [DNode 1; DNode 0] DNoFault].
Definition bx_state := drun bx_cfg (dinit 4 bx_names) bx_ops.

(* an accepted parents assignment adds (0,3) and (1,3); `del 0["3"]` removes (0,3); `del 1.children`
   removes (1,2) and (1,3); closing the cycle 0 -> 2 -> 3 -> 0 is refused and changes nothing; a
   constructor call whose `children=` closes a cycle raises with its `parents=` edge (3,4) in place;
   an accepted one adds (3,4) and (4,1) *)
Example C10_bridge_ex :
  let r1 := dstep bx_cfg bx_state (SetParents 3 DList [DNode 2; DNode 0; DNode 1] DNoFault) in
  let r2 := dstep bx_cfg (fst r1) (DelKid 0 [3%N]) in
  let r3 := dstep bx_cfg (fst r2) (DelKids 1) in
  let r4 := dstep bx_cfg (fst r3) (SetKids 3 DList [DNode 0] DNoFault) in
  let r5 := dstep bx_cfg (fst r3)
              (DNew [9%N] (Some (DList, [DNode 3])) (Some (DList, [DNode 0])) DNoFault DNoFault) in
  let r6 := dstep bx_cfg (fst r3)
              (DNew [9%N] (Some (DList, [DNode 3])) (Some (DList, [DNode 1])) DNoFault DNoFault) in
  dwf_b bx_state = true
  /\ all_edges (dabs bx_state) = [(0, 1); (0, 2); (1, 2); (2, 3)]
  /\ snd r1 = Ok /\ all_edges (dabs (fst r1)) = [(0, 1); (0, 2); (0, 3); (1, 2); (1, 3); (2, 3)]
  /\ snd r2 = Ok /\ all_edges (dabs (fst r2)) = [(0, 1); (0, 2); (1, 2); (1, 3); (2, 3)]
  /\ snd r3 = Ok /\ all_edges (dabs (fst r3)) = [(0, 1); (0, 2); (2, 3)]
  /\ snd r4 = Err LoopError /\ all_edges (dabs (fst r4)) = [(0, 1); (0, 2); (2, 3)]
  /\ snd r5 = Err LoopError /\ all_edges (dabs (fst r5)) = [(0, 1); (0, 2); (2, 3); (3, 4)]
  /\ snd r6 = Ok /\ all_edges (dabs (fst r6)) = [(0, 1); (0, 2); (2, 3); (3, 4); (4, 1)]
  /\ reach_plusb (dabs (fst r6)) 0 1 = true /\ reach_plusb (dabs (fst r6)) 1 0 = false
  /\ acyclicb (dabs (fst r6)) = true.
Proof. vm_compute. repeat split. Qed.
