(* C01, tree level: an accepted parent assignment IS the documented tree edit -- the subtree below the
   node moves intact and becomes the last child of the new parent, everything else keeps its shape --
   stated on the rose trees that hang below the nodes of the heap (Heap/Abs.v), for every well-formed
   state (hence every reachable state, C01_reachable), every node, every target, both switch settings.
   An accepted children assignment has the links of a sequence of such parent assignments.
   Proofs: Heap/AbsSurgery.v. *)
From Coq Require Import Sorting.Permutation.
From BT Require Import Base.Prelude Base.Str Base.Rose Heap.Forest Heap.ForestWF Heap.ForestOps
     Heap.ForestStep Heap.Abs Heap.AbsSurgery.

Theorem C01_parent_assignment_is_tree_surgery : forall cfg ft s c a s',
  WF s -> c < size s -> (forall p, a = ANode p -> p < size s) ->
  set_parent cfg ft s c a = (s', Ok) ->
  subtree s' c = subtree s c
  /\ (forall r, ~ In (Some r) (tags (subtree s c)) ->
        subtree s' r = graft_opt (np_of a) (subtree s c) (cut c (subtree s r)))
  /\ (forall x, (forall q, par s c = Some q -> ~ In (Some q) (tags (subtree s x))) ->
                (forall p, np_of a = Some p -> ~ In (Some p) (tags (subtree s x))) ->
                subtree s' x = subtree s x).
Proof. exact set_parent_is_surgery. Qed.
Print Assumptions C01_parent_assignment_is_tree_surgery.

(* the same on every state reachable through the structural API *)
Theorem C01_surgery_on_reachable_states : forall cfg n names seps ops ft c a s',
  let s := run cfg (init n names seps) ops in
  c < size s -> (forall p, a = ANode p -> p < size s) ->
  set_parent cfg ft s c a = (s', Ok) ->
  forall r, ~ In (Some r) (tags (subtree s c)) ->
    subtree s' r = graft_opt (np_of a) (subtree s c) (cut c (subtree s r)).
Proof.
  intros cfg n names seps ops ft c a s' s Hc Ha E.
  apply (set_parent_is_surgery cfg ft s c a s'); try assumption. apply run_WF, WF_init.
Qed.
Print Assumptions C01_surgery_on_reachable_states.

(* cut and graft leave a tree alone in which the tag does not occur *)
Theorem C01_cut_absent : forall c t, ~ In (Some c) (tags t) -> cut c t = t.
Proof. exact cut_absent. Qed.
Print Assumptions C01_cut_absent.

Theorem C01_graft_absent : forall p u t, ~ In (Some p) (tags t) -> graft p u t = t.
Proof. exact graft_absent. Qed.
Print Assumptions C01_graft_absent.

Theorem C01_children_assignment_is_surgery_sequence : forall s p news,
  WF s -> p < size s -> valid_children s p news ->
  let t := fold_left (fun st x => attach st x (Some p)) news
             (fold_left (fun st x => attach st x None) (kids s p) s) in
  forall x, subtree (assign_children s p news) x = subtree t x.
Proof.
  intros s p news W Hp Hv t x.
  destruct (assign_children_is_attaches s p news W Hp Hv) as [Hs Hn].
  apply subtree_same; assumption.
Qed.
Print Assumptions C01_children_assignment_is_surgery_sequence.

(* non-vacuity: r(0) with children 1,2,3; 4 below 2; then `2.parent = 1`:
   below 0 the 2-subtree (with 4) is cut out and grafted as the last child of 1 *)
Example C01_surgery_nonvacuous :
  let cfg := {| assertions := true; is_node := false |} in
  let s := run cfg (init 5 (fun _ => []) (fun _ => []))
               [SetChildren 0 CList [ANode 1; ANode 2; ANode 3] NoFault; SetParent 4 (ANode 2) NoFault] in
  let s' := fst (set_parent cfg NoFault s 2 (ANode 1)) in
  snd (set_parent cfg NoFault s 2 (ANode 1)) = Ok
  /\ tags (subtree s 0) = [Some 0; Some 1; Some 2; Some 4; Some 3]
  /\ tags (subtree s' 0) = [Some 0; Some 1; Some 2; Some 4; Some 3]
  /\ map ttag (tkids (subtree s' 0)) = [Some 1; Some 3]
  /\ subtree s' 0 = graft 1 (subtree s 2) (cut 2 (subtree s 0)).
Proof. vm_compute. repeat split; reflexivity. Qed.

(* sort (any permutation of one child list, C01_sort_step) permutes the child subtrees of p and changes
   no subtree that does not contain p *)
Theorem C01_sort_is_tree_permutation : forall s p l,
  WF s -> Permutation l (kids s p) ->
  let s' := set_kids s p l in
  subtree s' p = T (Some p) (name s p) [] (map (subtree s) l)
  /\ (forall x, ~ In (Some p) (tags (subtree s x)) -> subtree s' x = subtree s x).
Proof. exact reorder_is_tree_permutation. Qed.
Print Assumptions C01_sort_is_tree_permutation.

(* del node.children: the node becomes a leaf, the detached children keep their subtrees *)
Theorem C01_del_children_is_tree_cut : forall s p,
  WF s ->
  let s' := del_children s p in
  subtree s' p = T (Some p) (name s p) [] []
  /\ (forall x, ~ In (Some p) (tags (subtree s x)) -> subtree s' x = subtree s x).
Proof. exact del_children_is_tree_cut. Qed.
Print Assumptions C01_del_children_is_tree_cut.

(* capstone: EVERY accepted operation of the structural API (as modelled by `step`: parent assignment,
   append, >>, <<, del p[name], del p.children, children assignment, sort, sep assignment), from every
   well-formed state, is the documented edit of the rose trees hanging below the nodes (`edit_of`,
   Heap/AbsSurgery.v: surgery = subtree moved intact + cut/graft everywhere else) *)
Theorem C01_every_accepted_step_is_tree_edit : forall cfg s o s',
  WF s -> step cfg s o = (s', Ok) -> edit_of cfg s s' o.
Proof. exact step_is_tree_edit. Qed.
Print Assumptions C01_every_accepted_step_is_tree_edit.

Theorem C01_sep_assignment_keeps_trees : forall s n v x, subtree (set_sep s n v) x = subtree s x.
Proof. exact set_sep_keeps_trees. Qed.
Print Assumptions C01_sep_assignment_keeps_trees.

(* the same along every history: each accepted step of any operation list is such an edit of the state it starts from *)
Theorem C01_every_history_is_a_sequence_of_tree_edits : forall cfg n names seps ops o s',
  let s := run cfg (init n names seps) ops in
  step cfg s o = (s', Ok) -> edit_of cfg s s' o.
Proof. intros cfg n names seps ops o s' s E. apply step_is_tree_edit; [apply run_WF, WF_init|exact E]. Qed.
Print Assumptions C01_every_history_is_a_sequence_of_tree_edits.

(* extend: an accepted `p.extend(cs)` is exactly the appends one after the other; when it raises, exactly the
   appends before the failing one are in place (the failing assignment itself is rolled back) *)
Theorem C01_extend_is_appends : forall cfg p cs fts s s',
  extend_loop cfg s p cs fts = (s', Ok) -> s' = appends p cs s.
Proof. intros cfg p cs fts s s'. apply extend_ok. Qed.
Print Assumptions C01_extend_is_appends.
