(* C01 — tree links stay a well-formed forest under every mutation history.
   This file contains only the property theorems; the proofs live in Heap/ForestWF.v. *)
From BT Require Import Base.Prelude Heap.Forest Spec.PForest.

Theorem C01_init : forall n names seps, wf_b (init n names seps) = true.
Proof.
  intros n names seps. unfold wf_b, init; cbn.
  apply andb_true_iff; split; apply forallb_forall; intros x _; [reflexivity|].
  destruct n; reflexivity.
Qed.
Print Assumptions C01_init.
