(* C01 — tree links stay a well-formed forest under every mutation history.
   Only the property theorems; proofs are in Heap/ForestWF.v, ForestOps.v, ForestRollback.v,
   ForestStep.v, ForestRefl.v.  Model: Heap/Forest.v (transliteration of basenode.py / node.py). *)
From Coq Require Import Sorting.Permutation.
From BT Require Import Base.Prelude Base.Str Heap.Forest Heap.ForestWF Heap.ForestOps
     Heap.ForestStep Heap.ForestRefl Spec.PForest Corr.ForestCorr Corr.ForestCorrProofs.

(* the forest invariant: a node is listed exactly once, by exactly its parent; listed children
   name that parent; links stay among the live nodes; no node is its own ancestor (ghost rank) *)
Theorem C01_init : forall n names seps, WF (init n names seps).
Proof. exact WF_init. Qed.
Print Assumptions C01_init.

(* every operation — accepted, rejected by a guard, or failing in a user hook; valid or invalid
   arguments; checks on or off — preserves it *)
Theorem C01_step_preserves_WF : forall cfg s o, WF s -> WF (fst (step cfg s o)).
Proof. exact step_WF. Qed.
Print Assumptions C01_step_preserves_WF.

Theorem C01_reachable : forall cfg n names seps ops, WF (run cfg (init n names seps) ops).
Proof. intros. apply run_WF, WF_init. Qed.
Print Assumptions C01_reachable.

(* walking parents from any node terminates at a root (the fuel of `ancestors` is never exhausted) *)
Theorem C01_walk_terminates : forall s c, WF s -> par s (last (ancestors s c) c) = None.
Proof. intros s c [_ _ Hb [r Hr]]. exact (ancestors_reach_root s r Hr Hb c). Qed.
Print Assumptions C01_walk_terminates.

Theorem C01_no_node_is_its_own_ancestor : forall s c, WF s -> ~ In c (ancestors s c).
Proof. exact WF_not_own_ancestor. Qed.
Print Assumptions C01_no_node_is_its_own_ancestor.

(* documented effects of accepted operations *)
Theorem C01_effect_set_parent : forall cfg ft s c a s',
  WF s -> set_parent cfg ft s c a = (s', Ok) ->
  (forall x, par s' x = if Nat.eqb x c then np_of a else par s x)
  /\ (forall q, kids s' q = remove1 c (kids s q) ++ (if is_parent (np_of a) q then [c] else []))
  /\ size s' = size s.
Proof. exact set_parent_effect. Qed.
Print Assumptions C01_effect_set_parent.

Theorem C01_effect_set_children : forall cfg ft s p cont args s',
  WF s -> p < size s -> forallb (arg_in_range s) args = true ->
  set_children cfg ft s p cont args = (s', Ok) ->
  let news := ids_of args in
  size s' = size s
  /\ (forall x, par s' x = if memb x news then Some p
                           else if memb x (kids s p) then None else par s x)
  /\ kids s' p = news
  /\ (forall q, q <> p -> kids s' q = filter (notin news) (kids s q)).
Proof. exact set_children_effect. Qed.
Print Assumptions C01_effect_set_children.

Theorem C01_effect_del : forall s p, WF s ->
  let s' := del_children s p in
  WF s' /\ size s' = size s
  /\ (forall x, par s' x = if memb x (kids s p) then None else par s x)
  /\ kids s' p = [] /\ (forall q, q <> p -> kids s' q = kids s q).
Proof. exact del_children_spec. Qed.
Print Assumptions C01_effect_del.

Theorem C01_effect_sort : forall s p keys rv,
  let s' := set_kids s p (py_sort (key_of keys) rv (kids s p)) in
  Permutation (kids s' p) (kids s p)
  /\ (forall q, q <> p -> kids s' q = kids s q) /\ (forall x, par s' x = par s x).
Proof. exact sort_effect. Qed.
Print Assumptions C01_effect_sort.

(* the sort operation as a whole: when a comparison raises (an incomparable key among two or more children)
   nothing changes; otherwise the children of p are exactly the stable sort by the key table and every
   other list and every parent pointer is as before *)
Theorem C01_sort_step : forall cfg s p keys rv, in_range s p = true ->
  let r := step cfg s (Sort p keys rv) in
  (sort_raises keys (kids s p) = true -> r = (s, Err TypeError))
  /\ (sort_raises keys (kids s p) = false ->
      snd r = Ok /\ kids (fst r) p = py_sort (key_of keys) rv (kids s p)
      /\ Permutation (kids (fst r) p) (kids s p)
      /\ (forall q, q <> p -> kids (fst r) q = kids s q) /\ (forall x, par (fst r) x = par s x)).
Proof. exact sort_step_effect. Qed.
Print Assumptions C01_sort_step.

(* what must be rejected is rejected, and the state is untouched *)
Theorem C01_rejects_parent : forall cfg ft s c a,
  assertions cfg = true ->
  (a = AJunk \/ a = ANode c \/ (exists p, a = ANode p /\ In c (ancestors s p))) ->
  exists e, set_parent cfg ft s c a = (s, Err e) /\ (e = TypeError \/ e = LoopError).
Proof. exact set_parent_rejects. Qed.
Print Assumptions C01_rejects_parent.

Theorem C01_rejects_children : forall cfg ft s p cont args,
  assertions cfg = true ->
  (cont = COther \/ In AJunk args \/ In ANone args \/ In (ANode p) args
   \/ (exists x, In (ANode x) args /\ In x (ancestors s p)) \/ ~ NoDup (ids_of args)) ->
  exists e, set_children cfg ft s p cont args = (s, Err e).
Proof. exact set_children_rejects. Qed.
Print Assumptions C01_rejects_children.

(* the boolean predicate the check evaluates on every implementation step holds of every model step *)
Theorem C01_model_steps_satisfy_prop : forall cfg s o, WF s ->
  let r := step cfg s o in prop_C01_step cfg s o (fst r) (is_ok (snd r)) = true.
Proof. exact model_step_C01. Qed.
Print Assumptions C01_model_steps_satisfy_prop.

Theorem C01_wf_b_of_reachable : forall cfg n names seps ops,
  wf_b (run cfg (init n names seps) ops) = true.
Proof. intros. apply WF_wf_b, run_WF, WF_init. Qed.
Print Assumptions C01_wf_b_of_reachable.

(* constructor calls Node(name, parent=..., children=...) are two assignments and preserve the
   invariant as well, whatever their outcome *)
Theorem C01_constructor_preserves_WF : forall cfg ops s, WF s -> WF (crun cfg s ops).
Proof. exact crun_WF. Qed.
Print Assumptions C01_constructor_preserves_WF.

Theorem C01_model_csteps_satisfy_prop : forall cfg s c, WF s ->
  let r := cstep cfg s c in prop_C01_cstep cfg s c (fst r) (is_ok (snd r)) = true.
Proof. exact model_cstep_C01. Qed.
Print Assumptions C01_model_csteps_satisfy_prop.

(* non-vacuity: a concrete history on 5 nodes reaches a state with a 3-child parent, from which an
   accepted re-parenting, a rejected loop and an accepted children assignment stealing two children
   in non-ascending order are all exercised *)
Definition ex_cfg := {| assertions := true; is_node := false |}.
Definition ex_ops : list op :=
  [ SetChildren 0 CList [ANode 1; ANode 2; ANode 3] NoFault;
    SetParent 4 (ANode 2) NoFault;
    SetParent 0 (ANode 4) NoFault;              (* ancestor loop: rejected *)
    SetChildren 4 CList [ANode 3; ANode 1] NoFault ].
Example C01_nonvacuous :
  let t := trace ex_cfg (init 5 (fun _ => []) (fun _ => [])) ex_ops in
  map (fun r => is_ok (snd r)) t = [true; true; false; true]
  /\ kids (run ex_cfg (init 5 (fun _ => []) (fun _ => [])) ex_ops) 4 = [3; 1]
  /\ kids (run ex_cfg (init 5 (fun _ => []) (fun _ => [])) ex_ops) 0 = [2].
Proof. vm_compute. repeat split. Qed.
