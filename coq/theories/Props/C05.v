(* C05 — path-based constructors build exactly the prefix closure of the given paths.
   Only the property theorems; the proofs are in Algo/ConstructProofs.v, the model in
   Algo/Construct.v, the specification functions (prefixes, closure, dedup, trie_pre, spec_parse,
   prop_C05) in Spec/PC05.v.

   Conventions: `t` is the root of the tree being extended, tags `Some i` = pre-existing node
   objects, `None` = objects created by the call; a node object is addressed by its position
   (child indices from the root), `subtree_at t q`; `paths t` = name paths of all nodes in
   pre-order; `branch_of path sep` = path.lstrip(sep).rstrip(sep).split(sep). *)
From BT Require Import Base.Prelude Base.Str Base.Rose Algo.Construct Spec.PC05 Algo.ConstructProofs
     Corr.ConstructCorr.

(* ---- add_path_to_tree, duplicate_name_allowed = True ------------------------------------ *)

(* the path set afterwards = the path set before ∪ all prefixes of the given path *)
Theorem C05_add_path_paths : forall t tsep path sep na t' p,
  add_path_to_tree t tsep path sep true na = (t', Ret p) ->
  forall q, In q (paths t') <-> In q (paths t) \/ In q (prefixes (branch_of path sep)).
Proof. exact add_path_paths. Qed.
Print Assumptions C05_add_path_paths.

(* existing node objects stay where they are (same tag, same name); objects at new positions are
   new; sibling names stay distinct, i.e. nothing is duplicated *)
Theorem C05_add_path_reuses : forall t tsep path sep na t' p,
  add_path_to_tree t tsep path sep true na = (t', Ret p) ->
  (forall q s, subtree_at t q = Some s ->
     exists s', subtree_at t' q = Some s' /\ ttag s' = ttag s /\ tname s' = tname s /\
                exists extra, map tname (tkids s') = map tname (tkids s) ++ extra /\ length extra <= 1)
  /\ (forall q s', subtree_at t q = None -> subtree_at t' q = Some s' -> ttag s' = None)
  /\ (sib_ok t -> sib_ok t').
Proof. exact add_path_reuses. Qed.
Print Assumptions C05_add_path_reuses.

(* old children keep their order, a created child is appended last *)
Theorem C05_add_path_order : forall t tsep path sep na t' p q s s',
  add_path_to_tree t tsep path sep true na = (t', Ret p) ->
  subtree_at t q = Some s -> subtree_at t' q = Some s' ->
  exists extra, map tname (tkids s') = map tname (tkids s) ++ extra /\ length extra <= 1.
Proof. exact add_path_order. Qed.
Print Assumptions C05_add_path_order.

(* the returned node is the node at the path *)
Theorem C05_add_path_returns : forall t tsep path sep na t' p,
  add_path_to_tree t tsep path sep true na = (t', Ret p) ->
  (exists s', subtree_at t' p = Some s') /\ names_along t' p = branch_of path sep.
Proof. exact add_path_returns. Qed.
Print Assumptions C05_add_path_returns.

(* attributes land on the returned node (dict.update of what it had; a created node starts from the
   same dict), every other existing node keeps its attributes, created intermediate nodes have none *)
Theorem C05_attrs_exact : forall t tsep path sep na t' p,
  add_path_to_tree t tsep path sep true na = (t', Ret p) ->
  (exists s', subtree_at t' p = Some s' /\
              tattrs s' = set_attrs (match subtree_at t p with
                                     | Some s => tattrs s
                                     | None => set_attrs [] na
                                     end) na)
  /\ (forall q s, q <> p -> subtree_at t q = Some s ->
        exists s', subtree_at t' q = Some s' /\ tattrs s' = tattrs s)
  /\ (forall q s', q <> p -> subtree_at t q = None -> subtree_at t' q = Some s' -> tattrs s' = []).
Proof. exact add_path_attrs. Qed.
Print Assumptions C05_attrs_exact.

(* the hypotheses above are satisfiable: every well-formed call is accepted *)
Theorem C05_add_path_accepts : forall t tsep path sep na rest,
  sib_ok t -> path <> [] -> branch_of path sep = tname t :: rest -> Forall (fun c => c <> []) rest ->
  exists t' p, add_path_to_tree t tsep path sep true na = (t', Ret p).
Proof. exact add_path_accepts. Qed.
Print Assumptions C05_add_path_accepts.

(* a path with a different root is refused and the tree is left as it was *)
Theorem C05_wrong_root_refused : forall t tsep path sep dup na,
  path <> [] -> hd [] (branch_of path sep) <> tname t ->
  add_path_to_tree t tsep path sep dup na = (t, Raise TreeError).
Proof. exact add_path_wrong_root. Qed.
Print Assumptions C05_wrong_root_refused.

(* sep_safe guard: single-character separator.  A leading / a trailing separator changes nothing. *)
Theorem C05_leading_trailing_sep : forall t tsep c path dup na,
  path <> [] ->
  add_path_to_tree t tsep (c :: path) [c] dup na = add_path_to_tree t tsep path [c] dup na
  /\ add_path_to_tree t tsep (path ++ [c]) [c] dup na = add_path_to_tree t tsep path [c] dup na.
Proof. intros. split; [now apply add_path_leading_sep|now apply add_path_trailing_sep]. Qed.
Print Assumptions C05_leading_trailing_sep.

(* the separator chosen does not matter: a name list rendered with either of two single-character
   separators (occurring in no name; first and last name non-empty) gives the same call *)
Theorem C05_sep_independent : forall c1 c2 nms t tsep dup na,
  nms <> [] -> hd [] nms <> [] -> last nms [] <> [] ->
  (forall x, In x nms -> ~ In c1 x /\ ~ In c2 x) ->
  add_path_to_tree t tsep (join [c1] nms) [c1] dup na
  = add_path_to_tree t tsep (join [c2] nms) [c2] dup na.
Proof. exact add_path_sep_independent. Qed.
Print Assumptions C05_sep_independent.

(* ... and the path string is read back as exactly that name list *)
Theorem C05_branch_of_join : forall c nms,
  nms <> [] -> (forall x, In x nms -> ~ In c x) -> hd [] nms <> [] -> last nms [] <> [] ->
  branch_of (join [c] nms) [c] = nms.
Proof. exact branch_of_join. Qed.
Print Assumptions C05_branch_of_join.

(* the specification's reading of a path string (spec_parse: split, drop the empty components at
   both ends) and the code's (strip, split) agree on rendered name lists *)
Theorem C05_parse_agrees : forall c nms,
  nms <> [] -> (forall x, In x nms -> ~ In c x) -> hd [] nms <> [] -> last nms [] <> [] ->
  spec_parse (join [c] nms) [c] = nms /\ branch_of (join [c] nms) [c] = nms.
Proof. exact spec_parse_join. Qed.
Print Assumptions C05_parse_agrees.

(* ---- whole constructors -------------------------------------------------------------------- *)

(* list_to_tree: the node paths are exactly the root and all prefixes of the given paths, and the
   pre-order is the trie order of first appearance (Spec/PC05.v trie_pre) *)
Theorem C05_list_to_tree_closure : forall ps sep t',
  list_to_tree ps sep true = Ret t' ->
  let bs := map (fun p => branch_of p sep) (dedup_str [] ps) in
  let all := dedup [] ([tname t'] :: closure bs) in
  (forall q, In q (paths t') <-> q = [tname t'] \/ In q (closure bs))
  /\ paths t' = trie_pre (max_len all) all [tname t'].
Proof. exact list_to_tree_closure. Qed.
Print Assumptions C05_list_to_tree_closure.

(* dict_to_tree and dataframe_to_tree / polars_to_tree (on the row list after stripping): same
   statement; the root attribute lookup, the null filtering and the duplicate-attribute check do not
   influence the node set or the order *)
Theorem C05_dict_to_tree_closure : forall d sep t',
  dict_to_tree d sep true = Ret t' ->
  let bs := map (fun r => branch_of (fst r) sep) d in
  let all := dedup [] ([tname t'] :: closure bs) in
  (forall q, In q (paths t') <-> q = [tname t'] \/ In q (closure bs))
  /\ paths t' = trie_pre (max_len all) all [tname t'].
Proof. exact dict_to_tree_closure. Qed.
Print Assumptions C05_dict_to_tree_closure.

Theorem C05_frame_to_tree_closure : forall rows pcol sep t',
  frame_to_tree rows pcol sep true = Ret t' ->
  let bs := map (fun r => branch_of (fst r) sep) (strip_rows rows sep) in
  let all := dedup [] ([tname t'] :: closure bs) in
  (forall q, In q (paths t') <-> q = [tname t'] \/ In q (closure bs))
  /\ paths t' = trie_pre (max_len all) all [tname t'].
Proof. exact frame_to_tree_closure. Qed.
Print Assumptions C05_frame_to_tree_closure.

(* extending an existing tree by a sequence of rows (add_dict_to_tree_by_path, and the loop of every
   other entry point): pre-order = trie order of (paths of the tree ++ all prefixes), so old children
   come first in their old order and new ones follow in order of first appearance *)
Theorem C05_extend_closure : forall tsep sep rows t acc t' ps,
  sib_ok t -> add_rows t tsep sep true rows acc = (t', Ret ps) ->
  let all := dedup [] (paths t ++ closure (branches sep rows)) in
  paths t' = trie_pre (max_len all) all [tname t].
Proof. exact add_rows_extends. Qed.
Print Assumptions C05_extend_closure.

(* ---- duplicate_name_allowed = False --------------------------------------------------------- *)

(* an accepted call leaves all names distinct (given a start tree with distinct names) *)
Theorem C05_no_dup_distinct : forall t tsep path sep na t' p,
  NoDup (names t) ->
  add_path_to_tree t tsep path sep false na = (t', Ret p) ->
  NoDup (names t').
Proof. exact add_path_false_names. Qed.
Print Assumptions C05_no_dup_distinct.

(* ... and it produces exactly the tree (and returns the node) the permissive call produces.
   Guard (sep_safe for the tree's own separator): it is one character c that occurs in no node name
   and in no component of the path, so that the code's comparison of joined path strings identifies
   nodes.  Together: the call either raises or yields the same tree with all names distinct. *)
Theorem C05_no_dup_names : forall c t path sep na t' p,
  NoDup (names t) -> clean c t -> (forall x, In x (branch_of path sep) -> ~ In c x) ->
  add_path_to_tree t [c] path sep false na = (t', Ret p) ->
  add_path_to_tree t [c] path sep true na = (t', Ret p) /\ NoDup (names t').
Proof.
  intros c t path sep na t' p Hn Hc Hb H. split.
  - exact (add_path_false_true c t path sep na t' p Hn Hc Hb H).
  - exact (add_path_false_names t [c] path sep na t' p Hn H).
Qed.
Print Assumptions C05_no_dup_names.

Theorem C05_no_dup_rows_distinct : forall tsep sep rows t acc t' ps,
  NoDup (names t) ->
  add_rows t tsep sep false rows acc = (t', Ret ps) ->
  NoDup (names t').
Proof. exact add_rows_false_names. Qed.
Print Assumptions C05_no_dup_rows_distinct.

(* ---- non-vacuity and the known finding ------------------------------------------------------- *)

Definition ex_a : str := [97]%N.
Definition ex_b : str := [98]%N.
Definition ex_c : str := [99]%N.
Definition ex_slash : str := [47]%N.
Definition ex_tree : tree := T (Some 0) ex_a [] [T (Some 1) ex_b [] []].
Definition ex_path : str := [97; 47; 98; 47; 99]%N.                  (* "a/b/c" *)

Example C05_add_path_nonvacuous :
  add_path_to_tree ex_tree ex_slash ex_path ex_slash true [(ex_c, VInt 0)]
  = (T (Some 0) ex_a [] [T (Some 1) ex_b [] [T None ex_c [(ex_c, VInt 0)] []]], Ret [0; 0]).
Proof. vm_compute. reflexivity. Qed.

Example C05_no_dup_nonvacuous :
  exists t' p, add_path_to_tree ex_tree [47%N] ex_path ex_slash false [] = (t', Ret p)
               /\ NoDup (names ex_tree) /\ clean 47%N ex_tree
               /\ (forall x, In x (branch_of ex_path ex_slash) -> ~ In 47%N x).
Proof.
  eexists. eexists. split; [vm_compute; reflexivity|]. split; [|split].
  - repeat constructor; cbn; intuition discriminate.
  - intros x Hx. cbn in Hx. intuition (subst; cbn in *; intuition discriminate).
  - intros x Hx. vm_compute in Hx. intuition (subst; cbn in *; intuition discriminate).
Qed.

(* fix F4: a/b on a tree holding a/xa/b is refused when duplicate names are disallowed *)
Example C05_no_dup_F4_refused :
  let t := T (Some 0) ex_a [] [T (Some 1) [120; 97]%N [] [T (Some 2) ex_b [] []]] in
  snd (add_path_to_tree t ex_slash [97; 47; 98]%N ex_slash false []) = Raise DuplicatedNodeError.
Proof. vm_compute. reflexivity. Qed.

(* K3-C05: with the two-character separator "->" the faithful model (like the implementation)
   turns the component "a-" into "a": the property predicate is false on the model's output *)
Example C05_multichar_sep_refuted :
  let sep := [45; 62]%N in
  let i := MkIn sep true dummy_tree ex_slash [] [80]%N
                [([114; 45; 62; 97; 45]%N, []); ([114; 45; 62; 98]%N, [])] in
  prop_C05 KList i (run KList i) = false.
Proof. vm_compute. reflexivity. Qed.

(* on a single-character separator the same rows satisfy the predicate *)
Example C05_singlechar_sep_holds :
  let sep := [47]%N in
  let i := MkIn sep true dummy_tree ex_slash [] [80]%N
                [([114; 47; 97; 45]%N, []); ([114; 47; 98]%N, [])] in
  prop_C05 KList i (run KList i) = true.
Proof. vm_compute. reflexivity. Qed.
