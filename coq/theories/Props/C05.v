(* C05 — path-based constructors build exactly the prefix closure of the given paths.
   Only the property theorems; the proofs are in Algo/ConstructProofs.v, the model in
   Algo/Construct.v, the specification functions (prefixes, closure, dedup, trie_pre, spec_parse,
   prop_C05) in Spec/PC05.v.

   Conventions: `t` is the root of the tree being extended, tags `Some i` = pre-existing node
   objects, `None` = objects created by the call; a node object is addressed by its position
   (child indices from the root), `subtree_at t q`; `paths t` = name paths of all nodes in
   pre-order; `branch_of path sep` = path.lstrip(sep).rstrip(sep).split(sep). *)
From BT Require Import Base.Prelude Base.Str Base.StrSep Base.Rose Algo.Construct Spec.PC05 Algo.ConstructProofs
     Corr.ConstructCorr.

(* ---- add_path_to_tree, duplicate_name_allowed = True ------------------------------------ *)

(* the path set afterwards = the path set before ∪ all prefixes of the given path *)
Theorem C05_add_path_paths : forall t tsep path sep na t' p,
  add_path_to_tree t tsep path sep true na = (t', Ret p) ->
  forall q, In q (paths t') <-> In q (paths t) \/ In q (prefixes (branch_of path sep)).
Proof. exact add_path_paths. Qed.
Print Assumptions C05_add_path_paths.

(* existing node objects stay where they are (same tag, same name); objects at new positions are
   new; sibling names stay distinct, i.e. nothing is duplicated *)
Theorem C05_add_path_reuses : forall t tsep path sep na t' p,
  add_path_to_tree t tsep path sep true na = (t', Ret p) ->
  (forall q s, subtree_at t q = Some s ->
     exists s', subtree_at t' q = Some s' /\ ttag s' = ttag s /\ tname s' = tname s /\
                exists extra, map tname (tkids s') = map tname (tkids s) ++ extra /\ length extra <= 1)
  /\ (forall q s', subtree_at t q = None -> subtree_at t' q = Some s' -> ttag s' = None)
  /\ (sib_ok t -> sib_ok t').
Proof. exact add_path_reuses. Qed.
Print Assumptions C05_add_path_reuses.

(* old children keep their order, a created child is appended last *)
Theorem C05_add_path_order : forall t tsep path sep na t' p q s s',
  add_path_to_tree t tsep path sep true na = (t', Ret p) ->
  subtree_at t q = Some s -> subtree_at t' q = Some s' ->
  exists extra, map tname (tkids s') = map tname (tkids s) ++ extra /\ length extra <= 1.
Proof. exact add_path_order. Qed.
Print Assumptions C05_add_path_order.

(* the returned node is the node at the path *)
Theorem C05_add_path_returns : forall t tsep path sep na t' p,
  add_path_to_tree t tsep path sep true na = (t', Ret p) ->
  (exists s', subtree_at t' p = Some s') /\ names_along t' p = branch_of path sep.
Proof. exact add_path_returns. Qed.
Print Assumptions C05_add_path_returns.

(* attributes land on the returned node (dict.update of what it had; a created node starts from the
   same dict), every other existing node keeps its attributes, created intermediate nodes have none *)
Theorem C05_attrs_exact : forall t tsep path sep na t' p,
  add_path_to_tree t tsep path sep true na = (t', Ret p) ->
  (exists s', subtree_at t' p = Some s' /\
              tattrs s' = set_attrs (match subtree_at t p with
                                     | Some s => tattrs s
                                     | None => set_attrs [] na
                                     end) na)
  /\ (forall q s, q <> p -> subtree_at t q = Some s ->
        exists s', subtree_at t' q = Some s' /\ tattrs s' = tattrs s)
  /\ (forall q s', q <> p -> subtree_at t q = None -> subtree_at t' q = Some s' -> tattrs s' = []).
Proof. exact add_path_attrs. Qed.
Print Assumptions C05_attrs_exact.

(* the hypotheses above are satisfiable: every well-formed call is accepted *)
Theorem C05_add_path_accepts : forall t tsep path sep na rest,
  sib_ok t -> path <> [] -> branch_of path sep = tname t :: rest -> Forall (fun c => c <> []) rest ->
  exists t' p, add_path_to_tree t tsep path sep true na = (t', Ret p).
Proof. exact add_path_accepts. Qed.
Print Assumptions C05_add_path_accepts.

(* a path with a different root is refused and the tree is left as it was *)
Theorem C05_wrong_root_refused : forall t tsep path sep dup na,
  path <> [] -> hd [] (branch_of path sep) <> tname t ->
  add_path_to_tree t tsep path sep dup na = (t, Raise TreeError).
Proof. exact add_path_wrong_root. Qed.
Print Assumptions C05_wrong_root_refused.

(* sep_safe guard: single-character separator.  A leading / a trailing separator changes nothing. *)
Theorem C05_leading_trailing_sep : forall t tsep c path dup na,
  path <> [] ->
  add_path_to_tree t tsep (c :: path) [c] dup na = add_path_to_tree t tsep path [c] dup na
  /\ add_path_to_tree t tsep (path ++ [c]) [c] dup na = add_path_to_tree t tsep path [c] dup na.
Proof. intros. split; [now apply add_path_leading_sep|now apply add_path_trailing_sep]. Qed.
Print Assumptions C05_leading_trailing_sep.

(* the separator chosen does not matter: a name list rendered with either of two single-character
   separators (occurring in no name; first and last name non-empty) gives the same call *)
Theorem C05_sep_independent : forall c1 c2 nms t tsep dup na,
  nms <> [] -> hd [] nms <> [] -> last nms [] <> [] ->
  (forall x, In x nms -> ~ In c1 x /\ ~ In c2 x) ->
  add_path_to_tree t tsep (join [c1] nms) [c1] dup na
  = add_path_to_tree t tsep (join [c2] nms) [c2] dup na.
Proof. exact add_path_sep_independent. Qed.
Print Assumptions C05_sep_independent.

(* ... and the path string is read back as exactly that name list *)
Theorem C05_branch_of_join : forall c nms,
  nms <> [] -> (forall x, In x nms -> ~ In c x) -> hd [] nms <> [] -> last nms [] <> [] ->
  branch_of (join [c] nms) [c] = nms.
Proof. exact branch_of_join. Qed.
Print Assumptions C05_branch_of_join.

(* the specification's reading of a path string (spec_parse: split, drop the empty components at
   both ends) and the code's (strip, split) agree on rendered name lists *)
Theorem C05_parse_agrees : forall c nms,
  nms <> [] -> (forall x, In x nms -> ~ In c x) -> hd [] nms <> [] -> last nms [] <> [] ->
  spec_parse (join [c] nms) [c] = nms /\ branch_of (join [c] nms) [c] = nms.
Proof. exact spec_parse_join. Qed.
Print Assumptions C05_parse_agrees.

(* ---- whole constructors -------------------------------------------------------------------- *)

(* list_to_tree: the node paths are exactly the root and all prefixes of the given paths, and the
   pre-order is the trie order of first appearance (Spec/PC05.v trie_pre) *)
Theorem C05_list_to_tree_closure : forall ps sep t',
  list_to_tree ps sep true = Ret t' ->
  let bs := map (fun p => branch_of p sep) (dedup_str [] ps) in
  let all := dedup [] ([tname t'] :: closure bs) in
  (forall q, In q (paths t') <-> q = [tname t'] \/ In q (closure bs))
  /\ paths t' = trie_pre (max_len all) all [tname t'].
Proof. exact list_to_tree_closure. Qed.
Print Assumptions C05_list_to_tree_closure.

(* dict_to_tree and dataframe_to_tree / polars_to_tree (on the row list after stripping): same
   statement; the root attribute lookup, the null filtering and the duplicate-attribute check do not
   influence the node set or the order *)
Theorem C05_dict_to_tree_closure : forall d sep t',
  dict_to_tree d sep true = Ret t' ->
  let bs := map (fun r => branch_of (fst r) sep) d in
  let all := dedup [] ([tname t'] :: closure bs) in
  (forall q, In q (paths t') <-> q = [tname t'] \/ In q (closure bs))
  /\ paths t' = trie_pre (max_len all) all [tname t'].
Proof. exact dict_to_tree_closure. Qed.
Print Assumptions C05_dict_to_tree_closure.

Theorem C05_frame_to_tree_closure : forall rows pcol sep t',
  frame_to_tree rows pcol sep true = Ret t' ->
  let bs := map (fun r => branch_of (fst r) sep) (strip_rows rows sep) in
  let all := dedup [] ([tname t'] :: closure bs) in
  (forall q, In q (paths t') <-> q = [tname t'] \/ In q (closure bs))
  /\ paths t' = trie_pre (max_len all) all [tname t'].
Proof. exact frame_to_tree_closure. Qed.
Print Assumptions C05_frame_to_tree_closure.

(* extending an existing tree by a sequence of rows (add_dict_to_tree_by_path, and the loop of every
   other entry point): pre-order = trie order of (paths of the tree ++ all prefixes), so old children
   come first in their old order and new ones follow in order of first appearance *)
Theorem C05_extend_closure : forall tsep sep rows t acc t' ps,
  sib_ok t -> add_rows t tsep sep true rows acc = (t', Ret ps) ->
  let all := dedup [] (paths t ++ closure (branches sep rows)) in
  paths t' = trie_pre (max_len all) all [tname t].
Proof. exact add_rows_extends. Qed.
Print Assumptions C05_extend_closure.

(* ---- duplicate_name_allowed = False --------------------------------------------------------- *)

(* an accepted call leaves all names distinct (given a start tree with distinct names) *)
Theorem C05_no_dup_distinct : forall t tsep path sep na t' p,
  NoDup (names t) ->
  add_path_to_tree t tsep path sep false na = (t', Ret p) ->
  NoDup (names t').
Proof. exact add_path_false_names. Qed.
Print Assumptions C05_no_dup_distinct.

(* ... and it produces exactly the tree (and returns the node) the permissive call produces.
   Guard (sep_safe for the tree's own separator): it is one character c that occurs in no node name
   and in no component of the path, so that the code's comparison of joined path strings identifies
   nodes.  Together: the call either raises or yields the same tree with all names distinct. *)
Theorem C05_no_dup_names : forall c t path sep na t' p,
  NoDup (names t) -> clean c t -> (forall x, In x (branch_of path sep) -> ~ In c x) ->
  add_path_to_tree t [c] path sep false na = (t', Ret p) ->
  add_path_to_tree t [c] path sep true na = (t', Ret p) /\ NoDup (names t').
Proof.
  intros c t path sep na t' p Hn Hc Hb H. split.
  - exact (add_path_false_true c t path sep na t' p Hn Hc Hb H).
  - exact (add_path_false_names t [c] path sep na t' p Hn H).
Qed.
Print Assumptions C05_no_dup_names.

Theorem C05_no_dup_rows_distinct : forall tsep sep rows t acc t' ps,
  NoDup (names t) ->
  add_rows t tsep sep false rows acc = (t', Ret ps) ->
  NoDup (names t').
Proof. exact add_rows_false_names. Qed.
Print Assumptions C05_no_dup_rows_distinct.

(* ---- non-vacuity and the known finding ------------------------------------------------------- *)

Definition ex_a : str := [97]%N.
Definition ex_b : str := [98]%N.
Definition ex_c : str := [99]%N.
Definition ex_slash : str := [47]%N.
Definition ex_tree : tree := T (Some 0) ex_a [] [T (Some 1) ex_b [] []].
Definition ex_path : str := [97; 47; 98; 47; 99]%N.                  (* "a/b/c" *)

Example C05_add_path_nonvacuous :
  add_path_to_tree ex_tree ex_slash ex_path ex_slash true [(ex_c, VInt 0)]
  = (T (Some 0) ex_a [] [T (Some 1) ex_b [] [T None ex_c [(ex_c, VInt 0)] []]], Ret [0; 0]).
Proof. vm_compute. reflexivity. Qed.

Example C05_no_dup_nonvacuous :
  exists t' p, add_path_to_tree ex_tree [47%N] ex_path ex_slash false [] = (t', Ret p)
               /\ NoDup (names ex_tree) /\ clean 47%N ex_tree
               /\ (forall x, In x (branch_of ex_path ex_slash) -> ~ In 47%N x).
Proof.
  eexists. eexists. split; [vm_compute; reflexivity|]. split; [|split].
  - repeat constructor; cbn; intuition discriminate.
  - intros x Hx. cbn in Hx. intuition (subst; cbn in *; intuition discriminate).
  - intros x Hx. vm_compute in Hx. intuition (subst; cbn in *; intuition discriminate).
Qed.

(* fix F4: a/b on a tree holding a/xa/b is refused when duplicate names are disallowed *)
Example C05_no_dup_F4_refused :
  let t := T (Some 0) ex_a [] [T (Some 1) [120; 97]%N [] [T (Some 2) ex_b [] []]] in
  snd (add_path_to_tree t ex_slash [97; 47; 98]%N ex_slash false []) = Raise DuplicatedNodeError.
Proof. vm_compute. reflexivity. Qed.

(* K3-C05: with the two-character separator "->" the faithful model (like the implementation)
   turns the component "a-" into "a": the property predicate is false on the model's output *)
Example C05_multichar_sep_refuted :
  let sep := [45; 62]%N in
  let i := MkIn sep true dummy_tree ex_slash [] [80]%N
                [([114; 45; 62; 97; 45]%N, []); ([114; 45; 62; 98]%N, [])] in
  prop_C05 KList i (run KList i) = false.
Proof. vm_compute. reflexivity. Qed.

(* on a single-character separator the same rows satisfy the predicate *)
Example C05_singlechar_sep_holds :
  let sep := [47]%N in
  let i := MkIn sep true dummy_tree ex_slash [] [80]%N
                [([114; 47; 97; 45]%N, []); ([114; 47; 98]%N, [])] in
  prop_C05 KList i (run KList i) = true.
Proof. vm_compute. reflexivity. Qed.

(* ==== round 2: the predicate itself, attribute exactness over all rows, acceptance with duplicate
   names disallowed, the by-name entry points ============================================= *)

(* ---- C05_model_satisfies_prop: prop_C05 (Spec/PC05.v), the predicate the check evaluates on every
   implementation output, holds of the model's own output.  Proved for list_to_tree, dict_to_tree,
   add_path_to_tree (row by row) and add_dict_to_tree_by_path, either setting of
   duplicate_name_allowed, accepted and refused inputs alike (prop_C05 also decides acceptance).
   Guard (hence _partial): the separator of the input paths is one character; for the in-place entry
   points the attribute dicts of the existing tree have distinct keys (they are dicts) and, when
   duplicate names are disallowed, the tree's own separator is one character.  prop_C05 is vacuous
   outside its own `guards` (reserved attribute keys, ...).  The DataFrame/polars entry points are not
   covered by this theorem (their clauses: C05_frame_to_tree_closure, C05_attrs_frame, correspondence). *)
Theorem C05_model_satisfies_prop_list : forall i c,
  i_sep i = [c] -> prop_C05 KList i (run KList i) = true.
Proof. exact model_satisfies_list. Qed.
Print Assumptions C05_model_satisfies_prop_list.

Theorem C05_model_satisfies_prop_dict : forall i c,
  i_sep i = [c] -> prop_C05 KDict i (run KDict i) = true.
Proof. exact model_satisfies_dict. Qed.
Print Assumptions C05_model_satisfies_prop_dict.

Theorem C05_model_satisfies_prop_add_path : forall i c,
  i_sep i = [c] -> attrs_wf (i_tree i) -> (i_dup i = true \/ exists c2, i_tsep i = [c2]) ->
  prop_C05 KAddPath i (run KAddPath i) = true.
Proof. exact model_satisfies_add_path. Qed.
Print Assumptions C05_model_satisfies_prop_add_path.

Theorem C05_model_satisfies_prop_add_dict : forall i c,
  i_sep i = [c] -> attrs_wf (i_tree i) -> (i_dup i = true \/ exists c2, i_tsep i = [c2]) ->
  prop_C05 KAddDict i (run KAddDict i) = true.
Proof. exact model_satisfies_add_dict. Qed.
Print Assumptions C05_model_satisfies_prop_add_dict.

Theorem C05_model_satisfies_prop_partial : forall k i c,
  In k [KList; KDict; KAddPath; KAddDict] ->
  i_sep i = [c] -> attrs_wf (i_tree i) -> (i_dup i = true \/ exists c2, i_tsep i = [c2]) ->
  prop_C05 k i (run k i) = true.
Proof.
  intros k i c Hk Hs Hw Ht. destruct Hk as [<-|[<-|[<-|[<-|[]]]]].
  - now apply (model_satisfies_list i c).
  - now apply (model_satisfies_dict i c).
  - now apply (model_satisfies_add_path i c).
  - now apply (model_satisfies_add_dict i c).
Qed.
Print Assumptions C05_model_satisfies_prop_partial.

(* ---- C05_attrs_rows_exact: after a whole loop of add_path_to_tree calls (the body of every entry
   point) the attribute map of every node is the fold, in row order, of the dicts of the rows whose
   path is the node's path, starting from what the node carried before (nothing for a created node) *)
Theorem C05_attrs_rows_exact : forall tsep sep rows t acc t' ps,
  sib_ok t -> add_rows t tsep sep true rows acc = (t', Ret ps) ->
  forall q s', subtree_at t' q = Some s' ->
    aeq (tattrs s') (upd_for sep rows (names_along t' q) (attrs_at t q)).
Proof. exact add_rows_attrs. Qed.
Print Assumptions C05_attrs_rows_exact.

Theorem C05_attrs_list : forall ps sep t',
  list_to_tree ps sep true = Ret t' -> forall q s', subtree_at t' q = Some s' -> tattrs s' = [].
Proof. exact list_to_tree_attrs. Qed.
Print Assumptions C05_attrs_list.

Theorem C05_attrs_dict : forall d sep t',
  dict_to_tree d sep true = Ret t' ->
  exists r ra,
    forall q s', subtree_at t' q = Some s' ->
      aeq (tattrs s')
          (upd_for sep (map (fun r0 => (fst r0, filter_attributes (snd r0) [k_name] false)) d)
                   (names_along t' q) (attrs_at (T None r (set_attrs [] ra) []) q)).
Proof. exact dict_to_tree_attrs. Qed.
Print Assumptions C05_attrs_dict.

(* DataFrame / polars: the rows are (stripped path, frame_attrs of the row) ... *)
Theorem C05_attrs_frame : forall rows pcol sep t',
  frame_to_tree rows pcol sep true = Ret t' ->
  exists r kw,
    forall q s', subtree_at t' q = Some s' ->
      aeq (tattrs s')
          (upd_for sep (map (fun r0 => (fst r0, frame_attrs pcol (snd r0))) (strip_rows rows sep))
                   (names_along t' q) (attrs_at (T None r (set_attrs [] kw) []) q)).
Proof. exact frame_to_tree_attrs. Qed.
Print Assumptions C05_attrs_frame.

(* ... and frame_attrs keeps exactly the non-null cells other than "name" and the path column:
   null values are dropped here and only here (dict_to_tree keeps them, C05_attrs_dict) *)
Theorem C05_attrs_frame_nulls : forall pcol a k,
  NoDup (map fst a) ->
  attr_get (frame_attrs pcol a) k
  = if str_eqb k k_name || str_eqb k pcol then None
    else match attr_get a k with Some VNone => None | o => o end.
Proof. exact frame_attrs_get. Qed.
Print Assumptions C05_attrs_frame_nulls.

(* ---- C05_no_dup_accept_iff: with duplicate_name_allowed = False the loop is accepted exactly when
   the permissive loop is accepted and its result has pairwise distinct names, with the same result.
   Guard: start tree with distinct names; the tree's separator is one character occurring in no
   node name and no path component (needed for "accepted => same as permissive" only). *)
Theorem C05_no_dup_accept_iff : forall c t sep rows t' ps,
  NoDup (names t) -> clean c t ->
  (forall r, In r rows -> forall x, In x (branch_of (fst r) sep) -> ~ In c x) ->
  (add_rows t [c] sep false rows [] = (t', Ret ps)
   <-> add_rows t [c] sep true rows [] = (t', Ret ps) /\ NoDup (names t')).
Proof. exact no_dup_accept_iff. Qed.
Print Assumptions C05_no_dup_accept_iff.

(* unguarded half: a permissive result with distinct names is also what the strict call returns *)
Theorem C05_no_dup_accepts_distinct : forall tsep sep rows t acc t' ps,
  NoDup (names t') ->
  add_rows t tsep sep true rows acc = (t', Ret ps) ->
  add_rows t tsep sep false rows acc = (t', Ret ps).
Proof. exact add_rows_true_false. Qed.
Print Assumptions C05_no_dup_accepts_distinct.

(* in the vocabulary of the specification: accepted iff every path is well formed and the last
   components of the closure are pairwise distinct (acc_spec), both settings of the flag; separators
   of any positive length (PG: the two readings of each path string agree, see C05_parse_guard_rendered) *)
Theorem C05_accept_verdict : forall (dup : bool) sp tsep b rows,
  (forall r, In r rows -> PG sp (fst r)) ->
  sib_ok b -> nonempty_names b ->
  (dup = true \/ (tsep <> [] /\ nodup_guard sp tsep b rows)) ->
  match add_rows b tsep sp dup rows [] with
  | (t', Ret ps) =>
      acc_spec dup sp b rows = true /\ add_rows b tsep sp true rows [] = (t', Ret ps)
      /\ (dup = true \/ NoDup (names t'))
  | (t1, Raise e) =>
      acc_spec dup sp b rows = false /\
      (match rows with
       | (s0, _) :: _ => match spec_parse s0 sp with [] => true | r :: _ => negb (str_eqb r (tname b)) end = true
       | [] => False
       end -> t1 = b)
  end.
Proof. exact loop_verdict. Qed.
Print Assumptions C05_accept_verdict.

(* ---- the by-name entry points: shape, names and node objects untouched; a node gets the
   attributes of the entry carrying its name (minus the key "name"), all others keep theirs *)
Theorem C05_by_name_exact : forall d t,
  paths (by_name_apply d t) = paths t
  /\ map ttag (pre (by_name_apply d t)) = map ttag (pre t)
  /\ (forall q, subtree_at t q = None -> subtree_at (by_name_apply d t) q = None)
  /\ (forall q s, subtree_at t q = Some s ->
        exists s', subtree_at (by_name_apply d t) q = Some s' /\
                   ttag s' = ttag s /\ tname s' = tname s /\
                   map tname (tkids s') = map tname (tkids s) /\
                   tattrs s' = match dict_get d (tname s) with
                               | Some na => set_attrs (tattrs s) (filter_attributes na [k_name] false)
                               | None => tattrs s
                               end).
Proof. exact by_name_exact. Qed.
Print Assumptions C05_by_name_exact.

Theorem C05_by_name_dict : forall t d t',
  add_dict_to_tree_by_name t d = Ret t' -> d <> [] /\ t' = by_name_apply d t.
Proof. exact add_dict_by_name_exact. Qed.
Print Assumptions C05_by_name_dict.

(* frames: refused on two different attribute rows for one name; else the first row of each name,
   nulls dropped *)
Theorem C05_by_name_frame : forall t rows t',
  add_frame_to_tree_by_name t rows = Ret t' ->
  rows <> [] /\ has_duplicate_attribute rows = false /\ t' = by_name_apply (frame_name_attrs rows) t.
Proof. exact add_frame_by_name_exact. Qed.
Print Assumptions C05_by_name_frame.

Theorem C05_by_name_frame_rows : forall rows nm,
  dict_get (frame_name_attrs rows) nm
  = option_map (filter (fun kv => negb (isnull (snd kv)))) (dict_get rows nm).
Proof. exact frame_name_attrs_get. Qed.
Print Assumptions C05_by_name_frame_rows.

(* ---- non-vacuity --------------------------------------------------------------------------- *)
Definition ex_rows : list row :=
  [([97; 47; 98; 47; 100]%N, [(ex_c, VInt 1)]);      (* "a/b/d"  c=1 *)
   ([47; 97; 47; 99]%N, [(ex_c, VNone)]);            (* "/a/c"   c=None *)
   ([97; 47; 98]%N, [(ex_b, VInt 0)]);               (* "a/b"    b=0 *)
   ([97; 47; 98; 47; 100; 47]%N, [(ex_c, VInt 2)])]. (* "a/b/d/" c=2 *)
Definition ex_in (dup : bool) (t : tree) : input := MkIn ex_slash dup t ex_slash [] [80]%N ex_rows.

(* the guards of prop_C05 hold and the model accepts: the umbrella theorem is not vacuous *)
Example C05_model_satisfies_nonvacuous_new :
  guards KDict (ex_in true dummy_tree) = true /\ o_res (run KDict (ex_in true dummy_tree)) = None
  /\ guards KList (ex_in false dummy_tree) = true /\ o_res (run KList (ex_in false dummy_tree)) = None.
Proof. vm_compute. auto. Qed.

Example C05_model_satisfies_nonvacuous_add :
  guards KAddPath (ex_in false ex_tree) = true /\ o_res (run KAddPath (ex_in false ex_tree)) = None
  /\ attrs_wf ex_tree /\ i_tsep (ex_in false ex_tree) = [47%N].
Proof.
  split; [vm_compute; reflexivity|]. split; [vm_compute; reflexivity|]. split; [|reflexivity].
  intros q s H. destruct q as [|j q]; [cbn in H; inversion H; apply NoDup_nil|].
  destruct j as [|j]; [|cbn in H; destruct j; discriminate].
  destruct q as [|k q]; [cbn in H; inversion H; apply NoDup_nil|cbn in H; destruct k; discriminate].
Qed.

(* a refused input (duplicate name b below c, duplicates disallowed): guards hold, the model raises *)
Example C05_model_satisfies_nonvacuous_refused :
  let i := MkIn ex_slash false dummy_tree ex_slash [] [80]%N
                [([97; 47; 98]%N, []); ([97; 47; 99; 47; 98]%N, [])] in
  guards KList i = true /\ o_res (run KList i) = Some DuplicatedNodeError
  /\ prop_C05 KList i (run KList i) = true.
Proof. vm_compute. auto. Qed.

(* attributes over rows: the two rows for a/b/d leave c=2 (the later one), a/c keeps c=None in the
   dict variant and loses it in the frame variant *)
Example C05_attrs_rows_nonvacuous :
  match dict_to_tree ex_rows ex_slash true,
        frame_to_tree (frame_of_rows (firstn 3 ex_rows)) [80]%N ex_slash true with
  | Ret td, Ret tf =>
      option_map tattrs (subtree_at td [0; 0]) = Some [(ex_c, VInt 2)]
      /\ option_map tattrs (subtree_at td [1]) = Some [(ex_c, VNone)]
      /\ option_map tattrs (subtree_at tf [1]) = Some []
      /\ option_map tattrs (subtree_at tf [0]) = Some [(ex_b, VInt 0)]
  | _, _ => False
  end
  (* the two different attribute rows for a/b/d are refused by the frame variants *)
  /\ frame_to_tree (frame_of_rows ex_rows) [80]%N ex_slash true = Raise ValueError.
Proof. vm_compute. auto. Qed.

Example C05_by_name_nonvacuous :
  add_dict_to_tree_by_name ex_tree [(ex_b, [(ex_c, VInt 5); (k_name, VStr ex_a)])]
  = Ret (T (Some 0) ex_a [] [T (Some 1) ex_b [(ex_c, VInt 5)] []]).
Proof. vm_compute. reflexivity. Qed.

Example C05_no_dup_accept_iff_nonvacuous :
  exists t' ps, add_rows ex_tree [47%N] ex_slash false ex_rows [] = (t', Ret ps) /\ NoDup (names ex_tree).
Proof.
  eexists. eexists. split; [vm_compute; reflexivity|]. repeat constructor; cbn; intuition discriminate.
Qed.

(* ==== round 3: separators of any positive length ============================================
   Guard throughout: sep <> [] and no character of the separator occurs in a name / path component
   (sfree / sgood of Base/StrSep.v), components non-empty.  The one-character theorems above are
   instances (sfree [c] x <-> ~ In c x).  Without the guard the clauses are false for separators of
   length >= 2 (known finding K3-C05, Example C05_multichar_sep_refuted). *)

(* a leading / trailing separator changes nothing -- needs no guard on the names at all *)
Theorem C05_leading_trailing_sep_multi : forall t tsep sp path dup na,
  sp <> [] -> path <> [] ->
  add_path_to_tree t tsep (sp ++ path) sp dup na = add_path_to_tree t tsep path sp dup na
  /\ add_path_to_tree t tsep (path ++ sp) sp dup na = add_path_to_tree t tsep path sp dup na.
Proof. intros. split; [now apply add_path_leading_sep_multi|now apply add_path_trailing_sep_multi]. Qed.
Print Assumptions C05_leading_trailing_sep_multi.

Theorem C05_sep_independent_multi : forall sp1 sp2 nms t tsep dup na,
  sp1 <> [] -> sp2 <> [] -> nms <> [] -> Forall (sgood sp1) nms -> Forall (sgood sp2) nms ->
  add_path_to_tree t tsep (join sp1 nms) sp1 dup na
  = add_path_to_tree t tsep (join sp2 nms) sp2 dup na.
Proof. exact add_path_sep_independent_multi. Qed.
Print Assumptions C05_sep_independent_multi.

Theorem C05_parse_agrees_multi : forall sp nms,
  sp <> [] -> nms <> [] -> Forall (sgood sp) nms ->
  spec_parse (join sp nms) sp = nms /\ branch_of (join sp nms) sp = nms.
Proof. exact spec_parse_join_multi. Qed.
Print Assumptions C05_parse_agrees_multi.

(* add_path_to_tree on a rendered name list: paths = before ∪ prefixes of the NAME LIST, node objects
   reused, returned node at that name path (C05_add_path_paths / _reuses / _returns hold for every
   separator as stated; this instantiates branch_of) *)
Theorem C05_add_path_paths_multi : forall t tsep sp nms na t' p,
  sp <> [] -> nms <> [] -> Forall (sgood sp) nms ->
  add_path_to_tree t tsep (join sp nms) sp true na = (t', Ret p) ->
  (forall q, In q (paths t') <-> In q (paths t) \/ In q (prefixes nms))
  /\ names_along t' p = nms
  /\ (forall q s, subtree_at t q = Some s ->
        exists s', subtree_at t' q = Some s' /\ ttag s' = ttag s /\ tname s' = tname s).
Proof.
  intros t tsep sp nms na t' p Hs Hne Hg H.
  pose proof (branch_of_join_multi sp nms Hs Hne Hg) as Hb. split; [|split].
  - intros q. rewrite <- Hb. exact (add_path_paths _ _ _ _ _ _ _ H q).
  - rewrite <- Hb. exact (proj2 (add_path_returns _ _ _ _ _ _ _ H)).
  - intros q s Hq. destruct (add_path_reuses _ _ _ _ _ _ _ H) as (Hr & _ & _).
    destruct (Hr q s Hq) as (s' & Hs' & Ht & Hn & _). eauto.
Qed.
Print Assumptions C05_add_path_paths_multi.

(* duplicate names disallowed, the tree's own separator of any length *)
Theorem C05_no_dup_names_multi : forall tsep t path sep na t' p,
  tsep <> [] -> NoDup (names t) -> cleans tsep t -> Forall (sfree tsep) (branch_of path sep) ->
  add_path_to_tree t tsep path sep false na = (t', Ret p) ->
  add_path_to_tree t tsep path sep true na = (t', Ret p) /\ NoDup (names t').
Proof.
  intros tsep t path sep na t' p Hts Hn Hc Hb H. split.
  - exact (add_path_false_true_multi tsep t path sep na t' p Hts Hn Hc Hb H).
  - exact (add_path_false_names t tsep path sep na t' p Hn H).
Qed.
Print Assumptions C05_no_dup_names_multi.

Theorem C05_no_dup_accept_iff_multi : forall tsep t sep rows t' ps,
  tsep <> [] -> NoDup (names t) -> cleans tsep t ->
  (forall r, In r rows -> Forall (sfree tsep) (branch_of (fst r) sep)) ->
  (add_rows t tsep sep false rows [] = (t', Ret ps)
   <-> add_rows t tsep sep true rows [] = (t', Ret ps) /\ NoDup (names t')).
Proof. exact no_dup_accept_iff_multi. Qed.
Print Assumptions C05_no_dup_accept_iff_multi.

(* the guard on a path string: `rendered` strings (a list of sgood names joined by the separator, any
   number of whole leading/trailing separators; or separators only) are read alike by the
   specification and by the code (PG); for a one-character separator every string is *)
Theorem C05_parse_guard_rendered : forall sp s, sp <> [] -> rendered sp s -> PG sp s.
Proof. exact rendered_PG. Qed.
Print Assumptions C05_parse_guard_rendered.

Theorem C05_parse_guard_single : forall c s, PG [c] s.
Proof. exact PG_single. Qed.
Print Assumptions C05_parse_guard_single.

(* the umbrella theorems for separators of any positive length.  Guard: every path string satisfies
   PG (e.g. is `rendered`); with duplicate names disallowed additionally nodup_guard: start names
   distinct and no character of the separator the tree works with in any name or path component *)
Theorem C05_model_satisfies_prop_list_multi : forall i,
  i_sep i <> [] -> (forall r, In r (i_rows i) -> PG (i_sep i) (fst r)) ->
  (guards KList i = true -> i_dup i = false ->
   nodup_guard (i_sep i) (i_sep i) (base KList i) (i_rows i)) ->
  prop_C05 KList i (run KList i) = true.
Proof. exact model_satisfies_list_multi. Qed.
Print Assumptions C05_model_satisfies_prop_list_multi.

Theorem C05_model_satisfies_prop_dict_multi : forall i,
  i_sep i <> [] -> (forall r, In r (i_rows i) -> PG (i_sep i) (fst r)) ->
  (guards KDict i = true -> i_dup i = false ->
   nodup_guard (i_sep i) (i_sep i) (base KDict i) (i_rows i)) ->
  prop_C05 KDict i (run KDict i) = true.
Proof. exact model_satisfies_dict_multi. Qed.
Print Assumptions C05_model_satisfies_prop_dict_multi.

Theorem C05_model_satisfies_prop_add_path_multi : forall i,
  i_sep i <> [] -> (forall r, In r (i_rows i) -> PG (i_sep i) (fst r)) -> attrs_wf (i_tree i) ->
  (guards KAddPath i = true -> i_dup i = false ->
   i_tsep i <> [] /\ nodup_guard (i_sep i) (i_tsep i) (i_tree i) (i_rows i)) ->
  prop_C05 KAddPath i (run KAddPath i) = true.
Proof. exact model_satisfies_add_path_multi. Qed.
Print Assumptions C05_model_satisfies_prop_add_path_multi.

Theorem C05_model_satisfies_prop_add_dict_multi : forall i,
  i_sep i <> [] -> (forall r, In r (i_rows i) -> PG (i_sep i) (fst r)) -> attrs_wf (i_tree i) ->
  (guards KAddDict i = true -> i_dup i = false ->
   i_tsep i <> [] /\ nodup_guard (i_sep i) (i_tsep i) (i_tree i) (i_rows i)) ->
  prop_C05 KAddDict i (run KAddDict i) = true.
Proof. exact model_satisfies_add_dict_multi. Qed.
Print Assumptions C05_model_satisfies_prop_add_dict_multi.

(* non-vacuity with the separator "->" (and tree separator "::"): rendered rows, guards true, accepted *)
Definition ex_arrow : str := [45; 62]%N.
Definition ex_colons : str := [58; 58]%N.
Definition ex_rows_multi : list row :=
  [([97; 45; 62; 98; 45; 62; 100]%N, [(ex_c, VInt 1)]);          (* "a->b->d"   *)
   ([45; 62; 97; 45; 62; 99; 45; 62]%N, []);                      (* "->a->c->"  *)
   ([97; 45; 62; 98]%N, [(ex_b, VInt 0)])].                       (* "a->b"      *)
Example C05_multi_nonvacuous :
  let i := MkIn ex_arrow false ex_tree ex_colons [] [80]%N ex_rows_multi in
  guards KAddPath i = true /\ o_res (run KAddPath i) = None /\ prop_C05 KAddPath i (run KAddPath i) = true
  /\ guards KDict (MkIn ex_arrow true dummy_tree ex_slash [] [80]%N ex_rows_multi) = true
  /\ o_res (run KDict (MkIn ex_arrow true dummy_tree ex_slash [] [80]%N ex_rows_multi)) = None.
Proof. vm_compute. auto 6. Qed.

Example C05_multi_rendered :
  rendered ex_arrow [45; 62; 97; 45; 62; 99; 45; 62]%N.
Proof.
  left. exists 1, 1, [[97]%N; [99]%N]. split; [discriminate|]. split; [|reflexivity].
  repeat constructor; try discriminate; intros ch [<-|[<-|[]]] H; cbn in H; intuition discriminate.
Qed.

(* ==== round 4: histories =====================================================================
   hrun (Algo/Construct.v) is the trace of a history on one tree: add_path_to_tree calls interleaved
   with the structural edits del parent[name] / node.parent = other / node.sort(), each add recorded
   as (tree before, path, attributes, (tree after, returned position)).  The correspondence runs the
   same function (Corr/ConstructCorr.v run_ops via hedit) against the implementation. *)

(* C05_history_adds_exact: after ANY sequence of adds and edits, each accepted add satisfies the
   add_path clause against the tree as it is at that moment: paths = before ∪ prefixes, the returned
   node is the node at the path, existing node objects are reused, new positions carry new objects.
   (The model keeps no state between calls; this is the clause a module-level cache breaks.) *)
Theorem C05_history_adds_exact : forall tsep sep ops t,
  Forall (fun e => match e with (tb, path, _, r) => add_clause tb sep path r end)
         (hrun tsep sep true t ops).
Proof. exact history_adds_exact. Qed.
Print Assumptions C05_history_adds_exact.

(* non-vacuity: add a/b/c, detach a/b, add a/b/d: two accepted adds, the second one builds a fresh b *)
Example C05_history_nonvacuous :
  map (fun e => snd (snd e))
      (hrun ex_slash ex_slash true (T (Some 0) ex_a [] [])
            [HAdd ex_path []; HDel [ex_a; ex_b]; HAdd [97; 47; 98; 47; 100]%N []])
  = [Ret [0; 0]; Ret [0; 0]]
  /\ map (fun e => paths (fst (snd e)))
         (hrun ex_slash ex_slash true (T (Some 0) ex_a [] [])
               [HAdd ex_path []; HDel [ex_a; ex_b]; HAdd [97; 47; 98; 47; 100]%N []])
     = [[[ex_a]; [ex_a; ex_b]; [ex_a; ex_b; ex_c]]; [[ex_a]; [ex_a; ex_b]; [ex_a; ex_b; [100]%N]]].
Proof. vm_compute. auto. Qed.
