(* C19, second round — more of clause 4 (cousin separation: "any two nodes of one depth are at least
   the smaller of the two separations apart in their left-to-right tree order"), which is FALSE in
   general for the faithful model (known finding K1).  Only statements; proofs in Algo/C19More2.v.

   1. For ALL trees and all positive separations (no guard): any two nodes with a common
      grandparent are min(sibling, subtree separation) apart (`cousins2_ok`): together with
      C19_siblings_separated, clause 4 holds for every pair of nodes whose lowest common ancestor is
      at most two levels up.  Every K1 failure is between second cousins or remoter relatives.
   2. Clause 4 for the decidable class `cousin_safe2` (Algo/C19More2.v), strictly larger than
      `cousin_safe` of the first round: 2042 instead of 1893 of the 2056 ordered trees with <= 9
      nodes (99.3 % / 92.1 %), 6801 instead of 5992 of the 6918 trees with <= 10 nodes, about 89 %
      instead of 75 % of the generated trees.  Both remaining guards are shown to matter.
   3. Both results for a start node that is not the root and after any history of layouts / edits.
   4. What the parameters move: x does not depend on level_separation / y_offset; y in closed form.
   5. Scaling: (ss, sts, x_offset) * c gives x * c; clause 4 depends on the ratio ss : sts only; K1 is
      refuted for the witness family under every parameter set with ss = sts.
   6. x_offset is a lower clamp max (x_offset, K) on the translation of the offset-free drawing. *)
From Coq Require Import QArith Qminmax.
From BT Require Import Base.Prelude Base.Rose Algo.Plot Spec.PC19 Algo.PlotProofs Algo.C19More2 Props.C19.

(* ---------------------------------------------------------------------------------------------
   1. first cousins, every tree *)
Theorem C19_first_cousins_all : forall eps p t, 0 <= eps -> params_pos p ->
  cousins2_ok eps (p_ss p) (p_sts p) (reingold_tilford p t) = true.
Proof. exact rt_first_cousins. Qed.
Print Assumptions C19_first_cousins_all.

(* the mechanism behind it, on the model: the shift returned by the contour comparison never
   falls below what its first level asks for, for any ratio (left_idx), fuel and shapes *)
Theorem C19_contour_first_level : forall fuel rt sts l0 XL r0 XR lcs rcs cum,
  cum + (dx l0 + dsh l0 + lcs + sts - (dx r0 + dsh r0 + rcs + cum)) / rt
  <= contour fuel rt sts (l0 :: XL) (r0 :: XR) lcs rcs cum.
Proof. exact contour_first. Qed.
Print Assumptions C19_contour_first_level.

Theorem C19_contour_monotone : forall rt sts fuel ls rs lcs rcs cum,
  cum <= contour fuel rt sts ls rs lcs rcs cum.
Proof. exact contour_ge. Qed.
Print Assumptions C19_contour_monotone.

(* ---------------------------------------------------------------------------------------------
   2. the larger class.  cousin_safe2 t: at every node, any two children a (index j) before b that
   both have children satisfy: a is flat or b is flat (only leaf children), or j = 0 and
   min (hR a) (hL b) = min (height a) (height b) (the lock-step contour walk reaches every level
   that a and b have in common). *)
Theorem C19_cousins_safe2 : forall eps p t, 0 <= eps -> params_pos p -> cousin_safe2 t = true ->
  cousins_ok eps (p_ss p) (p_sts p) (reingold_tilford p t) = true.
Proof. exact rt_cousins_safe2. Qed.
Print Assumptions C19_cousins_safe2.

(* hence the whole property *)
Theorem C19_safe2 : forall eps p t, 0 <= eps -> params_pos p -> cousin_safe2 t = true ->
  prop_C19 eps p t (reingold_tilford p t) = true.
Proof. exact rt_prop_safe2. Qed.
Print Assumptions C19_safe2.

(* it contains the class of the first round (and with it cousin_guard, cousin_guard2) *)
Theorem C19_safe_implies_safe2 : forall t, cousin_safe t = true -> cousin_safe2 t = true.
Proof. exact safe_safe2. Qed.
Print Assumptions C19_safe_implies_safe2.

(* the sharper necessary shape of every K1 failure: some node has two children a (index j) before
   b, neither of them flat, and (j >= 1 or the lock-step walk misses a common level) *)
Theorem C19_cousins_failure_safe2 : forall p t, params_pos p ->
  cousins_ok 0 (p_ss p) (p_sts p) (reingold_tilford p t) = false -> cousin_safe2 t = false.
Proof. exact rt_cousins_failure_safe2. Qed.
Print Assumptions C19_cousins_failure_safe2.

(* the comparison with left_idx = 0 on the model: the returned shift separates two forests on
   EVERY level as soon as the lock-step walk reaches every level they have in common (the first
   round needed both walks complete to the bottom of their own forest) *)
Theorem C19_contour_common_levels : forall m sts rt, rt == 1 -> 0 <= m ->
  forall fuel Lk Rk lcs rcs cum,
    Lk <> [] -> Rk <> [] -> (maxh sheight (map sk_d Lk) <= fuel)%nat ->
    sepF m Lk -> sepF m Rk ->
    Nat.min (chain hR (map sk_d (rev Lk))) (chain hL (map sk_d Rk))
    = Nat.min (maxh sheight (map sk_d Lk)) (maxh sheight (map sk_d Rk)) ->
    let c := contour fuel rt sts (rev Lk) Rk lcs rcs cum in
    cum <= c /\ forall j a b, In a (lvs j lcs Lk) -> In b (lvs j rcs Rk) -> a + sts <= b + c.
Proof. exact contour_spec2. Qed.
Print Assumptions C19_contour_common_levels.

(* non-vacuity and strictness.
   wide_deep (21 nodes, height 5): 4 children with children; the first one is four levels high, the
   second one flat at index 1, the fourth one non-flat at index 3 - cousin_safe rejects it (a flat /
   non-flat pair at j >= 1), cousin_safe2 accepts it.
   lopsided (15 nodes, height 7): two children, a of height 3 with a complete right walk, b of
   height 6 whose left walk stops after 4 levels although its second child goes deeper: the
   lock-step walk covers the three common levels.  Both satisfy the whole property with non-unit
   parameters. *)
Definition wide_deep : tree :=
  nd [nd [nd [leaf; nd [leaf; leaf]]; leaf]; nd [leaf; leaf; leaf]; leaf; nd [nd [leaf; leaf]; leaf];
      nd [leaf; leaf]].
Definition lopsided : tree :=
  nd [nd [nd [leaf]; leaf]; nd [nd [nd [leaf]]; nd [nd [nd [nd [leaf; leaf]]]]]].
Example C19_safe2_examples :
  let p := PR (1 # 2) (3 # 2) 2 (1 # 4) 1 in
  params_pos p
  /\ cousin_safe wide_deep = false /\ cousin_safe2 wide_deep = true /\ tsize wide_deep = 21%nat
  /\ cousin_safe lopsided = false /\ cousin_safe2 lopsided = true /\ tsize lopsided = 15%nat
  /\ prop_C19 0 p wide_deep (reingold_tilford p wide_deep) = true
  /\ prop_C19 0 p lopsided (reingold_tilford p lopsided) = true
  /\ cousins2_ok 0 (p_ss p) (p_sts p) (reingold_tilford p k1_tree) = true.
Proof. split; [repeat split|]. repeat split; vm_compute; reflexivity. Qed.

(* both remaining guards matter: the two K1 witnesses (and the whole refuted family) are outside
   cousin_safe2 - k1_tree through a pair of non-flat siblings at index j = 1, k1b_tree through a
   pair at j = 0 whose walk misses a common level - and they violate clause 4, although their
   first cousins are separated (theorem 1) *)
Example C19_safe2_guards_matter :
  cousin_safe2 k1_tree = false /\ cousins_ok 0 1 1 (reingold_tilford unit_params k1_tree) = false
  /\ cousin_safe2 k1b_tree = false /\ cousins_ok 0 1 1 (reingold_tilford unit_params k1b_tree) = false
  /\ cousin_safe2 (under_chain 3 k1_tree) = false
  /\ cousins2_ok 0 1 1 (reingold_tilford unit_params k1_tree) = true
  /\ cousins2_ok 0 1 1 (reingold_tilford unit_params k1b_tree) = true.
Proof. repeat split; vm_compute; reflexivity. Qed.

(* the class is still not exact: the smallest tree outside it, r(a, b(c(d)), e(f(g))) (7 nodes; b
   and e are non-flat siblings at index 1 and 2), is laid out correctly for unit and for unequal
   separations *)
Definition outside_but_fine : tree := nd [leaf; nd [nd [leaf]]; nd [nd [leaf]]].
Example C19_safe2_not_necessary :
  cousin_safe2 outside_but_fine = false
  /\ cousins_ok 0 1 1 (reingold_tilford unit_params outside_but_fine) = true
  /\ cousins_ok 0 1 3 (reingold_tilford (PR 1 3 1 0 0) outside_but_fine) = true
  /\ cousins_ok 0 3 1 (reingold_tilford (PR 3 1 1 0 0) outside_but_fine) = true.
Proof. repeat split; vm_compute; reflexivity. Qed.

(* the size of the classes: all ordered trees with <= 9 nodes (shapes, enumerated here) *)
Fixpoint forests (fuel n : nat) : list (list sk) :=
  match fuel with
  | O => match n with O => [[]] | _ => [] end
  | S f =>
      match n with
      | O => [[]]
      | S n' => flat_map (fun k => flat_map (fun first => map (fun rest => Sk first :: rest)
                                                              (forests f (n' - k)))
                                            (forests f k)) (seq 0 n)
      end
  end.
Definition shapes_upto (n : nat) : list sk := flat_map (fun k => map Sk (forests k (k - 1))) (seq 1 n).
Example C19_class_sizes :
  length (shapes_upto 9) = 2056%nat
  /\ length (filter cguard3_sk (shapes_upto 9)) = 1893%nat       (* cousin_safe *)
  /\ length (filter cguard4_sk (shapes_upto 9)) = 2042%nat.      (* cousin_safe2 *)
Proof. repeat split; vm_compute; reflexivity. Qed.

(* ---------------------------------------------------------------------------------------------
   3. the same for the other ways to reach a layout *)

(* a start node that is not the root (first child of its parent, any depth): first cousins always,
   the whole property when the subtree is in the class (the first round had the four other
   clauses only) *)
Theorem C19_subtree_start_safe2 : forall eps p whole path sub c, 0 <= eps -> params_pos p ->
  subtree_at whole path = Some sub -> rt_at p whole path = Some c ->
  cousins2_ok eps (p_ss p) (p_sts p) c = true
  /\ (cousin_safe2 sub = true -> prop_C19 eps p sub c = true).
Proof. exact rt_at_safe2. Qed.
Print Assumptions C19_subtree_start_safe2.

(* the last layout after any history of layouts and structural edits *)
Theorem C19_after_any_history_safe2 : forall eps st steps es p, 0 <= eps -> params_pos p ->
  let t := tree_of_d (apply_edits es (fst (run_steps st steps))) in
  cousins2_ok eps (p_ss p) (p_sts p) (snd (run_steps st (steps ++ [(es, p)]))) = true
  /\ (cousin_safe2 t = true -> prop_C19 eps p t (snd (run_steps st (steps ++ [(es, p)]))) = true).
Proof. exact history_safe2. Qed.
Print Assumptions C19_after_any_history_safe2.

Example C19_subtree_start_safe2_example :
  let whole := nd [wide_deep; leaf] in
  exists c, rt_at unit_params whole [0%nat] = Some c /\ subtree_at whole [0%nat] = Some wide_deep
            /\ prop_C19 0 unit_params wide_deep c = true.
Proof. eexists. repeat split; vm_compute; reflexivity. Qed.

(* ---------------------------------------------------------------------------------------------
   4. which parameter moves what (arbitrary rational parameters, no positivity needed) *)

(* x is a function of the shape, sibling_separation, subtree_separation and x_offset alone *)
Theorem C19_x_independent_of_level_params : forall p p' t,
  p_ss p = p_ss p' -> p_sts p = p_sts p' -> p_xo p = p_xo p' ->
  xeq (reingold_tilford p t) (reingold_tilford p' t).
Proof. exact rt_x_indep. Qed.
Print Assumptions C19_x_independent_of_level_params.

(* y in closed form: the nodes k levels below the root sit at
   (height - 1 - k) * level_separation + y_offset; the deepest level sits at y_offset *)
Theorem C19_y_closed_form : forall p t k,
  Forall (fun n => cy n == inject_Z (Z.of_nat (height t) - Z.of_nat (S k)) * p_ls p + p_yo p)
         (clevel k (reingold_tilford p t)).
Proof. exact rt_y_closed. Qed.
Print Assumptions C19_y_closed_form.

Example C19_params_example :
  let p := PR (1 # 2) (3 # 2) 2 (1 # 4) 1 in let p' := PR (1 # 2) (3 # 2) (7 # 3) (1 # 4) (-5) in
  map cx (clevel 3 (reingold_tilford p wide_deep)) = map cx (clevel 3 (reingold_tilford p' wide_deep))
  /\ map cy (clevel 3 (reingold_tilford p wide_deep)) = [3; 3; 3; 3]
  /\ height wide_deep = 5%nat.
Proof. repeat split; vm_compute; reflexivity. Qed.

(* ---------------------------------------------------------------------------------------------
   5. scaling.  Multiplying sibling_separation, subtree_separation and x_offset by c > 0 multiplies
   every x by c (level_separation and y_offset are free): the layout is positively homogeneous. *)
Theorem C19_x_scales : forall c p p' t, 0 < c ->
  p_ss p' == c * p_ss p -> p_sts p' == c * p_sts p -> p_xo p' == c * p_xo p ->
  forall k, Forall2 (fun u v => cx v == c * cx u)
                    (clevel k (reingold_tilford p t)) (clevel k (reingold_tilford p' t)).
Proof. intros c p p' t Hc E1 E2 E3 k. apply csc_levels, rt_scale; assumption. Qed.
Print Assumptions C19_x_scales.

(* hence whether clause 4 holds depends on the shape and on the RATIO of the two separations only
   (tolerance scaled along) *)
Theorem C19_cousins_scale_invariant : forall c eps p p' t, 0 < c ->
  p_ss p' == c * p_ss p -> p_sts p' == c * p_sts p -> p_xo p' == c * p_xo p ->
  cousins_ok (c * eps) (p_ss p') (p_sts p') (reingold_tilford p' t)
  = cousins_ok eps (p_ss p) (p_sts p) (reingold_tilford p t).
Proof. exact rt_cousins_scale. Qed.
Print Assumptions C19_cousins_scale_invariant.

(* K1 for infinitely many trees AND infinitely many parameter sets: the witness under a chain of
   n unary nodes violates clause 4 whenever sibling = subtree separation = c > 0, for every level
   separation and y_offset (the first round had the unit parameters only) *)
Theorem C19_cousins_refuted_scaled_family : forall n c ls yo, 0 < c -> 0 < ls ->
  params_pos (PR c c ls 0 yo)
  /\ prop_C19_but_cousins 0 (PR c c ls 0 yo) (under_chain n k1_tree)
       (reingold_tilford (PR c c ls 0 yo) (under_chain n k1_tree)) = true
  /\ cousins_ok 0 c c (reingold_tilford (PR c c ls 0 yo) (under_chain n k1_tree)) = false.
Proof.
  intros n c ls yo Hc Hls. assert (Hp : params_pos (PR c c ls 0 yo)) by (repeat split; assumption).
  split; [exact Hp|]. split; [apply rt_but_cousins; [apply Qle_refl|exact Hp]|apply k1_refuted_scaled, Hc].
Qed.
Print Assumptions C19_cousins_refuted_scaled_family.

Example C19_scale_example :
  map cx (clevel 3 (reingold_tilford unit_params k1_tree)) = [2; 5 # 2; 7 # 2]
  /\ map cx (clevel 3 (reingold_tilford (PR (3 # 2) (3 # 2) 5 0 7) k1_tree)) = [3; 15 # 4; 21 # 4]
  /\ cousins_ok 0 (3 # 2) (3 # 2) (reingold_tilford (PR (3 # 2) (3 # 2) 5 0 7) (under_chain 2 k1_tree)) = false.
Proof. repeat split; vm_compute; reflexivity. Qed.

(* ---------------------------------------------------------------------------------------------
   6. x_offset.  `raw0 p t` is the second-pass drawing computed WITHOUT the offset (it does not
   mention p_xo); the result of reingold_tilford is raw0 moved right by max (x_offset, K), where
   K = negmin (raw0 p t) = minus the smallest raw x of a leaf.  So x_offset is a lower clamp on the
   translation, not an added offset: below K it has no effect at all. *)
Theorem C19_x_offset_clamp : forall p t k,
  Forall2 (fun u v => cx v == cx u + Qmax (p_xo p) (negmin (raw0 p t)))
          (clevel k (raw0 p t)) (clevel k (reingold_tilford p t)).
Proof. intros p t k. apply csh_levels, rt_offset. Qed.
Print Assumptions C19_x_offset_clamp.

Theorem C19_raw0_offset_free : forall ss sts ls xo xo' yo t,
  raw0 (PR ss sts ls xo yo) t = raw0 (PR ss sts ls xo' yo) t.
Proof. reflexivity. Qed.
Print Assumptions C19_raw0_offset_free.

(* r(a, b(5 leaves)): the raw drawing reaches x = -1 (K = 1); x_offset 0 and 1/2 give the same
   coordinates, x_offset 3 moves the raw drawing by 3 *)
Definition neg_tree : tree := nd [leaf; nd [leaf; leaf; leaf; leaf; leaf]].
Example C19_x_offset_example :
  negmin (raw0 unit_params neg_tree) = 1
  /\ map cx (clevel 2 (raw0 unit_params neg_tree)) = [-1; 0; 1; 2; 3]
  /\ map cx (clevel 2 (reingold_tilford (PR 1 1 1 0 0) neg_tree)) = [0; 1; 2; 3; 4]
  /\ map cx (clevel 2 (reingold_tilford (PR 1 1 1 (1 # 2) 0) neg_tree)) = [0; 1; 2; 3; 4]
  /\ map cx (clevel 2 (reingold_tilford (PR 1 1 1 3 0) neg_tree)) = [2; 3; 4; 5; 6].
Proof. repeat split; vm_compute; reflexivity. Qed.
