(* C01, node conservation: a re-parenting neither loses nor duplicates nodes.
   On tagged rose trees with pairwise distinct tags: cutting out the subtree tagged c splits the node list,
   grafting a tree below the node tagged p adds exactly its nodes, so the surgery that an accepted
   `c.parent = p` performs (C01_parent_assignment_is_tree_surgery) permutes the nodes.  Lifted to the heap:
   after the assignment the tree below every node r that properly contains c, and contains p outside the
   c-subtree, has exactly the same nodes as before.
   Proofs: Heap/SurgeryConserve.v. *)
From Coq Require Import Sorting.Permutation.
From BT Require Import Base.Prelude Base.Str Base.Rose Heap.Forest Heap.ForestWF Heap.Abs Heap.AbsSurgery
     Heap.SurgeryConserve.

Theorem C01_cut_splits_nodes : forall c t u,
  NoDup (tags t) -> In u (pre t) -> ttag u = Some c -> ttag t <> Some c ->
  Permutation (tags t) (tags (cut c t) ++ tags u).
Proof. exact cut_splits. Qed.
Print Assumptions C01_cut_splits_nodes.

Theorem C01_graft_adds_nodes : forall p u t,
  NoDup (tags t) -> In (Some p) (tags t) -> Permutation (tags (graft p u t)) (tags t ++ tags u).
Proof. exact graft_adds. Qed.
Print Assumptions C01_graft_adds_nodes.

Theorem C01_surgery_conserves_nodes : forall c p t u,
  NoDup (tags t) -> In u (pre t) -> ttag u = Some c -> ttag t <> Some c ->
  In (Some p) (tags (cut c t)) ->
  Permutation (tags (graft p u (cut c t))) (tags t).
Proof. exact surgery_conserves. Qed.
Print Assumptions C01_surgery_conserves_nodes.

Theorem C01_surgery_keeps_nodes_distinct : forall c p t u,
  NoDup (tags t) -> In u (pre t) -> ttag u = Some c -> ttag t <> Some c ->
  In (Some p) (tags (cut c t)) ->
  NoDup (tags (graft p u (cut c t))).
Proof. exact surgery_nodup. Qed.
Print Assumptions C01_surgery_keeps_nodes_distinct.

Theorem C01_reparenting_conserves_nodes : forall s c p r,
  WF s -> c < size s -> p < size s -> p <> c -> ~ In c (ancestors s p) ->
  In (Some c) (tags (subtree s r)) -> r <> c ->
  In (Some p) (tags (subtree s r)) -> ~ In (Some p) (tags (subtree s c)) ->
  Permutation (tags (subtree (attach s c (Some p)) r)) (tags (subtree s r)).
Proof. exact attach_conserves. Qed.
Print Assumptions C01_reparenting_conserves_nodes.

(* non-vacuity: 0 with children 1,2,3; 4 and 5 below 2; cut the 2-subtree and graft it below 3:
   six nodes before, the same six afterwards, in a different pre-order *)
Example C01_conserve_nonvacuous :
  let lf i := T (Some i) [] [] [] in
  let u := T (Some 2) [] [] [lf 4; lf 5] in
  let t := T (Some 0) [] [] [lf 1; u; lf 3] in
  Permutation (tags (graft 3 u (cut 2 t))) (tags t)
  /\ tags t = [Some 0; Some 1; Some 2; Some 4; Some 5; Some 3]
  /\ tags (cut 2 t) = [Some 0; Some 1; Some 3]
  /\ tags (graft 3 u (cut 2 t)) = [Some 0; Some 1; Some 3; Some 2; Some 4; Some 5]
  /\ In u (pre t) /\ ttag u = Some 2 /\ ttag t <> Some 2 /\ In (Some 3) (tags (cut 2 t)).
Proof.
  vm_compute. split.
  { do 2 apply perm_skip. exact (Permutation_cons_append [Some 2; Some 4; Some 5] (Some 3)). }
  repeat split; try reflexivity.
  - right. right. left. reflexivity.
  - discriminate.
  - right. right. left. reflexivity.
Qed.
