(* Bridge between the heap model of C01 and the rose-tree models of the read-only algorithms:
   below every node of every state reachable through the structural API hangs a tagged rose tree
   with pairwise distinct tags whose child lists are the heap's child lists.  Consequently the
   traversal theorems of C04 (stated for trees with distinct tags) hold for the trees that
   operation histories actually build.   Proofs: Heap/Abs.v. *)
From Coq Require Import Sorting.Permutation.
From BT Require Import Base.Prelude Base.Str Base.Rose Heap.Forest Heap.ForestWF Heap.ForestStep Heap.Abs
     Spec.PC04 Algo.Iter Algo.IterProofs.

Theorem C01_subtree_fuel_sufficient : forall s x f, WF s -> size s <= f -> tree_of s (S f) x = subtree s x.
Proof. exact tree_of_any_fuel. Qed.
Print Assumptions C01_subtree_fuel_sufficient.

Theorem C01_reachable_states_are_rose_forests : forall cfg n names seps ops x,
  let s := run cfg (init n names seps) ops in
  NoDup (tags (subtree s x))
  /\ subtree s x = T (Some x) (name s x) [] (map (subtree s) (kids s x))
  /\ (forall y, In (Some y) (tags (subtree s x)) <-> y = x \/ In x (ancestors s y)).
Proof. exact reachable_subtree_is_rose_tree. Qed.
Print Assumptions C01_reachable_states_are_rose_forests.

(* C04 on reachable heap states: every iterator started at any node of any reachable forest yields
   each visible node satisfying the filter exactly once *)
Theorem C04_each_once_on_reachable_states : forall cfg n names seps ops x filt stop m d,
  let s := run cfg (init n names seps) ops in
  let t := subtree s x in
  let V := spec_pre filt stop m d t in
  (NoDup (map ttag (preorder filt stop m d t)) /\ Permutation (preorder filt stop m d t) V)
  /\ (NoDup (map ttag (postorder filt stop m d t)) /\ Permutation (postorder filt stop m d t) V)
  /\ (NoDup (map ttag (levelorder filt stop m d t)) /\ Permutation (levelorder filt stop m d t) V)
  /\ (NoDup (map ttag (zigzag filt stop m d t)) /\ Permutation (zigzag filt stop m d t) V).
Proof.
  intros cfg n names seps ops x filt stop m d s t. apply each_once.
  apply (subtree_tags_nodup s x). apply run_WF, WF_init.
Qed.
Print Assumptions C04_each_once_on_reachable_states.

Example C01_bridge_nonvacuous :
  let s := run {| assertions := true; is_node := false |} (init 5 (fun _ => []) (fun _ => []))
               [SetChildren 0 CList [ANode 1; ANode 2; ANode 3] NoFault; SetParent 4 (ANode 2) NoFault] in
  tags (subtree s 0) = [Some 0; Some 1; Some 2; Some 4; Some 3].
Proof. vm_compute. reflexivity. Qed.
