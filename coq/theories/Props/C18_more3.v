(* C18, third round — the graph exports (statements only; proofs in Algo/C18More3.v).
   tree_to_dot: vertex ids are unique for every tree in which no label is carried by more than ten
   nodes, whatever the labels look like — the guard "no label ends in a decimal digit" (K2) of
   C18_dot_ids_injective_partial is not needed there; this covers BinaryNode trees (integer names,
   empty slots) and names such as a1.  Ten is sharp (K2's witness has eleven nodes labelled a).
   tree_to_mermaid: the verdict of the graph clause for every tree (K4 is the only failure). *)
From BT Require Import Base.Prelude Base.Str Base.Rose Algo.Render Algo.Dot Spec.PC18 Algo.RenderProofs
     Corr.RenderCorr Algo.C18More3.

(* ---------------------------------------------------------------------------------------------- *)
(* dot *)

(* Guards: no label occurs on more than ten (existing) nodes, the nodes have pairwise different path
   names, no label contains ':' (K5).  No guard on the last character of the labels. *)
Theorem C18_dot_ids_injective_few : forall sep t,
  labels_at_most_ten t = true -> paths_distinct sep t = true -> no_label_has_colon t = true ->
  graph_ids_distinct (dot_nodes sep t) = true.
Proof. exact dot_ids_injective_few. Qed.
Print Assumptions C18_dot_ids_injective_few.

(* the ids as bigtree computes them (before pydot): also with colons in the names *)
Theorem C18_dot_raw_ids_injective_few : forall sep t,
  labels_at_most_ten t = true -> paths_distinct sep t = true ->
  graph_ids_distinct (dot_raw_nodes sep t) = true.
Proof. exact dot_raw_ids_injective_few. Qed.
Print Assumptions C18_dot_raw_ids_injective_few.

(* under these guards the whole graph clause holds *)
Theorem C18_dot_graph_few : forall sep t,
  labels_at_most_ten t = true -> paths_distinct sep t = true -> no_label_has_colon t = true ->
  prop_C18_g t (dot_nodes sep t) (dot_edges sep t) = true.
Proof. exact dot_graph_few. Qed.
Print Assumptions C18_dot_graph_few.

(* two decidable classes inside the multiplicity guard: every tree with at most ten existing nodes,
   and every tree whose labels are pairwise different (a BinaryNode search tree with integer names) *)
Theorem C18_dot_graph_small_trees : forall sep t,
  tsize (compact t) <= 10 -> paths_distinct sep t = true -> no_label_has_colon t = true ->
  prop_C18_g t (dot_nodes sep t) (dot_edges sep t) = true.
Proof. intros sep t H. apply dot_graph_few. apply small_tree_few. exact H. Qed.
Print Assumptions C18_dot_graph_small_trees.

Theorem C18_dot_graph_distinct_labels : forall sep t,
  nodup_str (names_pre (compact t)) = true -> paths_distinct sep t = true -> no_label_has_colon t = true ->
  prop_C18_g t (dot_nodes sep t) (dot_edges sep t) = true.
Proof. intros sep t H. apply dot_graph_few. apply distinct_labels_few. exact H. Qed.
Print Assumptions C18_dot_graph_distinct_labels.

(* non-vacuity: a binary tree 1(2(1, -), 10(-, 1(x2, 1))) with empty slots, integer names that
   repeat across branches and a name x2: every label ends in a digit (the old guard fails), the new
   guards hold, and the ids are 10, 20, 11, 100, 12, x20, 13 — pairwise different *)
Local Open Scope N_scope.
Definition ex_tree_b : tree :=
  Nd [49] [Nd [50] [Nd [49] []; Hole];
           Nd [49; 48] [Hole; Nd [49] [Nd [120; 50] []; Nd [49] []]]].
Definition slash : str := [47].
(* K2's witness: eleven nodes labelled a and one labelled a1 *)
Definition k2_witness : tree :=
  Nd [114] [Nd [97; 49] [];
            Nd [97] [Nd [97] [Nd [97] [Nd [97] [Nd [97] [Nd [97] [Nd [97] [Nd [97] [Nd [97] [Nd [97] [Nd [97] []]]]]]]]]]]].
Local Close Scope N_scope.

Example C18_dot_few_witness :
  no_label_ends_in_digit ex_tree_b = false
  /\ labels_at_most_ten ex_tree_b = true /\ paths_distinct slash ex_tree_b = true
  /\ no_label_has_colon ex_tree_b = true
  /\ map fst (dot_nodes slash ex_tree_b)
     = [[49; 48]; [50; 48]; [49; 49]; [49; 48; 48]; [49; 50]; [120; 50; 48]; [49; 51]]%N
  /\ prop_C18_g ex_tree_b (dot_nodes slash ex_tree_b) (dot_edges slash ex_tree_b) = true.
Proof. vm_compute. repeat split. Qed.

(* ten is sharp: with eleven equal labels the ids collide (K2), all other guards holding *)
Example C18_dot_eleven_refuted :
  exists t, forallb (fun l => Nat.leb (count_str l (names_pre (compact t))) 11) (names_pre (compact t)) = true
            /\ paths_distinct slash t = true /\ no_label_has_colon t = true
            /\ graph_ids_distinct (dot_nodes slash t) = false.
Proof. exists k2_witness. vm_compute. repeat split. Qed.

(* ---------------------------------------------------------------------------------------------- *)
(* mermaid *)

(* the verdict of the graph clause for every tree: it holds exactly when the tree has at least two
   existing nodes.  (C18_mermaid_graph_partial is the `true` half; K4 was one refuting tree.) *)
Theorem C18_mermaid_graph_verdict : forall t,
  prop_C18_g t (mermaid_nodes t) (mermaid_edges t) = Nat.leb 2 (tsize (compact t)).
Proof. exact mermaid_graph_verdict. Qed.
Print Assumptions C18_mermaid_graph_verdict.

(* K4 for every one-node tree (also a BinaryNode root with two empty slots): no flow line, no
   vertex, no edge *)
Theorem C18_mermaid_single_node_empty : forall t,
  tsize (compact t) = 1 -> mermaid_lines t = [] /\ mermaid_nodes t = [] /\ mermaid_edges t = [].
Proof. exact mermaid_single_node_empty. Qed.
Print Assumptions C18_mermaid_single_node_empty.

Example C18_mermaid_verdict_witness :
  tsize (compact (Nd [120%N] [Hole; Hole])) = 1
  /\ prop_C18_g (Nd [120%N] [Hole; Hole]) (mermaid_nodes (Nd [120%N] [Hole; Hole]))
                (mermaid_edges (Nd [120%N] [Hole; Hole])) = false
  /\ prop_C18_g ex_tree_b (mermaid_nodes ex_tree_b) (mermaid_edges ex_tree_b) = true
  /\ length (mermaid_lines ex_tree_b) = 6.
Proof. vm_compute. repeat split. Qed.
