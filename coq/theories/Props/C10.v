(* C10 — DAG links stay symmetric, duplicate-free and acyclic under every history.
   This file contains only the property theorems; the proofs live in Heap/DagProofs.v, the model in
   Heap/Dag.v (transliteration of bigtree/node/dagnode.py), the boolean predicates in Spec/PC10.v.

   DWF s  :=  Links s /\ exists r, ranked s r     where
     Links  : p in parents(c) <-> c in children(p);  NoDup (parents x);  NoDup (children x);
              every link stays among the objects created so far (ids < dsize s)
     ranked : every edge p -> c has r p < r c       (ghost rank = acyclicity)
   path s a b : a is a proper ancestor of b (one or more edges). *)
From BT Require Import Base.Prelude Heap.Dag Spec.PC10 Heap.DagProofs.

(* --- the invariant over all histories ------------------------------------------------------ *)

(* every state reachable from n fresh objects by any sequence of operations (invalid arguments and
   failing hooks included, either setting of the assertion switch) is well-formed *)
Theorem C10_reachable : forall cfg n names ops, DWF (drun cfg (dinit n names) ops).
Proof. intros cfg n names ops. apply drun_DWF. apply DWF_init. Qed.
Print Assumptions C10_reachable.

(* the same through the boolean predicate that the check evaluates on the implementation's states *)
Theorem C10_reachable_b : forall cfg n names ops, dwf_b (drun cfg (dinit n names) ops) = true.
Proof. intros. apply DWF_dwf_b. apply C10_reachable. Qed.
Print Assumptions C10_reachable_b.

(* conversely, what a `true` of the boolean test means for a state observed on the implementation:
   on the live objects the two lists are duplicate-free and mirror each other, and a rank exists
   (no cycle) *)
Theorem C10_dwf_b_sound : forall s, dwf_b s = true ->
  (forall x, x < dsize s ->
     NoDup (parents s x) /\ NoDup (children s x)
     /\ (forall p, In p (parents s x) -> p < dsize s /\ In x (children s p))
     /\ (forall c, In c (children s x) -> c < dsize s /\ In x (parents s c)))
  /\ exists r, forall p c, c < dsize s -> In p (parents s c) -> r p < r c.
Proof. exact dwf_b_sound. Qed.
Print Assumptions C10_dwf_b_sound.

Theorem C10_step_preserves : forall cfg s o, DWF s -> DWF (fst (dstep cfg s o)).
Proof. exact dstep_DWF. Qed.
Print Assumptions C10_step_preserves.

(* the fuelled `ancestors` of the model never runs out of fuel on a well-formed state: it returns
   exactly the proper ancestors; and no node is its own ancestor *)
Theorem C10_ancestors_exact : forall s a b, DWF s -> (In a (dag_ancestors s b) <-> path s a b).
Proof. exact ancestors_spec. Qed.
Print Assumptions C10_ancestors_exact.

Theorem C10_no_self_ancestor : forall s x, DWF s -> ~ In x (dag_ancestors s x).
Proof. exact no_self_ancestor. Qed.
Print Assumptions C10_no_self_ancestor.

(* --- assignments only add edges ------------------------------------------------------------- *)

(* parents setter, children setter, >>, <<, constructor: whatever the outcome (accepted, refused,
   failing hook), every edge present before is present afterwards, in both lists *)
Theorem C10_only_adds : forall cfg s o, DWF s -> is_assignment o = true ->
  forall q x, (In q (parents s x) -> In q (parents (fst (dstep cfg s o)) x))
           /\ (In q (children s x) -> In q (children (fst (dstep cfg s o)) x)).
Proof.
  intros cfg s o W Ha q x. split; [apply only_adds_parents | apply only_adds_children]; assumption.
Qed.
Print Assumptions C10_only_adds.

(* and an accepted assignment adds exactly the requested edges *)
Theorem C10_assign_exact : forall cfg s o s', DWF s -> is_assignment o = true ->
  dstep cfg s o = (s', Ok) ->
  forall q x, In q (parents s' x) <-> In q (parents s x) \/ asks s o q x.
Proof. exact assignment_effect. Qed.
Print Assumptions C10_assign_exact.

(* --- deleting removes exactly the named edges ----------------------------------------------- *)

Theorem C10_delete_exact : forall s p q x, DWF s ->
  (In q (parents (del_children s p) x) <-> In q (parents s x) /\ q <> p).
Proof. exact del_children_effect. Qed.
Print Assumptions C10_delete_exact.

Theorem C10_delete_item_exact : forall s p nm, DWF s ->
  match filter (fun k => str_eqb (dname s k) nm) (children s p) with
  | [] => del_item s p nm = (s, Ok)
  | [k] => In k (children s p) /\ snd (del_item s p nm) = Ok /\
           forall q x, In q (parents (fst (del_item s p nm)) x) <-> In q (parents s x) /\ ~ (q = p /\ x = k)
  | _ => del_item s p nm = (s, Err SearchError)
  end.
Proof. exact del_item_effect. Qed.
Print Assumptions C10_delete_item_exact.

(* --- what is refused ------------------------------------------------------------------------- *)

(* c.parents = args (hooks not failing) is accepted iff args is a list of pairwise different
   DAGNodes, none of them c itself (self-loop) or a descendant of c through a path of any length
   (cycle); i.e. it is refused exactly for: wrong container, non-node member, repeated member,
   self-loop, cycle *)
Theorem C10_rejects_parents : forall cfg s c cont args, DWF s ->
  (snd (set_parents cfg DNoFault s c cont args) = Ok <->
   cont = DList /\ has_junk args = false /\ NoDup (ids_of args) /\
   forall p, In p (ids_of args) -> p <> c /\ ~ path s c p).
Proof. exact set_parents_accepts_iff. Qed.
Print Assumptions C10_rejects_parents.

Theorem C10_rejects_children : forall cfg s p cont args, DWF s ->
  (snd (set_children cfg DNoFault s p cont args) = Ok <->
   cont <> DNonIter /\ has_junk args = false /\ NoDup (ids_of args) /\
   forall x, In x (ids_of args) -> x <> p /\ ~ path s x p).
Proof. exact set_children_accepts_iff. Qed.
Print Assumptions C10_rejects_children.

(* all operations (incl. >>, << and the constructor with both arguments), in terms of the boolean
   `must_reject_b` of the specification, whose reachability test walks the children lists *)
Theorem C10_rejects : forall cfg s o s', DWF s -> dstep cfg s o = (s', Ok) -> must_reject_b s o = false.
Proof. exact accepted_not_must_reject. Qed.
Print Assumptions C10_rejects.

(* the constructor, both directions: DAGNode(nm, parents=pa, children=ca) (hooks not failing) is
   accepted iff pa is a list, ca is iterable and `must_reject_b` is false *)
Theorem C10_rejects_new : forall cfg s nm pa ca, DWF s ->
  dop_in_range s (DNew nm pa ca DNoFault DNoFault) = true ->
  (snd (dstep cfg s (DNew nm pa ca DNoFault DNoFault)) = Ok <->
   carg_cont pa = DList /\ carg_cont ca <> DNonIter
   /\ must_reject_b s (DNew nm pa ca DNoFault DNoFault) = false).
Proof. exact construct_accepts_iff. Qed.
Print Assumptions C10_rejects_new.

(* --- all clauses at once, in the form the correspondence check evaluates ---------------------- *)

(* along every history, every step satisfies the C10 step predicate *)
Theorem C10_every_step : forall cfg n names ops o,
  let s := drun cfg (dinit n names) ops in
  prop_C10_step cfg s o (fst (dstep cfg s o)) (is_ok (snd (dstep cfg s o))) = true.
Proof. intros. apply dstep_prop_C10. apply C10_reachable. Qed.
Print Assumptions C10_every_step.

(* --- the hypotheses are satisfiable by non-trivial inputs ------------------------------------- *)

Definition ex_cfg := {| dassertions := true |}.
(* 0 -> 1 -> 2 -> 3 plus the diamond 0 -> 2 *)
Definition ex_ops : list dop :=
  [DRShift 0 1 DNoFault; SetKids 1 DTuple [DNode 2] DNoFault; DLShift 3 2 DNoFault;
   SetParents 2 DList [DNode 1; DNode 0] DNoFault].
Definition ex_state := drun ex_cfg (dinit 4 (fun _ => [])) ex_ops.

Example C10_ex_state :
  map (parents ex_state) [0; 1; 2; 3] = [[]; [0]; [1; 0]; [2]]
  /\ map (children ex_state) [0; 1; 2; 3] = [[1; 2]; [2]; [3]; []]
  /\ dag_ancestors ex_state 3 = [0; 1; 2].
Proof. vm_compute. repeat split. Qed.

(* closing a cycle through a path of length 3 with the children setter / the parents setter is refused,
   a repeated member in last position is refused, a failing post-assign hook leaves the lists as they were *)
Example C10_ex_rejects :
  snd (dstep ex_cfg ex_state (SetKids 3 DList [DNode 0] DNoFault)) = Err LoopError
  /\ snd (dstep ex_cfg ex_state (SetParents 0 DList [DNode 3] DNoFault)) = Err LoopError
  /\ snd (dstep ex_cfg ex_state (SetParents 3 DList [DNode 0; DNode 1; DNode 0] DNoFault)) = Err TreeError
  /\ must_reject_b ex_state (SetKids 3 DList [DNode 0] DNoFault) = true
  /\ same_dlinks (fst (dstep ex_cfg ex_state (SetParents 3 DList [DNode 2; DNode 0; DNode 1] DPostFail))) ex_state = true.
Proof. vm_compute. repeat split. Qed.

Example C10_ex_accepts_and_deletes :
  let s1 := fst (dstep ex_cfg ex_state (SetParents 3 DList [DNode 2; DNode 0; DNode 1] DNoFault)) in
  parents s1 3 = [2; 0; 1] /\ children s1 0 = [1; 2; 3]
  /\ children (del_children s1 0) 0 = [] /\ parents (del_children s1 0) 3 = [2; 1].
Proof. vm_compute. repeat split. Qed.
