(* C17 — DAG exports are complete and re-importing them reproduces the DAG: independence from the
   ORDER of what the constructors are given ("for all ... edge orders"; "independence from edge order
   [is] never checked" by the tests).  Only statements; the proofs live in Algo/C17More3.v.
     - list_to_dag on ANY listing of the relations of a DAG g (every (parent name, child name) of an
       edge at least once, nothing else: any order, repetitions allowed — `ListsEdges g rel`) succeeds
       and rebuilds g's names and g's edge set; two such listings are rebuilt to the same names and
       the same edges; in particular every permutation of dag_to_list g x;
     - dataframe_to_dag on any arrangement (permutation; or any list with the same rows) of
       dag_to_dataframe g x md succeeds and rebuilds names, edges and the exported attributes;
     - in both cases the rebuilt table is again a DAG like g that re-exports to the first export
       (RebuiltLike, Algo/C17More.v). *)
From BT Require Import Base.Prelude Base.Str Base.Rose Algo.DagAlgo Algo.DagIO Spec.PC16 Spec.PC17
     Algo.DagAlgoProofs Algo.C17More Algo.C17More3.
Require Import Permutation.

(* any listing of g's relations, in any order and with repetitions, is rebuilt to g *)
Theorem C17_list_to_dag_any_listing : forall g r rel,
  Wf g -> Ranked g r -> DistinctNames g -> WeaklyConnected g -> (exists p c, Edge g p c) ->
  (forall pn cn, In (pn, cn) rel <-> exists p c, Edge g p c /\ pn = name g p /\ cn = name g c) ->
  exists b ret, list_to_dag rel = Ret (b, Some ret)
    /\ Good b
    /\ SameNames g (b_names b)
    /\ NoDup (b_edges b)
    /\ (forall pn cn, HasEdge b pn cn <-> exists p c, Edge g p c /\ pn = name g p /\ cn = name g c).
Proof. exact list_any_listing. Qed.
Print Assumptions C17_list_to_dag_any_listing.

(* two listings of the same DAG: same node names, same edges (by name) *)
Theorem C17_list_to_dag_order_independent : forall g r rel rel',
  Wf g -> Ranked g r -> DistinctNames g -> WeaklyConnected g -> (exists p c, Edge g p c) ->
  ListsEdges g rel -> ListsEdges g rel' ->
  exists b ret b' ret', list_to_dag rel = Ret (b, Some ret) /\ list_to_dag rel' = Ret (b', Some ret')
    /\ Permutation (b_names b) (b_names b')
    /\ (forall pn cn, HasEdge b pn cn <-> HasEdge b' pn cn).
Proof. exact list_two_orders_agree. Qed.
Print Assumptions C17_list_to_dag_order_independent.

(* every list with the elements of the export (any order, repetitions) round-trips, and the rebuilt
   DAG re-exports to the export *)
Theorem C17_roundtrip_list_same_elements : forall g r x rel,
  Wf g -> Ranked g r -> DistinctNames g -> WeaklyConnected g -> x < dsize g -> (exists p c, Edge g p c) ->
  (forall q, In q rel <-> In q (dag_to_list g x)) ->
  exists b ret, list_to_dag rel = Ret (b, Some ret)
    /\ SameNames g (b_names b)
    /\ NoDup (b_edges b)
    /\ (forall pn cn, HasEdge b pn cn <-> exists p c, Edge g p c /\ pn = name g p /\ cn = name g c)
    /\ RebuiltLike g x b.
Proof. exact list_same_elements. Qed.
Print Assumptions C17_roundtrip_list_same_elements.

Theorem C17_roundtrip_list_any_order : forall g r x rel,
  Wf g -> Ranked g r -> DistinctNames g -> WeaklyConnected g -> x < dsize g -> (exists p c, Edge g p c) ->
  Permutation (dag_to_list g x) rel ->
  exists b ret, list_to_dag rel = Ret (b, Some ret)
    /\ SameNames g (b_names b)
    /\ NoDup (b_edges b)
    /\ (forall pn cn, HasEdge b pn cn <-> exists p c, Edge g p c /\ pn = name g p /\ cn = name g c)
    /\ RebuiltLike g x b.
Proof. exact list_any_order. Qed.
Print Assumptions C17_roundtrip_list_any_order.

(* the frame: any list holding exactly the exported rows (any order, repetitions) ... *)
Theorem C17_roundtrip_df_same_rows : forall g r x md rows,
  Wf g -> Ranked g r -> DistinctNames g -> WeaklyConnected g -> x < dsize g -> (exists p c, Edge g p c) ->
  (forall rw, In rw rows <-> In rw (dag_to_dataframe g x md)) ->
  exists b ret, dataframe_to_dag rows = Ret (b, Some ret)
    /\ Good b
    /\ SameNames g (b_names b)
    /\ NoDup (b_edges b)
    /\ (forall pn cn, HasEdge b pn cn <-> exists p c, Edge g p c /\ pn = name g p /\ cn = name g c)
    /\ length (b_attrs b) = bsize b
    /\ (forall i y, i < bsize b -> y < dsize g -> bname b i = name g y ->
          nth i (b_attrs b) [] = norm (non_null (export_attrs md (nattrs g y)))).
Proof. exact df_same_rows. Qed.
Print Assumptions C17_roundtrip_df_same_rows.

(* ... in particular every row order *)
Theorem C17_roundtrip_df_any_row_order : forall g r x md rows,
  Wf g -> Ranked g r -> DistinctNames g -> WeaklyConnected g -> x < dsize g -> (exists p c, Edge g p c) ->
  Permutation (dag_to_dataframe g x md) rows ->
  exists b ret, dataframe_to_dag rows = Ret (b, Some ret)
    /\ SameNames g (b_names b)
    /\ NoDup (b_edges b)
    /\ (forall pn cn, HasEdge b pn cn <-> exists p c, Edge g p c /\ pn = name g p /\ cn = name g c)
    /\ length (b_attrs b) = bsize b
    /\ (forall i y, i < bsize b -> y < dsize g -> bname b i = name g y ->
          nth i (b_attrs b) [] = norm (non_null (export_attrs md (nattrs g y))))
    /\ RebuiltLike g x b.
Proof. exact df_any_row_order. Qed.
Print Assumptions C17_roundtrip_df_any_row_order.

(* not vacuous: ex17 (a -> b, a -> c, b -> d, c -> d, a -> d; `step` on a, b, d) meets the hypotheses
   (C17_more_hypotheses); its export reversed — and with one relation repeated — has the elements of
   the export, is a different list, and is rebuilt to a table with another node numbering, another
   returned node, but the same names and edges; likewise the reversed frame *)
Definition m_step : amode := AttrDict [(k_step, [115]%N)].
Example C17_more3_values :
  Wf ex17 /\ Ranked ex17 ex17_rank /\ DistinctNames ex17 /\ WeaklyConnected ex17 /\ 3 < dsize ex17
  /\ (exists p c, Edge ex17 p c)
  /\ Permutation (dag_to_list ex17 3) (rev (dag_to_list ex17 3))
  /\ rev (dag_to_list ex17 3) <> dag_to_list ex17 3
  /\ list_to_dag (dag_to_list ex17 3)
     = Ret (BLD [[98]; [100]; [99]; [97]]%N [[]; []; []; []] [(0, 1); (2, 1); (3, 1); (3, 0); (3, 2)], Some 3)
  /\ list_to_dag (rev (dag_to_list ex17 3))
     = Ret (BLD [[97]; [99]; [98]; [100]]%N [[]; []; []; []] [(0, 1); (0, 2); (0, 3); (1, 3); (2, 3)], Some 2)
  /\ list_to_dag (([97], [100])%N :: rev (dag_to_list ex17 3))
     = Ret (BLD [[97]; [100]; [99]; [98]]%N [[]; []; []; []] [(0, 1); (0, 2); (0, 3); (2, 1); (3, 1)], Some 3)
  /\ Permutation (dag_to_dataframe ex17 3 m_step) (rev (dag_to_dataframe ex17 3 m_step))
  /\ dataframe_to_dag (rev (dag_to_dataframe ex17 3 m_step))
     = Ret (BLD [[99]; [97]; [98]; [100]]%N
                [[]; [([115]%N, VInt 1)]; [([115]%N, VInt 2)]; [([115]%N, VInt 3)]]
                [(1, 0); (1, 2); (1, 3); (0, 3); (2, 3)], Some 2)
  /\ dataframe_to_dag (dag_to_dataframe ex17 3 m_step)
     = Ret (BLD [[100]; [98]; [99]; [97]]%N
                [[([115]%N, VInt 3)]; [([115]%N, VInt 2)]; []; [([115]%N, VInt 1)]]
                [(1, 0); (2, 0); (3, 0); (3, 1); (3, 2)], Some 3).
Proof.
  split; [exact ex17_wf|]. split; [exact ex17_ranked|]. split; [exact ex17_distinct|].
  split; [exact ex17_connected|]. split; [vm_compute; lia|]. split; [exact ex17_edge|].
  split; [apply Permutation_rev|]. split; [vm_compute; discriminate|].
  split; [vm_compute; reflexivity|]. split; [vm_compute; reflexivity|]. split; [vm_compute; reflexivity|].
  split; [apply Permutation_rev|]. split; vm_compute; reflexivity.
Qed.
