(* C09 — search: theorems that close or narrow clauses Props/C09.v leaves partial.
   Only statements; the proofs live in Algo/C09More.v (on top of Algo/SearchProofs.v).

   Vocabulary as in Props/C09.v: `w` the whole tree, `p` the position of the node the search is
   called on, `locate w p = Some s` the located start node.  `_partial` = one-character separator
   `[c]`, every query string; `_multi` = separator of any positive length under the K3 guard
   (clean sep path: the query has no stray separator character at its ends).  Statements without a
   suffix hold for every non-empty separator.

   full_path_nodes w sep path   the positions whose full path is the query (Spec/PC09.v)
   full_path_node  w sep path   the first of them, located (None if there is none)
   star_in sep path             search.py's wildcard indicator: a star character occurs in the
                                stripped path, anywhere *)
From BT Require Import Base.Prelude Base.Str Base.StrSep Base.Rose Algo.Search Spec.PC09 Algo.SearchProofs
  Algo.C09More.

(* ---- find_full_path ---------------------------------------------------------------------------- *)

(* "all start nodes": the node find_full_path is called on only serves to reach the root *)
Theorem C09_full_path_start_independent : forall w sep p p' s s' path,
  locate w p = Some s -> locate w p' = Some s' ->
  find_full_path sep s path = find_full_path sep s' path.
Proof. exact full_path_start_independent. Qed.
Print Assumptions C09_full_path_start_independent.

(* "finds a node ONLY IF the full path exists" — for EVERY tree: no sibling-name uniqueness, names may
   be empty or contain the separator (C09_full_path_iff_partial needs guards w [c] for this direction
   too) *)
Theorem C09_full_path_sound_partial : forall w c p s path n,
  locate w p = Some s -> find_full_path [c] s path = Ret (Some n) ->
  exists q, locate w q = Some n /\ join [c] (names_to w q) = trim [c] path.
Proof. exact full_path_sound_one. Qed.
Print Assumptions C09_full_path_sound_partial.

(* the same for a separator of any positive length: only the query half of the K3 guard is needed *)
Theorem C09_full_path_sound_multi : forall w sep p s path n,
  sep <> [] -> clean sep path = true ->
  locate w p = Some s -> find_full_path sep s path = Ret (Some n) ->
  exists q, locate w q = Some n /\ join sep (names_to w q) = trim sep path.
Proof. exact full_path_sound_multi. Qed.
Print Assumptions C09_full_path_sound_multi.

(* "a Node's full path identifies it": at most one node has a given full path, so the arm
   "several nodes carry the queried full path" of expect_full_path is never taken under its guard *)
Theorem C09_full_path_at_most_one : forall w sep path,
  sep <> [] -> names_sfree w sep = true -> sibling_names_unique w = true ->
  length (full_path_nodes w sep path) <= 1.
Proof. exact full_path_nodes_le1_multi. Qed.
Print Assumptions C09_full_path_at_most_one.

(* a path that does not begin with the root's name is the full path of no node *)
Theorem C09_full_path_wrong_root : forall w sep path,
  sep <> [] -> names_sfree w sep = true ->
  str_eqb (hd [] (components sep path)) (tname w) = false -> full_path_nodes w sep path = [].
Proof. exact full_path_wrong_root_multi. Qed.
Print Assumptions C09_full_path_wrong_root.

(* find_full_path decided completely, as an equation: ValueError exactly when the first component is
   not the root's name (then no node has that path, by the previous theorem); otherwise the node that
   has the full path, or None when no node has it; SearchError never.  Names may be empty (the guard
   is names_sfree, weaker than the sep_safe of C09_full_path_iff_partial). *)
Theorem C09_full_path_decides_partial : forall w c p s path,
  names_sfree w [c] = true -> sibling_names_unique w = true -> locate w p = Some s ->
  find_full_path [c] s path
  = if negb (str_eqb (hd [] (components [c] path)) (tname w)) then Raise ValueError
    else Ret (full_path_node w [c] path).
Proof. exact full_path_decides_one. Qed.
Print Assumptions C09_full_path_decides_partial.

Theorem C09_full_path_decides_multi : forall w sep p s path,
  sep <> [] -> names_sfree w sep = true -> sibling_names_unique w = true -> clean sep path = true ->
  locate w p = Some s ->
  find_full_path sep s path
  = if negb (str_eqb (hd [] (components sep path)) (tname w)) then Raise ValueError
    else Ret (full_path_node w sep path).
Proof. exact full_path_decides_multi. Qed.
Print Assumptions C09_full_path_decides_multi.

(* ---- find_relative_path(s), absolute path ---------------------------------------------------------- *)

(* min_count / max_count are not read when the path is absolute: every tree, every separator *)
Theorem C09_relative_absolute_counts_ignored : forall sep s path mn mx mn' mx',
  startswith path sep = true ->
  find_relative_paths sep s path mn mx = find_relative_paths sep s path mn' mx'.
Proof. exact relative_absolute_counts_ignored. Qed.
Print Assumptions C09_relative_absolute_counts_ignored.

(* an absolute path is answered by find_full_path: the 1-tuple of the node with that full path, the
   1-tuple (None,) when there is none, ValueError when it does not begin with the root's name *)
Theorem C09_relative_absolute_partial : forall w c p s path mn mx,
  names_sfree w [c] = true -> sibling_names_unique w = true -> locate w p = Some s ->
  startswith path [c] = true ->
  find_relative_paths [c] s path mn mx
  = (if negb (str_eqb (hd [] (components [c] path)) (tname w)) then Raise ValueError
     else Ret [full_path_node w [c] path])
  /\ find_relative_path [c] s path
     = (if negb (str_eqb (hd [] (components [c] path)) (tname w)) then Raise ValueError
        else Ret (full_path_node w [c] path)).
Proof. exact relative_absolute_one. Qed.
Print Assumptions C09_relative_absolute_partial.

Theorem C09_relative_absolute_multi : forall w sep p s path mn mx,
  sep <> [] -> names_sfree w sep = true -> sibling_names_unique w = true -> clean sep path = true ->
  locate w p = Some s -> startswith path sep = true ->
  find_relative_paths sep s path mn mx
  = (if negb (str_eqb (hd [] (components sep path)) (tname w)) then Raise ValueError
     else Ret [full_path_node w sep path])
  /\ find_relative_path sep s path
     = (if negb (str_eqb (hd [] (components sep path)) (tname w)) then Raise ValueError
        else Ret (full_path_node w sep path)).
Proof. exact relative_absolute_multi. Qed.
Print Assumptions C09_relative_absolute_multi.

(* ---- find_relative_path(s), relative path: no guard on the star character ------------------------ *)

(* C09_relative_spec_partial without `c <> 42` and without plain_components: whatever the components
   are (names containing a star, the separator being the star), find_relative_paths computes the
   frontier semantics with the lenient flag `star_in` *)
Theorem C09_relative_spec_any_partial : forall w c p s path mn mx,
  locate w p = Some s -> startswith path [c] = false ->
  match denote w (star_in [c] path) (components [c] path) p with
  | None => find_relative_paths [c] s path mn mx = Raise SearchError
  | Some L => exists M, map (locate w) L = map Some M
                        /\ find_relative_paths [c] s path mn mx
                           = if count_violated (length L) mn mx then Raise SearchError else Ret (map Some M)
  end.
Proof. exact relative_spec_any_one. Qed.
Print Assumptions C09_relative_spec_any_partial.

Theorem C09_relative_spec_any_multi : forall w sep p s path mn mx,
  clean sep path = true -> locate w p = Some s -> startswith path sep = false ->
  match denote w (star_in sep path) (components sep path) p with
  | None => find_relative_paths sep s path mn mx = Raise SearchError
  | Some L => exists M, map (locate w) L = map Some M
                        /\ find_relative_paths sep s path mn mx
                           = if count_violated (length L) mn mx then Raise SearchError else Ret (map Some M)
  end.
Proof. exact relative_spec_any_multi. Qed.
Print Assumptions C09_relative_spec_any_multi.

(* on the specified language the flag is the specification's "some component is the wildcard" *)
Theorem C09_star_flag_plain : forall sep path,
  sep <> [] -> memN 42%N sep = false -> plain_components (components sep path) = true ->
  star_in sep path = has_wildcard (components sep path).
Proof. exact star_in_plain. Qed.
Print Assumptions C09_star_flag_plain.

(* the single-result counterpart: that node when exactly one resolves, None when none does,
   SearchError when several do or the resolution fails *)
Theorem C09_relative_single_any_partial : forall w c p s path,
  locate w p = Some s -> startswith path [c] = false ->
  match denote w (star_in [c] path) (components [c] path) p with
  | None => find_relative_path [c] s path = Raise SearchError
  | Some [] => find_relative_path [c] s path = Ret None
  | Some [q] => exists n, locate w q = Some n /\ find_relative_path [c] s path = Ret (Some n)
  | Some (_ :: _ :: _) => find_relative_path [c] s path = Raise SearchError
  end.
Proof. exact relative_single_any_one. Qed.
Print Assumptions C09_relative_single_any_partial.

Theorem C09_relative_single_any_multi : forall w sep p s path,
  clean sep path = true -> locate w p = Some s -> startswith path sep = false ->
  match denote w (star_in sep path) (components sep path) p with
  | None => find_relative_path sep s path = Raise SearchError
  | Some [] => find_relative_path sep s path = Ret None
  | Some [q] => exists n, locate w q = Some n /\ find_relative_path sep s path = Ret (Some n)
  | Some (_ :: _ :: _) => find_relative_path sep s path = Raise SearchError
  end.
Proof. exact relative_single_any_multi. Qed.
Print Assumptions C09_relative_single_any_multi.

(* ---- the hypotheses are satisfiable by non-trivial inputs ------------------------------------ *)

Definition LS (i : nat) (nm : str) (ks : list tree) : tree := T (Some i) nm [] ks.
Definition L (i : nat) (nm : N) (ks : list tree) : tree := LS i [nm] ks.
(* a(b(d, e(g, h)), c(f)) — the fixture of tests/tree/test_search.py *)
Definition w0 : tree :=
  L 0 97 [L 1 98 [L 2 100 []; L 3 101 [L 4 103 []; L 5 104 []]]; L 6 99 [L 7 102 []]].
(* r(a(b), a, c(d)) — two children of r are called a *)
Definition wd : tree := L 0 114 [L 1 97 [L 2 98 []]; L 3 97 []; L 4 99 [L 5 100 []]].
(* r("a/b") — a name that contains the separator *)
Definition ws : tree := L 0 114 [LS 1 [97; 47; 98]%N []].
Definition slash : str := [47%N].
Definition arrow : str := [45; 62]%N.

(* the fixture, start node e: "/a/b/e/h" is the path of h (object 5) only; "/a/zz" of no node -> None;
   "/x/b" does not begin with the root's name -> ValueError (code 2).  As absolute paths of
   find_relative_paths with min_count = 2: the 1-tuples (h,) and (None,), no SearchError *)
Example C09_more_nonvacuous_decides :
  names_sfree w0 slash = true /\ sibling_names_unique w0 = true
  /\ exists s, locate w0 [0; 1] = Some s
     /\ full_path_nodes w0 slash [47; 97; 47; 98; 47; 101; 47; 104]%N = [[0; 1; 1]]
     /\ obs_of (one (find_full_path slash s [47; 97; 47; 98; 47; 101; 47; 104]%N)) = ONode (Some 5)
     /\ full_path_nodes w0 slash [47; 97; 47; 122; 122]%N = []
     /\ find_full_path slash s [47; 97; 47; 122; 122]%N = Ret None
     /\ str_eqb (hd [] (components slash [47; 120; 47; 98]%N)) (tname w0) = false
     /\ find_full_path slash s [47; 120; 47; 98]%N = Raise ValueError
     /\ startswith [47; 97; 47; 122; 122]%N slash = true
     /\ find_relative_paths slash s [47; 97; 47; 122; 122]%N 2 0 = Ret [None]
     /\ obs_of (match find_relative_paths slash s [47; 97; 47; 98; 47; 101; 47; 104]%N 2 0 with
                | Raise e => Raise e | Ret l => Ret (Many l) end) = ONodes [Some 5].
Proof. vm_compute. repeat split. eexists. repeat split. Qed.

(* the same with the separator "->" and a trailing separator in the query *)
Example C09_more_nonvacuous_decides_multi :
  names_sfree w0 arrow = true /\ sibling_names_unique w0 = true
  /\ clean arrow [45; 62; 97; 45; 62; 98; 45; 62; 101; 45; 62; 104; 45; 62]%N = true
  /\ exists s, locate w0 [0; 1] = Some s
     /\ full_path_nodes w0 arrow [45; 62; 97; 45; 62; 98; 45; 62; 101; 45; 62; 104; 45; 62]%N = [[0; 1; 1]]
     /\ obs_of (one (find_full_path arrow s [45; 62; 97; 45; 62; 98; 45; 62; 101; 45; 62; 104; 45; 62]%N))
        = ONode (Some 5).
Proof. vm_compute. repeat split. eexists. repeat split. Qed.

(* soundness speaks about trees outside every guard: in wd (duplicate sibling names) "/r/c/d" is found,
   and it is the path of the node returned *)
Example C09_more_nonvacuous_sound :
  sibling_names_unique wd = false
  /\ exists s, locate wd [0; 0] = Some s
     /\ obs_of (one (find_full_path slash s [47; 114; 47; 99; 47; 100]%N)) = ONode (Some 5)
     /\ full_path_nodes wd slash [47; 114; 47; 99; 47; 100]%N = [[2; 0]].
Proof. vm_compute. split; [reflexivity|]. eexists. repeat split. Qed.

(* relative paths outside the specified language.  From e, "../x*": the component "x*" is not plain,
   the star makes the resolution lenient: no child of b is called "x*" -> the empty tuple / None, where
   the strict semantics (flag false) is an error.  With the separator "*" the path "..*d" is b's child d *)
Example C09_more_nonvacuous_relative :
  plain_components (components slash [46; 46; 47; 120; 42]%N) = false
  /\ star_in slash [46; 46; 47; 120; 42]%N = true
  /\ has_wildcard (components slash [46; 46; 47; 120; 42]%N) = false
  /\ denote w0 true (components slash [46; 46; 47; 120; 42]%N) [0; 1] = Some []
  /\ denote w0 false (components slash [46; 46; 47; 120; 42]%N) [0; 1] = None
  /\ exists s, locate w0 [0; 1] = Some s
     /\ find_relative_paths slash s [46; 46; 47; 120; 42]%N 0 0 = Ret []
     /\ find_relative_path slash s [46; 46; 47; 120; 42]%N = Ret None
     /\ denote w0 (star_in [42%N] [46; 46; 42; 100]%N) (components [42%N] [46; 46; 42; 100]%N) [0; 1]
        = Some [[0; 0]]
     /\ obs_of (one (find_relative_path [42%N] s [46; 46; 42; 100]%N)) = ONode (Some 2).
Proof. vm_compute. repeat split. eexists. repeat split. Qed.

(* ---- "found IF the full path exists" needs both guards ------------------------------------------ *)

(* sibling-name uniqueness: in wd exactly one node has the full path "/r/a/b" (names are separator-free),
   yet find_full_path raises SearchError (code 9): the descent meets two children called a *)
Example C09_full_path_complete_needs_unique_refuted :
  exists w path q s, names_sfree w slash = true /\ sibling_names_unique w = false
    /\ full_path_nodes w slash path = [q] /\ locate w [] = Some s
    /\ find_full_path slash s path = Raise SearchError.
Proof.
  exists wd, [47; 114; 47; 97; 47; 98]%N, [0; 0]. eexists. vm_compute. repeat split.
Qed.

(* separator-free names: in ws exactly one node has the full path "/r/a/b" (sibling names are unique),
   yet find_full_path returns None: it looks for a child called a *)
Example C09_full_path_complete_needs_sfree_refuted :
  exists w path q s, names_sfree w slash = false /\ sibling_names_unique w = true
    /\ full_path_nodes w slash path = [q] /\ locate w [] = Some s
    /\ find_full_path slash s path = Ret None.
Proof.
  exists ws, [47; 114; 47; 97; 47; 98]%N, [0]. eexists. vm_compute. repeat split.
Qed.
