(* Bridge between the heap model of C10 (DAGNode link surgery, Heap/Dag.v) and the pure graph model of
   C16 (DAG traversal and queries, Algo/DagAlgo.v): the node table `dabs s` read off any state that
   is reachable through the structural API of DAGNode is a well-formed, acyclic link structure in the
   sense of Spec/PC16.v, and (with at least one object) has a topological numbering bounded by the
   number of nodes.  Consequently the theorems of Props/C16.v, which are stated for Wf / Ranked graphs,
   hold for the graphs that operation histories actually build.   Proofs: Heap/DagAbs.v.

   `Ranked g r` bounds r by `dsize g` at every id, so a graph without nodes has no such r; the
   statements below therefore either assume `0 < dsize` for the rank or avoid the rank.
   Both models define `dag`, `dsize`, `parents`, `children`; heap names are written `Dag.x`. *)
From BT Require Import Base.Prelude Base.Str Base.Rose Heap.Dag Heap.DagProofs
     Algo.DagAlgo Spec.PC16 Algo.DagAlgoProofs Heap.DagAbs Props.C16.

(* the abstraction has the heap's lists *)
Theorem C16_abstraction_projections : forall s x, x < Dag.dsize s ->
  DagAlgo.dsize (dabs s) = Dag.dsize s
  /\ DagAlgo.parents (dabs s) x = Dag.parents s x
  /\ DagAlgo.children (dabs s) x = Dag.children s x
  /\ DagAlgo.name (dabs s) x = Dag.dname s x.
Proof.
  intros s x Hx. split; [apply dabs_size|]. split; [apply dabs_parents; exact Hx|].
  split; [apply dabs_children; exact Hx|apply dabs_name; exact Hx].
Qed.
Print Assumptions C16_abstraction_projections.

(* every reachable state: well-formed, no node reaches itself, and Ranked as soon as there is a node *)
Theorem C16_reachable_states_are_wf_ranked_graphs : forall cfg n names ops,
  let s := drun cfg (dinit n names) ops in
  Wf (dabs s)
  /\ (forall y, ~ Reach (dabs s) y y)
  /\ (0 < Dag.dsize s -> exists r, Ranked (dabs s) r).
Proof. exact reachable_dag_is_wf_ranked. Qed.
Print Assumptions C16_reachable_states_are_wf_ranked_graphs.

(* the same for histories that start from at least one object *)
Theorem C16_reachable_nonempty_states_are_wf_ranked_graphs : forall cfg n names ops, 0 < n ->
  let s := drun cfg (dinit n names) ops in
  Wf (dabs s) /\ exists r, Ranked (dabs s) r.
Proof. exact reachable_nonempty_dag_is_wf_ranked. Qed.
Print Assumptions C16_reachable_nonempty_states_are_wf_ranked_graphs.

(* dag_iterator on a reachable state: only edges, none twice (whatever the names) *)
Theorem C16_iterator_on_reachable_states : forall cfg n names ops x,
  let s := drun cfg (dinit n names) ops in
  let g := dabs s in
  (forall a b, In (a, b) (dag_iterator g x) -> Edge g a b) /\ NoDup (dag_iterator g x).
Proof.
  intros cfg n names ops x s g.
  destruct (reachable_dag_is_wf_ranked cfg n names ops) as [WF _].
  split; [intros a b; exact (C16_iter_sound g x a b WF)|exact (C16_iter_nodup g x WF)].
Qed.
Print Assumptions C16_iterator_on_reachable_states.

(* ... and every edge, from every start node, when the names are distinct and the graph is connected *)
Theorem C16_iterator_complete_on_reachable_states : forall cfg n names ops x a b,
  let s := drun cfg (dinit n names) ops in
  let g := dabs s in
  DistinctNames g -> WeaklyConnected g -> x < Dag.dsize s ->
  Edge g a b -> In (a, b) (dag_iterator g x).
Proof.
  intros cfg n names ops x a b s g DN WC Hx He.
  destruct (reachable_dag_is_wf_ranked cfg n names ops) as [WF [_ HR]].
  destruct (HR ltac:(fold s; lia)) as [r RK].
  apply (C16_iter_complete g r x a b WF RK DN WC); [unfold g; rewrite dabs_size; exact Hx|exact He].
Qed.
Print Assumptions C16_iterator_complete_on_reachable_states.

(* ancestors / descendants on a reachable state are the nodes that reach / are reached, each once *)
Theorem C16_queries_on_reachable_states : forall cfg n names ops x,
  let s := drun cfg (dinit n names) ops in
  let g := dabs s in
  ((forall a, In a (DagAlgo.ancestors g x) <-> Reach g a x) /\ NoDup (DagAlgo.ancestors g x))
  /\ ((forall d, In d (descendants g x) <-> Reach g x d) /\ NoDup (descendants g x)).
Proof.
  intros cfg n names ops x s g.
  destruct (reachable_dag_is_wf_ranked cfg n names ops) as [WF [_ HR]].
  destruct (Nat.eq_dec (Dag.dsize s) 0) as [E|E]; [exact (dabs_empty_queries s x E)|].
  destruct (HR ltac:(fold s; lia)) as [r RK].
  split; [exact (C16_ancestors_reach g r x WF RK)|exact (C16_descendants_reach g r x WF RK)].
Qed.
Print Assumptions C16_queries_on_reachable_states.

(* the loop guard of the setters (C10) and the `ancestors` query (C16) compute the same list *)
Theorem C16_ancestors_is_the_guard_of_C10 : forall cfg n names ops x,
  let s := drun cfg (dinit n names) ops in
  DagAlgo.ancestors (dabs s) x = Dag.dag_ancestors s x.
Proof. exact reachable_ancestors_agree. Qed.
Print Assumptions C16_ancestors_is_the_guard_of_C10.

(* reachability of the abstraction is the `path` relation of C10 *)
Theorem C16_reach_is_path_of_C10 : forall cfg n names ops a b,
  let s := drun cfg (dinit n names) ops in
  Reach (dabs s) a b <-> path s a b.
Proof.
  intros cfg n names ops a b s. apply dabs_Reach_path.
  exact (proj1 (drun_DWF cfg ops (dinit n names) (DWF_init n names))).
Qed.
Print Assumptions C16_reach_is_path_of_C10.

(* --- not vacuous: the history of Props/C10.v (0 -> 1 -> 2 -> 3 plus the diamond 0 -> 2), names a..d *)
Example C16_bridge_nonvacuous :
  let s := drun {| dassertions := true |} (dinit 4 (fun i => [N.of_nat (97 + i)]))
             [DRShift 0 1 DNoFault; SetKids 1 DTuple [DNode 2] DNoFault; DLShift 3 2 DNoFault;
              SetParents 2 DList [DNode 1; DNode 0] DNoFault] in
  dag_iterator (dabs s) 0 = [(0, 1); (0, 2); (1, 2); (2, 3)]
  /\ dag_iterator (dabs s) 3 = [(2, 3); (1, 2); (0, 2); (0, 1)]
  /\ DagAlgo.ancestors (dabs s) 3 = [0; 1; 2] /\ descendants (dabs s) 0 = [1; 2; 3].
Proof. vm_compute. repeat split. Qed.
