(* C02, second round -- the calls that are SEQUENCES of assignments, as whole calls.
   C02_binary_atomic / C02_dag_atomic settle every single setter call and exclude BExtend, BNew and DNew
   ("atomic assignment by assignment, not as a whole").  The statements below say what a raising
   `p.extend(cs)` on binary nodes, a raising `BinaryNode(...)` and a raising `DAGNode(...)` leave behind:
   exactly the effect of the accepted prefix of their assignments; the failing assignment left nothing and
   every link among the nodes that the accepted prefix did not name is as it was.
   Definitions (bappends, bextend_links, bnew_links, dnew_links) and proofs: Heap/C02More2.v. *)
From BT Require Import Base.Prelude Heap.Forest Heap.Binary Heap.BinaryProofs.
From BT Require Import Heap.Dag Heap.DagProofs Heap.C02More2.

(* ---------------------------------------------------------------------------------------------- *)
(* BinaryNode: p.extend(cs) *)

(* an accepted extend is the accepted parent assignments one after the other, in closed form *)
Theorem C02_binary_extend_accepted_is_appends : forall cfg p cs fts s s',
  bextend_loop cfg s p cs fts = (s', Ok) -> s' = bappends p cs s.
Proof. exact bextend_ok. Qed.
Print Assumptions C02_binary_extend_accepted_is_appends.

(* when it raises: cs = done ++ c :: rest, every child of `done` was accepted, `c.parent = p` is the
   assignment that raised the call's exception (on the state the accepted prefix produced), the final
   state is pointwise that state, and (bextend_links) exactly the nodes of `done` hang below p, every
   other node -- c and `rest` included -- has the parent it had, the slots the moved children vacated
   are empty and every other slot of every node but p is as it was, and p's slots hold exactly its old
   children and the accepted ones *)
Theorem C02_binary_extend_failure_keeps_accepted_prefix : forall cfg p cs fts s s' e,
  BWF s -> p < bsize s -> forallb (bin_range s) cs = true ->
  bextend_loop cfg s p cs fts = (s', Err e) ->
  exists done c rest, cs = done ++ c :: rest
    /\ bextend_loop cfg s p done fts = (bappends p done s, Ok)
    /\ snd (bset_parent cfg (nth (length done) fts NoFault) (bappends p done s) c (ANode p)) = Err e
    /\ beq s' (bappends p done s)
    /\ bextend_links s s' p done.
Proof. intros cfg p cs fts s s' e. apply bextend_failure. Qed.
Print Assumptions C02_binary_extend_failure_keeps_accepted_prefix.

(* the operation BExtend that binary_atomic excludes *)
Theorem C02_binary_extend_step : forall cfg s p cs fts,
  BWF s -> bop_in_range s (BExtend p cs fts) = true ->
  snd (bstep cfg s (BExtend p cs fts)) <> Ok ->
  exists done c rest, cs = done ++ c :: rest
    /\ bextend_loop cfg s p done fts = (bappends p done s, Ok)
    /\ snd (bset_parent cfg (nth (length done) fts NoFault) (bappends p done s) c (ANode p))
       = snd (bstep cfg s (BExtend p cs fts))
    /\ beq (fst (bstep cfg s (BExtend p cs fts))) (bappends p done s)
    /\ bextend_links s (fst (bstep cfg s (BExtend p cs fts))) p done.
Proof. exact bstep_extend_failure. Qed.
Print Assumptions C02_binary_extend_step.

Theorem C02_binary_extend_every_history : forall cfg n ops p cs fts,
  let s := brun cfg (binit n) ops in
  bop_in_range s (BExtend p cs fts) = true ->
  snd (bstep cfg s (BExtend p cs fts)) <> Ok ->
  exists done c rest, cs = done ++ c :: rest
    /\ beq (fst (bstep cfg s (BExtend p cs fts))) (bappends p done s)
    /\ bextend_links s (fst (bstep cfg s (BExtend p cs fts))) p done.
Proof.
  intros cfg n ops p cs fts s Hr Herr.
  destruct (bstep_extend_failure cfg s p cs fts (brun_BWF _ _ _ (BWF_init n)) Hr Herr)
    as [done [c [rest [H1 [_ [_ [H2 H3]]]]]]].
  exists done, c, rest. split; [exact H1|]. split; [exact H2|exact H3].
Qed.
Print Assumptions C02_binary_extend_every_history.

(* ---------------------------------------------------------------------------------------------- *)
(* BinaryNode(left=, right=, parent=, children=) *)

(* when the constructor raises: either nothing is linked (argument check / refused or failing parent
   assignment: the fresh node `bsize s` is an unlinked root with two empty slots, every old parent and
   slot list is as it was), or the parent assignment was accepted and the children assignment is the one
   that raised and left nothing: the fresh node sits in the first empty slot of its parent and nothing
   else changed *)
Theorem C02_binary_constructor_failure : forall cfg s l r par ch fp fc s' e, BWF s ->
  barg_in_range s l = true -> barg_in_range s r = true -> barg_in_range s par = true ->
  forallb (barg_in_range s) ch = true ->
  bnew cfg s l r par ch fp fc = (s', Err e) ->
  (beq s' (balloc s) /\ bnew_links s s' None)
  \/ (let s1 := battach (balloc s) (bsize s) (slot_of_arg par) in
      bset_parent cfg fp (balloc s) (bsize s) par = (s1, Ok)
      /\ snd (bset_children cfg fc s1 (bsize s) CList (bnew_children l r ch)) = Err e
      /\ beq s' s1
      /\ bnew_links s s' (slot_of_arg par)
      /\ forall p, par = ANode p -> first_empty (bkids s p) <> None).
Proof. exact bnew_failure. Qed.
Print Assumptions C02_binary_constructor_failure.

(* the operation BNew that binary_atomic excludes *)
Theorem C02_binary_constructor_step : forall cfg s l r par ch fp fc, BWF s ->
  bop_in_range s (BNew l r par ch fp fc) = true ->
  snd (bstep cfg s (BNew l r par ch fp fc)) <> Ok ->
  let s' := fst (bstep cfg s (BNew l r par ch fp fc)) in
  bnew_links s s' None
  \/ (snd (bset_parent cfg fp (balloc s) (bsize s) par) = Ok
      /\ snd (bset_children cfg fc (battach (balloc s) (bsize s) (slot_of_arg par)) (bsize s) CList
                (bnew_children l r ch)) = snd (bstep cfg s (BNew l r par ch fp fc))
      /\ beq s' (battach (balloc s) (bsize s) (slot_of_arg par))
      /\ bnew_links s s' (slot_of_arg par)
      /\ forall p, par = ANode p -> first_empty (bkids s p) <> None).
Proof. exact bstep_new_failure. Qed.
Print Assumptions C02_binary_constructor_step.

(* in every reachable state: a raising constructor call leaves every old node's parent and -- but for the
   one slot of the accepted parent -- every old slot list as it was *)
Theorem C02_binary_constructor_every_history : forall cfg n ops l r par ch fp fc,
  let s := brun cfg (binit n) ops in
  bop_in_range s (BNew l r par ch fp fc) = true ->
  snd (bstep cfg s (BNew l r par ch fp fc)) <> Ok ->
  bnew_links s (fst (bstep cfg s (BNew l r par ch fp fc))) None
  \/ bnew_links s (fst (bstep cfg s (BNew l r par ch fp fc))) (slot_of_arg par).
Proof.
  intros cfg n ops l r par ch fp fc s Hr Herr.
  destruct (bstep_new_failure cfg s l r par ch fp fc (brun_BWF _ _ _ (BWF_init n)) Hr Herr)
    as [H|[_ [_ [_ [H _]]]]]; [left|right]; exact H.
Qed.
Print Assumptions C02_binary_constructor_every_history.

(* ---------------------------------------------------------------------------------------------- *)
(* DAGNode(name, parents=, children=), the lists in order *)

(* C02_dag_constructor is existential in the intermediate state; here it is explicit: when the
   constructor raises, either nothing is linked, or the fresh node `dsize s` has exactly the requested
   parents in the requested order, it is the LAST child of each of them, its own children list is
   empty (the children assignment is the one that raised and left nothing), and every other parents /
   children list is the same list as before *)
Theorem C02_dag_constructor_failure_ordered : forall cfg s nm pa ca ftp ftc s' e, DWF s ->
  forallb (darg_in_range s) (carg_args pa) = true -> forallb (darg_in_range s) (carg_args ca) = true ->
  construct cfg s nm pa ca ftp ftc = (s', Err e) ->
  (same_state s' (alloc s nm) /\ dnew_links s s' [])
  \/ (let s2 := assign_parents (alloc s nm) (dsize s) (ids_of (carg_args pa)) in
      set_parents cfg ftp (alloc s nm) (dsize s) (carg_cont pa) (carg_args pa) = (s2, Ok)
      /\ snd (set_children cfg ftc s2 (dsize s) (carg_cont ca) (carg_args ca)) = Err e
      /\ same_state s' s2
      /\ dnew_links s s' (ids_of (carg_args pa))).
Proof. exact dnew_failure. Qed.
Print Assumptions C02_dag_constructor_failure_ordered.

Theorem C02_dag_constructor_step : forall cfg s nm pa ca ftp ftc, DWF s ->
  dop_in_range s (DNew nm pa ca ftp ftc) = true ->
  snd (dstep cfg s (DNew nm pa ca ftp ftc)) <> Ok ->
  let s' := fst (dstep cfg s (DNew nm pa ca ftp ftc)) in
  dnew_links s s' []
  \/ (snd (set_parents cfg ftp (alloc s nm) (dsize s) (carg_cont pa) (carg_args pa)) = Ok
      /\ snd (set_children cfg ftc (assign_parents (alloc s nm) (dsize s) (ids_of (carg_args pa)))
                (dsize s) (carg_cont ca) (carg_args ca)) = snd (dstep cfg s (DNew nm pa ca ftp ftc))
      /\ same_state s' (assign_parents (alloc s nm) (dsize s) (ids_of (carg_args pa)))
      /\ dnew_links s s' (ids_of (carg_args pa))).
Proof. exact dstep_new_failure. Qed.
Print Assumptions C02_dag_constructor_step.

Theorem C02_dag_constructor_every_history : forall cfg n names ops nm pa ca ftp ftc,
  let s := drun cfg (dinit n names) ops in
  dop_in_range s (DNew nm pa ca ftp ftc) = true ->
  snd (dstep cfg s (DNew nm pa ca ftp ftc)) <> Ok ->
  dnew_links s (fst (dstep cfg s (DNew nm pa ca ftp ftc))) []
  \/ dnew_links s (fst (dstep cfg s (DNew nm pa ca ftp ftc))) (ids_of (carg_args pa)).
Proof.
  intros cfg n names ops nm pa ca ftp ftc s Hr Herr.
  destruct (dstep_new_failure cfg s nm pa ca ftp ftc (drun_DWF _ _ _ (DWF_init n names)) Hr Herr)
    as [H|[_ [_ [_ H]]]]; [left|right]; exact H.
Qed.
Print Assumptions C02_dag_constructor_every_history.

(* ---------------------------------------------------------------------------------------------- *)
(* non-vacuity: concrete reachable states, in-range raising calls, and the states they leave *)
Example C02_more2_nonvacuous :
  let cfg := {| assertions := true; is_node := false |} in
  (* 4 has the children [1, 2]; 0, 3, 5 are roots *)
  let s := brun cfg (binit 6) [BSetChildren 4 CList [ANode 1; ANode 2] NoFault] in
  (* 0.extend([1, 3, 2, 5]): 1 (stolen from 4) and 3 are accepted, 2 is refused (0 is full): 2 stays in its
     slot below 4, 5 is never touched *)
  let x := bstep cfg s (BExtend 0 [1; 3; 2; 5] []) in
  (* BinaryNode(parent=0, children=[1, 3]) with a failing post-assign hook of the children assignment: the
     fresh node 6 stays in the first slot of 0, 1 is back in its slot below 4, 3 is a root again *)
  let y := bstep cfg s (BNew ANone ANone (ANode 0) [ANode 1; ANode 3] NoFault PostFail) in
  let dcfg := {| dassertions := true |} in
  (* 2 -> 3, 0 -> 1, 0 -> 3 *)
  let d := drun dcfg (dinit 4 (fun _ => []))
             [SetKids 2 DList [DNode 3] DNoFault; SetKids 0 DList [DNode 1; DNode 3] DNoFault] in
  (* DAGNode(parents=[2, 0], children=[1]) with a failing post-assign hook of the children assignment *)
  let z := dstep dcfg d (DNew [] (Some (DList, [DNode 2; DNode 0])) (Some (DList, [DNode 1])) DNoFault DPostFail) in
  (bop_in_range s (BExtend 0 [1; 3; 2; 5] []) = true /\ snd x = Err TreeError
   /\ map (bpar (fst x)) [0; 1; 2; 3; 4; 5] = [None; Some 0; Some 4; Some 0; None; None]
   /\ bkids (fst x) 0 = [Some 1; Some 3] /\ bkids (fst x) 4 = [None; Some 2])
  /\ (bop_in_range s (BNew ANone ANone (ANode 0) [ANode 1; ANode 3] NoFault PostFail) = true
      /\ snd y = Err TreeError
      /\ map (bpar (fst y)) [0; 1; 2; 3; 4; 5; 6] = [None; Some 4; Some 4; None; None; None; Some 0]
      /\ bkids (fst y) 0 = [Some 6; None] /\ bkids (fst y) 4 = [Some 1; Some 2] /\ bkids (fst y) 6 = [None; None])
  /\ (dop_in_range d (DNew [] (Some (DList, [DNode 2; DNode 0])) (Some (DList, [DNode 1])) DNoFault DPostFail) = true
      /\ snd z = Err TreeError
      /\ map (parents (fst z)) [0; 1; 2; 3; 4] = [[]; [0]; []; [2; 0]; [2; 0]]
      /\ map (children (fst z)) [0; 1; 2; 3; 4] = [[1; 3; 4]; []; [3; 4]; []; []]).
Proof. vm_compute. repeat split; reflexivity. Qed.
