(* C07, third round - the copy_nodes option variant delete_children as rose-tree surgery (proofs: Heap/C07More3.v).

   Narrows the clause "NOT refined: ... the copy_nodes option variants ..." of the C07 partial clauses:
   C07_copy_nodes_is_graft (second round) covered copy_nodes with all flags off; here the flag delete_children
   ranges over both values (merge_children = merge_leaves = False):

   - C07_copy_nodes_dc_is_graft: either the parent assignment is refused and the rose tree below EVERY old node
     is as before (also with delete_children: the `del copy.children` only touches fresh nodes), or the tree
     below every old node is the old one with `copied s from_ dc` grafted as the last child of to_, where
     `copied` is the relabelled copy of the whole from-subtree (dc = false) or the bare fresh copy of from_
     carrying its name (dc = true); nothing is cut out of the source;
   - C07_copy_nodes_dc_source_kept / _from_kept: in every outcome an old tree that does not contain the
     destination - e.g. the tree below from_ when to_ is not from_ or one of its descendants - is exactly as
     before ("leave every node of the input tree with the same parent, children order, name");
   - C07_attach_fresh_graft: the generic step behind both (any state, any watermark). *)
From BT Require Import Base.Prelude Base.Str Heap.Forest Heap.Effects Heap.EffectsProofs Heap.C07More2 Heap.C07More3.
From BT Require Base.Rose Heap.ForestWF Heap.ForestStep Heap.Abs Heap.AbsSurgery.

Theorem C07_attach_fresh_graft : forall cfg s n c to_,
  ForestWF.WF s -> c < size s -> to_ < size s ->
  (forall y, In (Some y) (Abs.tags (Abs.subtree s c)) -> n <= y) ->
  (forall r y, r < n -> In (Some y) (Abs.tags (Abs.subtree s r)) -> y < n) ->
  let s' := fst (step cfg s (SetParent c (ANode to_) NoFault)) in
  (forall r, r < n -> Abs.subtree s' r = Abs.subtree s r)
  \/ ((forall r, r < n -> Abs.subtree s' r = AbsSurgery.graft to_ (Abs.subtree s c) (Abs.subtree s r))
      /\ Abs.subtree s' c = Abs.subtree s c).
Proof. exact attach_fresh_graft. Qed.
Print Assumptions C07_attach_fresh_graft.

Theorem C07_copy_nodes_dc_is_graft : forall cfg h from_ to_ dc,
  ForestWF.WF (fr h) -> from_ < size (fr h) -> to_ < size (fr h) ->
  let s := fr h in
  let h' := fst (sk_copy_nodes cfg h from_ to_ false false dc) in
  let c := snd (sk_copy_nodes cfg h from_ to_ false false dc) in
  c = phi s from_ from_
  /\ ((forall r, r < size s -> Abs.subtree (fr h') r = Abs.subtree s r)
      \/ ((forall r, r < size s ->
             Abs.subtree (fr h') r = AbsSurgery.graft to_ (copied s from_ dc) (Abs.subtree s r))
          /\ Abs.subtree (fr h') c = copied s from_ dc)).
Proof. exact copy_nodes_dc_is_graft. Qed.
Print Assumptions C07_copy_nodes_dc_is_graft.

Theorem C07_copy_nodes_dc_source_kept : forall cfg h from_ to_ dc r,
  ForestWF.WF (fr h) -> from_ < size (fr h) -> to_ < size (fr h) -> r < size (fr h) ->
  ~ In (Some to_) (Abs.tags (Abs.subtree (fr h) r)) ->
  Abs.subtree (fr (fst (sk_copy_nodes cfg h from_ to_ false false dc))) r = Abs.subtree (fr h) r.
Proof. exact copy_nodes_dc_source_kept. Qed.
Print Assumptions C07_copy_nodes_dc_source_kept.

Theorem C07_copy_nodes_dc_from_kept : forall cfg h from_ to_ dc,
  ForestWF.WF (fr h) -> from_ < size (fr h) -> to_ < size (fr h) ->
  to_ <> from_ -> ~ In from_ (ancestors (fr h) to_) ->
  Abs.subtree (fr (fst (sk_copy_nodes cfg h from_ to_ false false dc))) from_ = Abs.subtree (fr h) from_.
Proof. exact copy_nodes_dc_from_kept. Qed.
Print Assumptions C07_copy_nodes_dc_from_kept.

(* ------------------------------------------------------------------------------------------ *)
(* non-vacuity.  Node tree r(0) -> a(1), x(2); a -> b(3), c(4); b -> e(5), built through the structural API
   (hence well-formed).  copy_nodes a -> below x with delete_children=True: the tree below r gains the BARE
   fresh copy of a (id 7: node.copy() copies the whole component, r -> 6, a -> 7, ...) as the last child of x - the accepted branch of the theorem, not a no-op -; the
   tree below a keeps b(e), c; without the flag the whole copy a(b(e), c) hangs below x *)
Definition ex3_cfg : config := {| assertions := true; is_node := true |}.
Definition ex3_nm (x : id) : str :=
  match x with 0 => [114%N] | 1 => [97%N] | 2 => [120%N] | 3 => [98%N] | 4 => [99%N] | _ => [101%N] end.
Definition ex3_s : forest :=
  run ex3_cfg (init 6 ex3_nm (fun _ => [47%N]))
      [SetParent 1 (ANode 0) NoFault; SetParent 2 (ANode 0) NoFault; SetParent 3 (ANode 1) NoFault;
       SetParent 4 (ANode 1) NoFault; SetParent 5 (ANode 3) NoFault].
Definition ex3_h : eheap := EH ex3_s (fun _ => []) (fun x => 10 + x) 20.

Example ex3_WF : ForestWF.WF (fr ex3_h).
Proof. apply ForestStep.run_WF. apply ForestWF.WF_init. Qed.

Example C07_copy_nodes_dc_nonvacuous :
  let a := Rose.T (Some 1) [97%N] []
             [Rose.T (Some 3) [98%N] [] [Rose.T (Some 5) [101%N] [] []]; Rose.T (Some 4) [99%N] [] []] in
  let h1 := fst (sk_copy_nodes ex3_cfg ex3_h 1 2 false false true) in
  let h0 := fst (sk_copy_nodes ex3_cfg ex3_h 1 2 false false false) in
  1 < size (fr ex3_h) /\ 2 < size (fr ex3_h) /\ 2 <> 1 /\ ~ In 1 (ancestors (fr ex3_h) 2)
  /\ copied (fr ex3_h) 1 true = Rose.T (Some 7) [97%N] [] []
  /\ Abs.subtree (fr h1) 0 = Rose.T (Some 0) [114%N] [] [a; Rose.T (Some 2) [120%N] [] [Rose.T (Some 7) [97%N] [] []]]
  /\ Abs.subtree (fr h1) 0 = AbsSurgery.graft 2 (copied (fr ex3_h) 1 true) (Abs.subtree (fr ex3_h) 0)
  /\ Abs.subtree (fr h1) 0 <> Abs.subtree (fr ex3_h) 0
  /\ Abs.subtree (fr h1) 1 = a /\ Abs.subtree (fr ex3_h) 1 = a
  /\ Abs.subtree (fr h0) 2
     = Rose.T (Some 2) [120%N] []
         [Rose.T (Some 7) [97%N] []
            [Rose.T (Some 9) [98%N] [] [Rose.T (Some 11) [101%N] [] []]; Rose.T (Some 10) [99%N] [] []]]
  /\ Abs.subtree (fr h0) 0 = AbsSurgery.graft 2 (copied (fr ex3_h) 1 false) (Abs.subtree (fr ex3_h) 0).
Proof.
  cbn zeta. split; [vm_compute; lia|]. split; [vm_compute; lia|]. split; [discriminate|].
  split; [vm_compute; intuition discriminate|].
  split; [vm_compute; reflexivity|]. split; [vm_compute; reflexivity|]. split; [vm_compute; reflexivity|].
  split; [vm_compute; discriminate|].
  repeat split; vm_compute; reflexivity.
Qed.

(* the refused branch is inhabited too: copying b below r's child a ... a already has a child named "b" *)
Example C07_copy_nodes_dc_refused_example :
  let h1 := fst (sk_copy_nodes ex3_cfg ex3_h 3 1 false false true) in
  Abs.subtree (fr h1) 0 = Abs.subtree (fr ex3_h) 0
  /\ Abs.subtree (fr h1) (snd (sk_copy_nodes ex3_cfg ex3_h 3 1 false false true)) = Rose.T (Some 9) [98%N] [] [].
Proof. vm_compute. split; reflexivity. Qed.
