(* C20, DAGNode share — the assertion switch never changes valid behaviour. *)
From BT Require Import Base.Prelude Heap.Dag Spec.PC10 Heap.DagProofs.

Theorem C20_dag_step : forall s o s', DWF s ->
  dstep {| dassertions := true |} s o = (s', Ok) -> dstep {| dassertions := false |} s o = (s', Ok).
Proof. exact dag_assert_irrelevant. Qed.
Print Assumptions C20_dag_step.

Theorem C20_dag_history : forall ops s,
  forallb (fun r => is_ok (snd r)) (dtrace {| dassertions := true |} s ops) = true ->
  dtrace {| dassertions := false |} s ops = dtrace {| dassertions := true |} s ops.
Proof. exact dag_assert_irrelevant_run. Qed.
Print Assumptions C20_dag_history.

(* hook failures included: if the checks do not refuse the call (its hook-free version is accepted),
   the operation gives the same state and outcome under both settings of the switch, whatever its
   hooks do (pass, fail before, fail after) *)
Theorem C20_dag_hook_failure_irrelevant : forall cfg1 cfg2 s o,
  snd (dstep cfg1 s (strip_faults o)) = Ok -> dstep cfg2 s o = dstep cfg1 s o.
Proof. exact dag_hook_failure_irrelevant. Qed.
Print Assumptions C20_dag_hook_failure_irrelevant.
