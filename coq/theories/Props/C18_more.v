(* C18 — the horizontal round trip for ALL trees (the clause that was a theorem only for chains,
   C18_h_roundtrip_chain_partial).  Only statements; definitions and proofs in Algo/C18More.v
   (abstract layouts `lay`; the decoder's passes on a layout; the model's rows parse into the layout
   of the tree, via hbranch_connectors / hbranch_good of Algo/RenderProofs.v).

   `names_rstripped t`: no existing node's name ends in a whitespace character (hyield_tree calls
   str.rstrip() on a leaf's cell; see C18_h_trailing_ws_refuted).  `hglyphs_distinct` (Spec/PC18.v):
   the first-child and last-child icons differ from each other, from the stem and the
   subsequent-child icon, and no icon is a blank — true of five of the six built-in styles. *)
From BT Require Import Base.Prelude Base.Str Base.Rose Algo.Render Algo.HRender Spec.PC18
     Algo.RenderProofs Corr.RenderCorr Algo.C18More.

(* hyield_tree's text decodes back to the tree with the text-only decoder (h_decode without a
   guide: only the rows and the band widths): every tree — any fan-out and depth, repeated names,
   empty BinaryNode slots —, with and without intermediate node names, every built-in or custom
   style with recognisable icons.  `h_match`: same shape, names up to blanks at the ends, empty
   slots as nameless leaves, inner names only when they are printed. *)
Theorem C18_h_roundtrip_all : forall st inter t,
  hglyphs_distinct (glyphs_of st) = true -> names_rstripped t = true ->
  exists rows dec,
    hyield_rows st inter t = Ret rows
    /\ h_decode (glyphs_of st) inter (band_widths inter t) None rows = Some dec
    /\ h_match inter dec t = true.
Proof. exact hroundtrip_all. Qed.
Print Assumptions C18_h_roundtrip_all.

(* the spec's boolean clause `h_decodable`, for EVERY style (it asks nothing of the text-only pass
   when the icons are not recognisable, e.g. the all-'+' ascii style) *)
Theorem C18_h_decodable_all : forall st inter t,
  names_rstripped t = true ->
  exists rows, hyield_rows st inter t = Ret rows /\ h_decodable (glyphs_of st) inter t rows = true.
Proof. exact hdecodable_all. Qed.
Print Assumptions C18_h_decodable_all.

(* the call as a whole: start at an inner node, max_depth, style given *)
Theorem C18_h_call_decodable : forall st inter t start md rows,
  hyield_tree (Some st) inter t start md = Ret rows ->
  exists s, get_subtree t start md = Some s
            /\ (names_rstripped s = true -> h_decodable (glyphs_of st) inter s rows = true).
Proof. exact hyield_tree_decodable. Qed.
Print Assumptions C18_h_call_decodable.

(* the two halves of the proof, for reuse: (1) whatever rows parse into a well-formed layout decode
   to the layout's tree; (2) the model's rows do parse into the layout of the tree *)
Theorem C18_h_layout_decodes : forall st,
  hs_first st <> 32%N -> hs_subseq st <> hs_last st ->
  forall l inter bw out,
    wf l -> notgap l = true -> lheight l <= length bw ->
    opt_all (map (h_parse_row (glyphs_of st) inter bw) out) = Some (lrows st l) ->
    h_decode (glyphs_of st) inter bw None out = Some (ldec l).
Proof. exact decode_lay. Qed.
Print Assumptions C18_h_layout_decodes.

Theorem C18_h_rows_parse : forall st inter ws,
  hs_branch st <> 32%N ->
  forall t d bw,
    (inter = true -> fits ws d t) ->
    (forall i, inter = true -> nth i bw 0 = pad_at ws (d + i)) ->
    lheight (lay_of st inter ws d t) <= length bw ->
    no_trailing_ws t ->
    map (h_parse_row (glyphs_of st) inter bw) (fst (fst (hbranch st inter ws d t)))
    = map Some (lrows st (lay_of st inter ws d t)).
Proof. exact parse_block. Qed.
Print Assumptions C18_h_rows_parse.

Theorem C18_h_layout_wf : forall st inter ws t d,
  lnrows (lay_of st inter ws d t) = blk_rows (hbranch st inter ws d t) /\ wf (lay_of st inter ws d t).
Proof. exact lay_of_wf. Qed.
Print Assumptions C18_h_layout_wf.

(* ---------------------------------------------------------------------------------------------- *)
(* non-vacuity: a branching tree of depth 6 with fan-outs 1, 2, 3 and 4, two one-row children
   (separating row), an empty BinaryNode slot, a repeated name and a name with an inner blank *)
Local Open Scope N_scope.
Definition ex_hole : tree := T (Some 0%nat) [] [] [].
Definition ex_tree_h : tree :=
  Nd [97] [Nd [98; 98; 98] [Nd [99] []; Nd [100] []];
           Nd [101] [Nd [102] [Nd [103] []; Nd [104] [];
                               Nd [105; 105] [Nd [106] [ex_hole; Nd [107; 32; 108] []]]]];
           Nd [108] [];
           Nd [109] [Nd [110] [Nd [99] []]]].
(* what the decoder must return: names, the empty slot as a nameless leaf *)
Definition ex_tree_h_decoded : tree :=
  Nd [97] [Nd [98; 98; 98] [Nd [99] []; Nd [100] []];
           Nd [101] [Nd [102] [Nd [103] []; Nd [104] [];
                               Nd [105; 105] [Nd [106] [Nd [] []; Nd [107; 32; 108] []]]]];
           Nd [108] [];
           Nd [109] [Nd [110] [Nd [99] []]]].

Example C18_h_roundtrip_all_witness :
  hglyphs_distinct (glyphs_of hs_rounded) = true /\ names_rstripped ex_tree_h = true
  /\ height (compact ex_tree_h) = 6%nat
  /\ (match hyield_rows hs_rounded true ex_tree_h with
      | Ret rows => (length rows,
                     h_decode (glyphs_of hs_rounded) true (band_widths true ex_tree_h) None rows)
      | _ => (0%nat, None)
      end) = (10%nat, Some ex_tree_h_decoded)
  /\ h_match true ex_tree_h_decoded ex_tree_h = true
  /\ forallb (fun st => hglyphs_distinct (glyphs_of st))
             [hs_ansi; hs_const; hs_const_bold; hs_rounded; hs_double] = true.
Proof. vm_compute. repeat split; reflexivity. Qed.

(* both guards are needed.  A leaf whose name ends in a tab loses it to rstrip(): the decoded name
   differs even up to blanks. *)
Example C18_h_trailing_ws_refuted :
  exists t, names_rstripped t = false
            /\ match hyield_rows hs_const true t with
               | Ret rows => h_decodable (glyphs_of hs_const) true t rows
               | _ => true
               end = false.
Proof. exists (Nd [97] [Nd [98; 9] []; Nd [99] []]). vm_compute. split; reflexivity. Qed.

(* With the all-'+' ascii style the text alone does not say where a connector ends: the text-only
   pass fails on the example tree (the guided pass of h_geometry is the one that applies there). *)
Example C18_h_ascii_text_only_refuted :
  hglyphs_distinct (glyphs_of hs_ascii) = false
  /\ match hyield_rows hs_ascii true ex_tree_h with
     | Ret rows => h_decode (glyphs_of hs_ascii) true (band_widths true ex_tree_h) None rows
     | _ => None
     end = None.
Proof. vm_compute. split; reflexivity. Qed.
