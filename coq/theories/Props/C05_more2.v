(* C05 — second round of partial clauses (proofs: Algo/C05More2.v).

   What was still partial after Props/C05.v and Props/C05_more.v:
   (1) "histories with duplicates disallowed": C05_history_adds_exact speaks about duplicate_name_allowed =
       True only, and only about the Prop-level add_path clause;
   (2) "BLIND SPOT double calls (same tree extended twice) are compared with the model only, prop_C05 is
       evaluated on single calls": no theorem said that the predicate prop_C05 itself holds of a call made
       on a tree that earlier calls and edits have produced;
   (3) the by-name frame kinds were proved on an arbitrary frame under guards stated ON THE FRAME
       (pcol_guard, polars_modelled); only the dict kind was proved on the argument the harness really
       passes (eff_input).

   PART A closes (1) and (2): for EVERY history (hrun: add_path_to_tree interleaved with del parent[name],
   node.parent = other, node.sort()), EITHER flag, accepted and refused adds alike, the full predicate
   prop_C05 holds of every add against the tree as it is at that moment (one-character separators
   unguarded; any positive length under the guards of the _multi theorems), and with duplicates
   disallowed every accepted add IS the permissive add, is accepted exactly when the permissive result
   has distinct names, and the names stay distinct through the whole history.
   PART B closes (3): the guards are inherited from the raw rows, and one statement covers all eleven
   entry points on eff_input.

   Vocabulary: hentry = (tree before, path, attributes, (tree after, outcome)) as recorded by hrun;
   hist_in .. = the input the history check builds for one add (Corr/ConstructCorr.v run_ops, SAdd);
   hop_pg / hop_free / hop_ok = per-operation guards (below). *)
From BT Require Import Base.Prelude Base.Str Base.StrSep Base.Rose Algo.Construct Spec.PC05 Algo.ConstructProofs
     Algo.C05More Algo.C05More2.

(* ==== PART A: histories ======================================================================== *)

(* ---- one call, either flag, ACCEPTED OR REFUSED (a refused call leaves behind the nodes it created
   before raising; the existing add_path_attrs_wf / add_path_true_clean / add_path_false_names speak
   about accepted calls only): the tree after the call still has dict-like attribute maps, names free
   of the separator's characters, and - duplicates disallowed - distinct names *)
Theorem C05_add_path_attrs_wf_any : forall t tsep path sep dup na,
  attrs_wf t -> attrs_wf (fst (add_path_to_tree t tsep path sep dup na)).
Proof. exact add_path_attrs_wf_any. Qed.
Print Assumptions C05_add_path_attrs_wf_any.

Theorem C05_add_path_cleans_any : forall sp t tsep path sep dup na,
  cleans sp t -> Forall (sfree sp) (branch_of path sep) ->
  cleans sp (fst (add_path_to_tree t tsep path sep dup na)).
Proof. exact add_path_cleans_any. Qed.
Print Assumptions C05_add_path_cleans_any.

Theorem C05_add_path_no_dup_any : forall t tsep path sep na,
  NoDup (names t) -> NoDup (names (fst (add_path_to_tree t tsep path sep false na))).
Proof. exact add_path_false_names_any. Qed.
Print Assumptions C05_add_path_no_dup_any.

(* ---- the structural edits of a history: del / re-parent / sort keep the attribute maps and the
   separator-freeness of every node; they permute (move, sort) or shrink (del) the list of names.
   hop_ok excludes only root.parent = descendant, which the library refuses (LoopError) and hedit
   does not model (C05_history_root_move_refuted shows the hypothesis is needed) *)
Theorem C05_edit_keeps_nodes : forall sp t op t',
  hedit t op = Some t' ->
  (attrs_wf t -> attrs_wf t') /\ (cleans sp t -> cleans sp t').
Proof.
  intros sp t op t' E. split; intros H; [exact (attrs_wf_hedit t op t' H E)|exact (cleans_hedit sp t op t' H E)].
Qed.
Print Assumptions C05_edit_keeps_nodes.

Theorem C05_edit_names : forall t op t',
  hop_ok op -> hedit t op = Some t' ->
  (exists l, Permutation.Permutation (names t) (l ++ names t')) /\ (NoDup (names t) -> NoDup (names t')).
Proof.
  intros t op t' Hok E. split; [exact (names_hedit t op t' Hok E)|].
  intros H. exact (NoDup_hedit t op t' Hok H E).
Qed.
Print Assumptions C05_edit_names.

(* ---- C05_history_adds_prop: the predicate the correspondence evaluates on single calls holds of EVERY
   add of EVERY history, for the tree as it is at that moment, either flag, accepted and refused adds
   alike; and the model's answer to that single call is the recorded outcome (so the trace hrun and the
   per-call runs of the history check coincide).  One-character separators; hypotheses as in
   C05_model_satisfies_prop_add_path, required of the START tree only. *)
Theorem C05_history_adds_prop : forall c sep dup tsep pcol ops t,
  sep = [c] -> attrs_wf t -> (dup = true \/ exists c2, tsep = [c2]) ->
  Forall (hist_prop sep dup tsep pcol) (hrun tsep sep dup t ops).
Proof. exact history_adds_prop. Qed.
Print Assumptions C05_history_adds_prop.

(* separators of any positive length: every added path string satisfies PG (e.g. is `rendered`,
   C05_parse_guard_rendered); with duplicates disallowed no character of the tree's separator in a name
   of the START tree or in a component of an added path (that this stays true of every later tree is
   part of the proof, not of the hypotheses) *)
Theorem C05_history_adds_prop_multi : forall sep dup tsep pcol ops t,
  sep <> [] -> Forall (hop_pg sep) ops -> attrs_wf t ->
  (dup = true \/ (tsep <> [] /\ cleans tsep t /\ Forall (hop_free sep tsep) ops)) ->
  Forall (hist_prop sep dup tsep pcol) (hrun tsep sep dup t ops).
Proof. exact history_adds_prop_multi. Qed.
Print Assumptions C05_history_adds_prop_multi.

(* what hist_prop says, spelled out for one recorded add *)
Theorem C05_hist_prop_unfold : forall sep dup tsep pcol tb path na r,
  hist_prop sep dup tsep pcol (tb, path, na, r) <->
  (prop_C05 KAddPath (MkIn sep dup tb tsep [] pcol [(path, na)])
            (run KAddPath (MkIn sep dup tb tsep [] pcol [(path, na)])) = true
   /\ (row_keys_ok [] (path, na) = true ->
       run KAddPath (MkIn sep dup tb tsep [] pcol [(path, na)])
       = match r with
         | (t', Ret p) => Out None (Some t') tsep [p]
         | (t', Raise e) => Out (Some e) (Some t') tsep []
         end)).
Proof. intros sep dup tsep pcol tb path na r. destruct r as [t' [p|e]]; reflexivity. Qed.
Print Assumptions C05_hist_prop_unfold.

(* ---- duplicate_name_allowed = False through a whole history ---------------------------------- *)

(* unguarded: the names are pairwise distinct before and after every add (accepted or refused) of
   every history that starts from distinct names *)
Theorem C05_history_no_dup_distinct : forall tsep sep ops t,
  NoDup (names t) -> Forall hop_ok ops ->
  Forall hist_distinct (hrun tsep sep false t ops).
Proof. exact history_no_dup_distinct. Qed.
Print Assumptions C05_history_no_dup_distinct.

(* C05_history_adds_exact for duplicate_name_allowed = False.  For every recorded add (tb, path, na, r):
   r = (t', Ret p)  <->  the permissive call on tb returns (t', Ret p) and t' has distinct names
   ("either raises or produces the same tree with all names distinct"); the add_path clause holds
   against tb; tb has distinct names free of the separator's characters.  Guard (on the START tree and
   the added paths only): no character of the tree's separator, of any positive length, in a name or a
   path component. *)
Theorem C05_history_no_dup_exact : forall tsep sep ops t,
  tsep <> [] -> NoDup (names t) -> cleans tsep t ->
  Forall hop_ok ops -> Forall (hop_free sep tsep) ops ->
  Forall (hist_strict tsep sep) (hrun tsep sep false t ops).
Proof. exact history_no_dup_exact. Qed.
Print Assumptions C05_history_no_dup_exact.

Theorem C05_hist_strict_unfold : forall tsep sep tb path na r,
  hist_strict tsep sep (tb, path, na, r) <->
  ((forall t' p, r = (t', Ret p)
                 <-> add_path_to_tree tb tsep path sep true na = (t', Ret p) /\ NoDup (names t'))
   /\ add_clause tb sep path r /\ NoDup (names tb) /\ cleans tsep tb).
Proof. intros. reflexivity. Qed.
Print Assumptions C05_hist_strict_unfold.

(* ==== PART B: the by-name frame entry points on the frame the harness builds ==================== *)

(* the guards of C05_model_satisfies_prop_name_frame / _polars are inherited from the raw rows: the
   frame has an attribute column named like its name column only if a row has such a key; it has no
   attribute column at all only if no row has any attribute *)
Theorem C05_byname_frame_guards_raw : forall pcol rows,
  (pcol_guard pcol rows -> pcol_guard pcol (frame_of_rows rows))
  /\ (polars_modelled rows = true -> polars_modelled (frame_of_rows rows) = true).
Proof. intros pcol rows. split; [apply pcol_guard_frame|apply polars_modelled_frame]. Qed.
Print Assumptions C05_byname_frame_guards_raw.

Theorem C05_model_satisfies_prop_name_frame_eff : forall i sub,
  i_sep i <> [] -> attrs_wf (i_tree i) -> subtree_at (i_tree i) (i_start i) = Some sub ->
  pcol_guard (i_pcol i) (i_rows i) ->
  prop_C05 KNameFrame (eff_input KNameFrame i) (run KNameFrame (eff_input KNameFrame i)) = true.
Proof. exact model_satisfies_name_frame_eff. Qed.
Print Assumptions C05_model_satisfies_prop_name_frame_eff.

Theorem C05_model_satisfies_prop_name_polars_eff : forall i sub,
  i_sep i <> [] -> attrs_wf (i_tree i) -> subtree_at (i_tree i) (i_start i) = Some sub ->
  pcol_guard (i_pcol i) (i_rows i) -> polars_modelled (i_rows i) = true ->
  prop_C05 KNamePolars (eff_input KNamePolars i) (run KNamePolars (eff_input KNamePolars i)) = true.
Proof. exact model_satisfies_name_polars_eff. Qed.
Print Assumptions C05_model_satisfies_prop_name_polars_eff.

(* all eleven entry points on the argument the harness really passes (dict(rows) for the dict kinds,
   frame_of_rows for the frame kinds); the NoDup-keys hypothesis of C05_model_satisfies_prop_all is gone *)
Theorem C05_model_satisfies_prop_all_eff : forall k i c,
  i_sep i = [c] -> attrs_wf (i_tree i) -> (i_dup i = true \/ exists c2, i_tsep i = [c2]) ->
  (is_byname k = true -> byname_hyps_raw k i) ->
  prop_C05 k (eff_input k i) (run k (eff_input k i)) = true.
Proof. exact model_satisfies_all_eff. Qed.
Print Assumptions C05_model_satisfies_prop_all_eff.

(* ==== non-vacuity ============================================================================== *)
Definition hx_a : str := [97]%N.
Definition hx_b : str := [98]%N.
Definition hx_c : str := [99]%N.
Definition hx_d : str := [100]%N.
Definition hx_x : str := [120]%N.
Definition hx_sl : str := [47]%N.
Definition hx_P : str := [80]%N.
Definition hx_tree : tree := T (Some 0) hx_a [(hx_c, VInt 9)] [T (Some 1) hx_b [] []].
(* add a/b/c; add a/x/c (refused: c exists elsewhere, x stays behind); del a/b/c; add a/x/c again
   (accepted, x reused); move a/x below a/b; sort a; add /a/b/x/d/; add /b (wrong root) *)
Definition hx_ops : list hop :=
  [HAdd [97; 47; 98; 47; 99]%N [(hx_c, VInt 1)];
   HAdd [97; 47; 120; 47; 99]%N [];
   HDel [hx_a; hx_b; hx_c];
   HAdd [97; 47; 120; 47; 99]%N [(hx_b, VNone)];
   HMove [hx_a; hx_x] [hx_a; hx_b];
   HSort [hx_a];
   HAdd [47; 97; 47; 98; 47; 120; 47; 100; 47]%N [];
   HAdd [47; 98]%N []].

(* five adds are recorded, three accepted and two refused; on every one of them the guards of prop_C05
   hold (the theorem is not vacuous there) *)
Example C05_history_no_dup_nonvacuous :
  map (fun e : hentry => snd (snd e)) (hrun hx_sl hx_sl false hx_tree hx_ops)
  = [Ret [0; 0]; Raise DuplicatedNodeError; Ret [1; 0]; Ret [0; 0; 1]; Raise TreeError]
  /\ map (fun e : hentry => match e with (tb, path, na, _) =>
            guards KAddPath (hist_in hx_sl false hx_sl hx_P tb path na) end)
         (hrun hx_sl hx_sl false hx_tree hx_ops)
     = [true; true; true; true; true]
  /\ paths (fst (snd (last (hrun hx_sl hx_sl false hx_tree hx_ops) (hx_tree, [], [], (hx_tree, Ret [])))))
     = [[hx_a]; [hx_a; hx_b]; [hx_a; hx_b; hx_x]; [hx_a; hx_b; hx_x; hx_c]; [hx_a; hx_b; hx_x; hx_d]].
Proof. vm_compute. auto. Qed.

(* the hypotheses of C05_history_no_dup_exact / C05_history_adds_prop hold of this history *)
Example C05_history_hyps_nonvacuous :
  attrs_wf hx_tree /\ NoDup (names hx_tree) /\ cleans hx_sl hx_tree
  /\ Forall hop_ok hx_ops /\ Forall (hop_free hx_sl hx_sl) hx_ops.
Proof.
  split; [apply attrs_wf_b; vm_compute; reflexivity|].
  split; [apply nodup_str_NoDup; vm_compute; reflexivity|].
  split.
  { intros x Hx. vm_compute in Hx. apply sfree_one.
    destruct Hx as [<-|[<-|[]]]; cbn; intuition discriminate. }
  split.
  { repeat constructor; cbn; discriminate. }
  repeat constructor; cbn [hop_free];
    try (vm_compute; repeat constructor; intros ch [<-|[]] H; cbn in H; intuition discriminate).
Qed.

(* separator "->" on a tree working with "::", duplicates disallowed: guards true on every add *)
Example C05_history_multi_nonvacuous :
  let ar := [45; 62]%N in let cc := [58; 58]%N in
  let ops := [HAdd [97; 45; 62; 98; 45; 62; 99]%N [(hx_c, VInt 1)];
              HAdd [97; 45; 62; 120; 45; 62; 99]%N [];
              HDel [hx_a; hx_b; hx_c];
              HAdd [45; 62; 97; 45; 62; 120; 45; 62; 99; 45; 62]%N [(hx_b, VNone)];
              HMove [hx_a; hx_x] [hx_a; hx_b];
              HSort [hx_a]] in
  map (fun e : hentry => snd (snd e)) (hrun cc ar false hx_tree ops)
  = [Ret [0; 0]; Raise DuplicatedNodeError; Ret [1; 0]]
  /\ map (fun e : hentry => match e with (tb, path, na, _) =>
            guards KAddPath (hist_in ar false cc hx_P tb path na) end) (hrun cc ar false hx_tree ops)
     = [true; true; true].
Proof. vm_compute. auto. Qed.

(* hop_ok is needed: re-parenting the ROOT below its own child (refused by the library, not by hedit)
   duplicates every name *)
Example C05_history_root_move_refuted :
  exists t op t', NoDup (names t) /\ hedit t op = Some t' /\ ~ NoDup (names t').
Proof.
  exists hx_tree, (HMove [hx_a] [hx_a; hx_b]). eexists. split; [apply nodup_str_NoDup; vm_compute; reflexivity|].
  split; [vm_compute; reflexivity|]. intros H. apply nodup_str_true in H. vm_compute in H. discriminate.
Qed.

(* PART B: rows with different key sets; the frame gets the columns c, b and null cells; the by-name
   frame variants accept, drop the nulls, and the predicate holds with its guards true *)
Example C05_byname_frame_eff_nonvacuous :
  let rows := [(hx_b, [(hx_c, VInt 1)]); (hx_a, [(hx_b, VInt 2); (hx_c, VNone)])] in
  let i := MkIn hx_sl true hx_tree hx_sl [] hx_P rows in
  i_rows (eff_input KNameFrame i)
  = [(hx_b, [(hx_c, VInt 1); (hx_b, VNone)]); (hx_a, [(hx_c, VNone); (hx_b, VInt 2)])]
  /\ o_tree (run KNamePolars (eff_input KNamePolars i))
     = Some (T (Some 0) hx_a [(hx_c, VInt 9); (hx_b, VInt 2)] [T (Some 1) hx_b [(hx_c, VInt 1)] []])
  /\ keys_ok KNameFrame (eff_input KNameFrame i) = true
  /\ polars_modelled rows = true
  /\ prop_C05 KNameFrame (eff_input KNameFrame i) (run KNameFrame (eff_input KNameFrame i)) = true.
Proof. vm_compute. auto 8. Qed.
