(* C08 — shift/copy/replace: fourth batch of further clauses.  Only statements here; the proofs are in Algo/C08More4.v
   (which builds on Algo/ModifyProofs.v, Algo/C08More.v, Algo/C08More2.v, Algo/C08More3.v).  Model: Algo/Modify.v;
   documented edit on path tables: Spec/PC08.v (edit_cs).

   What is new with respect to Props/C08.v, C08_more.v, C08_more2.v, C08_more3.v: tree-to-tree merge_leaves onto an ABSENT
   destination path.  copy_nodes_from_tree_to_tree(tree = s, to_tree = dt, merge_leaves = True), with or without
   overriding (not consulted when the destination does not exist), with or without delete_children (not consulted by the
   leaves loop), for ALL source trees s, destination trees dt, source nodes x below the root of s with at least one child
   and of ANY depth:
   (1) C08_tt_merge_leaves_absent: the missing intermediate nodes are created in dt (ensure), fresh copies (retag: tags
       None, same names and attributes) of the leaves of x are appended in pre-order under the created parent, no
       exception, piece 0 is s (the same value: source untouched), the result is well formed, its table is the one
       Spec.edit_cs prescribes (src = rows s, dst = rows dt, copy, same = false), every row of dt is kept;
   (2) C08_tt_merge_leaves_absent_obs: the same on the observable pieces of the outcome;
   (3) C08_tt_merge_leaves_attach: the attach step alone (modify.py:1213-1216 with copy, to_tree given) for an existing
       destination node, independent of `overriding`; C08_tt_merge_leaves_existing_wf adds to round 2's
       C08_tt_merge_leaves_existing the explicit tree of piece 1 and its well-formedness.
   The guards "no leaf of x has the name of a child of the destination" and "leaf names distinct" are the code's own (the
   clashing assignment raises TreeError); "tkids x <> []" separates the case where x itself is its only leaf. *)
From BT Require Import Base.Prelude Base.Str Base.StrSep Base.Rose Algo.Modify Spec.PC08 Corr.ModifyCorr Algo.ModifyProofs
                       Algo.C08More Algo.C08More2 Algo.C08More3 Algo.C08More4.

(* (1) *)
Theorem C08_tt_merge_leaves_absent : forall c s dt p x comps PX,
  let Q := tname dt :: comps in
  tt_cfg c -> f_mc (c_fl c) = false -> f_ml (c_fl c) = true ->
  wf_t s -> wf_t dt -> p <> [] -> tget s p = Some x -> tpath s p = Some PX -> tkids x <> [] ->
  (forall cc, In cc comps -> cc <> []) ->
  has (rows dt) (Q ++ [tname x]) = false ->
  (forall l, In l (lvs x) -> has (rows dt) (Q ++ [tname l]) = false) -> NoDup (map tname (lvs x)) ->
  let L := map retag (lvs x) in
  exists t2 rest,
    cs_core c [s; dt] (0 :: p) (TNew comps) = (s :: t2 :: rest, None)
    /\ rows t2 = ins_all Q L (ensure (rows dt) [tname dt] comps)
    /\ wf_t t2
    /\ edit_cs true false (c_fl c) (rows s) (rows dt) PX (Some (Q ++ [tname x])) = PNext (rows s) (rows t2)
    /\ subseq (rows dt) (rows t2).
Proof. exact (C08_tt_merge_leaves_absent_stmt). Qed.
Print Assumptions C08_tt_merge_leaves_absent.

(* (2) *)
Theorem C08_tt_merge_leaves_absent_obs : forall c s dt p x comps PX,
  let Q := tname dt :: comps in
  tt_cfg c -> f_mc (c_fl c) = false -> f_ml (c_fl c) = true ->
  wf_t s -> wf_t dt -> p <> [] -> tget s p = Some x -> tpath s p = Some PX -> tkids x <> [] ->
  (forall cc, In cc comps -> cc <> []) ->
  has (rows dt) (Q ++ [tname x]) = false ->
  (forall l, In l (lvs x) -> has (rows dt) (Q ++ [tname l]) = false) -> NoDup (map tname (lvs x)) ->
  let o := cs_core c [s; dt] (0 :: p) (TNew comps) in
  snd o = None /\ piece (fst o) 0 = s
  /\ rows (piece (fst o) 1) = ins_all Q (map retag (lvs x)) (ensure (rows dt) [tname dt] comps)
  /\ wf_t (piece (fst o) 1)
  /\ subseq (rows dt) (rows (piece (fst o) 1)).
Proof. exact (C08_tt_merge_leaves_absent_obs). Qed.
Print Assumptions C08_tt_merge_leaves_absent_obs.

(* (3) the attach step alone, whatever `overriding` says *)
Theorem C08_tt_merge_leaves_attach : forall c s dt p d x PX PD,
  tt_cfg c -> f_mc (c_fl c) = false -> f_ml (c_fl c) = true ->
  wf_t s -> wf_t dt -> p <> [] -> tget s p = Some x -> tpath s p = Some PX -> tpath dt d = Some PD -> tkids x <> [] ->
  (forall l, In l (lvs x) -> has (rows dt) (PD ++ [tname l]) = false) -> NoDup (map tname (lvs x)) ->
  let L := map retag (lvs x) in
  let t2 := app_all d L dt in
  (exists rest, attach c false [s; dt] (0 :: p) (Some (1 :: d)) = (s :: t2 :: rest, None))
  /\ rows t2 = ins_all PD L (rows dt) /\ wf_t t2.
Proof. exact (m4_tt_ml_attach). Qed.
Print Assumptions C08_tt_merge_leaves_attach.

Theorem C08_tt_merge_leaves_existing_wf : forall c s dt p d x PX PD,
  tt_cfg c -> f_mc (c_fl c) = false -> f_ml (c_fl c) = true -> f_over (c_fl c) = false ->
  wf_t s -> wf_t dt -> p <> [] -> tget s p = Some x -> tpath s p = Some PX -> tpath dt d = Some PD -> tkids x <> [] ->
  (forall l, In l (lvs x) -> has (rows dt) (PD ++ [tname l]) = false) -> NoDup (map tname (lvs x)) ->
  let o := cs_core c [s; dt] (0 :: p) (TNode (1 :: d)) in
  snd o = None /\ piece (fst o) 0 = s /\ piece (fst o) 1 = app_all d (map retag (lvs x)) dt /\ wf_t (piece (fst o) 1).
Proof. exact (C08_tt_merge_leaves_existing_wf). Qed.
Print Assumptions C08_tt_merge_leaves_existing_wf.

(* the attach step does not read `overriding` at all *)
Theorem C08_attach_ignores_overriding : forall c mc f fr tn,
  attach (m4_no_over c) mc f fr tn = attach c mc f fr tn.
Proof. exact (m4_attach_no_over). Qed.
Print Assumptions C08_attach_ignores_overriding.

(* ---- the hypotheses are satisfiable by non-trivial inputs ------------------------------------------------------ *)

Ltac conj := repeat match goal with |- _ /\ _ => split end.
Ltac fin_ex := first [ vm_compute; reflexivity | apply wf_tb_sound; vm_compute; reflexivity
                     | apply nodup_names_sound; vm_compute; reflexivity | discriminate ].

(* source r( x[v=7]( 1( k, m( u[a=1] ) ), 2, 3( w ) ), y ), destination s( x( q ), z ).
   Code points: r 114, x 120, y 121, z 122, k 107, m 109, u 117, w 119, q 113, n 110, s 115, 1 49, 2 50, 3 51 *)
Definition mx4 : tree :=
  T (Some 1) [120%N] [([118%N], VInt 7%Z)]
    [ T (Some 2) [49%N] [] [T (Some 3) [107%N] [] []; T (Some 4) [109%N] [] [T (Some 5) [117%N] [([97%N], VInt 1%Z)] []]];
      T (Some 6) [50%N] [] [];
      T (Some 7) [51%N] [] [T (Some 8) [119%N] [] []] ].
Definition src4 : tree := T (Some 0) [114%N] [] [ mx4; T (Some 9) [121%N] [] [] ].
Definition dst4 : tree :=
  T (Some 20) [115%N] [] [T (Some 21) [120%N] [] [T (Some 22) [113%N] [] []]; T (Some 23) [122%N] [] []].
(* skippable = False, overriding = True, merge_children = False, merge_leaves = True, delete_children = False, with_full_path *)
Definition fl_ml4 : mflags := MF false true false true false true.
Definition PX4 : list str := [[114%N]; [120%N]].
Definition leaves4 : list tree :=
  [ T None [107%N] [] []; T None [117%N] [([97%N], VInt 1%Z)] []; T None [50%N] [] []; T None [119%N] [] [] ].

(* copy_nodes_from_tree_to_tree(src4, dst4, ["r/x"], ["s/z/n/x"], merge_leaves=True, overriding=True): s/z/n is created, the
   copies of the four leaves k, u, 2, w of r/x (depths 2, 3, 1, 2 below it) arrive under it in pre-order; the hypotheses of
   C08_tt_merge_leaves_absent hold with comps = [z; n] and the run shows its conclusion; prop_C08 accepts *)
Example C08_tt_merge_leaves_absent_nonvacuous :
  let TX := [[115%N]; [122%N]; [110%N]; [120%N]] in
  let i := MI OpCopyTT fl_ml4 [47%N] src4 [47%N] dst4 [47%N] [[114;47;120]%N] [Some [115;47;122;47;110;47;120]%N] in
  tt_cfg (cfg_of i) /\ f_mc (c_fl (cfg_of i)) = false /\ f_ml (c_fl (cfg_of i)) = true /\ f_over (c_fl (cfg_of i)) = true
  /\ wf_t src4 /\ wf_t dst4 /\ tget src4 [0] = Some mx4 /\ tpath src4 [0] = Some PX4 /\ tkids mx4 <> []
  /\ removelast TX = tname dst4 :: [[122%N]; [110%N]] /\ has (rows dst4) TX = false
  /\ forallb (fun l => negb (has (rows dst4) (removelast TX ++ [tname l]))) (lvs mx4) = true
  /\ NoDup (map tname (lvs mx4)) /\ height mx4 = 4 /\ map retag (lvs mx4) = leaves4
  /\ piece (fst (run i)) 0 = src4
  /\ piece (fst (run i)) 1
     = T (Some 20) [115%N] []
         [ T (Some 21) [120%N] [] [T (Some 22) [113%N] [] []];
           T (Some 23) [122%N] [] [ T None [110%N] [] leaves4 ] ]
  /\ rows (piece (fst (run i)) 1)
     = ins_all (removelast TX) leaves4 (ensure (rows dst4) [tname dst4] [[122%N]; [110%N]])
  /\ edit_cs true false fl_ml4 (rows src4) (rows dst4) PX4 (Some TX) = PNext (rows src4) (rows (piece (fst (run i)) 1))
  /\ snd (run i) = None /\ prop_C08 i (obs_of i (run i)) None = true.
Proof. cbv zeta. conj; try fin_ex. split; reflexivity. Qed.
