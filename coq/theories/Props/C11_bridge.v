(* Bridge between the heap model of C11 (BinaryNode, Heap/Binary.v) and the binary trees `btree` on
   which the traversal theorems of C04 are stated: below every node of every state reachable through
   the BinaryNode API hangs a `btree` whose slots are the heap's two slots and whose image has
   pairwise distinct tags.  Consequently the C04 theorems about binary trees (stated under
   `tags_distinct (img b) = true`) hold for the trees that operation histories actually build.
   Proofs: Heap/BinaryAbs.v. *)
From BT Require Import Base.Prelude Base.Rose Heap.Forest Heap.Binary Heap.BinaryProofs Heap.Abs
     Heap.BinaryAbs Spec.PC04 Algo.Iter Algo.IterProofs.

Theorem C11_bsubtree_fuel_sufficient : forall s x f,
  BWF s -> bsize s <= f -> btree_of s (S f) x = bsubtree s x.
Proof. exact btree_of_any_fuel. Qed.
Print Assumptions C11_bsubtree_fuel_sufficient.

Theorem C11_reachable_states_are_binary_trees : forall cfg n ops x,
  let s := brun cfg (binit n) ops in
  NoDup (tags (img (bsubtree s x)))
  /\ tags_distinct (img (bsubtree s x)) = true
  /\ bsubtree s x = B (Some x) (option_map (bsubtree s) (slot (Binary.bkids s x) 0))
                               (option_map (bsubtree s) (slot (Binary.bkids s x) 1))
  /\ (forall y, In (Some y) (tags (img (bsubtree s x))) <-> y = x \/ In x (bancestors s y)).
Proof. exact reachable_bsubtree_is_btree. Qed.
Print Assumptions C11_reachable_states_are_binary_trees.

(* C04 on reachable BinaryNode states: what the check evaluates on the implementation's outputs
   (six iterators on the image, in-order on the binary tree) holds of the model started at any node
   of any reachable state *)
Theorem C04_binary_each_once_on_reachable_states : forall cfg n ops x ft st fb sb m d,
  let s := brun cfg (binit n) ops in
  let b := bsubtree s x in
  (forall y, fb y = ft (img y)) -> (forall y, sb y = st (img y)) ->
  prop_C04_bin ft st fb m d b (observe_bin fb sb m d b) (bnums (binorder fb m d b)) = true.
Proof.
  intros cfg n ops x ft st fb sb m d s b Hf Hs. apply model_satisfies_prop_bin; [exact Hf|exact Hs|].
  apply bsubtree_tags_distinct. apply brun_BWF, BWF_init.
Qed.
Print Assumptions C04_binary_each_once_on_reachable_states.

Example C11_bridge_nonvacuous :
  let s := brun {| assertions := true; is_node := true |} (binit 5)
             [BSetChildren 0 CList [ANode 1; ANode 2] NoFault; BSetRight 1 (ANode 3) NoFault;
              BSetParent 4 (ANode 2) NoFault] in
  tags (img (bsubtree s 0)) = [Some 0; Some 1; Some 3; Some 2; Some 4]
  /\ bsubtree s 0 = B (Some 0) (Some (B (Some 1) None (Some (B (Some 3) None None))))
                               (Some (B (Some 2) (Some (B (Some 4) None None)) None)).
Proof. vm_compute. split; reflexivity. Qed.
Print Assumptions C11_bridge_nonvacuous.
