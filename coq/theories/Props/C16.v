(* C16 — DAG traversal and queries agree with graph-theoretic definitions.
   Only the property theorems; the proofs live in Algo/DagAlgoProofs.v.  The model (Algo/DagAlgo.v)
   is tied to bigtree/utils/iterators.py:522-585 and bigtree/node/dagnode.py:364-416, 513-573 by
   check_C16 (Corr/DagAlgoCorr.v).  Vocabulary (Spec/PC16.v): Edge g p c = "c is in the children list
   of p"; Reach = transitive closure of Edge; Path g a b pi = "pi starts with a, ends with b and its
   consecutive elements are edges"; Wf = the parents / children lists are mutually consistent and
   repetition free; Ranked g r = r is a topological numbering bounded by the number of nodes (acyclic). *)
From BT Require Import Base.Prelude Base.Str Base.Rose Algo.DagAlgo Spec.PC16 Algo.DagAlgoProofs.

(* --- dag_iterator ------------------------------------------------------------------------- *)

(* every yielded pair is an edge (parent, child) — for any well-formed link structure *)
Theorem C16_iter_sound : forall g x a b, Wf g -> In (a, b) (dag_iterator g x) -> Edge g a b.
Proof. intros g x a b WF. exact (iter_sound g WF x a b). Qed.
Print Assumptions C16_iter_sound.

(* no pair is yielded twice — for any well-formed link structure, whatever the names *)
Theorem C16_iter_nodup : forall g x, Wf g -> NoDup (dag_iterator g x).
Proof. intros g x WF. exact (iter_nodup g WF x). Qed.
Print Assumptions C16_iter_nodup.

(* weakly connected, distinct names, acyclic: every edge is yielded, from every start node *)
Theorem C16_iter_complete : forall g r x a b,
  Wf g -> Ranked g r -> DistinctNames g -> WeaklyConnected g -> x < dsize g ->
  Edge g a b -> In (a, b) (dag_iterator g x).
Proof.
  intros g r x a b WF RK DN WC Hx He.
  exact (iter_complete g WF DN (fun y => Ranked_no_loop g r y RK) x a b WC Hx He).
Qed.
Print Assumptions C16_iter_complete.

(* --- ancestors / descendants / siblings --------------------------------------------------- *)

Theorem C16_ancestors_reach : forall g r x,
  Wf g -> Ranked g r -> (forall a, In a (ancestors g x) <-> Reach g a x) /\ NoDup (ancestors g x).
Proof.
  intros g r x WF RK. split; [intros a; exact (ancestors_reach g r WF RK x a)|exact (ancestors_nodup g x)].
Qed.
Print Assumptions C16_ancestors_reach.

Theorem C16_descendants_reach : forall g r x,
  Wf g -> Ranked g r -> (forall d, In d (descendants g x) <-> Reach g x d) /\ NoDup (descendants g x).
Proof.
  intros g r x WF RK. split; [intros d; exact (descendants_reach g r RK x d)|exact (descendants_nodup g x)].
Qed.
Print Assumptions C16_descendants_reach.

(* siblings are the other children of the node's parents *)
Theorem C16_siblings : forall g x s,
  Wf g -> (In s (siblings g x) <-> s <> x /\ exists p, Edge g p x /\ Edge g p s).
Proof. intros g x s WF. exact (siblings_spec g WF x s). Qed.
Print Assumptions C16_siblings.

(* --- go_to -------------------------------------------------------------------------------- *)

(* when go_to returns, it returns exactly the directed paths from a to b, each once *)
Theorem C16_goto_paths : forall g r a b ps,
  Wf g -> Ranked g r -> go_to g a b = Ret ps ->
  (forall pi, In pi ps <-> Path g a b pi) /\ NoDup ps.
Proof. intros g r a b ps WF RK. exact (goto_paths g r WF RK a b ps). Qed.
Print Assumptions C16_goto_paths.

(* it returns iff a path exists, and refuses with TreeError iff there is none *)
Theorem C16_goto_refused : forall g r a b,
  Wf g -> Ranked g r ->
  ((exists ps, go_to g a b = Ret ps) <-> exists pi, Path g a b pi)
  /\ (go_to g a b = Raise TreeError <-> ~ exists pi, Path g a b pi).
Proof.
  intros g r a b WF RK. split.
  - rewrite (goto_accepts g r RK a b), (path_exists g a b). tauto.
  - rewrite (goto_refused g r RK a b), (path_exists g a b).
    destruct (Nat.eq_dec a b); tauto.
Qed.
Print Assumptions C16_goto_refused.

(* --- the acyclicity hypothesis ------------------------------------------------------------ *)

(* `exists r, Ranked g r` is exactly "no node reaches itself" (on a non-empty link structure) *)
Theorem C16_ranked_is_acyclic : forall g,
  Wf g -> 0 < dsize g -> ((forall y, ~ Reach g y y) <-> exists r, Ranked g r).
Proof. exact acyclic_iff_ranked. Qed.
Print Assumptions C16_ranked_is_acyclic.

(* --- the hypotheses are satisfiable by a non-trivial DAG ------------------------------------
   a -> b, a -> c, b -> d, c -> d, a -> d   (two parallel paths and a direct edge) *)
Definition ex_dag : dag :=
  [ DN [97]%N [] [] [1; 2; 3];  DN [98]%N [] [0] [3];  DN [99]%N [] [0] [3];  DN [100]%N [] [1; 2; 0] [] ].
Definition ex_rank (x : id) : nat := nth x [0; 1; 1; 2] 0.

Example ex_wf : Wf ex_dag.
Proof. apply wfb_Wf. vm_compute. reflexivity. Qed.
Example ex_ranked : Ranked ex_dag ex_rank.
Proof.
  split.
  - intros p c He. unfold Edge in He.
    destruct (Nat.lt_ge_cases p 4) as [Hp|Hp].
    + destruct p as [|[|[|[|p]]]]; [| | | |lia]; cbn in He; intuition (subst; cbn; lia).
    + destruct (out_of_range ex_dag p Hp) as [_ E]. rewrite E in He. contradiction.
  - intros x. destruct x as [|[|[|[|x]]]]; cbn; try lia. destruct x; cbn; lia.
Qed.
Example ex_distinct : DistinctNames ex_dag.
Proof. apply distinct_namesb_ok. vm_compute. reflexivity. Qed.
Example ex_connected : WeaklyConnected ex_dag.
Proof.
  assert (E : forall y, y < 4 -> UReach ex_dag 0 y).
  { intros y Hy. destruct y as [|y]; [apply UReach0|].
    apply UReachS with (c := 0); [apply UReach0|]. left. unfold Edge. cbn.
    destruct y as [|[|[|y]]]; [tauto|tauto|tauto|lia]. }
  assert (Sym : forall x y, UReach ex_dag x y -> UReach ex_dag y x).
  { assert (T : forall a b c, UReach ex_dag a b -> UReach ex_dag b c -> UReach ex_dag a c).
    { intros a b c H1 H2. induction H2 as [|b c' d H2 IH Hadj]; [exact H1|].
      eapply UReachS; [apply IH; exact H1|exact Hadj]. }
    intros x y H. induction H as [|a c b H IH Hadj]; [apply UReach0|].
    apply T with (b := c); [|exact IH].
    apply UReachS with (c := b); [apply UReach0|]. destruct Hadj; [right|left]; assumption. }
  assert (T : forall a b c, UReach ex_dag a b -> UReach ex_dag b c -> UReach ex_dag a c).
  { intros a b c H1 H2. induction H2 as [|b c' d H2 IH Hadj]; [exact H1|].
    eapply UReachS; [apply IH; exact H1|exact Hadj]. }
  intros x y Hx Hy. apply T with (b := 0); [apply Sym, E; exact Hx|apply E; exact Hy].
Qed.
(* and the conclusions are not trivial there: 5 edges, 3 paths from a to d, b has the sibling c *)
Example ex_values :
  dag_iterator ex_dag 3 = [(1, 3); (2, 3); (0, 3); (0, 1); (0, 2)]
  /\ go_to ex_dag 0 3 = Ret [[0; 1; 3]; [0; 2; 3]; [0; 3]]
  /\ go_to ex_dag 1 2 = Raise TreeError
  /\ ancestors ex_dag 3 = [0; 1; 2] /\ descendants ex_dag 0 = [1; 3; 2] /\ siblings ex_dag 1 = [2; 3].
Proof. vm_compute. repeat split. Qed.
