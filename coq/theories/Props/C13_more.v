(* C13 - further property theorems (statements only; proofs in Algo/C13More.v).

   A. the frame glue: the constructor's result does not depend on which of equal rows `drop_duplicates` (pandas,
      keep first) / `unique` (polars, unordered) keeps, in which order it returns them, or in which order the
      Python set of root names is enumerated;
   B. the list entry point list_to_tree_by_relation = the frame entry point + forgetting the attributes, on every
      input and flag;
   C. "exactly the given pairs as edges / names as nodes" for every accepted input (inclusion) and for every row
      list that passes the specification's test `presents_tree` (equality) - null attribute values allowed. *)
From BT Require Import Base.Prelude Base.Str Base.Rose Algo.Relation Spec.PC13 Algo.RelationProofs Algo.C13More.
From Coq Require Import Permutation.

(* ---------------------------------------------------------------------------------------------- *)
(* A. frame glue *)

(* distinct_of d l: d is a duplicate-free list with the same elements as l.
   dup_check d: the verdict of assert_dataframe_no_duplicate_children computed from the de-duplicated frame d. *)
Theorem C13_dup_check_any_dedup : forall rows d,
  distinct_of d (pairs_of rows) -> dup_check d = dup_children rows.
Proof. exact dup_check_any_dedup. Qed.
Print Assumptions C13_dup_check_any_dedup.

(* pandas' drop_duplicates(keep="first") is such a d (the model keeps the last) *)
Theorem C13_dup_check_keep_first : forall rows,
  distinct_of (dedupe_first (pairs_of rows)) (pairs_of rows)
  /\ dup_check (dedupe_first (pairs_of rows)) = dup_children rows.
Proof. intros rows. split; [apply dedupe_first_distinct|apply dup_check_keep_first]. Qed.
Print Assumptions C13_dup_check_keep_first.

(* rel_to_tree_via d rn: the constructor run on whatever de-duplicated frame d and whatever enumeration rn of
   the set of root names the libraries produce; for every duplicate-free d with the rows' pairs and every
   duplicate-free rn with the root candidates it is the model function, on every input and flag *)
Theorem C13_frame_order_irrelevant : forall ad rows d rn,
  distinct_of d (pairs_of rows) ->
  NoDup rn -> (forall x, In x rn <-> root_candidate rows x = true) ->
  rel_to_tree_via d rn ad rows = rel_to_tree ad rows.
Proof. exact frame_order_irrelevant. Qed.
Print Assumptions C13_frame_order_irrelevant.

(* ---------------------------------------------------------------------------------------------- *)
(* B. list_to_tree_by_relation *)

(* erase t: t without attributes.  rmap f: apply f to a returned value, pass an exception through. *)
Theorem C13_list_entry_erases : forall ad rows,
  list_rel_to_tree ad rows = rmap erase (rel_to_tree ad rows).
Proof. exact list_rel_erases. Qed.
Print Assumptions C13_list_entry_erases.

Theorem C13_list_relation_of_tree : forall b t,
  valid_tree t = true -> presentable b t -> list_rel_to_tree false (rows_of b t) = Ret (erase t).
Proof. exact list_relation_of_tree. Qed.
Print Assumptions C13_list_relation_of_tree.

Theorem C13_list_row_order : forall b t rows,
  valid_tree t = true -> presentable b t -> Permutation rows (rows_of b t) ->
  exists t', list_rel_to_tree false rows = Ret t'
             /\ Permutation (edges t') (edge_pairs rows)
             /\ Permutation (map tname (pre t')) (map tname (pre t))
             /\ forallb (fun n => match tattrs n with [] => true | _ => false end) (pre t') = true.
Proof. exact list_row_order. Qed.
Print Assumptions C13_list_row_order.

(* ---------------------------------------------------------------------------------------------- *)
(* C. edges and names *)

(* every accepted input, either flag: no edge and no name that was not given *)
Theorem C13_accepted_edges_given : forall ad rows t, rel_to_tree ad rows = Ret t ->
  incl (edges t) (edge_pairs rows) /\ incl (map tname (pre t)) (all_names rows).
Proof. exact accepted_edges_given. Qed.
Print Assumptions C13_accepted_edges_given.

(* every row list that passes presents_tree (one root candidate, no ambiguous name, no repeated pair, non-empty
   names, every row connected to the root; attribute values arbitrary, null included): accepted, the edges are
   exactly the given pairs (as multisets), the node names exactly the given names, and every name that has
   children is carried by exactly one node *)
Theorem C13_presented_edges_exact : forall ad rows, presents_tree rows = true ->
  exists t, rel_to_tree ad rows = Ret t
            /\ Permutation (edges t) (edge_pairs rows)
            /\ (forall x, In x (map tname (pre t)) <-> In x (all_names rows))
            /\ NoDup (filter (occurs_as_parent rows) (map tname (pre t))).
Proof. exact presented_edges_exact. Qed.
Print Assumptions C13_presented_edges_exact.

Theorem C13_list_presented_edges_exact : forall ad rows, presents_tree rows = true ->
  exists t, list_rel_to_tree ad rows = Ret t
            /\ Permutation (edges t) (edge_pairs rows)
            /\ (forall x, In x (map tname (pre t)) <-> In x (all_names rows))
            /\ NoDup (filter (occurs_as_parent rows) (map tname (pre t))).
Proof. exact list_presented_edges_exact. Qed.
Print Assumptions C13_list_presented_edges_exact.

(* ---------------------------------------------------------------------------------------------- *)
(* non-vacuity *)

Definition s (c : N) : str := [c].

(* r(a(c, x), b(x, d(e)), x) in shuffled row order, a root row, the leaf name x three times, null attribute
   values (pandas NaN for a missing cell) - not the rows of any valid_tree *)
Definition ex_rows : list row :=
  [ (s 120, Some (s 98),  [(s 107, VNone)]);
    (s 101, Some (s 100), [(s 107, VInt 5)]);
    (s 98,  Some (s 114), [(s 107, VNone); (s 108, VStr (s 65))]);
    (s 114, None,         [(s 107, VInt 0)]);
    (s 99,  Some (s 97),  []);
    (s 120, Some (s 114), [(s 107, VInt 9)]);
    (s 100, Some (s 98),  [(s 107, VNone)]);
    (s 97,  Some (s 114), []);
    (s 120, Some (s 97),  []) ].

Example ex_presented_nulls :
  presents_tree ex_rows = true
  /\ exists t, rel_to_tree false ex_rows = Ret t /\ tsize t = 9 /\ height t = 4
               /\ edges t = [(s 114, s 98); (s 114, s 120); (s 114, s 97); (s 98, s 120); (s 98, s 100);
                             (s 100, s 101); (s 97, s 99); (s 97, s 120)]
               /\ filter (occurs_as_parent ex_rows) (map tname (pre t)) = [s 114; s 98; s 100; s 97].
Proof. split; [vm_compute; reflexivity|]. eexists. repeat split; vm_compute; reflexivity. Qed.

(* polars' `unique` returns the distinct pairs in any order, e.g. reversed: another frame, the same tree *)
Example ex_frame_glue_order :
  let d := rev (dedupe_pairs (pairs_of ex_rows)) in
  d <> dedupe_pairs (pairs_of ex_rows) /\ distinct_of d (pairs_of ex_rows)
  /\ exists t, rel_to_tree_via d (root_names ex_rows) false ex_rows = Ret t /\ rel_to_tree false ex_rows = Ret t /\ tsize t = 9.
Proof.
  cbv zeta. split; [vm_compute; discriminate|]. split.
  - split; [apply NoDup_rev, dedupe_pairs_NoDup|]. intros x. rewrite <- in_rev. apply dedupe_pairs_In.
  - eexists. repeat split; vm_compute; reflexivity.
Qed.

(* the same rows with two of them repeated: keep-first (pandas) and keep-last (model) give different frames and
   the same verdict; the run then ends the same way (Node refuses the second child of the same name) *)
Definition ex_rows_dup : list row :=
  (s 120, Some (s 98), []) :: (s 97, Some (s 114), []) :: ex_rows ++ [(s 98, Some (s 114), [])].

Example ex_frame_glue_keep :
  dedupe_first (pairs_of ex_rows_dup) <> dedupe_pairs (pairs_of ex_rows_dup)
  /\ distinct_of (dedupe_first (pairs_of ex_rows_dup)) (pairs_of ex_rows_dup)
  /\ dup_check (dedupe_first (pairs_of ex_rows_dup)) = false
  /\ rel_to_tree_via (dedupe_first (pairs_of ex_rows_dup)) (rev (root_names ex_rows_dup)) false ex_rows_dup = Raise TreeError
  /\ rel_to_tree false ex_rows_dup = Raise TreeError.
Proof.
  split; [vm_compute; discriminate|]. split; [apply dedupe_first_distinct|]. repeat split; vm_compute; reflexivity.
Qed.

(* an ambiguous name (x under b and under r, and x has a child): refused from either frame *)
Definition ex_rows_amb : list row := (s 121, Some (s 120), []) :: ex_rows_dup.

Example ex_frame_glue_ambiguous :
  dedupe_first (pairs_of ex_rows_amb) <> dedupe_pairs (pairs_of ex_rows_amb)
  /\ dup_check (dedupe_first (pairs_of ex_rows_amb)) = true
  /\ rel_to_tree_via (dedupe_first (pairs_of ex_rows_amb)) (root_names ex_rows_amb) false ex_rows_amb = Raise ValueError.
Proof. split; [vm_compute; discriminate|]. split; vm_compute; reflexivity. Qed.

(* the list entry point on rows with attribute columns: the same tree without the attributes *)
Example ex_list_entry :
  exists t, rel_to_tree false ex_rows = Ret t /\ list_rel_to_tree false ex_rows = Ret (erase t) /\ erase t <> t.
Proof. eexists. split; [vm_compute; reflexivity|]. split; [vm_compute; reflexivity|vm_compute; discriminate]. Qed.
