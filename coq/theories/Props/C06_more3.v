(* C06, textual half, third round (statements only; definitions and proofs in Algo/C06More3.v).

   Narrows the partial clause of the textio engine
     name classes kept OUT of the round-trip claim ... falsy attribute values (0, '', False are not exported;
     length 0 raises), non-string attribute values (come back as str) ...
   and the DESIGN line  P Newick ... (values).

   `nv_tree keys t` = t in which every binding of a requested key (a member of `keys`) carries
        VNone          when its value is falsy (None, 0, 0.0, '', False),
        VStr (str v)   when its value is a truthy non-string whose str() is a plain token (no Newick control
                       character, non-empty) -- every non-zero integer, True,
        v itself       otherwise (non-empty strings; floats whose repr the model does not give).
   Names, tags, shape, bindings of other keys are untouched.  `rq_all` (round 2) rewrites ' to the double quote
   in names and string values. *)
From BT Require Import Base.Prelude Base.Str Base.Rose Algo.TextIO Spec.PC06Text Algo.TextIOProofs Algo.C06More2
  Algo.C06More3.

Local Open Scope N_scope.

(* ------------------------------------------------------------------------------------------ *)
(* the exporter                                                                                *)

(* NO GUARD: for every configuration (any separators, prefix, length attribute -- even one that is also a
   requested key), every start node and every tree, tree_to_newick writes (or raises) for t exactly what it
   writes (raises) for the normal form of t: falsy requested values are not exported, non-string ones are
   exported as their str() *)
Theorem C06_newick_write_values_normal :
  forall c isroot t, nw_write c isroot (nv_tree (nw_attrs c) t) = nw_write c isroot t.
Proof. exact nw_write_nv. Qed.
Print Assumptions C06_newick_write_values_normal.

(* ... and for the normal form with respect to ANY key list (e.g. all keys of the tree) *)
Theorem C06_newick_write_values_normal_any :
  forall keys c t isroot, nw_write c isroot (nv_tree keys t) = nw_write c isroot t.
Proof. exact nw_write_nv_any. Qed.
Print Assumptions C06_newick_write_values_normal_any.

(* ------------------------------------------------------------------------------------------ *)
(* ROUND TRIP FOR VALUES OF ANY TYPE, whole option space of C06_newick_roundtrip_quote_values (float lengths,
   any requested attributes, any prefix, intermediate names written or suppressed, root or inner start node,
   quotes in names and values).  The guard is the old guard read on the normal form: requested values no longer
   have to be non-empty strings -- integers, booleans, None, empty strings are allowed.  Conclusion: the export
   succeeds, its import succeeds and returns the normal form (falsy values absent, the others as str, quotes
   rewritten) in the sense of prop_newick_back. *)
Theorem C06_newick_roundtrip_values_any :
  forall inter len keys pf isroot t,
    newick_alphabet_ext (NwOpt inter len keys pf true) isroot (rq_all (nv_tree keys t)) = true ->
    lengths_canonical len isroot (rq_all (nv_tree keys t)) = true ->
    exists s back,
      nw_write (NwCfg inter len [58] keys pf [58]) isroot t = Ret s
      /\ nw_parse (la_of (NwOpt inter len keys pf true)) pf s = Ret back
      /\ prop_newick_back (NwOpt inter len keys pf true) isroot (rq_all (nv_tree keys t)) back = true.
Proof. exact newick_roundtrip_values_any. Qed.
Print Assumptions C06_newick_roundtrip_values_any.

(* ------------------------------------------------------------------------------------------ *)
(* the normal form, value by value                                                             *)

(* every integer: 0 is dropped, every other one comes back as its decimal string *)
Theorem C06_newick_value_int : forall z, nv_val (VInt z) = if Z.eqb z 0 then VNone else VStr (str_of_Z z).
Proof. exact nv_val_int. Qed.
Print Assumptions C06_newick_value_int.

Theorem C06_newick_value_bool : forall b, nv_val (VBool b) = if b then VStr [84; 114; 117; 101] else VNone.
Proof. exact nv_val_bool. Qed.
Print Assumptions C06_newick_value_bool.

Theorem C06_newick_value_str : forall s, nv_val (VStr s) = if is_nil s then VNone else VStr s.
Proof. exact nv_val_str. Qed.
Print Assumptions C06_newick_value_str.

(* every falsy value of whatever type (incl. 0.0) is dropped *)
Theorem C06_newick_value_falsy : forall v, truthy v = false -> nv_val v = VNone.
Proof. exact nv_val_falsy. Qed.
Print Assumptions C06_newick_value_falsy.

(* the writer's three observations of a value do not see the normalization *)
Theorem C06_newick_value_observations :
  forall v, truthy (nv_val v) = truthy v
            /\ (truthy v = true -> py_str (nv_val v) = py_str v /\ serialize_val (nv_val v) = serialize_val v).
Proof. intros v. split; [apply nv_truthy|]. intros E. split; [apply nv_py_str|apply nv_serialize_val]; exact E. Qed.
Print Assumptions C06_newick_value_observations.

Theorem C06_newick_value_normal_idem : forall v, nv_val (nv_val v) = nv_val v.
Proof. exact nv_val_idem. Qed.
Print Assumptions C06_newick_value_normal_idem.

(* node.get_attr on the normal form *)
Theorem C06_newick_lookup_normal :
  forall keys k a, lookup k (nv_attrs keys a) = if key_in k keys then nv_val (lookup k a) else lookup k a.
Proof. exact lookup_nv. Qed.
Print Assumptions C06_newick_lookup_normal.

(* the old theorems are the special case in which nothing is normalized: every requested binding None or a
   non-empty string *)
Theorem C06_newick_values_plain_unchanged : forall keys t, values_plain keys t = true -> nv_tree keys t = t.
Proof. exact nv_tree_id. Qed.
Print Assumptions C06_newick_values_plain_unchanged.

(* ------------------------------------------------------------------------------------------ *)
(* non-vacuity                                                                                 *)

(* r [k=0, z=True] ( a' [L=2.5, k=7, z=''],  b [L=3, k="v:'", z=False] ( x [L=1, k=-12, z=None],
   y [L=2, k=0.0, m=5] ) ),  k and z requested: outside every earlier guard, inside this one; 0, '', False, None,
   0.0 are not written, 7 / -12 / True come back as strings, m (not requested) is not written; the re-import is
   the normal form and not the source *)
Definition ex_values_tree : tree :=
  T (Some 0%nat) [114] [([107], VInt 0); ([122], VBool true)]
    [ T (Some 1%nat) [97; 39] [([76], VFloat 25 10); ([107], VInt 7); ([122], VStr [])] [];
      T (Some 2%nat) [98] [([76], VInt 3); ([107], VStr [118; 58; 39]); ([122], VBool false)]
        [ T (Some 3%nat) [120] [([76], VInt 1); ([107], VInt (-12)); ([122], VNone)] [];
          T (Some 4%nat) [121] [([76], VInt 2); ([107], VFloat 0 1); ([109], VInt 5)] [] ] ].
Definition ex_values_keys : list str := [[107]; [122]].

Example C06_newick_values_guard_satisfiable :
  newick_alphabet_ext (NwOpt true [76] ex_values_keys [38] true) true (rq_all (nv_tree ex_values_keys ex_values_tree)) = true
  /\ newick_alphabet_ext (NwOpt false [76] ex_values_keys [38] true) true (rq_all (nv_tree ex_values_keys ex_values_tree)) = true
  /\ lengths_canonical [76] true (rq_all (nv_tree ex_values_keys ex_values_tree)) = true
  /\ newick_alphabet_ext (NwOpt true [76] ex_values_keys [38] true) true (rq_all ex_values_tree) = false
  /\ values_plain ex_values_keys ex_values_tree = false
  /\ nw_write (NwCfg true [76] [58] ex_values_keys [38] [58]) true ex_values_tree
     = Ret [40; 39; 97; 34; 39; 58; 50; 46; 53; 91; 38; 107; 61; 55; 93; 44;
            40; 120; 58; 49; 91; 38; 107; 61; 45; 49; 50; 93; 44; 121; 58; 50;
            41; 98; 58; 51; 91; 38; 107; 61; 39; 118; 58; 34; 39; 93; 41; 114;
            91; 38; 122; 61; 84; 114; 117; 101; 93]
  /\ nw_parse [76] [38]
       [40; 39; 97; 34; 39; 58; 50; 46; 53; 91; 38; 107; 61; 55; 93; 44;
        40; 120; 58; 49; 91; 38; 107; 61; 45; 49; 50; 93; 44; 121; 58; 50;
        41; 98; 58; 51; 91; 38; 107; 61; 39; 118; 58; 34; 39; 93; 41; 114;
        91; 38; 122; 61; 84; 114; 117; 101; 93]
     = Ret (T None [114] [([122], VStr [84; 114; 117; 101])]
              [ T None [97; 34] [([76], VFloat 25 10); ([107], VStr [55])] [];
                T None [98] [([76], VInt 3); ([107], VStr [118; 58; 34])]
                  [ T None [120] [([76], VInt 1); ([107], VStr [45; 49; 50])] [];
                    T None [121] [([76], VInt 2)] [] ] ])
  /\ prop_newick_back (NwOpt true [76] ex_values_keys [38] true) true ex_values_tree
       (T None [114] [([122], VStr [84; 114; 117; 101])]
              [ T None [97; 34] [([76], VFloat 25 10); ([107], VStr [55])] [];
                T None [98] [([76], VInt 3); ([107], VStr [118; 58; 34])]
                  [ T None [120] [([76], VInt 1); ([107], VStr [45; 49; 50])] [];
                    T None [121] [([76], VInt 2)] [] ] ]) = false.
Proof. repeat split; vm_compute; reflexivity. Qed.

(* the source itself does not come back as soon as one requested value is a non-zero integer: r(a[k=7]) *)
Example C06_newick_int_value_identity_refuted :
  exists t s back,
    nw_write (NwCfg true [] [58] [[107]] [] [58]) true t = Ret s
    /\ nw_parse default_len [] s = Ret back
    /\ prop_newick_back (NwOpt true [] [[107]] [] true) true (nv_tree [[107]] t) back = true
    /\ prop_newick_back (NwOpt true [] [[107]] [] true) true t back = false.
Proof.
  exists (T None [114] [] [ T None [97] [([107], VInt 7)] [] ]). eexists. eexists.
  split; [vm_compute; reflexivity|]. split; [vm_compute; reflexivity|]. split; vm_compute; reflexivity.
Qed.
