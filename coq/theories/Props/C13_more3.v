(* C13, third round - the heap-list and nested-dict constructors.  Only statements; proofs in Algo/C13More3.v
   (model Algo/Relation.v, specification predicates Spec/PC13.v). *)
From BT Require Import Base.Prelude Base.Str Base.Rose Algo.Relation Spec.PC13 Algo.RelationProofs Algo.C13More3.
From Coq Require Import List ZArith.
Import ListNotations.

(* ---------------------------------------------------------------------------------------------- *)
(* heap lists *)

(* the specification predicate `is_heap_of l i` has at most one solution ... *)
Theorem C13_heap_spec_unique : forall l i b b',
  is_heap_of l i b = true -> is_heap_of l i b' = true -> b = b'.
Proof. exact heap_unique. Qed.
Print Assumptions C13_heap_spec_unique.

(* ... so the constructor returns b exactly when the list is non-empty and b is the heap-shaped tree of l *)
Theorem C13_heap_result_iff : forall l b,
  list_to_binarytree l = Ret b <-> (l <> [] /\ is_heap_of l 0 b = true).
Proof. exact heap_result_iff. Qed.
Print Assumptions C13_heap_result_iff.

(* refused exactly on the empty list *)
Theorem C13_heap_refused_iff : forall l, (exists e, list_to_binarytree l = Raise e) <-> l = [].
Proof. exact heap_refused_iff. Qed.
Print Assumptions C13_heap_refused_iff.

(* the property's sentence on the RETURNED tree (at_pos b j sub: walking b from the root, left = 2i+1, right = 2i+2,
   reaches the node sub at position j): every position j of the list is reached, the node there carries l[j], and
   for j >= 1 it is the child of the node at position (j-1)/2 carrying l[(j-1)/2] - its left child for odd j, its
   right child for even j *)
Theorem C13_heap_result_positions : forall l b, list_to_binarytree l = Ret b ->
  forall j, j < length l ->
    exists sub, at_pos b j sub /\ nth_error l j = Some (hval sub) /\
      (1 <= j -> exists par, at_pos b ((j - 1) / 2) par /\ nth_error l ((j - 1) / 2) = Some (hval par) /\
                  (Nat.odd j = true -> hleft par = Some sub) /\
                  (Nat.even j = true -> hright par = Some sub)).
Proof. exact heap_result_positions. Qed.
Print Assumptions C13_heap_result_positions.

(* and nothing else: whatever is reached in the returned tree is at a position of the list, carries that element,
   and is the only node at that position *)
Theorem C13_heap_result_positions_only : forall l b, list_to_binarytree l = Ret b ->
  forall j sub, at_pos b j sub ->
    j < length l /\ nth_error l j = Some (hval sub) /\ forall sub', at_pos b j sub' -> sub' = sub.
Proof. exact heap_result_positions_only. Qed.
Print Assumptions C13_heap_result_positions_only.

(* ---------------------------------------------------------------------------------------------- *)
(* nested dictionaries (nd_keys_ok: no dictionary repeats a key - true of every Python dict) *)

(* accepted with t exactly when the dictionary has the documented form and t is its mirror *)
Theorem C13_nested_result_iff : forall nk d t,
  nd_keys_ok d = true -> (nested_dict_to_tree nk d = Ret t <-> mirror nk d = Some t).
Proof. exact nested_result_iff. Qed.
Print Assumptions C13_nested_result_iff.

Theorem C13_nested_accepted_iff : forall nk d,
  nd_keys_ok d = true -> ((exists t, nested_dict_to_tree nk d = Ret t) <-> mirror nk d <> None).
Proof. exact nested_accepted_iff. Qed.
Print Assumptions C13_nested_accepted_iff.

(* every tree with non-empty names, distinct sibling names and distinct attribute keys other than the name key
   (nd_tree_ok) is built exactly - nesting, sibling order, attributes - from its nested dictionary (nd_of_tree:
   name entry, attributes, children list; leaves with an empty children list or without the key) *)
Theorem C13_nested_of_tree : forall leaf_list nk t,
  nd_tree_ok nk t = true -> nested_dict_to_tree nk (nd_of_tree leaf_list nk t) = Ret t.
Proof. exact nested_of_tree. Qed.
Print Assumptions C13_nested_of_tree.

(* the dictionary of such a tree is a Python dict of the documented form whose mirror is the tree *)
Theorem C13_nested_dict_of_tree_wellformed : forall leaf_list nk t,
  nd_tree_ok nk t = true ->
  mirror nk (nd_of_tree leaf_list nk t) = Some t /\ nd_keys_ok (nd_of_tree leaf_list nk t) = true.
Proof. exact nd_of_tree_mirror. Qed.
Print Assumptions C13_nested_dict_of_tree_wellformed.

(* ---------------------------------------------------------------------------------------------- *)
(* non-vacuity *)

Definition s3 (c : N) : str := [c].
Definition ex3_tree : tree :=
  T None (s3 97) [(s3 107, VInt 90)]
    [ T None (s3 98) [] [ T None (s3 100) [(s3 107, VInt 1)] []; T None (s3 101) [] [T None (s3 100) [] []] ];
      T None (s3 99) [(s3 120, VStr (s3 121)); (s3 107, VNone)] [];
      T None (s3 100) [] [] ].

Example ex3_nested :
  nd_tree_ok (s3 105) ex3_tree = true
  /\ nested_dict_to_tree (s3 105) (nd_of_tree false (s3 105) ex3_tree) = Ret ex3_tree
  /\ nested_dict_to_tree (s3 105) (nd_of_tree true (s3 105) ex3_tree) = Ret ex3_tree
  /\ nd_of_tree false (s3 105) ex3_tree <> nd_of_tree true (s3 105) ex3_tree
  /\ tsize ex3_tree = 7.
Proof. vm_compute. repeat split; try reflexivity. discriminate. Qed.

(* position 4 (odd 4 = false) of [5;3;8;1;9;2]: the node 9, right child of the node at position 1 (value 3) *)
Example ex3_heap :
  exists b, list_to_binarytree [5; 3; 8; 1; 9; 2]%Z = Ret b
    /\ at_pos b 4 (BT 9 None None) /\ at_pos b 1 (BT 3 (Some (BT 1 None None)) (Some (BT 9 None None)))
    /\ at_pos b 5 (BT 2 None None) /\ Nat.odd 5 = true /\ hleft (BT 8 (Some (BT 2 None None)) None) = Some (BT 2 None None).
Proof.
  eexists. split; [vm_compute; reflexivity|].
  assert (P1 : at_pos (BT 5 (Some (BT 3 (Some (BT 1 None None)) (Some (BT 9 None None))))
                            (Some (BT 8 (Some (BT 2 None None)) None))) 1
                      (BT 3 (Some (BT 1 None None)) (Some (BT 9 None None))))
    by (apply (at_left _ 0 _ _ (at_root _)); reflexivity).
  assert (P2 : at_pos (BT 5 (Some (BT 3 (Some (BT 1 None None)) (Some (BT 9 None None))))
                            (Some (BT 8 (Some (BT 2 None None)) None))) 2
                      (BT 8 (Some (BT 2 None None)) None))
    by (apply (at_right _ 0 _ _ (at_root _)); reflexivity).
  split; [apply (at_right _ 1 _ _ P1); reflexivity|].
  split; [exact P1|]. split; [apply (at_left _ 2 _ _ P2); reflexivity|]. split; reflexivity.
Qed.
