(* Bridge between the heap model of C01 and the rose-tree model of the derived queries of C12:
   on the tree `subtree s r` hanging below a node of any well-formed heap state (Heap/Abs.v), the
   rose-level notions of Base/Rose.v and Algo/Derived.v — level, pre-order, size, leaves, height, and
   the position-addressed ancestors / depth / root / siblings / left and right sibling / descendants /
   max_depth — are the heap's own notions: the parent walk `ancestors`, `depth`, `root`, and the
   child lists `kids`.  Positions are read on the heap by `node_at s r p` (follow the child indices
   p from r); the heap's level lists `hlevel`, pre-order `hpre`, sibling list `hsiblings`, neighbours
   `hleft` / `hright` and leaf test `hleaf` are defined in Heap/AbsDerived.v, where the proofs live.
   Consequently the theorems of Props/C12.v hold, in terms of the heap's links, for the trees that
   operation histories actually build (last section).
   `kids`, `par`, `name`, `root`, `depth`, `ancestors`, `run`, `init` are the heap's (Heap/Forest.v). *)
From Coq Require Import Sorting.Permutation.
From BT Require Import Base.Prelude Base.Str Base.Rose Heap.Forest Heap.ForestWF Heap.ForestStep Heap.Abs
     Algo.Derived Spec.PC12 Algo.DerivedProofs Heap.AbsDerived Props.C12.

(* ---- (1) levels ------------------------------------------------------------------------------- *)

(* y is at relative depth k of the tree below r  <->  r is the k-th element of y's chain *)
Theorem C12_levels_are_ancestor_distances : forall s k r y, WF s ->
  In (Some y) (map ttag (level k (subtree s r))) <-> nth_error (y :: ancestors s y) k = Some r.
Proof. exact level_is_ancestor_distance. Qed.
Print Assumptions C12_levels_are_ancestor_distances.

(* the level lists themselves, left to right, are the heap's (k child-steps below r) *)
Theorem C12_levels_agree : forall s k r, WF s ->
  level k (subtree s r) = map (subtree s) (hlevel s k r)
  /\ map ttag (level k (subtree s r)) = map Some (hlevel s k r).
Proof. exact (fun s k r W => conj (level_subtree s W k r) (level_tags s k r W)). Qed.
Print Assumptions C12_levels_agree.

Theorem C12_depth_agrees : forall s k r y, WF s ->
  In (Some y) (map ttag (level k (subtree s r))) -> depth s y = depth s r + k.
Proof. exact level_depth. Qed.
Print Assumptions C12_depth_agrees.

(* a node lies on exactly one level of the tree below r *)
Theorem C12_levels_disjoint : forall s k1 k2 r y, WF s ->
  In y (hlevel s k1 r) -> In y (hlevel s k2 r) -> k1 = k2.
Proof. exact hlevel_disjoint. Qed.
Print Assumptions C12_levels_disjoint.

(* ---- (2) members, size, leaves ----------------------------------------------------------------- *)

(* the pre-order of the tree below r is the heap's pre-order: the list determined by
   hpre s r = r :: the pre-orders below the children of r, in order; it enumerates without repetition
   exactly r and the nodes that have r among their ancestors *)
Theorem C12_preorder_agrees : forall s r, WF s ->
  pre (subtree s r) = map (subtree s) (hpre s r)
  /\ map ttag (pre (subtree s r)) = map Some (hpre s r)
  /\ hpre s r = r :: flat_map (hpre s) (kids s r)
  /\ NoDup (hpre s r)
  /\ (forall y, In y (hpre s r) <-> y = r \/ In r (ancestors s y)).
Proof.
  intros s r W. split; [apply pre_subtree; exact W|]. split; [apply tags_hpre; exact W|].
  split; [apply hpre_unfold; exact W|]. split; [apply hpre_nodup; exact W|].
  intros y. apply hpre_members. exact W.
Qed.
Print Assumptions C12_preorder_agrees.

(* size: as many nodes as there are live ids that are r or have r among their ancestors *)
Theorem C12_size_agrees : forall s r, WF s -> r < size s ->
  Permutation (hpre s r) (filter (below s r) (seq 0 (size s)))
  /\ length (pre (subtree s r)) = length (filter (below s r) (seq 0 (size s)))
  /\ tsize (subtree s r) = length (filter (below s r) (seq 0 (size s)))
  /\ (forall y, below s r y = true <-> y = r \/ In r (ancestors s y)).
Proof.
  intros s r W Hr. split; [apply subtree_members_permutation; assumption|].
  destruct (subtree_size s r W Hr) as [H1 H2]. split; [exact H1|]. split; [exact H2|].
  intros y. apply below_spec.
Qed.
Print Assumptions C12_size_agrees.

(* leaves: a node of the tree is a leaf iff its heap child list is empty; the leaves of the tree
   below r are the members without children, in pre-order *)
Theorem C12_leaves_agree : forall s r, WF s ->
  (forall y, is_leaf (subtree s y) = true <-> kids s y = [])
  /\ map ttag (leaves (subtree s r)) = map Some (filter (hleaf s) (hpre s r))
  /\ (forall y, In (Some y) (map ttag (leaves (subtree s r)))
                <-> (y = r \/ In r (ancestors s y)) /\ kids s y = []).
Proof.
  intros s r W. split; [intros y; apply is_leaf_iff; exact W|]. split; [apply leaves_tags; exact W|].
  intros y. apply leaves_members. exact W.
Qed.
Print Assumptions C12_leaves_agree.

(* ---- positions -------------------------------------------------------------------------------- *)

(* a position of the rose tree is the node the heap reaches by following the same child indices;
   all positions in pre-order are the members in pre-order; the length of the position is the
   distance along the parent walk *)
Theorem C12_positions_agree : forall s r p, WF s ->
  subtree_at (subtree s r) p = option_map (subtree s) (node_at s r p)
  /\ (valid (subtree s r) p = true <-> exists y, node_at s r p = Some y)
  /\ map (node_at s r) (positions (subtree s r)) = map Some (hpre s r)
  /\ (forall y, node_at s r p = Some y ->
        nth_error (y :: ancestors s y) (length p) = Some r /\ depth s y = depth s r + length p).
Proof.
  intros s r p W. split; [apply subtree_at_heap; exact W|]. split; [apply valid_heap; exact W|].
  split; [apply positions_heap; exact W|].
  intros y H. split; [apply (node_at_chain s W p r y H)|apply (node_at_depth s p r y W H)].
Qed.
Print Assumptions C12_positions_agree.

(* Algo/Derived.v's depth / ancestors of the node at position p of a whole tree (r has no parent)
   are the heap's depth / parent walk of that node *)
Theorem C12_depth_ancestors_by_position : forall s r p y, WF s -> par s r = None -> node_at s r p = Some y ->
  node_depth p = depth s y /\ map (node_at s r) (node_ancestors p) = map Some (ancestors s y).
Proof.
  exact (fun s r p y W Hr H => conj (node_depth_heap s p r y W Hr H) (node_ancestors_heap s r W Hr p y H)).
Qed.
Print Assumptions C12_depth_ancestors_by_position.

(* descendants, leaves and is_leaf of the node at position p: the heap's, in the same order *)
Theorem C12_downward_by_position : forall s r p y, WF s -> node_at s r p = Some y ->
  map (node_at s r) (node_descendants (subtree s r) p) = map Some (tl (hpre s y))
  /\ map (node_at s r) (node_leaves (subtree s r) p) = map Some (filter (hleaf s) (hpre s y))
  /\ node_is_leaf (subtree s r) p = hleaf s y.
Proof.
  intros s r p y W H. split; [apply node_descendants_heap; assumption|].
  split; [apply node_leaves_heap; assumption|apply node_is_leaf_heap; assumption].
Qed.
Print Assumptions C12_downward_by_position.

(* ---- (3) siblings ------------------------------------------------------------------------------ *)

(* y the i-th child of the node z at position q: the rose-level siblings of y (by position) are the
   heap's sibling list `kids s z` without y, in the same order; the left / right sibling are the
   neighbours of y in `kids s z` *)
Theorem C12_siblings_agree : forall s r q i z y, WF s ->
  node_at s r q = Some z -> nth_error (kids s z) i = Some y ->
  par s y = Some z
  /\ map (node_at s r) (node_siblings (subtree s r) (q ++ [i])) = map Some (hsiblings s y)
  /\ hsiblings s y = remove1 y (kids s z)
  /\ onode_at s r (node_left_sibling (subtree s r) (q ++ [i])) = hleft s y
  /\ onode_at s r (node_right_sibling (subtree s r) (q ++ [i])) = hright s y
  /\ hleft s y = match i with 0 => None | S j => nth_error (kids s z) j end
  /\ hright s y = nth_error (kids s z) (S i).
Proof. exact node_siblings_child. Qed.
Print Assumptions C12_siblings_agree.

(* any node of a whole tree, addressed by its position *)
Theorem C12_siblings_agree_by_position : forall s r p y, WF s -> par s r = None -> node_at s r p = Some y ->
  map (node_at s r) (node_siblings (subtree s r) p) = map Some (hsiblings s y)
  /\ onode_at s r (node_left_sibling (subtree s r) p) = hleft s y
  /\ onode_at s r (node_right_sibling (subtree s r) p) = hright s y.
Proof. exact node_siblings_heap. Qed.
Print Assumptions C12_siblings_agree_by_position.

(* ---- (4) root ---------------------------------------------------------------------------------- *)

Theorem C12_root_agrees : forall s y r, WF s ->
  r = root s y <-> (y = r \/ In r (ancestors s y)) /\ par s r = None.
Proof. exact root_iff. Qed.
Print Assumptions C12_root_agrees.

(* every node lies in the tree below exactly one parentless node, its root *)
Theorem C12_one_tree_per_node : forall s y, WF s ->
  (forall r, (par s r = None /\ In (Some y) (tags (subtree s r))) <-> r = root s y)
  /\ exists! r, par s r = None /\ In (Some y) (tags (subtree s r)).
Proof.
  exact (fun s y W => conj (fun r => one_tree_per_node s y r W) (root_tree_exists_unique s y W)).
Qed.
Print Assumptions C12_one_tree_per_node.

Theorem C12_root_by_position : forall s r p y, WF s -> par s r = None -> node_at s r p = Some y ->
  node_at s r (node_root p) = Some (root s y) /\ (node_is_root p = true <-> par s y = None).
Proof. exact node_root_heap. Qed.
Print Assumptions C12_root_by_position.

(* ---- (5) height -------------------------------------------------------------------------------- *)

Theorem C12_height_agrees : forall s r, WF s ->
  height (subtree s r) = S (list_max (map (fun y => depth s y - depth s r) (hpre s r)))
  /\ (forall y, In y (hpre s r) -> depth s r <= depth s y /\ depth s y < depth s r + height (subtree s r))
  /\ (exists y, In y (hpre s r) /\ depth s y + 1 = depth s r + height (subtree s r))
  /\ (forall k, level k (subtree s r) = [] <-> height (subtree s r) <= k)
  /\ (forall k, hlevel s k r = [] <-> height (subtree s r) <= k).
Proof.
  intros s r W. split; [apply height_heap; exact W|].
  split; [intros y; apply height_bounds_members; exact W|].
  split; [apply height_attained_by_member; exact W|].
  split; [intros k; apply level_nil_height|intros k; apply level_empty_iff; exact W].
Qed.
Print Assumptions C12_height_agrees.

(* max_depth of a whole tree = the largest heap depth of a member = the height *)
Theorem C12_max_depth_agrees : forall s r p, WF s -> par s r = None ->
  node_max_depth (subtree s r) p = list_max (map (depth s) (hpre s r))
  /\ node_max_depth (subtree s r) p = height (subtree s r).
Proof. exact node_max_depth_heap. Qed.
Print Assumptions C12_max_depth_agrees.

(* ---- the theorems of Props/C12.v on reachable heap states ----------------------------------- *)
(* s: any state reachable through the structural API; r: a parentless node; p: a position below r
   leading to the node y.  The first-principles values of Spec/PC12.v, computed on the rose tree
   `subtree s r`, are the heap's. *)

Theorem C12_ancestors_depth_on_reachable_states : forall cfg n names seps ops r p y,
  let s := run cfg (init n names seps) ops in
  par s r = None -> node_at s r p = Some y ->
  map (node_at s r) (spec_ancestors (subtree s r) p) = map Some (ancestors s y)
  /\ depth s y = 1 + length (node_ancestors p).
Proof.
  intros cfg n names seps ops r p y s Hr H. pose proof (reachable_WF cfg n names seps ops) as W.
  rewrite <- (C12_ancestors (subtree s r) p) by (apply (valid_heap s r p W); exists y; exact H).
  rewrite <- C12_depth. split; [apply (node_ancestors_heap s r W Hr p y H)|].
  symmetry. apply (node_depth_heap s p r y W Hr H).
Qed.
Print Assumptions C12_ancestors_depth_on_reachable_states.

Theorem C12_siblings_on_reachable_states : forall cfg n names seps ops r p y,
  let s := run cfg (init n names seps) ops in
  par s r = None -> node_at s r p = Some y ->
  map (node_at s r) (spec_siblings (subtree s r) p) = map Some (hsiblings s y)
  /\ onode_at s r (spec_left_sibling (subtree s r) p) = hleft s y
  /\ onode_at s r (spec_right_sibling (subtree s r) p) = hright s y.
Proof.
  intros cfg n names seps ops r p y s Hr H. pose proof (reachable_WF cfg n names seps ops) as W.
  assert (V : valid (subtree s r) p = true) by (apply (valid_heap s r p W); exists y; exact H).
  destruct (C12_left_right_sibling (subtree s r) p V) as [<- <-]. rewrite <- (C12_siblings (subtree s r) p V).
  apply (node_siblings_heap s r p y W Hr H).
Qed.
Print Assumptions C12_siblings_on_reachable_states.

Theorem C12_leaves_on_reachable_states : forall cfg n names seps ops r p y,
  let s := run cfg (init n names seps) ops in
  node_at s r p = Some y ->
  map (node_at s r) (spec_leaves (subtree s r) p) = map Some (filter (hleaf s) (hpre s y))
  /\ map (node_at s r) (spec_descendants (subtree s r) p) = map Some (tl (hpre s y)).
Proof.
  intros cfg n names seps ops r p y s H. pose proof (reachable_WF cfg n names seps ops) as W.
  rewrite <- (C12_leaves (subtree s r) p) by (apply (valid_heap s r p W); exists y; exact H).
  destruct (C12_descendants (subtree s r) p (subtree s y)) as [<- _];
    [rewrite (subtree_at_heap s W p r), H; reflexivity|].
  split; [apply (node_leaves_heap s r p y W H)|apply (node_descendants_heap s r p y W H)].
Qed.
Print Assumptions C12_leaves_on_reachable_states.

Theorem C12_max_depth_on_reachable_states : forall cfg n names seps ops r,
  let s := run cfg (init n names seps) ops in
  par s r = None ->
  spec_max_depth (subtree s r) = list_max (map (depth s) (hpre s r))
  /\ spec_max_depth (subtree s r) = height (subtree s r).
Proof.
  intros cfg n names seps ops r s Hr. pose proof (reachable_WF cfg n names seps ops) as W.
  destruct (C12_max_depth (subtree s r) []) as [<- _]. apply (node_max_depth_heap s r [] W Hr).
Qed.
Print Assumptions C12_max_depth_on_reachable_states.

(* ---- non-vacuity ------------------------------------------------------------------------------- *)
(* the history builds the tree ex_tree of Props/C12.v out of eight objects:
   0 -- 1 -- 3
     |    `- 4
     `- 2 -- 5 -- 6
          `- 7 *)
Example C12_bridge_nonvacuous :
  let s := run {| assertions := true; is_node := false |} (init 8 (fun _ => []) (fun _ => []))
               [SetChildren 0 CList [ANode 1; ANode 2] NoFault; SetChildren 1 CTuple [ANode 3; ANode 4] NoFault;
                SetParent 7 (ANode 2) NoFault; SetChildren 2 CList [ANode 5; ANode 7] NoFault;
                Append 5 6 NoFault] in
  subtree s 0 = ex_tree
  /\ map ttag (level 2 (subtree s 0)) = [Some 3; Some 4; Some 5; Some 7]
  /\ hlevel s 2 0 = [3; 4; 5; 7]
  /\ nth_error (6 :: ancestors s 6) 2 = Some 2 /\ nth_error (6 :: ancestors s 6) 3 = Some 0
  /\ depth s 6 = 4 /\ node_depth [1; 0; 0] = 4 /\ node_at s 0 [1; 0; 0] = Some 6
  /\ hpre s 0 = [0; 1; 3; 4; 2; 5; 6; 7]
  /\ length (filter (below s 2) (seq 0 (size s))) = 4 /\ tsize (subtree s 2) = 4
  /\ map ttag (leaves (subtree s 0)) = [Some 3; Some 4; Some 6; Some 7]
  /\ filter (hleaf s) (hpre s 0) = [3; 4; 6; 7]
  /\ node_siblings (subtree s 0) [1; 0] = [[1; 1]] /\ hsiblings s 5 = [7]
  /\ hleft s 7 = Some 5 /\ hright s 5 = Some 7 /\ hleft s 5 = None /\ hright s 7 = None
  /\ root s 6 = 0 /\ root s 4 = 0 /\ par s 0 = None
  /\ height (subtree s 0) = 4 /\ height (subtree s 2) = 3
  /\ list_max (map (fun y => depth s y - depth s 2) (hpre s 2)) = 2
  /\ node_max_depth (subtree s 0) [0] = 4 /\ level 4 (subtree s 0) = [].
Proof. vm_compute. repeat split. Qed.
