(* C06, textual half, fourth round (statements only; definitions and proofs in Algo/C06More4.v).

   Narrows the partial clause of the textio engine
     name classes kept OUT of the round-trip claim ... Newick names / keys / values containing the quote
     character (rewritten to a double quote)
   and the DESIGN line  P Newick keys with the quote character  -- names and values were closed in round 2
   (Props/C06_more2.v), KEYS stayed quote-free (key_ok).  Here: the key token and the whole attribute list
   between the brackets for ANY key and ANY string value.

   `rqk_kvs kvs`  = every (key, value) with the quote character rewritten to the double quote in BOTH.
   `set_all kvs a` = successive node.set_attrs({k: v}) (a later equal key overwrites).
   `key_storable (k, v)` = the rewritten key is stored as an ordinary attribute by the importer: non-empty, not
                   starting with an underscore, not the word name  (reserved_key (requote k) = false). *)
From BT Require Import Base.Prelude Base.Str Base.Rose Algo.TextIO Spec.PC06Text Algo.TextIOProofs Algo.C06More2
                       Algo.C06More4.

Local Open Scope N_scope.

(* one key, EVERY string (no guard): in PARSE_STRING / PARSE_ATTRIBUTE_NAME with nothing accumulated, the parser
   standing in front of the serialized key ends with `requote k` accumulated *)
Theorem C06_newick_key_any_string :
  forall la pf k rest ab cu be d ctr st has val,
    not_val st ->
    nw_run la pf (serialize k ++ rest) (mkP ab cu be d ctr st has [] val 0)
    = nw_run la pf rest (mkP ab cu be d ctr st has (requote k) val 0).
Proof. exact run_token_key_q. Qed.
Print Assumptions C06_newick_key_any_string.

(* THE ATTRIBUTE LIST BETWEEN THE BRACKETS, any keys, any string values, no distinctness hypothesis: after the
   opening bracket (and prefix) the text `k1=v1:k2=v2:...]` written by the exporter is read as the successive
   update of the current node with the rewritten keys and values *)
Theorem C06_newick_items_any_keys :
  forall la pf kvs rest cu be d ctr g n a0 ab,
    kvs <> [] -> Forall key_storable kvs ->
    nw_run la pf (join [58] (map item kvs) ++ 93 :: rest)
           (mkP [] (cu ++ [T g n a0 ab]) be d ctr PName true [] [] 0)
    = nw_run la pf rest (mkP [] (cu ++ [T g n (set_all (rqk_kvs kvs) a0) ab]) be d ctr PStr true [] [] 0).
Proof. exact items_run_any. Qed.
Print Assumptions C06_newick_items_any_keys.

(* rewritten keys pairwise distinct and new on the node: appended in the exported order (the shape of the
   round-2 lemma, the guard key_ok on keys removed) *)
Theorem C06_newick_items_quote_keys :
  forall la pf kvs rest cu be d ctr g n a0 ab,
    kvs <> [] -> Forall key_storable kvs -> fresh_keys (rqk_kvs kvs) a0 ->
    nw_run la pf (join [58] (map item kvs) ++ 93 :: rest)
           (mkP [] (cu ++ [T g n a0 ab]) be d ctr PName true [] [] 0)
    = nw_run la pf rest (mkP [] (cu ++ [T g n (a0 ++ kv_attrs (rqk_kvs kvs)) ab]) be d ctr PStr true [] [] 0).
Proof. exact items_run_kq. Qed.
Print Assumptions C06_newick_items_quote_keys.

(* writer and reader composed on one node: for any requested keys ks and attributes a whose requested values are
   strings (absent / None / non-empty string -- the normal form of C06_newick_write_values_normal), the items the
   exporter writes are read back as the rewritten (key, value) pairs *)
Theorem C06_newick_attr_write_read_any_keys :
  forall la pf ks a rest cu be d ctr g n a0 ab,
    vals_ok ks a -> kvs_on ks a <> [] -> Forall key_storable (kvs_on ks a) ->
    exists items,
      attr_items ks a = Ret items
      /\ nw_run la pf (join [58] items ++ 93 :: rest)
                (mkP [] (cu ++ [T g n a0 ab]) be d ctr PName true [] [] 0)
         = nw_run la pf rest
             (mkP [] (cu ++ [T g n (set_all (rqk_kvs (kvs_on ks a)) a0) ab]) be d ctr PStr true [] [] 0).
Proof. exact attr_write_read_any. Qed.
Print Assumptions C06_newick_attr_write_read_any_keys.

(* the old guard is the special case in which the key is not rewritten *)
Theorem C06_newick_key_ok_is_storable :
  forall kv, key_ok (fst kv) = true -> key_storable kv /\ requote (fst kv) = fst kv.
Proof. exact key_ok_storable. Qed.
Print Assumptions C06_newick_key_ok_is_storable.

(* two requested keys that become equal after rewriting: ONE attribute is left, with the later value -- the
   export has two records, the re-import one (why the distinctness is asked of the REWRITTEN keys) *)
Theorem C06_newick_key_collision :
  forall k1 s1 k2 s2,
    requote k1 = requote k2 ->
    set_all (rqk_kvs [(k1, s1); (k2, s2)]) [] = [(requote k2, VStr (requote s2))].
Proof. exact set_all_collide. Qed.
Print Assumptions C06_newick_key_collision.

Theorem C06_newick_set_all_fresh :
  forall kvs a0, fresh_keys kvs a0 -> set_all kvs a0 = a0 ++ kv_attrs kvs.
Proof. exact set_all_fresh. Qed.
Print Assumptions C06_newick_set_all_fresh.

(* ------------------------------------------------------------------------------------------ *)
(* non-vacuity, on whole trees                                                                 *)

(* r [k'=v', a:b=x] ( c [k'=1, k(double quote)=2],  d [a:b = y=] ), requested keys k', a:b, k(double quote), prefix && :
   the keys k' and a:b are outside key_ok-free text (quoted), every quote comes back as a double quote in keys and
   values, and on c the two keys collide: one attribute, the later value *)
Definition ex_key_tree : tree :=
  T (Some 0%nat) [114] [([107; 39], VStr [118; 39]); ([97; 58; 98], VStr [120])]
    [ T (Some 1%nat) [99] [([107; 39], VStr [49]); ([107; 34], VStr [50])] [];
      T (Some 2%nat) [100] [([97; 58; 98], VStr [121; 61])] [] ].

Definition ex_keys : list str := [[107; 39]; [97; 58; 98]; [107; 34]].

Example C06_newick_quote_keys_example :
  key_ok [107; 39] = false
  /\ reserved_key (requote [107; 39]) = false /\ reserved_key (requote [97; 58; 98]) = false
  /\ kvs_on ex_keys (tattrs ex_key_tree) = [([107; 39], [118; 39]); ([97; 58; 98], [120])]
  /\ set_all (rqk_kvs (kvs_on ex_keys (tattrs ex_key_tree))) []
     = [([107; 34], VStr [118; 34]); ([97; 58; 98], VStr [120])]
  /\ set_all (rqk_kvs (kvs_on ex_keys [([107; 39], VStr [49]); ([107; 34], VStr [50])])) []
     = [([107; 34], VStr [50])]
  /\ nw_write (NwCfg true [] [58] ex_keys [38; 38] [58]) true ex_key_tree
     = Ret [40; 99; 91; 38; 38; 39; 107; 34; 39; 61; 49; 58; 107; 34; 61; 50; 93; 44;
            100; 91; 38; 38; 39; 97; 58; 98; 39; 61; 39; 121; 61; 39; 93; 41;
            114; 91; 38; 38; 39; 107; 34; 39; 61; 39; 118; 34; 39; 58; 39; 97; 58; 98; 39; 61; 120; 93]
  /\ nw_parse default_len [38; 38]
       [40; 99; 91; 38; 38; 39; 107; 34; 39; 61; 49; 58; 107; 34; 61; 50; 93; 44;
        100; 91; 38; 38; 39; 97; 58; 98; 39; 61; 39; 121; 61; 39; 93; 41;
        114; 91; 38; 38; 39; 107; 34; 39; 61; 39; 118; 34; 39; 58; 39; 97; 58; 98; 39; 61; 120; 93]
     = Ret (T None [114] [([107; 34], VStr [118; 34]); ([97; 58; 98], VStr [120])]
              [ T None [99] [([107; 34], VStr [50])] [];
                T None [100] [([97; 58; 98], VStr [121; 61])] [] ]).
Proof. repeat split; vm_compute; reflexivity. Qed.
