(* C19 — Reingold-Tilford coordinates form a tidy, non-overlapping drawing.
   Only the property theorems; the proofs live in Algo/PlotProofs.v.

   All statements are about the exact-rational model `reingold_tilford` of Algo/Plot.v (tied to
   bigtree/utils/plot.py by the correspondence check check_C19) and the boolean clauses of
   Spec/PC19.v, for every tolerance eps >= 0 (eps = 0 is the exact statement) and every input tree.
   `params_pos p`: the three separations are positive (the quantifier of the property); offsets are
   arbitrary rationals. *)
From Coq Require Import QArith Qminmax.
From BT Require Import Base.Prelude Base.Rose Algo.Plot Spec.PC19 Algo.PlotProofs.

(* the output has the shape of the input: one (x, y) per node *)
Theorem C19_shape : forall p t, same_shape t (reingold_tilford p t) = true.
Proof. exact same_shape_rt. Qed.
Print Assumptions C19_shape.

(* all nodes of one depth share y; consecutive depths differ by level_separation *)
Theorem C19_levels : forall eps p t, 0 <= eps -> params_pos p ->
  levels_ok eps (p_ls p) (reingold_tilford p t) = true.
Proof. intros eps p t He [_ [_ Hls]]. exact (rt_levels eps p t He Hls). Qed.
Print Assumptions C19_levels.

(* every parent's x is the midpoint of its first and last child (no hypothesis on p at all) *)
Theorem C19_parent_midpoint : forall eps p t, 0 <= eps ->
  midpoint_ok eps (reingold_tilford p t) = true.
Proof. exact rt_midpoint. Qed.
Print Assumptions C19_parent_midpoint.

(* children left to right, any two of them at least sibling_separation apart *)
Theorem C19_siblings_separated : forall eps p t, 0 <= eps -> params_pos p ->
  siblings_ok eps (p_ss p) (reingold_tilford p t) = true.
Proof.
  intros eps p t He [Hss _]. apply rt_siblings; [exact He|]. apply Qlt_le_weak, Hss.
Qed.
Print Assumptions C19_siblings_separated.

(* no x coordinate is negative (for arbitrary offsets, also negative ones) *)
Theorem C19_nonnegative : forall eps p t, 0 <= eps -> nonneg_ok eps (reingold_tilford p t) = true.
Proof. exact rt_nonneg. Qed.
Print Assumptions C19_nonnegative.

(* the four clauses above together *)
Theorem C19_all_but_cousins : forall eps p t, 0 <= eps -> params_pos p ->
  prop_C19_but_cousins eps p t (reingold_tilford p t) = true.
Proof. exact rt_but_cousins. Qed.
Print Assumptions C19_all_but_cousins.

(* Cousin separation is FALSE for the faithful model (known finding K1): on the 10-node tree
   r(a, b(c, d(e)), f(g(h, i))) with all separations 1 the nodes e and h of depth 3 end up at
   x = 2 and x = 5/2.  Mechanism: for left_idx >= 1 the accumulated shift `cum_shift` is added in
   full to x_right although the left subtree moves by cum_shift * left_idx / right_idx as well. *)
Example C19_cousins_refuted :
  exists p t, params_pos p /\ prop_C19_but_cousins 0 p t (reingold_tilford p t) = true
              /\ cousins_ok 0 (p_ss p) (p_sts p) (reingold_tilford p t) = false.
Proof.
  exists unit_params, k1_tree. split; [repeat split|]. split; vm_compute; reflexivity.
Qed.

(* a second mechanism behind K1 (17 nodes, fan-out <= 2, so left_idx = 0 everywhere): the contour
   walk only moves among the siblings of the contour node, never to a cousin, so deeper levels of
   the facing subtrees are not compared: two nodes of depth 6 end up 1/2 apart. *)
Definition k1b_tree : tree :=
  nd [nd [nd [nd [nd [leaf; leaf]; nd [leaf; leaf]]]; nd [leaf]]; nd [nd [nd [nd [leaf]]]]].
Example C19_cousins_refuted_binary :
  cousin_guard k1b_tree = false /\
  cousins_ok 0 1 1 (reingold_tilford unit_params k1b_tree) = false.
Proof. split; vm_compute; reflexivity. Qed.

(* Cousin separation holds under the shape guard `cousin_guard` of Spec/PC19.v: every node
   (a) has at most one child that itself has children (any fan-out), or
   (b) has exactly two children [a; b], the walk from a along right-most children-with-children
       reaches the deepest level of a, and the walk from b along left-most children-with-children
       reaches the deepest level of b.
   (4046 of the 6918 ordered trees with <= 10 nodes satisfy it.) *)
Theorem C19_cousins_partial : forall eps p t, 0 <= eps -> params_pos p -> cousin_guard t = true ->
  cousins_ok eps (p_ss p) (p_sts p) (reingold_tilford p t) = true.
Proof. exact rt_cousins_partial. Qed.
Print Assumptions C19_cousins_partial.

(* hence the full property under the guard *)
Theorem C19_partial : forall eps p t, 0 <= eps -> params_pos p -> cousin_guard t = true ->
  prop_C19 eps p t (reingold_tilford p t) = true.
Proof. exact rt_prop_partial. Qed.
Print Assumptions C19_partial.

(* Wider guard `cousin_guard2` (Spec/PC19.v): additionally (c) a node may have any number of
   children with children when all its grandchildren are leaves (single-level comparisons, where
   the division by 1 - left_idx/right_idx is exact).  cousin_guard t = true implies
   cousin_guard2 t = true. *)
Theorem C19_cousins_partial2 : forall eps p t, 0 <= eps -> params_pos p -> cousin_guard2 t = true ->
  cousins_ok eps (p_ss p) (p_sts p) (reingold_tilford p t) = true.
Proof. exact rt_cousins_partial2. Qed.
Print Assumptions C19_cousins_partial2.

(* the shape of every K1 failure (contrapositive): wherever two nodes of one depth come closer than
   min(sibling, subtree separation), some node of the tree has >= 2 children with children and
   either (>= 3 children and a grandchild with children) or (exactly two children and one of the
   facing walks does not reach the bottom of its subtree) *)
Theorem C19_cousins_failure_shape : forall p t, params_pos p ->
  cousins_ok 0 (p_ss p) (p_sts p) (reingold_tilford p t) = false -> cousin_guard2 t = false.
Proof. exact rt_cousins_failure_shape. Qed.
Print Assumptions C19_cousins_failure_shape.

Definition comb3 : tree :=
  nd [nd [leaf; leaf; leaf]; leaf; nd [leaf]; nd [leaf; leaf; leaf; leaf]; nd [leaf; leaf]].
Example C19_guard2_examples :
  cousin_guard comb3 = false /\ cousin_guard2 comb3 = true /\ tsize comb3 = 16%nat
  /\ cousin_guard2 k1_tree = false /\ cousin_guard2 k1b_tree = false.
Proof. repeat split; vm_compute; reflexivity. Qed.

(* the explicit recursion bound (`fuel`) of the model's contour walk never cuts the walk short, for
   every tree: any fuel >= the height of the left subtree computes the same shift *)
Theorem C19_fuel_sufficient : forall sts left right li ri f, (dheight left <= f)%nat ->
  subtree_shift sts left right li ri =
  match dkids left, dkids right with
  | _ :: _, _ :: _ => contour f (ratio li ri) sts (rev (dkids left)) (dkids right)
                              (Qred (dmod left + dsh left)) (Qred (dmod right + dsh right)) 0
  | _, _ => 0
  end.
Proof. exact subtree_shift_fuel. Qed.
Print Assumptions C19_fuel_sufficient.

(* the hypotheses are satisfiable by non-trivial inputs: the complete binary tree with 15 nodes
   (three levels of contour comparison), an irregular 14-node tree, and a wide caterpillar *)
Definition bin3 : tree :=
  let b1 := nd [leaf; leaf] in let b2 := nd [b1; b1] in nd [b2; b2].
Definition irregular : tree :=
  nd [nd [leaf; nd [nd [leaf; leaf]; leaf]]; nd [nd [leaf; nd [leaf]]; leaf]].
Definition caterpillar : tree :=
  nd [leaf; leaf; nd [leaf; nd [leaf; leaf; leaf; leaf]; leaf]; leaf; leaf].
Example C19_guard_satisfiable :
  params_pos (PR (1 # 2) (3 # 2) 2 (1 # 4) 0) /\ cousin_guard bin3 = true /\ cousin_guard irregular = true
  /\ cousin_guard caterpillar = true
  /\ tsize bin3 = 15%nat /\ tsize irregular = 14%nat /\ tsize caterpillar = 13%nat.
Proof. split; [repeat split|]. repeat split; vm_compute; reflexivity. Qed.

(* ---------------------------------------------------------------------------------------------
   Laying the same tree object out again.  _first_pass reads the `shift` attribute back from the
   nodes (Algo/Plot.v `fpd`); since commit 6d1d6cb (F10) reingold_tilford resets it on every node
   first (`reset_d`), so a call is history-free.
   `rt_again ps p t`: the coordinates after calling reingold_tilford on the fresh tree t with the
   parameter sets ps (any rationals, in this order) and then with p. *)
Theorem C19_rerun_is_fresh : forall ps p t, rt_again ps p t = reingold_tilford p t.
Proof. exact rt_again_eq. Qed.
Print Assumptions C19_rerun_is_fresh.

(* hence every clause that holds on a fresh tree holds after any number of earlier layouts *)
Corollary C19_rerun : forall eps ps p t, 0 <= eps -> params_pos p ->
  prop_C19_but_cousins eps p t (rt_again ps p t) = true
  /\ (cousin_guard2 t = true -> prop_C19 eps p t (rt_again ps p t) = true).
Proof.
  intros eps ps p t He Hp. rewrite C19_rerun_is_fresh. split; [apply rt_but_cousins; assumption|].
  intros HG. unfold prop_C19. rewrite rt_but_cousins, rt_cousins_partial2 by assumption. reflexivity.
Qed.
Print Assumptions C19_rerun.

(* structural changes between two layouts (`edit`: children reversed, a leaf inserted, a child
   removed, a subtree moved up / down / sideways, a piece cut off, the tree re-rooted): after any
   history `steps` of edits and layouts starting from any state `st`, the coordinates written by
   the last call are exactly the fresh layout of the tree as it is then *)
Theorem C19_relayout_is_fresh : forall st steps es p,
  snd (run_steps st (steps ++ [(es, p)]))
  = reingold_tilford p (tree_of_d (apply_edits es (fst (run_steps st steps)))).
Proof. exact relayout_is_fresh. Qed.
Print Assumptions C19_relayout_is_fresh.

(* a call does not change the structure, so the shape in the statement above is determined by
   the edits alone *)
Theorem C19_layout_keeps_shape : forall p d, tree_of_d (fst (layout p d)) = tree_of_d d.
Proof. exact tree_of_layout. Qed.
Print Assumptions C19_layout_keeps_shape.

(* regression for F10: lay out r(a(a1, a2), b(b1)) with unit separations, append a fresh leaf c
   to r, lay out again.  Before the fix b kept its stale shift 1/2 and c landed 1/2 from b; now
   the second layout is the fresh one of the 7-node tree and satisfies the whole property. *)
Definition k4_tree : tree := nd [nd [leaf; leaf]; nd [leaf]].
Example C19_rerun_after_insert_ok :
  let st := run_steps (layout unit_params (zero_d k4_tree)) [([EAdd [] 2], unit_params)] in
  prop_C19 0 unit_params (tree_of_d (fst st)) (snd st) = true
  /\ tsize (tree_of_d (fst st)) = 7%nat.
Proof. split; vm_compute; reflexivity. Qed.

(* ---------------------------------------------------------------------------------------------
   reingold_tilford called on a node that is not the root of its tree (Algo/Plot.v `rt_at`:
   modelled when the start node is the first child of its parent, at any depth; a start node with
   a left sibling reads attributes of nodes outside its subtree and is outside the model).
   The coordinates of the subtree are its own fresh layout up to y (counted from the whole tree's
   max_depth), and satisfy the four clauses. *)
Theorem C19_subtree_start : forall eps p whole path sub c, 0 <= eps -> params_pos p ->
  subtree_at whole path = Some sub -> rt_at p whole path = Some c ->
  prop_C19_but_cousins eps p sub c = true.
Proof. exact rt_at_but_cousins. Qed.
Print Assumptions C19_subtree_start.

Example C19_subtree_start_example :
  let whole := nd [nd [leaf; nd [leaf; leaf]]; nd [leaf]; leaf] in
  exists c, rt_at unit_params whole [0%nat] = Some c /\ cy c = 2 /\ cx c = (1 # 2)
            /\ rt_at unit_params whole [1%nat] = None.
Proof. eexists. repeat split; vm_compute; reflexivity. Qed.

(* ---------------------------------------------------------------------------------------------
   BinaryNode trees (known finding K5-C19): the faithful model of what the code does on a tree of
   BinaryNode objects is "raises AttributeError" (Algo/Plot.v reingold_tilford_binary: children
   always holds the two slots, None for an empty one, and _first_pass recurses into them), so the
   property has no coordinates to speak about there; check_C19 flags every such case F_PROPFAIL. *)
Example C19_binary_refuted : forall p t, reingold_tilford_binary p t = Raise AttributeError.
Proof. reflexivity. Qed.

(* ---------------------------------------------------------------------------------------------
   After ANY history (arbitrary start state, arbitrary lists of edits - reverse, insert, delete,
   move, cut, re-root - and arbitrary parameters of the earlier layouts) the last layout satisfies
   every clause that holds on fresh trees: shape, levels, parent midpoint, sibling order and
   separation, non-negative x; and cousin separation under the guard. *)
Theorem C19_after_any_history : forall eps st steps es p, 0 <= eps -> params_pos p ->
  let t := tree_of_d (apply_edits es (fst (run_steps st steps))) in
  prop_C19_but_cousins eps p t (snd (run_steps st (steps ++ [(es, p)]))) = true
  /\ (cousin_guard2 t = true -> prop_C19 eps p t (snd (run_steps st (steps ++ [(es, p)]))) = true).
Proof. exact history_but_cousins. Qed.
Print Assumptions C19_after_any_history.

(* non-vacuity: a history with a move of an inner node, a cut and a re-rooting ends in an 8-node tree of height 4 *)
Example C19_history_example :
  let st0 := layout unit_params (zero_d (nd [nd [nd [leaf; leaf]; leaf]; nd [leaf; nd [leaf]]; leaf])) in
  let steps := [([EMove [0; 0] [1] 0]%nat, PR 2 1 1 0 0); ([ECut [1]]%nat, unit_params)] in
  let es := [EReroot [0]%nat 1; EAdd [] 0] in
  tsize (tree_of_d (apply_edits es (fst (run_steps st0 steps)))) = 8%nat
  /\ height (tree_of_d (apply_edits es (fst (run_steps st0 steps)))) = 4%nat.
Proof. split; vm_compute; reflexivity. Qed.

(* ---------------------------------------------------------------------------------------------
   K1 for infinitely many inputs: the 10-node witness hanging under a chain of n unary nodes
   (10 + n nodes).  A unary parent neither compares nor shifts anything, so the x coordinates
   below it are those of the fresh layout of the child; e and h stay 1/2 apart at every n. *)
Theorem C19_cousins_refuted_family : forall n,
  params_pos unit_params
  /\ prop_C19_but_cousins 0 unit_params (under_chain n k1_tree)
       (reingold_tilford unit_params (under_chain n k1_tree)) = true
  /\ cousins_ok 0 (p_ss unit_params) (p_sts unit_params)
       (reingold_tilford unit_params (under_chain n k1_tree)) = false.
Proof. exact k1_family_refuted. Qed.
Print Assumptions C19_cousins_refuted_family.

Example C19_family_sizes : forall n, tsize (under_chain n k1_tree) = (n + 10)%nat.
Proof. intros n. rewrite tsize_under_chain. reflexivity. Qed.

(* ---------------------------------------------------------------------------------------------
   The widest positive result: cousin separation (any two nodes of one depth, in tree order, at
   least min(sibling, subtree separation) apart) for every tree with `cousin_safe t = true`
   (Spec/PC19.v): at every node, any two children a (index j) before b that both have children are
   both flat (all their children are leaves), or j = 0 and the facing walks are complete.
   92 % of the ordered trees with <= 9 nodes (1893 of 2056) and 76 % of the generated trees satisfy
   it; all trees of height <= 3, all trees in which every node has at most one non-leaf child, and
   the classes of cousin_guard / cousin_guard2 are inside. *)
Theorem C19_cousins_safe : forall eps p t, 0 <= eps -> params_pos p -> cousin_safe t = true ->
  cousins_ok eps (p_ss p) (p_sts p) (reingold_tilford p t) = true.
Proof. exact rt_cousins_safe. Qed.
Print Assumptions C19_cousins_safe.

(* the sharper necessary shape of every K1 failure: some node has two children with children,
   a at index j before b, not both flat, and (j >= 1 or a facing walk is incomplete) *)
Theorem C19_cousins_failure_safe : forall p t, params_pos p ->
  cousins_ok 0 (p_ss p) (p_sts p) (reingold_tilford p t) = false -> cousin_safe t = false.
Proof. exact rt_cousins_failure_safe. Qed.
Print Assumptions C19_cousins_failure_safe.

(* non-vacuity: a tree outside cousin_guard2 (three children with children, the first one deep and
   the other two flat) is safe; both K1 witnesses and the whole refuted family are not *)
Definition safe_example : tree :=
  nd [nd [nd [leaf; leaf]; nd [leaf; nd [leaf]]]; leaf; nd [leaf; leaf; leaf]; nd [leaf; leaf]].
Example C19_safe_examples :
  cousin_guard2 safe_example = false /\ cousin_safe safe_example = true /\ tsize safe_example = 17%nat
  /\ cousin_safe comb3 = true /\ cousin_safe bin3 = true
  /\ cousin_safe k1_tree = false /\ cousin_safe k1b_tree = false
  /\ cousin_safe (under_chain 3 k1_tree) = false.
Proof. repeat split; vm_compute; reflexivity. Qed.
