(* C03 — a Node's path identifies it: sibling names are unique, paths are exact.
   Model: Heap/Forest.v (Node = config with is_node := true) and Heap/ForestPath.v (find_full_path).
   Proofs: Heap/ForestNames.v, Heap/ForestLookup.v. *)
From BT Require Import Base.Prelude Base.Str Heap.Forest Heap.ForestWF Heap.ForestOps Heap.ForestStep
     Heap.ForestPath Heap.ForestNames Heap.ForestLookup Algo.SearchProofs Base.StrSep.

(* no two children of one parent have the same name, in every state reachable through the
   structural API (all operations, invalid arguments and failing hooks included) *)
Theorem C03_sibling_names_unique : forall cfg n names seps ops,
  is_node cfg = true ->
  WF (run cfg (init n names seps) ops) /\ SU (run cfg (init n names seps) ops).
Proof. intros. apply run_WF_SU; [assumption|apply WF_init|apply SU_init]. Qed.
Print Assumptions C03_sibling_names_unique.

Theorem C03_step_preserves_unique : forall cfg s o, is_node cfg = true -> WF s -> SU s -> SU (fst (step cfg s o)).
Proof. exact step_SU. Qed.
Print Assumptions C03_step_preserves_unique.

(* names are never changed by the structural API *)
Theorem C03_names_stable : forall cfg s o x, name (fst (step cfg s o)) x = name s x.
Proof. intros. apply step_names. Qed.
Print Assumptions C03_names_stable.

(* an attachment that would give two siblings the same name is refused and changes nothing *)
Theorem C03_dup_refused : forall cfg ft s c p,
  is_node cfg = true -> ft <> PreFail -> parent_loop s c (Some p) = false ->
  dup_name_under s c p = true ->
  set_parent cfg ft s c (ANode p) = (s, Err TreeError).
Proof. exact dup_refused. Qed.
Print Assumptions C03_dup_refused.

(* path name = separator followed by the names on the route from the root joined by it *)
Theorem C03_path_name_spec : forall s n, WF s ->
  path_name s n = sep s n ++ join (sep s n) (map (name s) (route s n)).
Proof. exact path_name_spec. Qed.
Print Assumptions C03_path_name_spec.

Theorem C03_depth_spec : forall s n, depth s n = length (route s n).
Proof. exact depth_spec. Qed.
Print Assumptions C03_depth_spec.

(* the separator is the root's for every node of the tree (hence also after re-rooting) ... *)
Theorem C03_sep_is_roots : forall s n, WF s -> sep s n = sepf s (root s n) /\ par s (root s n) = None.
Proof. exact sep_is_roots. Qed.
Print Assumptions C03_sep_is_roots.

(* ... and assigning it from any node changes it for exactly the nodes of that node's tree *)
Theorem C03_sep_assignment : forall s n v m, WF s ->
  let s' := set_sep s (root s n) v in
  sep s' m = if Nat.eqb (root s m) (root s n) then v else sep s m.
Proof. exact set_sep_spec. Qed.
Print Assumptions C03_sep_assignment.

(* looking a node's path name up from any node of its tree returns that very node.
   Guard (sep_safe): the tree's separator is ONE character that occurs in no name of the tree.
   Multi-character separators are outside: known finding K3 (C03_lookup_refuted below). *)
Theorem C03_lookup_roundtrip_partial : forall s m n c,
  WF s -> SU s -> root s m = root s n -> sep_safe s (root s n) c ->
  find_full_path s m (path_name s n) = Ret (Some n).
Proof. exact lookup_roundtrip. Qed.
Print Assumptions C03_lookup_roundtrip_partial.

Theorem C03_paths_distinct_partial : forall s n1 n2 c,
  WF s -> SU s -> root s n1 = root s n2 -> sep_safe s (root s n2) c ->
  path_name s n1 = path_name s n2 -> n1 = n2.
Proof. exact paths_distinct. Qed.
Print Assumptions C03_paths_distinct_partial.

(* The same for a separator of ANY positive length: guard sep_safe_multi = no character of the tree's
   separator occurs in a name of the tree (names non-empty).  What stays outside is exactly the
   territory of K3: names that contain a character of a multi-character separator. *)
Theorem C03_lookup_roundtrip_multi_partial : forall s m n,
  WF s -> SU s -> root s m = root s n -> sep_safe_multi s (root s n) ->
  find_full_path s m (path_name s n) = Ret (Some n).
Proof. exact lookup_roundtrip_multi. Qed.
Print Assumptions C03_lookup_roundtrip_multi_partial.

Theorem C03_paths_distinct_multi_partial : forall s n1 n2,
  WF s -> SU s -> root s n1 = root s n2 -> sep_safe_multi s (root s n2) ->
  path_name s n1 = path_name s n2 -> n1 = n2.
Proof. exact paths_distinct_multi. Qed.
Print Assumptions C03_paths_distinct_multi_partial.

(* non-vacuity for a two-character separator "->": r(a(b)) *)
Definition mm_nm (i : id) : str := nth i [[114]; [97]; [98]]%N [].
Definition mm_s : forest :=
  run {| assertions := true; is_node := true |} (init 3 mm_nm (fun _ => [45; 62]%N))
      [SetParent 1 (ANode 0) NoFault; SetParent 2 (ANode 1) NoFault].
Example C03_multi_nonvacuous :
  path_name mm_s 2 = [45; 62; 114; 45; 62; 97; 45; 62; 98]%N
  /\ find_full_path mm_s 0 (path_name mm_s 2) = Ret (Some 2).
Proof. vm_compute. split; reflexivity. Qed.

(* non-vacuity: a 4-node tree a(b(d), c) with separator "/" meets every hypothesis, and the
   lookup of d's path from c returns d *)
Definition nm (i : id) : str := nth i [[97]; [98]; [99]; [100]]%N [].
Definition ex_s : forest :=
  run {| assertions := true; is_node := true |} (init 4 nm (fun _ => [47]%N))
      [SetParent 1 (ANode 0) NoFault; SetParent 2 (ANode 0) NoFault; SetParent 3 (ANode 1) NoFault].
Example C03_nonvacuous :
  path_name ex_s 3 = [47; 97; 47; 98; 47; 100]%N
  /\ find_full_path ex_s 2 (path_name ex_s 3) = Ret (Some 3)
  /\ root ex_s 2 = root ex_s 3 /\ sepf ex_s (root ex_s 3) = [47]%N /\ depth ex_s 3 = 3.
Proof. vm_compute. repeat split. Qed.

(* known finding K3: with the two-character separator "->" and a node named "a-" the lookup of the
   node's own path returns None (rstrip strips the character set {'-','>'}) *)
Definition k3_nm (i : id) : str := nth i [[114]; [97; 45]]%N [].
Definition k3_s : forest :=
  run {| assertions := true; is_node := true |} (init 2 k3_nm (fun _ => [45; 62]%N))
      [SetParent 1 (ANode 0) NoFault].
Example C03_lookup_refuted :
  path_name k3_s 1 = [45; 62; 114; 45; 62; 97; 45]%N /\ find_full_path k3_s 0 (path_name k3_s 1) = Ret None.
Proof. vm_compute. split; reflexivity. Qed.
