(* C16 — DAG traversal and queries agree with graph-theoretic definitions.
   Graph-theoretic vocabulary (edge set, reachability, directed paths, weak connectivity) as Prop
   definitions (used by the theorems of Props/C16.v) and as obviously-correct boolean functions (used
   to evaluate the property on what the implementation returned).  Nothing here follows the loop
   structure of the code: reachability is "a walk of at most n edges exists", paths are recognised
   edge by edge and counted backwards over the parent lists. *)
From BT Require Import Base.Prelude Base.Str Base.Rose Algo.DagAlgo.

(* ------------------------------------------------------------------------------------------- *)
(* Prop level *)

Definition Edge (g : dag) (p c : id) : Prop := In c (children g p).

(* a ->+ b : transitive closure of Edge *)
Inductive Reach (g : dag) : id -> id -> Prop :=
| Reach1 : forall a b, Edge g a b -> Reach g a b
| ReachS : forall a c b, Edge g a c -> Reach g c b -> Reach g a b.

(* pi is a directed path: consecutive elements are edges *)
Fixpoint Chain (g : dag) (pi : list id) : Prop :=
  match pi with
  | [] => True
  | x :: t => match t with [] => True | y :: _ => Edge g x y /\ Chain g t end
  end.
Definition Path (g : dag) (a b : id) (pi : list id) : Prop :=
  hd_error pi = Some a /\ last pi a = b /\ pi <> [] /\ Chain g pi.

(* the stored links are mutually consistent, in range, without repetition *)
Record Wf (g : dag) : Prop := {
  wf_par_range : forall x p, In p (parents g x) -> p < dsize g;
  wf_kid_range : forall x c, In c (children g x) -> c < dsize g;
  wf_par_src   : forall x p, In p (parents g x) -> x < dsize g;
  wf_kid_src   : forall x c, In c (children g x) -> x < dsize g;
  wf_sym       : forall p c, In c (children g p) <-> In p (parents g c);
  wf_par_nodup : forall x, NoDup (parents g x);
  wf_kid_nodup : forall x, NoDup (children g x)
}.

(* acyclic, given by a topological numbering bounded by the number of nodes *)
Definition Ranked (g : dag) (r : id -> nat) : Prop :=
  (forall p c, Edge g p c -> r p < r c) /\ (forall x, r x < dsize g).

Definition DistinctNames (g : dag) : Prop :=
  forall x y, x < dsize g -> y < dsize g -> name g x = name g y -> x = y.

(* undirected reachability *)
Definition Adj (g : dag) (a b : id) : Prop := Edge g a b \/ Edge g b a.
Inductive UReach (g : dag) : id -> id -> Prop :=
| UReach0 : forall a, UReach g a a
| UReachS : forall a c b, UReach g a c -> Adj g c b -> UReach g a b.
Definition WeaklyConnected (g : dag) : Prop :=
  forall x y, x < dsize g -> y < dsize g -> UReach g x y.

(* ------------------------------------------------------------------------------------------- *)
(* boolean level *)

Definition ids (g : dag) : list id := seq 0 (dsize g).
Definition edgeb (g : dag) (p c : id) : bool := memb c (children g p).
Definition all_edges (g : dag) : list edge :=
  flat_map (fun p => map (fun c => (p, c)) (children g p)) (ids g).

Definition edge_eqb (a b : edge) : bool := Nat.eqb (fst a) (fst b) && Nat.eqb (snd a) (snd b).
Definition ememb (e : edge) (l : list edge) : bool := existsb (edge_eqb e) l.
Fixpoint enodupb (l : list edge) : bool :=
  match l with [] => true | e :: t => negb (ememb e t) && enodupb t end.

(* a walk of at most k edges from a to b *)
Fixpoint reach_le (k : nat) (g : dag) (a b : id) : bool :=
  match k with
  | 0 => Nat.eqb a b
  | S k' => if Nat.eqb a b then true else existsb (fun c => reach_le k' g c b) (children g a)
  end.
Definition reachb (g : dag) (a b : id) : bool := reach_le (dsize g) g a b.           (* a ->* b *)
Definition reach_plusb (g : dag) (a b : id) : bool :=                                  (* a ->+ b *)
  existsb (fun c => reachb g c b) (children g a).

Definition subsetb (a b : list id) : bool := forallb (fun x => memb x b) a.
Definition in_range (g : dag) (l : list id) : bool := forallb (fun x => Nat.ltb x (dsize g)) l.

Definition wfb (g : dag) : bool :=
  forallb (fun x =>
    in_range g (parents g x) && in_range g (children g x)
    && nodupb (parents g x) && nodupb (children g x)
    && forallb (fun p => memb x (children g p)) (parents g x)
    && forallb (fun c => memb x (parents g c)) (children g x)) (ids g).
Definition acyclicb (g : dag) : bool := forallb (fun x => negb (reach_plusb g x x)) (ids g).

Fixpoint snodupb (l : list str) : bool :=
  match l with [] => true | s :: t => negb (smem s t) && snodupb t end.
Definition distinct_namesb (g : dag) : bool := snodupb (map (name g) (ids g)).

(* weakly connected component of s: n rounds of adding neighbours *)
Definition adjb (g : dag) (a b : id) : bool := edgeb g a b || edgeb g b a.
Fixpoint ucomp_go (k : nat) (g : dag) (cur : list id) : list id :=
  match k with
  | 0 => cur
  | S k' => ucomp_go k' g
              (filter (fun y => memb y cur || existsb (fun x => adjb g x y) cur) (ids g))
  end.
Definition ucomp (g : dag) (s : id) : list id := ucomp_go (dsize g) g [s].
Definition connectedb (g : dag) : bool :=
  match ids g with [] => true | s :: _ => Nat.eqb (length (ucomp g s)) (dsize g) end.

(* --- dag_iterator from s yielded `out` --- *)
Definition iter_soundb (g : dag) (out : list edge) : bool :=
  forallb (fun e => edgeb g (fst e) (snd e)) out.
Definition iter_completeb (g : dag) (s : id) (out : list edge) : bool :=
  forallb (fun e => negb (memb (fst e) (ucomp g s)) || ememb e out) (all_edges g).
Definition prop_iter (g : dag) (s : id) (out : list edge) : bool :=
  iter_soundb g out && enodupb out && (negb (distinct_namesb g) || iter_completeb g s out).

(* --- ancestors / descendants of x --- *)
Definition prop_anc (g : dag) (x : id) (l : list id) : bool :=
  nodupb l && in_range g l && forallb (fun a => Bool.eqb (memb a l) (reach_plusb g a x)) (ids g).
Definition prop_desc (g : dag) (x : id) (l : list id) : bool :=
  nodupb l && in_range g l && forallb (fun d => Bool.eqb (memb d l) (reach_plusb g x d)) (ids g).

(* --- siblings of x: s occurs once for every common parent --- *)
Definition count_id (y : id) (l : list id) : nat := length (filter (Nat.eqb y) l).
Definition common_parents (g : dag) (x s : id) : nat :=
  length (filter (fun p => edgeb g p x && edgeb g p s) (ids g)).
Definition prop_sib (g : dag) (x : id) (l : list id) : bool :=
  in_range g l &&
  forallb (fun s => Nat.eqb (count_id s l) (if Nat.eqb s x then 0 else common_parents g x s)) (ids g).

(* --- go_to a b --- *)
Fixpoint chainb (g : dag) (pi : list id) : bool :=
  match pi with
  | [] => true
  | x :: t => match t with [] => true | y :: _ => edgeb g x y && chainb g t end
  end.
Definition pathb (g : dag) (a b : id) (pi : list id) : bool :=
  match pi with [] => false | h :: _ => Nat.eqb h a && Nat.eqb (last pi a) b && chainb g pi end.
(* number of directed paths a -> b, counted from the target over the parent lists *)
Fixpoint npaths (k : nat) (g : dag) (a b : id) : nat :=
  if Nat.eqb a b then 1 else
  match k with
  | 0 => 0
  | S k' => fold_right (fun p acc => npaths k' g a p + acc) 0 (parents g b)
  end.
Definition path_eqb (p q : list id) : bool := list_eqb Nat.eqb p q.
Fixpoint pnodupb (l : list (list id)) : bool :=
  match l with [] => true | p :: t => negb (existsb (path_eqb p) t) && pnodupb t end.

(* code = 0: returned `paths`; otherwise the exception code *)
Definition prop_goto (g : dag) (a b : id) (code : nat) (paths : list (list id)) : bool :=
  if reachb g a b
  then Nat.eqb code 0 && forallb (pathb g a b) paths && pnodupb paths
       && Nat.eqb (length paths) (npaths (dsize g) g a b)
  else negb (Nat.eqb code 0).

Definition valid_dag (g : dag) : bool := wfb g && acyclicb g.
