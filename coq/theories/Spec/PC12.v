(* C12 — derived node queries agree with their definitions.
   First-principles definitions on positions (a node = the list of child indices on the route from
   the root; `positions t` = all nodes of t in pre-order, Base/Rose.v).  Nothing here walks parent
   links or recurses through children the way the code does: every node-set valued query is
   "the nodes of the tree that stand in relation R to p, in document order", numbers are maxima /
   counts over such sets.  The same predicates are proved of the model (Props/C12.v) and evaluated
   on the values the implementation returned (Corr/DerivedCorr.v). *)
From BT Require Import Base.Prelude Base.Rose.

(* ---- relations between positions ------------------------------------------------------------- *)

Definition pos_eq : pos -> pos -> bool := list_eqb Nat.eqb.

(* a is an ancestor-or-self of b *)
Fixpoint is_prefix (a b : pos) : bool :=
  match a, b with
  | [], _ => true
  | i :: a', j :: b' => Nat.eqb i j && is_prefix a' b'
  | _ :: _, [] => false
  end.
Definition proper_prefix (a b : pos) : bool := is_prefix a b && Nat.ltb (length a) (length b).

(* longest common prefix = lowest common ancestor *)
Fixpoint lcp (a b : pos) : pos :=
  match a, b with
  | i :: a', j :: b' => if Nat.eqb i j then i :: lcp a' b' else []
  | _, _ => []
  end.

(* number of edges on the path between two nodes *)
Definition dist (a b : pos) : nat := length a + length b - 2 * length (lcp a b).

(* b is the parent of a / a and b are joined by an edge *)
Definition is_parent_of (b a : pos) : bool := proper_prefix b a && Nat.eqb (length a) (S (length b)).
Definition adjacent (a b : pos) : bool := is_parent_of a b || is_parent_of b a.

(* a and b are distinct children of one parent *)
Definition are_siblings (a b : pos) : bool :=
  match a, b with
  | _ :: _, _ :: _ => pos_eq (removelast a) (removelast b) && negb (pos_eq a b)
  | _, _ => false
  end.

Definition valid (t : tree) (p : pos) : bool :=
  match subtree_at t p with Some _ => true | None => false end.

Definition childless (t : tree) (p : pos) : bool :=
  match subtree_at t p with Some s => match tkids s with [] => true | _ => false end | None => false end.

(* ---- the queries, from first principles ------------------------------------------------------ *)

Definition spec_ancestors (t : tree) (p : pos) : list pos :=          (* nearest first *)
  rev (filter (fun a => proper_prefix a p) (positions t)).
Definition spec_node_path (t : tree) (p : pos) : list pos :=          (* from the root *)
  filter (fun a => is_prefix a p) (positions t).
Definition spec_descendants (t : tree) (p : pos) : list pos :=        (* proper pre-order *)
  filter (fun a => proper_prefix p a) (positions t).
Definition spec_subtree (t : tree) (p : pos) : list pos :=
  filter (fun a => is_prefix p a) (positions t).
Definition spec_leaves (t : tree) (p : pos) : list pos :=
  filter (fun a => is_prefix p a && childless t a) (positions t).
Definition spec_siblings (t : tree) (p : pos) : list pos :=
  filter (fun a => are_siblings a p) (positions t).
(* the sibling whose child index is one less / one more *)
Definition spec_left_sibling (t : tree) (p : pos) : option pos :=
  find (fun a => are_siblings a p && Nat.eqb (S (last a 0)) (last p 0)) (positions t).
Definition spec_right_sibling (t : tree) (p : pos) : option pos :=
  find (fun a => are_siblings a p && Nat.eqb (last a 0) (S (last p 0))) (positions t).
(* the node without parent that p descends from *)
Definition spec_root (t : tree) (p : pos) : option pos :=
  find (fun a => is_prefix a p && Nat.eqb (length a) 0) (positions t).
Definition spec_depth (t : tree) (p : pos) : nat := 1 + length (spec_ancestors t p).
(* number of nodes on the longest root-to-leaf route of the whole tree *)
Definition spec_max_depth (t : tree) : nat := list_max (map (fun a => S (length a)) (positions t)).
(* longest path between two nodes of the subtree rooted at p, in edges *)
Definition spec_diameter (t : tree) (p : pos) : nat :=
  let sub := spec_subtree t p in
  list_max (flat_map (fun a => map (dist a) sub) sub).

(* the path from p to q: up from p to (excluding) the lowest common ancestor, then from it down to q *)
Definition up_chain (p : pos) (l : nat) : list pos := map (fun k => firstn k p) (rev (seq (S l) (length p - l))).
Definition down_chain (q : pos) (l : nat) : list pos := map (fun k => firstn k q) (seq l (S (length q - l))).
Definition spec_go_to (p q : pos) : list pos :=
  let l := length (lcp p q) in up_chain p l ++ down_chain q l.

Fixpoint consecutive_adjacent (l : list pos) : bool :=
  match l with
  | a :: ((b :: _) as r) => adjacent a b && consecutive_adjacent r
  | _ => true
  end.
Fixpoint nodup_pos (l : list pos) : bool :=
  match l with [] => true | a :: r => negb (existsb (pos_eq a) r) && nodup_pos r end.

(* a simple path of the tree from p to q *)
Definition simple_path (t : tree) (p q : pos) (l : list pos) : bool :=
  forallb (valid t) l && consecutive_adjacent l && nodup_pos l
  && opt_eqb pos_eq (hd_error l) (Some p) && pos_eq (last l []) q.

(* ---- the property as a decision --------------------------------------------------------------- *)

Record qvals := QV {
  q_anc : list pos;  q_desc : list pos;  q_leaves : list pos;  q_sibs : list pos;
  q_left : option pos;  q_right : option pos;  q_path : list pos;
  q_isroot : bool;  q_isleaf : bool;  q_root : pos;
  q_diam : nat;  q_depth : nat;  q_maxdepth : nat }.

Definition lpos_eq := list_eqb pos_eq.
Definition opos_eq := opt_eqb pos_eq.

Definition qvals_eqb (a b : qvals) : bool :=
  lpos_eq (q_anc a) (q_anc b) && lpos_eq (q_desc a) (q_desc b) && lpos_eq (q_leaves a) (q_leaves b)
  && lpos_eq (q_sibs a) (q_sibs b) && opos_eq (q_left a) (q_left b) && opos_eq (q_right a) (q_right b)
  && lpos_eq (q_path a) (q_path b) && Bool.eqb (q_isroot a) (q_isroot b)
  && Bool.eqb (q_isleaf a) (q_isleaf b) && pos_eq (q_root a) (q_root b)
  && Nat.eqb (q_diam a) (q_diam b) && Nat.eqb (q_depth a) (q_depth b)
  && Nat.eqb (q_maxdepth a) (q_maxdepth b).

(* all first-principles values of node p of tree t *)
Definition spec_qvals (t : tree) (p : pos) : qvals :=
  {| q_anc := spec_ancestors t p; q_desc := spec_descendants t p; q_leaves := spec_leaves t p;
     q_sibs := spec_siblings t p; q_left := spec_left_sibling t p; q_right := spec_right_sibling t p;
     q_path := spec_node_path t p;
     q_isroot := Nat.eqb (length (spec_ancestors t p)) 0;
     q_isleaf := Nat.eqb (length (spec_descendants t p)) 0;
     q_root := match spec_root t p with Some r => r | None => p end;
     q_diam := spec_diameter t p; q_depth := spec_depth t p; q_maxdepth := spec_max_depth t |}.

(* the values o reported for node p of t are the first-principles ones *)
Definition prop_C12_node (t : tree) (p : pos) (o : qvals) : bool :=
  valid t p && qvals_eqb o (spec_qvals t p)
  && Nat.eqb (q_depth o) (1 + length (q_anc o)).       (* "depth is one plus the number of ancestors" *)

(* go_to between nodes p, q of one tree: the path through the lowest common ancestor, and it is a
   simple path of the tree with dist p q edges *)
Definition prop_C12_goto (t : tree) (p q : pos) (path : list pos) : bool :=
  lpos_eq path (spec_go_to p q) && simple_path t p q path && Nat.eqb (length path) (S (dist p q)).

(* BinaryNode.is_leaf: no slot holds a node *)
Definition prop_C12_binary_leaf {A} (slots : list (option A)) (is_leaf : bool) : bool :=
  Bool.eqb is_leaf (forallb (fun o => match o with None => true | Some _ => false end) slots).

(* The inherited queries on a BinaryNode tree.
   diameter: that of the tree whose children are the occupied slots (t is that image tree).
   siblings: from the links, the parent's children tuple is its pair of slots; the siblings are its
   other entries in order, an empty slot being None (no parent: no siblings).  `parent_slots` are the
   slots of the node one of whose slots holds `self`, as node.children showed them. *)
Definition prop_C12_binary_diameter (t : tree) (p : pos) (code value : nat) : bool :=
  Nat.eqb code 0 && Nat.eqb value (spec_diameter t p).
Definition prop_C12_binary_siblings (parent_slots : option (list (option nat))) (self : nat)
           (sibs : list (option nat)) : bool :=
  list_eqb (opt_eqb Nat.eqb) sibs
    (match parent_slots with
     | None => []
     | Some sl => filter (fun c => negb (opt_eqb Nat.eqb c (Some self))) sl
     end).
