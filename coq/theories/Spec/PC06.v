(* Property C06, tabular half: "every export contains exactly one record per selected node (all nodes,
   or exactly those let through by max_depth / skip_depth / leaf_only), listed in pre-order or nested as
   the tree is, with the node's exact name, path, parent name and requested attribute values.
   Feeding a full export to the matching constructor returns a tree equal to the original in names,
   shape, sibling order and exported attributes."

   The specification speaks about the nodes of the tree in pre-order (`pre` of Base/Rose.v) paired with
   their name paths (`paths_from` of Base/Rose.v); depth, parent and path string are read off the
   name path, the selection is a filter, a record is the Python dict of the requested fields.  It
   does not recurse over the tree itself. *)
From BT Require Import Base.Prelude Base.Str Base.Rose Algo.Export.

(* ---------------------------------------------------------------------------------------------- *)
(* nodes in context *)

Definition cnode := (list str * tree)%type.      (* names from the root down to the node; the node *)

Definition nodes_under (anc : list str) (t : tree) : list cnode :=
  combine (paths_from anc t) (pre t).

(* names of the proper ancestors of the node at position p, top down *)
Definition anc_names (root : tree) (p : pos) : list str :=
  map (fun i => match subtree_at root (firstn i p) with Some a => tname a | None => [] end)
      (seq 0 (length p)).

(* the nodes exported when the start node sits at position p of the whole tree *)
Definition nodes_from (root : tree) (p : pos) : option (list cnode) :=
  match subtree_at root p with
  | Some t => Some (nodes_under (anc_names root p) t)
  | None => None
  end.

Definition c_depth (c : cnode) : nat := length (fst c).
Definition c_name (c : cnode) : str := tname (snd c).
Definition c_parent (c : cnode) : val :=
  match rev (fst c) with _ :: p :: _ => VStr p | _ => VNone end.
Definition c_path (sep : str) (c : cnode) : str := sep ++ join sep (fst c).

(* the three gates *)
Definition selected (o : opts) (c : cnode) : bool :=
  (Nat.eqb (o_max_depth o) 0 || Nat.leb (c_depth c) (o_max_depth o))
  && (Nat.eqb (o_skip_depth o) 0 || Nat.ltb (o_skip_depth o) (c_depth c))
  && (negb (o_leaf_only o) || is_leaf (snd c)).

(* requested attribute values: every public attribute in key order, or the attr_dict selection *)
Definition requested (o : opts) (t : tree) : record :=
  if o_all_attrs o
  then filter (fun kv => public_key (fst kv)) (sort_items (tattrs t))
  else map (fun kv => (snd kv, get_attr t (fst kv))) (o_attr_dict o).

Definition field (k : str) (v : val) : record := match k with [] => [] | _ => [(k, v)] end.

Definition dict_record (o : opts) (c : cnode) : record :=
  dict_of (field (o_name_key o) (VStr (c_name c)) ++ field (o_parent_key o) (c_parent c)
           ++ requested o (snd c)).

Definition frame_record (o : opts) (sep : str) (c : cnode) : record :=
  dict_of (field (o_path_col o) (VStr (c_path sep c)) ++ field (o_name_key o) (VStr (c_name c))
           ++ field (o_parent_key o) (c_parent c) ++ requested o (snd c)).

(* ---------------------------------------------------------------------------------------------- *)
(* what the exports must be *)

Definition spec_dict (root : tree) (sep : str) (p : pos) (o : opts) : option (list (str * record)) :=
  match nodes_from root p with
  | Some ns => Some (dict_of (map (fun c => (c_path sep c, dict_record o c)) (filter (selected o) ns)))
  | None => None
  end.

Definition spec_frame (root : tree) (sep : str) (p : pos) (o : opts) : option (list record) :=
  match nodes_from root p with
  | Some ns => Some (frame_of (map (frame_record o sep) (filter (selected o) ns)))
  | None => None
  end.

(* nested: the tree itself, cut below max_depth, every node replaced by its record *)
Fixpoint prune (k : nat) (t : tree) : tree :=
  match t with
  | T g n a ks => T g n a (match k with 0 => [] | S k' => map (prune k') ks end)
  end.

Fixpoint map_tree (f : tree -> record) (t : tree) : tree :=
  match t with T _ _ _ ks => T None [] (f t) (map (map_tree f) ks) end.

Definition nested_record (o : opts) (t : tree) : record :=
  dict_of ((o_name_key o, VStr (tname t)) :: requested o t).

Definition spec_nested (root : tree) (p : pos) (o : opts) : option tree :=
  match subtree_at root p with
  | None => None
  | Some t =>
      let d := S (length p) in
      if Nat.eqb (o_max_depth o) 0 then Some (map_tree (nested_record o) t)
      else if Nat.leb d (o_max_depth o)
           then Some (map_tree (nested_record o) (prune (o_max_depth o - d) t))
           else None                                  (* nothing to export: the call fails *)
  end.

(* ---------------------------------------------------------------------------------------------- *)
(* round trip *)

(* Node trees: non-empty names, sibling names distinct (node.py:159-204), attribute keys distinct *)
Fixpoint nodup_str (l : list str) : bool :=
  match l with [] => true | x :: r => negb (existsb (str_eqb x) r) && nodup_str r end.

Definition node_ok (t : tree) : bool :=
  nonempty (tname t) && nodup_str (map tname (tkids t)) && nodup_str (map fst (tattrs t)).
Definition valid_tree (t : tree) : bool := forallb node_ok (pre t).

(* inside the documented alphabet of the path formats: no name contains the separator *)
Definition sep_safe (sep : str) (t : tree) : bool :=
  nonempty sep && forallb (fun n => negb (contains (tname n) sep)) (pre t).

(* no CHARACTER of the separator occurs in a name: the guard under which path strings are read back
   (lstrip / rstrip strip a character set) for separators of any positive length; for a one-character
   separator it coincides with sep_safe *)
Definition sep_free (sep : str) (t : tree) : bool :=
  nonempty sep && forallb (fun n => forallb (fun ch => negb (memN ch (tname n))) sep) (pre t).

(* the exported attributes: public ones, in key order; frames cannot hold nulls *)
Definition norm_attrs (drop_null : bool) (a : attrs) : attrs :=
  filter (fun kv => public_key (fst kv) && (negb drop_null || negb (is_null (snd kv))))
         (sort_items a).
Fixpoint norm_tree (drop_null : bool) (t : tree) : tree :=
  match t with T _ n a ks => T None n (norm_attrs drop_null a) (map (norm_tree drop_null) ks) end.

(* attributes are a finite map (the order of __dict__ is not part of the property): compare sorted *)
Fixpoint sort_tree (t : tree) : tree :=
  match t with T _ n a ks => T None n (sort_items a) (map sort_tree ks) end.

Definition same_tree (drop_null : bool) (t : tree) (rebuilt : res tree) : bool :=
  match rebuilt with
  | Ret t' => tree_eqb (sort_tree t') (norm_tree drop_null t)
  | Raise _ => false
  end.

(* the frame formats reserve the column names of the path and the name: no attribute called "path" *)
Definition frame_safe (t : tree) : bool :=
  forallb (fun n => negb (existsb (str_eqb s_path) (map fst (tattrs n)))) (pre t).

Definition prop_rt_path (drop_null : bool) (sep : str) (t : tree) (rebuilt : res tree) : bool :=
  if valid_tree t && sep_safe sep t && (negb drop_null || frame_safe t)
  then same_tree drop_null t rebuilt else true.
Definition prop_rt_nested (t : tree) (rebuilt : res tree) : bool :=
  if valid_tree t then same_tree false t rebuilt else true.

(* ---------------------------------------------------------------------------------------------- *)
(* the decision on observed outputs (inner dicts compared as finite maps: sorted by key) *)

Definition canon_dict (d : list (str * record)) : list (str * record) :=
  map (fun pr => (fst pr, sort_items (snd pr))) d.
Definition canon_rows (d : list record) : list record := map sort_items d.
Fixpoint canon_nested (t : tree) : tree :=
  match t with T _ _ a ks => T None [] (sort_items a) (map canon_nested ks) end.

Definition pathrec_eqb (a b : str * record) : bool :=
  str_eqb (fst a) (fst b) && record_eqb (snd a) (snd b).

Definition opt_agree {A} (e : A -> A -> bool) (spec : option A) (obs : res A) : bool :=
  match spec, obs with
  | Some x, Ret y => e x y
  | None, Raise _ => true
  | _, _ => false
  end.

Definition prop_C06_dict (root : tree) (sep : str) (p : pos) (o : opts)
           (out : res (list (str * record))) : bool :=
  opt_agree (list_eqb pathrec_eqb) (option_map canon_dict (spec_dict root sep p o)) out.

Definition prop_C06_frame (root : tree) (sep : str) (p : pos) (o : opts)
           (out : res (list record)) : bool :=
  opt_agree (list_eqb record_eqb) (option_map canon_rows (spec_frame root sep p o)) out.

Definition prop_C06_nested (root : tree) (p : pos) (o : opts) (out : res tree) : bool :=
  opt_agree tree_eqb (option_map canon_nested (spec_nested root p o)) out.

(* ---------------------------------------------------------------------------------------------- *)
(* frames, exactly: nulls and attribute order *)

(* the source tree with exactly the null-valued attributes removed *)
Fixpoint strip_nulls (t : tree) : tree :=
  match t with
  | T g n a ks => T g n (filter (fun kv => negb (is_null (snd kv))) a) (map strip_nulls ks)
  end.

(* keys in order of first appearance *)
Fixpoint first_seen (seen : list str) (l : list str) : list str :=
  match l with
  | [] => []
  | k :: r => if existsb (str_eqb k) seen then first_seen seen r else k :: first_seen (k :: seen) r
  end.

(* columns of the full export of the whole tree: first-seen order over the records in pre-order *)
Definition export_columns (sep : str) (t : tree) : list str :=
  frame_columns (map (frame_record (Opts s_name [] s_path [] true 0 0 false) sep) (nodes_under [] t)).

Definition cell (c : str) (r : record) : val :=
  match dict_get c r with Some v => v | None => VNone end.

(* attributes of a re-imported node: the attribute columns in column order, restricted to the node's
   non-null cells *)
Definition reimported_attrs (sep : str) (t x : tree) : record :=
  filter (fun kv => negb (is_null (snd kv)) && negb (str_eqb (fst kv) s_name)
                    && negb (str_eqb (fst kv) s_path))
         (map (fun c => (c, cell c (requested (Opts s_name [] s_path [] true 0 0 false) x)))
              (filter (fun c => negb (str_eqb c s_path)) (export_columns sep t))).

Fixpoint retree (f : tree -> record) (t : tree) : tree :=
  match t with T _ n _ ks => T None n (f t) (map (retree f) ks) end.

(* ---------------------------------------------------------------------------------------------- *)
(* the umbrella: every observation of one case (one tree, start node, option set) *)

Definition prop_C06_all (root : tree) (sep : str) (p : pos) (o : opts)
           (o_dict : res (list (str * record))) (o_nested : res tree) (o_df o_pl : res (list record))
           (rt_d rt_n rt_f rt_p : res tree) : bool :=
  prop_C06_dict root sep p o o_dict && prop_C06_nested root p o o_nested
  && prop_C06_frame root sep p o o_df && prop_C06_frame root sep p o o_pl
  && prop_rt_path false sep root rt_d && prop_rt_nested root rt_n
  && prop_rt_path true sep root rt_f && prop_rt_path true sep root rt_p.
