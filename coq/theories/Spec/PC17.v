(* C17 — DAG exports are complete and re-importing them reproduces the DAG.
   The property as boolean predicates over what the exporters / constructors returned, written from
   the property text: "every edge and every node with its requested attributes exactly once (per
   edge)", "same node names, same edge set, same attributes", "relations with a cycle are refused". *)
From BT Require Import Base.Prelude Base.Str Base.Rose Algo.DagAlgo Algo.DagIO Spec.PC16.

(* ------------------------------------------------------------------------------------------- *)
(* multiset equality by counting *)
Definition count_by {A} (eqb : A -> A -> bool) (x : A) (l : list A) : nat := length (filter (eqb x) l).
Definition perm_eqb {A} (eqb : A -> A -> bool) (a b : list A) : bool :=
  Nat.eqb (length a) (length b)
  && forallb (fun x => Nat.eqb (count_by eqb x a) (count_by eqb x b)) a.

Definition spair_eqb (a b : str * str) : bool := str_eqb (fst a) (fst b) && str_eqb (snd a) (snd b).
Definition kv_eqb (a b : str * val) : bool := str_eqb (fst a) (fst b) && val_eqb (snd a) (snd b).
Definition attrs_sameb (a b : attrs) : bool := perm_eqb kv_eqb a b.       (* as key/value sets *)

(* ------------------------------------------------------------------------------------------- *)
(* what the property calls "the graph": names, edges as name pairs, requested attributes *)
Definition name_edges (g : dag) : list (str * str) :=
  map (fun e => (name g (fst e), name g (snd e))) (all_edges g).
Definition all_names (g : dag) : list str := map (name g) (ids g).
Definition roots (g : dag) : list id := filter (fun x => match parents g x with [] => true | _ => false end) (ids g).

Fixpoint lookup (a : attrs) (k : str) : option val :=
  match a with [] => None | (k', v) :: t => if str_eqb k' k then Some v else lookup t k end.
(* the attributes requested from a node, under the exported keys; absent attribute = None *)
Definition requested (md : amode) (a : attrs) : attrs :=
  match md with
  | AllAttrs => filter (fun kv => negb (startswith (fst kv) [95%N])) a     (* all_attrs lists the public attributes only *)
  | AttrDict m => map (fun kv => (snd kv, match lookup a (fst kv) with Some v => v | None => VNone end)) m
  end.
Definition not_none (a : attrs) : attrs :=
  filter (fun kv => match snd kv with VNone => false | _ => true end) a.

(* the export hypotheses of the property: a well-formed acyclic graph with distinct names whose
   weakly connected component of the start node is the whole graph, with at least one edge (the
   exporters are documented to need two nodes) *)
Definition export_domain (g : dag) (s : id) : bool :=
  valid_dag g && distinct_namesb g && Nat.ltb s (dsize g)
  && Nat.eqb (length (ucomp g s)) (dsize g)
  && negb (Nat.eqb (length (all_edges g)) 0).

(* --- dag_to_list --- *)
Definition prop_list (g : dag) (l : list (str * str)) : bool := perm_eqb spair_eqb l (name_edges g).

(* --- dag_to_dict: one entry per node; its parents are the node's parents; its attributes are the
       requested ones --- *)
Definition entry_ok (g : dag) (md : amode) (x : id) (e : dentry) : bool :=
  str_eqb (de_name e) (name g x)
  && perm_eqb str_eqb (match de_parents e with Some ps => ps | None => [] end) (map (name g) (parents g x))
  && attrs_sameb (de_attrs e) (requested md (nattrs g x)).
Definition prop_dict (g : dag) (md : amode) (d : list dentry) : bool :=
  Nat.eqb (length d) (dsize g)
  && forallb (fun x => existsb (entry_ok g md x) d) (ids g).

(* --- dag_to_dataframe: one row per edge (child, parent, child's attributes), one row per root --- *)
Definition row_is (nm : str) (par : option str) (a : attrs) (r : dfrow) : bool :=
  str_eqb (dr_name r) nm && opt_eqb str_eqb (dr_parent r) par && attrs_sameb (dr_attrs r) (not_none a).
Definition prop_df (g : dag) (md : amode) (rows : list dfrow) : bool :=
  Nat.eqb (length rows) (length (all_edges g) + length (roots g))
  && forallb (fun e => Nat.eqb 1 (length (filter (row_is (name g (snd e)) (Some (name g (fst e)))
                                                         (requested md (nattrs g (snd e)))) rows)))
             (all_edges g)
  && forallb (fun x => Nat.eqb 1 (length (filter (row_is (name g x) None (requested md (nattrs g x))) rows)))
             (roots g).

(* --- the rebuilt DAG as the harness observed it from the node the constructor returned --- *)
Record rebuilt := RB {
  rb_code : nat;                       (* 0 = a DAG was returned, else the exception code *)
  rb_names : list str;
  rb_edges : list (str * str);
  rb_attrs : list (str * attrs)        (* per node: the attributes that are not None *)
}.

Definition prop_rebuilt_graph (g : dag) (r : rebuilt) : bool :=
  Nat.eqb (rb_code r) 0
  && perm_eqb str_eqb (rb_names r) (all_names g)
  && perm_eqb spair_eqb (rb_edges r) (name_edges g).
Definition prop_rebuilt_attrs (g : dag) (md : amode) (r : rebuilt) : bool :=
  Nat.eqb (length (rb_attrs r)) (dsize g)
  && forallb (fun x => existsb (fun na => str_eqb (fst na) (name g x)
                                        && attrs_sameb (snd na) (not_none (requested md (nattrs g x))))
                               (rb_attrs r)) (ids g).

Definition prop_C17_export (g : dag) (s : id) (md : amode)
           (ol : list (str * str)) (od : list dentry) (odf : list dfrow) (rl rd rdf : rebuilt) : bool :=
  negb (export_domain g s) ||
  (prop_list g ol && prop_dict g md od && prop_df g md odf
   && prop_rebuilt_graph g rl
   && prop_rebuilt_graph g rd && prop_rebuilt_attrs g md rd
   && prop_rebuilt_graph g rdf && prop_rebuilt_attrs g md rdf).

(* --- relations with a cycle are refused --- *)
Fixpoint sreach_le (k : nat) (rel : list (str * str)) (a b : str) : bool :=
  match k with
  | 0 => str_eqb a b
  | S k' => if str_eqb a b then true
            else existsb (fun e => if str_eqb (fst e) a then sreach_le k' rel (snd e) b else false) rel
  end.
(* some listed edge (p, c) closes a cycle: c reaches p *)
Definition has_cycle (rel : list (str * str)) : bool :=
  existsb (fun e => sreach_le (length rel) rel (snd e) (fst e)) rel.
Definition prop_C17_cycle (rel : list (str * str)) (r : rebuilt) : bool :=
  negb (has_cycle rel) || negb (Nat.eqb (rb_code r) 0).

Definition dict_relations (d : list dentry) : list (str * str) :=
  flat_map (fun e => map (fun p => (p, de_name e)) (match de_parents e with Some ps => ps | None => [] end)) d.
Definition df_relations (rows : list dfrow) : list (str * str) :=
  flat_map (fun r => match dr_parent r with Some p => [(p, dr_name r)] | None => [] end) rows.

(* ------------------------------------------------------------------------------------------- *)
(* Prop level: a relation list, read as a graph on names, contains a cycle *)
Inductive NReach (rel : list (str * str)) : str -> str -> Prop :=
| NR1 : forall a b, In (a, b) rel -> NReach rel a b
| NRS : forall a c b, In (a, c) rel -> NReach rel c b -> NReach rel a b.
Definition HasCycle (rel : list (str * str)) : Prop := exists s, NReach rel s s.

(* a rebuilt node table has the same names and the same edges (by name) as the graph g *)
Definition SameNames (g : dag) (names : list str) : Prop :=
  NoDup names /\ forall s, In s names <-> exists y, y < dsize g /\ name g y = s.
