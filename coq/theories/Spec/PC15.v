(* Property C15 as a predicate on what get_tree_diff returned, written from the property text:
   with P1 / P2 the sets of name paths of the two trees,
     (-) marks exactly P1 \ P2, (+) exactly P2 \ P1, (~) exactly the common paths whose listed
     attributes differ, and such a node carries (old, new) for every differing listed attribute;
     every component of a path carries the mark of the node it denotes, nothing else is renamed;
     every path of P1 u P2 that is kept occurs exactly once (nothing dropped, nothing duplicated);
     with only_diff the kept paths are the marked ones and their ancestors, otherwise all;
     if nothing is kept the answer is None.
   Nothing here refers to tables, joins, string substitution or tree rebuilding. *)
From BT Require Import Base.Prelude Base.Str Base.Rose.

Notation npath := (list str) (only parsing).     (* names from the root *)
Definition npath_eqb : npath -> npath -> bool := list_eqb str_eqb.

Fixpoint nodes_from (prefix : npath) (t : tree) : list (npath * attrs) :=
  match t with
  | T _ n a ks => let p := prefix ++ [n] in (p, a) :: flat_map (nodes_from p) ks
  end.
Definition nodes_of (t : tree) : list (npath * attrs) := nodes_from [] t.

Definition lookup (p : npath) (l : list (npath * attrs)) : option attrs :=
  match find (fun e => npath_eqb (fst e) p) l with
  | Some e => Some (snd e)
  | None => None
  end.

Definition attr_val (a : str) (at_ : attrs) : val :=
  match find (fun kv => str_eqb (fst kv) a) at_ with
  | Some kv => snd kv
  | None => VNone                        (* an attribute a node does not have reads as None *)
  end.

Inductive mark := MSame | MRem | MAdd | MChg.
Definition mark_eqb (a b : mark) : bool :=
  match a, b with
  | MSame, MSame | MRem, MRem | MAdd, MAdd | MChg, MChg => true
  | _, _ => false
  end.

Definition mark_suffix (m : mark) : str :=
  match m with
  | MSame => []
  | MRem => [32; 40; 45; 41]%N          (* " (-)" *)
  | MAdd => [32; 40; 43; 41]%N          (* " (+)" *)
  | MChg => [32; 40; 126; 41]%N         (* " (~)" *)
  end.

Definition oattrs := list (str * (val * val)).
Definition onode := (str * oattrs)%type.

(* the listed attributes on which two nodes differ, with both values *)
Definition diff_attrs (al : list str) (a1 a2 : attrs) : oattrs :=
  flat_map (fun a => let x := attr_val a a1 in let y := attr_val a a2 in
                     if val_eqb x y then [] else [(a, (x, y))]) al.

Section Spec.
  Variable sep : str.
  Variable al : list str.
  Variables n1 n2 : list (npath * attrs).      (* nodes_of the first / second tree *)

  Definition status (p : npath) : mark :=
    match lookup p n1, lookup p n2 with
    | Some _, None => MRem
    | None, Some _ => MAdd
    | Some a1, Some a2 => match diff_attrs al a1 a2 with [] => MSame | _ => MChg end
    | None, None => MSame
    end.

  Definition node_attrs (p : npath) : oattrs :=
    match lookup p n1, lookup p n2 with
    | Some a1, Some a2 => diff_attrs al a1 a2
    | _, _ => []
    end.

  Definition in_paths (p : npath) (l : list (npath * attrs)) : bool :=
    existsb (fun e => npath_eqb (fst e) p) l.

  (* P1 u P2, every path once *)
  Definition all_paths : list npath :=
    map fst n1 ++ filter (fun p => negb (in_paths p n1)) (map fst n2).

  Fixpoint is_prefix (p q : npath) : bool :=
    match p, q with
    | [], _ => true
    | x :: p', y :: q' => str_eqb x y && is_prefix p' q'
    | _ :: _, [] => false
    end.

  Definition marked (p : npath) : bool := negb (mark_eqb (status p) MSame).

  Definition kept (only_diff : bool) (p : npath) : bool :=
    negb only_diff || existsb (fun q => is_prefix p q && marked q) all_paths.

  (* inits [a;b;c] = [[a]; [a;b]; [a;b;c]] *)
  Fixpoint inits (p : npath) : list npath :=
    match p with
    | [] => []
    | x :: r => [x] :: map (cons x) (inits r)
    end.

  Definition shown_name (q : npath) : str := last q [] ++ mark_suffix (status q).

  Definition shown_path (p : npath) : str := sep ++ join sep (map shown_name (inits p)).

  Definition expected (only_diff : bool) : list onode :=
    map (fun p => (shown_path p, node_attrs p)) (filter (kept only_diff) all_paths).
End Spec.

(* ---- comparison of node lists as multisets --------------------------------------------------- *)

Section MS.
  Context {A : Type}.
  Variable eqb : A -> A -> bool.
  Fixpoint remove_first (x : A) (l : list A) : option (list A) :=
    match l with
    | [] => None
    | y :: t => if eqb x y then Some t
                else match remove_first x t with Some t' => Some (y :: t') | None => None end
    end.
  Fixpoint ms_eqb (l1 l2 : list A) : bool :=
    match l1 with
    | [] => match l2 with [] => true | _ => false end
    | x :: r => match remove_first x l2 with Some l2' => ms_eqb r l2' | None => false end
    end.
End MS.

Definition okv_eqb (a b : str * (val * val)) : bool :=
  str_eqb (fst a) (fst b) && val_eqb (fst (snd a)) (fst (snd b)) && val_eqb (snd (snd a)) (snd (snd b)).
Definition onode_eqb (a b : onode) : bool :=
  str_eqb (fst a) (fst b) && ms_eqb okv_eqb (snd a) (snd b).

(* ---- what is observed ------------------------------------------------------------------------ *)

Inductive dobs :=
| DErr (code : nat)                 (* the call raised; exn_code of the class *)
| DNone                             (* returned None *)
| DTree (l : list onode).           (* path_name and attributes of every node of the returned tree *)

Definition prop_C15 (sep : str) (t1 t2 : tree) (only_diff : bool) (al : list str) (o : dobs) : bool :=
  let e := expected sep al (nodes_of t1) (nodes_of t2) only_diff in
  match o with
  | DErr _ => false
  | DNone => match e with [] => true | _ => false end
  | DTree l => match e with [] => false | _ => ms_eqb onode_eqb l e end
  end.

(* ---- domain of the property / of the theorems ------------------------------------------------ *)

Fixpoint all_names (t : tree) : list str :=
  match t with T _ n _ ks => n :: flat_map all_names ks end.

Fixpoint nodup_str (l : list str) : bool :=
  match l with [] => true | x :: t => negb (existsb (str_eqb x) t) && nodup_str t end.

(* bigtree's Node refuses two siblings with the same name *)
Fixpoint siblings_distinct (t : tree) : bool :=
  match t with T _ _ _ ks => nodup_str (map tname ks) && forallb siblings_distinct ks end.

Definition name_ok (sep : str) (n : str) : bool :=
  match n with [] => false | _ => true end
  && negb (contains n sep) && negb (contains n [47%N]).

(* trees the property quantifies over: same root name; names non-empty and free of the separator
   (and of "/"); attribute list without repetition *)
Definition domain_C15 (sep : str) (t1 t2 : tree) (al : list str) : bool :=
  match sep with [] => false | _ => true end
  && str_eqb (tname t1) (tname t2)
  && forallb (name_ok sep) (all_names t1) && forallb (name_ok sep) (all_names t2)
  && siblings_distinct t1 && siblings_distinct t2
  && nodup_str al.

(* the output format cannot tell a node called "b (-)" from a removed node "b": the property is only
   meaningful for names that do not already end in one of the three markers *)
Definition marker_free (n : str) : bool :=
  negb (endswith n (mark_suffix MRem)) && negb (endswith n (mark_suffix MAdd))
  && negb (endswith n (mark_suffix MChg)).
Definition lookalike_free (t1 t2 : tree) : bool :=
  forallb marker_free (all_names t1) && forallb marker_free (all_names t2).

(* ---- reading a displayed path back ------------------------------------------------------------- *)
(* "/r/b (-)/c (-)" reads as [(r, MSame); (b, MRem); (c, MRem)]: the names of the path and, for every
   component, the marker it is displayed with.  Used to state the clauses of the property on the
   returned path strings themselves (for names that do not already end in a marker). *)

Definition marker_of (c : str) : mark :=
  if endswith c (mark_suffix MRem) then MRem
  else if endswith c (mark_suffix MAdd) then MAdd
  else if endswith c (mark_suffix MChg) then MChg
  else MSame.

Definition drop_last4 (c : str) : str := rev (skipn 4 (rev c)).

Definition strip_marker (c : str) : str :=
  if endswith c (mark_suffix MRem) then drop_last4 c
  else if endswith c (mark_suffix MAdd) then drop_last4 c
  else if endswith c (mark_suffix MChg) then drop_last4 c
  else c.

Definition read_path (sep s : str) : list (str * mark) :=
  map (fun c => (strip_marker c, marker_of c)) (tl (split s sep)).
Definition read_names (sep s : str) : list str := map fst (read_path sep s).
Definition read_mark (sep s : str) : mark := last (map snd (read_path sep s)) MSame.
