(* Boolean forms of the forest properties (C01, C02, C03, C20-forest).  The same predicates are
   (a) proved of the model for every history (Props/C01.v ...) and (b) evaluated on the states the
   implementation actually produced (Corr/ForestCorr.v). *)
From BT Require Import Base.Prelude Heap.Forest.

Definition ids (n : nat) : list id := seq 0 n.

Definition oid_eqb := opt_eqb Nat.eqb.
Definition ids_eqb := list_eqb Nat.eqb.

(* links of two states agree on all live ids *)
Definition same_links (s t : forest) : bool :=
  forallb (fun x => oid_eqb (par s x) (par t x) && ids_eqb (kids s x) (kids t x)) (ids (size s)).

(* walking parents from c for `fuel` steps reaches a root *)
Fixpoint reaches_root (s : forest) (fuel : nat) (c : id) : bool :=
  match par s c with
  | None => true
  | Some p => match fuel with 0 => false | S f => reaches_root s f p end
  end.

(* decidable well-formedness of the link structure on the live ids *)
Definition wf_b (s : forest) : bool :=
  let n := size s in
  forallb (fun p =>
    nodupb (kids s p)
    && forallb (fun c => Nat.ltb c n && oid_eqb (par s c) (Some p)) (kids s p)) (ids n)
  && forallb (fun c =>
       match par s c with
       | None => true
       | Some p => Nat.ltb p n && memb c (kids s p)
       end && reaches_root s n c) (ids n).

(* C03: no two children of one parent carry the same name *)
Definition sibling_names_unique_b (s : forest) : bool :=
  forallb (fun p => negb (dup_names s (kids s p))) (ids (size s)).

(* -- per-step properties, stated on (state before, operation, state after, accepted?) ------ *)

(* C01: the links are a forest afterwards; an accepted operation has exactly the documented
   effect (= the effect function `step` characterised by the C01_effect_* theorems, applied to
   the state the operation started from); an operation the guards must reject is not accepted. *)
Definition prop_C01_step (cfg : config) (before : forest) (o : op) (after : forest) (accepted : bool) : bool :=
  wf_b after &&
  (if accepted
   then let r := step cfg before o in is_ok (snd r) && same_links (fst r) after
   else match o with
        | Sort _ _ _ => same_links before after     (* a sort whose comparison raises keeps the given order *)
        | _ => true
        end).

(* C02: a rejected / failing operation changes nothing.  (extend is a sequence of assignments;
   its earlier, accepted assignments stay — it is covered assignment by assignment.) *)
Definition prop_C02_step (before : forest) (o : op) (after : forest) (accepted : bool) : bool :=
  match o with
  | Extend _ _ _ => true
  | _ => if accepted then true else same_links before after
  end.
