(* C08 — shift/copy/replace perform exactly the documented edit and nothing else.

   The property is stated on *path tables*: a tree is the pre-order list of its rows
   (name path from the root, object tag, attributes).  The documented edit of one (from, to) pair is a
   handful of list operations on that table — drop the rows below a path, re-root a block of rows,
   insert a block as the last child block of a path, create the missing prefixes of a path —
   none of which looks at tree structure, references or the order in which the code performs its
   assignments.  `prop_C08` compares the table the implementation (or the model) produced with the
   table obtained by folding that edit over the pair list, and compares the multi-pair call with the
   same pairs applied one call at a time.

   Inputs the property does not speak about are `lenient` (the predicate is true): malformed path
   strings, names containing a separator, trees with repeated sibling names or tags, a from-path that
   matches a node only by a suffix of its name, the root as the node to shift, a destination inside
   the source subtree, a sibling-name clash while attaching, replacing the root. *)
From BT Require Import Base.Prelude Base.Str Base.Rose Algo.Modify.

(* ---------------------------------------------------------------------------------------------- *)
(* tables                                                                                          *)

Definition row := (list str * option nat * attrs)%type.
Definition rpath (r : row) : list str := fst (fst r).
Definition rtag (r : row) : option nat := snd (fst r).
Definition rattrs (r : row) : attrs := snd r.
Definition table := list row.

Fixpoint rows_from (prefix : list str) (t : tree) : table :=
  match t with
  | T g n a ks => let p := prefix ++ [n] in (p, g, a) :: flat_map (rows_from p) ks
  end.
Definition rows (t : tree) : table := rows_from [] t.

Definition path_eqb (a b : list str) : bool := list_eqb str_eqb a b.

Fixpoint pfx (p z : list str) : bool :=          (* p is a prefix of z (or equal) *)
  match p, z with
  | [], _ => true
  | x :: p', y :: z' => str_eqb x y && pfx p' z'
  | _ :: _, [] => false
  end.

Definition under (P : list str) (r : row) : bool := pfx P (rpath r).
Definition sunder (P : list str) (r : row) : bool := pfx P (rpath r) && negb (path_eqb P (rpath r)).
Definition at_path (P : list str) (r : row) : bool := path_eqb P (rpath r).

Definition sub_rows (tb : table) (P : list str) : table := filter (under P) tb.
Definition minus (tb : table) (P : list str) : table := filter (fun r => negb (under P r)) tb.
Definition minus_strict (tb : table) (P : list str) : table := filter (fun r => negb (sunder P r)) tb.
Definition has (tb : table) (P : list str) : bool := existsb (at_path P) tb.
Definition minus_rows (tb : table) (rs : table) : table :=
  filter (fun r => negb (existsb (fun x => path_eqb (rpath x) (rpath r)) rs)) tb.

(* a row without rows strictly below it *)
Definition leaf_in (tb : table) (r : row) : bool := negb (existsb (sunder (rpath r)) tb).

(* insert a block after the last row at or below P: it becomes the last child block of P *)
Fixpoint insert_last (tb : table) (P : list str) (rs : table) : table :=
  match tb with
  | [] => rs
  | r :: tb' => if under P r && negb (existsb (under P) tb') then r :: rs ++ tb'
                else r :: insert_last tb' P rs
  end.

(* create the missing prefixes done++[c1], done++[c1;c2], ... as new (untagged, attribute-less) rows *)
Fixpoint ensure (tb : table) (done : list str) (todo : list str) : table :=
  match todo with
  | [] => tb
  | c :: rest =>
      let d := done ++ [c] in
      ensure (if has tb d then tb else insert_last tb done [(d, None, [])]) d rest
  end.

(* an item to attach: the rows of a subtree together with the length of its root's path *)
Definition item := (nat * table)%type.

Definition reroot (P : list str) (fresh : bool) (it : item) : table :=
  map (fun r => (P ++ skipn (fst it - 1) (rpath r), if fresh then None else rtag r, rattrs r)) (snd it).

(* attach the items, in order, as last children of P; None = a child of that name is already there *)
Fixpoint attach_items (tb : table) (P : list str) (fresh : bool) (its : list item) : option table :=
  match its with
  | [] => Some tb
  | it :: rest =>
      match reroot P fresh it with
      | [] => attach_items tb P fresh rest
      | r0 :: rs => if has tb (rpath r0) then None
                    else attach_items (insert_last tb P (r0 :: rs)) P fresh rest
      end
  end.

(* split a table around the block of rows at or below P *)
Fixpoint before_block (tb : table) (P : list str) : table :=
  match tb with
  | [] => []
  | r :: tb' => if under P r then [] else r :: before_block tb' P
  end.
Fixpoint after_block (tb : table) (P : list str) : table :=
  match tb with
  | [] => []
  | r :: tb' => if under P r then filter (fun x => negb (under P x)) tb' else after_block tb' P
  end.

(* ---------------------------------------------------------------------------------------------- *)
(* path strings                                                                                    *)

Record pq := PQ { q_anch : bool; q_comps : list str }.

(* "Path name can be with or without leading tree path separator symbol": one optional leading and
   one optional trailing separator, then the separator-free, non-empty components *)
Definition parse (seps : list str) (sep s : str) : option pq :=
  let anch := startswith s sep in
  let s1 := if anch then skipn (length sep) s else s in
  let s2 := if endswith s1 sep then firstn (length s1 - length sep) s1 else s1 in
  let comps := split s2 sep in
  if forallb (fun c => negb (is_empty c) && forallb (fun sp => negb (contains c sp)) seps) comps
  then Some (PQ anch comps) else None.

Definition path_string (tsep : str) (p : list str) : str := tsep ++ join tsep p.

(* the rows a from-path addresses *)
Definition candidates (full : bool) (ssep : str) (tb : table) (q : pq) : table :=
  if full then filter (at_path (q_comps q)) tb
  else filter (fun r => endswith (path_string ssep (rpath r))
                                 ((if q_anch q then ssep else []) ++ join ssep (q_comps q))) tb.

(* ---------------------------------------------------------------------------------------------- *)
(* the documented edit of one pair                                                                 *)

Inductive pstep :=
| PLenient                          (* the property does not say what happens here *)
| PErr (e : exn)                    (* refused: nothing changes, this exception *)
| PSkip                             (* from-path not found and skippable: nothing changes *)
| PNext (src dst : table).

Definition fin (same : bool) (src : table) (o : option table) : pstep :=
  match o with
  | None => PLenient
  | Some d => if same then PNext d d else PNext src d
  end.

Definition then_minus (copy : bool) (P : list str) (o : option table) : option table :=
  match o with
  | Some d => Some (if copy then d else minus d P)
  | None => None
  end.

(* shift_nodes / copy_nodes / copy_nodes_from_tree_to_tree, DESIGN.md section 7 "C08" row by row.
   pf: the path of the addressed node in the source table; to: the destination path *)
Definition edit_cs (copy same : bool) (fl : mflags) (src dst : table) (pf : list str)
           (to : option (list str)) : pstep :=
  let k := length pf in
  let blockF := sub_rows src pf in
  let rowF := filter (at_path pf) src in
  let plain_items : list item := [(k, if f_dc fl then rowF else blockF)] in
  let child_items : list item :=
    map (fun r => (S k, if f_dc fl then [r] else sub_rows src (rpath r)))
        (filter (fun r => under pf r && Nat.eqb (length (rpath r)) (S k)) src) in
  let leafs := filter (leaf_in src) blockF in
  let leaf_items : list item := map (fun r => (length (rpath r), [r])) leafs in
  let drop_leafs (d : table) := if copy then d else minus_rows d leafs in
  if negb copy && Nat.eqb k 1 then PLenient else
  match to with
  | None =>
      (* deletion together with a merge flag is not described anywhere *)
      if copy || f_mc fl || f_ml fl then PLenient
      else fin same src (Some (minus dst pf))
  | Some pt =>
      let Q := removelast pt in
      if negb (str_eqb (last pf []) (last pt [])) then PLenient else
      if same && path_eqb pt pf then
        if Nat.eqb k 1 then PLenient
        else if f_mc fl then fin same src (attach_items (minus dst pf) Q copy child_items)
        else if f_ml fl then fin same src (attach_items (drop_leafs dst) Q copy leaf_items)
        else PErr TreeError
      (* a destination inside the source subtree: a shift would be a loop; a copy is described only when
         nothing below the source changes before it is copied (destination absent, its parent present) *)
      else if same && pfx pf pt && (negb copy || has dst pt || negb (has dst Q)) then PLenient
      else if has dst pt then
        if f_mc fl && negb (f_over fl) then
          fin same src (then_minus copy pf
                          (attach_items (if copy then dst else minus_strict dst pf) pt copy child_items))
        else if f_ml fl then
          let d0 := if f_over fl then minus_strict dst pt else dst in
          fin same src (attach_items (drop_leafs d0) pt copy leaf_items)
        else if negb (f_over fl) then PErr TreeError
        else if Nat.eqb (length pt) 1 then PLenient
        else
          let d0 := minus dst pt in
          fin same src (attach_items (if copy then d0 else minus d0 pf) Q copy plain_items)
      else
        if Nat.ltb (length pt) 2 then PLenient else
        let d0 := ensure dst [] Q in
        if f_mc fl then
          fin same src (then_minus copy pf
                          (attach_items (if copy then d0 else minus_strict d0 pf) Q copy child_items))
        else if f_ml fl then fin same src (attach_items (drop_leafs d0) Q copy leaf_items)
        else fin same src (attach_items (if copy then d0 else minus d0 pf) Q copy plain_items)
  end.

(* is the row at path A listed after the row at path B? *)
Fixpoint listed_after (tb : table) (A B : list str) : bool :=
  match tb with
  | [] => false
  | r :: tb' => if at_path B r then has tb' A else if at_path A r then false else listed_after tb' A B
  end.

(* shift_and_replace_nodes / copy_and_replace_nodes_from_tree_to_tree *)
Definition edit_rp (copy same : bool) (fl : mflags) (src dst : table) (pf : list str)
           (to : option (list str)) : pstep :=
  let k := length pf in
  match to with
  | None => PLenient
  | Some pt =>
      let Q := removelast pt in
      let np := Q ++ [last pf []] in
      if negb (has dst pt) then PErr NotFoundError
      else if same && path_eqb pt pf then PErr TreeError
      else if Nat.eqb (length pt) 1 then PLenient
      else if same && (pfx pf pt || copy) then PLenient
      else if negb copy && Nat.eqb k 1 then PLenient
      else if has dst np && negb (path_eqb np pt) && negb (same && path_eqb np pf) then PLenient
      else
        let body := if f_dc fl then filter (at_path pf) src else sub_rows src pf in
        let new_rows := reroot Q copy (k, body) in
        if same && path_eqb (removelast pf) Q && listed_after dst pf pt then
          (* the node is already a right sibling of the replaced one: it stays where it is *)
          let d := minus dst pt in
          fin same src (Some (if f_dc fl then minus_strict d pf else d))
        else
          let pre := before_block dst pt in
          let post := after_block dst pt in
          if same then fin same src (Some (minus pre pf ++ new_rows ++ minus post pf))
          else fin same src (Some (pre ++ new_rows ++ post))
  end.

(* ---------------------------------------------------------------------------------------------- *)
(* the whole call                                                                                  *)

Inductive sres :=
| SLenient
| SDone (src dst : table) (e : option exn).

Definition resolve_step (i : minput) (src dst : table) (q : pq) (to : option pq) : pstep :=
  let fl := mi_fl i in
  let same := negb (is_tt (mi_op i)) in
  match candidates (f_full fl) (mi_ssep i) src q with
  | [] => if f_skip fl then PSkip else PErr NotFoundError
  | [r] => if is_replace (mi_op i)
           then edit_rp (is_copy (mi_op i)) same fl src dst (rpath r) (option_map q_comps to)
           else edit_cs (is_copy (mi_op i)) same fl src dst (rpath r) (option_map q_comps to)
  | _ => PErr SearchError
  end.

Fixpoint fold_pairs (i : minput) (src dst : table) (ps : list (pq * option pq)) : sres :=
  match ps with
  | [] => SDone src dst None
  | (q, to) :: rest =>
      match resolve_step i src dst q to with
      | PLenient => SLenient
      | PErr e => SDone src dst (Some e)
      | PSkip => fold_pairs i src dst rest
      | PNext s d => fold_pairs i s d rest
      end
  end.

Fixpoint names_of (t : tree) : list str :=
  match t with T _ n _ ks => n :: flat_map names_of ks end.
Fixpoint tags_of (t : tree) : list nat :=
  match t with T g _ _ ks => match g with Some x => [x] | None => [] end ++ flat_map tags_of ks end.

Fixpoint nodup_paths (l : list (list str)) : bool :=
  match l with
  | [] => true
  | x :: r => negb (existsb (path_eqb x) r) && nodup_paths r
  end.

(* the trees the property quantifies over: paths identify nodes, objects are numbered once, no name
   is empty or contains one of the separators in play *)
Definition trees_ok (i : minput) : bool :=
  let seps := [mi_sep i; mi_ssep i; mi_dsep i] in
  let ts := if is_tt (mi_op i) then [mi_src i; mi_dst i] else [mi_src i] in
  forallb (fun sp => negb (is_empty sp)) seps
  && forallb (fun t => nodup_paths (map rpath (rows t))) ts
  && nodupb (flat_map tags_of ts)
  && forallb (fun n => negb (is_empty n) && forallb (fun sp => negb (contains n sp)) seps)
             (flat_map names_of ts).

Definition parse_to (seps : list str) (sep : str) (o : option str) : option (option pq) :=
  match truthy o with
  | None => Some None
  | Some s => match parse seps sep s with Some q => Some (Some q) | None => None end
  end.

Fixpoint all_some {A} (l : list (option A)) : option (list A) :=
  match l with
  | [] => Some []
  | Some x :: r => match all_some r with Some xs => Some (x :: xs) | None => None end
  | None :: _ => None
  end.

(* result: (did the pair list pass the argument checks, what the call has to produce) *)
Definition spec_call (i : minput) (fps : list str) (tps : list (option str)) : bool * sres :=
  let fl := mi_fl i in
  let rp := is_replace (mi_op i) in
  let tt := is_tt (mi_op i) in
  let src := rows (mi_src i) in
  let dst := if tt then rows (mi_dst i) else src in
  let seps := [mi_sep i; mi_ssep i; mi_dsep i] in
  let refused := (false, SDone src dst (Some ValueError)) in
  if negb (trees_ok i) then (false, SLenient) else
  if negb rp && f_mc fl && f_ml fl then refused else
  if negb (Nat.eqb (length fps) (length tps)) then refused else
  if negb rp && is_copy (mi_op i) && existsb (fun o => match truthy o with None => true | _ => false end) tps
  then refused else
  match all_some (map (parse seps (mi_sep i)) fps), all_some (map (parse_to seps (mi_sep i)) tps) with
  | Some qs, Some tos =>
      let ps := combine qs tos in
      if negb rp && existsb (fun p => match snd p with
                                      | Some t => negb (str_eqb (last (q_comps (fst p)) []) (last (q_comps t) []))
                                      | None => false
                                      end) ps then refused else
      if f_full fl && existsb (fun q => negb (str_eqb (hd [] (q_comps q)) (tname (mi_src i)))) qs then refused else
      if existsb (fun o => match o with
                           | Some t => negb (str_eqb (hd [] (q_comps t)) (tname (if tt then mi_dst i else mi_src i)))
                           | None => false
                           end) tos then refused else
      (true, fold_pairs i src dst ps)
  | _, _ => (false, SLenient)
  end.

(* ---------------------------------------------------------------------------------------------- *)
(* observations and the property                                                                   *)

(* pre-order (depth, tag, name, attrs) of a tree, as the harness records it (root depth = 1) *)
Definition orow := (nat * option nat * str * attrs)%type.

Fixpoint flatten (d : nat) (t : tree) : list orow :=
  match t with T g n a ks => (d, g, n, a) :: flat_map (flatten (S d)) ks end.

Fixpoint table_of_obs (cur : list str) (l : list orow) : table :=
  match l with
  | [] => []
  | (d, g, n, a) :: r => let p := firstn (d - 1) cur ++ [n] in (p, g, a) :: table_of_obs p r
  end.

Record mobs := MO { o_code : nat; o_src : list orow; o_dst : list orow }.

Definition row_eqb (a b : row) : bool :=
  path_eqb (rpath a) (rpath b) && opt_eqb Nat.eqb (rtag a) (rtag b) && attrs_eqb (rattrs a) (rattrs b).
Definition table_eqb (a b : table) : bool := list_eqb row_eqb a b.

Definition orow_eqb (a b : orow) : bool :=
  match a, b with
  | (d1, g1, n1, a1), (d2, g2, n2, a2) =>
      Nat.eqb d1 d2 && opt_eqb Nat.eqb g1 g2 && str_eqb n1 n2 && attrs_eqb a1 a2
  end.
Definition obs_eqb (a b : mobs) : bool :=
  Nat.eqb (o_code a) (o_code b) && list_eqb orow_eqb (o_src a) (o_src b) && list_eqb orow_eqb (o_dst a) (o_dst b).

Definition code_of (e : option exn) : nat := match e with None => 0 | Some x => exn_code x end.

(* the tables a call left behind are the documented ones *)
Definition matches (i : minput) (r : sres) (o : mobs) : bool :=
  match r with
  | SLenient => true
  | SDone s d e =>
      Nat.eqb (o_code o) (code_of e)
      && table_eqb (table_of_obs [] (o_src o)) s
      && (negb (is_tt (mi_op i)) || table_eqb (table_of_obs [] (o_dst o)) d)
  end.

(* o: what the call with the whole pair list left behind; oseq: what the same pairs, one call per pair
   on an identical tree, left behind (given when there are at least two pairs) *)
Definition prop_C08 (i : minput) (o : mobs) (oseq : option mobs) : bool :=
  let (valid, r) := spec_call i (mi_from i) (mi_to i) in
  matches i r o
  && match oseq with
     | Some o2 => negb valid || match r with SLenient => true | _ => obs_eqb o o2 end
     | None => true
     end.
