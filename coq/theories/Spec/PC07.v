(* C07 as boolean predicates over *observations*: the signature of the input tree (before / after
   the call / after a later mutation of the result), the identity sets of both sides, and the tree
   that was handed back.  Written from the property text:

     "... leave every node of the input tree with the same parent, children order, name and
      attributes as before.  Any tree they return is built from fresh node objects, is equal to the
      corresponding part of the input, and later changes to either side are not visible on the
      other."

   Nothing here refers to the effect-skeleton model (Heap/Effects.v). *)
From BT Require Import Base.Prelude.

(* attribute: key, content (canonical rendering of the value, interned), address of the value
   object (0 for immutable scalars) *)
Definition attr := (nat * nat * nat)%type.

(* one node of the input.  Node objects are numbered 0..n-1 before the call (pre-order); any other
   object that shows up in a link gets a number >= n.  e_priv = None: the name-mangled private link
   fields hold exactly what the public getters return; Some (p, l) otherwise.
   e_pars: the parent ([] or [p]) of a tree node, the parents in order of a DAGNode. *)
Record entry := E {
  e_pars : list id;
  e_kids : list (option id);            (* None: an empty BinaryNode slot *)
  e_name : str;
  e_attrs : list attr;
  e_priv : option (list id * list (option id));
  e_path : nat                          (* the node's (sep, path_name), interned like attribute contents; 0 for DAG nodes *)
}.

(* sg_walk: pre-order walk from the original root object through the public children getter *)
Record sig := SG { sg_walk : list id; sg_entries : list entry }.

(* a tree as it is found by walking children from some node *)
Inductive rt := RT (rid : id) (nm : str) (attrs : list attr) (klist : nat) (kids : list (option rt)).

Definition oid_eqb := opt_eqb Nat.eqb.
Definition kids_eqb := list_eqb oid_eqb.
Definition attr_eqb (a b : attr) : bool :=
  let '(k, c, _) := a in let '(k', c', _) := b in Nat.eqb k k' && Nat.eqb c c'.
Definition attrs_eqb := list_eqb attr_eqb.
Definition priv_eqb := opt_eqb (fun a b : list id * list (option id) =>
                                  list_eqb Nat.eqb (fst a) (fst b) && kids_eqb (snd a) (snd b)).

(* parent, children order, name, attributes (+ the private link fields) *)
Definition entry_eqb (a b : entry) : bool :=
  list_eqb Nat.eqb (e_pars a) (e_pars b) && kids_eqb (e_kids a) (e_kids b) && str_eqb (e_name a) (e_name b)
  && attrs_eqb (e_attrs a) (e_attrs b) && priv_eqb (e_priv a) (e_priv b)
  && Nat.eqb (e_path a) (e_path b).

(* "every node of the input tree has the same parent, children order, name and attributes" *)
Definition sig_eqb (before after : sig) : bool :=
  list_eqb Nat.eqb (sg_walk before) (sg_walk after)
  && list_eqb entry_eqb (sg_entries before) (sg_entries after).

(* "built from fresh objects": the two identity sets do not meet *)
Definition disjoint_ids (a b : list nat) : bool := forallb (fun x => negb (memb x b)) a.

Fixpoint rt_ids (t : rt) : list id :=
  match t with
  | RT i _ _ _ ks => i :: flat_map (fun o => match o with Some k => rt_ids k | None => [] end) ks
  end.

(* the same tree, node for node (identity included): used for "a later change of the input does not
   show on the result" *)
Fixpoint rt_eqb (a b : rt) : bool :=
  match a, b with
  | RT i n at_ _ ks, RT i' n' at' _ ks' =>
      Nat.eqb i i' && str_eqb n n' && attrs_eqb at_ at'
      && (fix go (l l' : list (option rt)) : bool :=
            match l, l' with
            | [], [] => true
            | Some x :: t, Some y :: t' => rt_eqb x y && go t t'
            | None :: t, None :: t' => go t t'
            | _, _ => false
            end) ks ks'
  end.

(* the part of the input below node i, read off the signature (fuel: the number of nodes) *)
Fixpoint sub_rt (fuel : nat) (s : sig) (i : id) : rt :=
  match nth_error (sg_entries s) i with
  | None => RT i [] [] 0 []
  | Some e =>
      RT i (e_name e) (e_attrs e) 0
         (match fuel with
          | 0 => []
          | S f => map (fun o => match o with Some k => Some (sub_rt f s k) | None => None end) (e_kids e)
          end)
  end.

(* slot by slot the same names, attributes and shape (identities ignored) *)
Fixpoint same_tree (r e : rt) : bool :=
  match r, e with
  | RT _ n at_ _ ks, RT _ n' at' _ ks' =>
      str_eqb n n' && attrs_eqb at_ at'
      && (fix go (l l' : list (option rt)) : bool :=
            match l, l' with
            | [], [] => true
            | Some x :: t, Some y :: t' => same_tree x y && go t t'
            | None :: t, None :: t' => go t t'
            | _, _ => false
            end) ks ks'
  end.

Definition somes {A} (l : list (option A)) : list A :=
  flat_map (fun o => match o with Some x => [x] | None => [] end) l.

Definition rt_kids (t : rt) : list (option rt) := match t with RT _ _ _ _ ks => ks end.

(* r is an order-preserving part of e: same name and attributes at the root, and the children of r
   correspond, in order, to some of the children of e, recursively *)
Fixpoint part_of (r e : rt) : bool :=
  match r, e with
  | RT _ n at_ _ ks, RT _ n' at' _ ks' =>
      str_eqb n n' && attrs_eqb at_ at'
      && (fix scan (rl : list (option rt)) (el : list rt) : bool :=
            match rl with
            | [] => true
            | None :: rl' => scan rl' el
            | Some rk :: rl' =>
                (fix find (el : list rt) : bool :=
                   match el with
                   | [] => false
                   | ek :: et => if part_of rk ek then scan rl' et else find et
                   end) el
            end) ks (somes ks')
  end.

(* "is equal to the corresponding part of the input".  anchor: the input node the root of the
   result stands for; exact: the whole subtree is expected (copy, deepcopy, clone, get_subtree without
   depth limit) rather than a part of it (prune_tree, depth-limited subtree). *)
Definition result_equal_part (exact : bool) (before : sig) (anchor : id) (result : rt) : bool :=
  let e := sub_rt (length (sg_entries before)) before anchor in
  Nat.ltb anchor (length (sg_entries before))
  && if exact then same_tree result e else part_of result e.

(* ------------------------------------------------------------------------------------------ *)
(* DAGs: what was handed back is a set of nodes (found by following parents and children from the
   returned node), each with its identity and its entry *)

Definition dnode := (id * entry)%type.

Definition dres_eqb (a b : list dnode) : bool :=
  list_eqb (fun x y : dnode => Nat.eqb (fst x) (fst y) && entry_eqb (snd x) (snd y)) a b.

Definition dres_ids (l : list dnode) : list id :=
  flat_map (fun d : dnode => fst d :: e_pars (snd d) ++ somes (e_kids (snd d))) l.

Fixpoint find_name (nm : str) (es : list entry) (i : nat) : option id :=
  match es with
  | [] => None
  | e :: t => if str_eqb (e_name e) nm then Some i else find_name nm t (S i)
  end.

(* node names are unique in a DAG: a result node stands for the input node of the same name; an
   input object stands for itself *)
Definition stands_for (before : sig) (res : list dnode) (rid : id) : option id :=
  if Nat.ltb rid (length (sg_entries before)) then Some rid else
  match find (fun d : dnode => Nat.eqb (fst d) rid) res with
  | Some d => find_name (e_name (snd d)) (sg_entries before) 0
  | None => None
  end.

(* "equal to the corresponding part": every result node has the attributes of the input node it
   stands for, its parents and children stand, in order, for that node's parents and children (so
   the result is closed under the links of the input and nothing dangles), distinct result nodes
   stand for distinct input nodes, and the returned node stands for the start node *)
Definition dag_equal_part (before : sig) (start : id) (res : list dnode) (ret : id) : bool :=
  let es := sg_entries before in
  let m := stands_for before res in
  forallb (fun d : dnode =>
             match m (fst d) with
             | None => false
             | Some i =>
                 match nth_error es i with
                 | None => false
                 | Some e =>
                     str_eqb (e_name (snd d)) (e_name e) && attrs_eqb (e_attrs (snd d)) (e_attrs e)
                     && list_eqb oid_eqb (map m (e_pars (snd d))) (map Some (e_pars e))
                     && list_eqb oid_eqb (map (fun o => match o with Some k => m k | None => None end) (e_kids (snd d)))
                                 (e_kids e)
                 end
             end) res
  && nodupb (flat_map (fun d : dnode => match m (fst d) with Some i => [i] | None => [] end) res)
  && oid_eqb (m ret) (Some start)
  && existsb (fun d : dnode => Nat.eqb (fst d) ret) res.
