(* Boolean forms of the BinaryNode properties (C11, and the BinaryNode share of C02 / C20), written
   from the property text.  The same predicates are (a) proved of the model for every history
   (Props/C11.v) and (b) evaluated on the states the implementation actually produced
   (Corr/BinaryCorr.v). *)
From BT Require Import Base.Prelude Heap.Forest Heap.Binary.

Definition bids (n : nat) : list id := seq 0 n.

Definition boid_eqb := opt_eqb Nat.eqb.
Definition bslots_eqb := list_eqb boid_eqb.

(* number of slots of l that hold node c *)
Fixpoint occ (c : id) (l : list (option id)) : nat :=
  match l with
  | [] => 0
  | Some y :: t => (if Nat.eqb c y then 1 else 0) + occ c t
  | None :: t => occ c t
  end.

(* content of slot j of node q (None: empty) *)
Definition slot_at (s : bheap) (q : id) (j : nat) : option id := nth j (bkids s q) None.

(* walking parents from c for `fuel` steps reaches a root *)
Fixpoint breaches_root (s : bheap) (fuel : nat) (c : id) : bool :=
  match bpar s c with
  | None => true
  | Some p => match fuel with 0 => false | S f => breaches_root s f p end
  end.

(* BWF, decidable on the live ids: every node has exactly two slots; a slot is empty or holds a live
   node whose parent is this node; a node with a parent occupies exactly one slot of that parent
   (hence no slot of any other node); no node is its own ancestor. *)
Definition bwf_b (s : bheap) : bool :=
  let n := bsize s in
  forallb (fun p =>
    Nat.eqb (length (bkids s p)) 2
    && forallb (fun o => match o with
                         | None => true
                         | Some c => Nat.ltb c n && boid_eqb (bpar s c) (Some p)
                                     && Nat.eqb (occ c (bkids s p)) 1
                         end) (bkids s p)) (bids n)
  && forallb (fun c =>
       match bpar s c with
       | None => true
       | Some p => Nat.ltb p n && Nat.eqb (occ c (bkids s p)) 1
       end && breaches_root s n c) (bids n).

(* `left` and `right` are those two slots: what the getters returned (None = the getter raised) is
   slot 0 / slot 1 of the children tuple *)
Definition getters_ok_b (s : bheap) (lr : id -> option (option id) * option (option id)) : bool :=
  forallb (fun p =>
    opt_eqb boid_eqb (fst (lr p)) (nth_error (bkids s p) 0)
    && opt_eqb boid_eqb (snd (lr p)) (nth_error (bkids s p) 1)
    && match fst (lr p), snd (lr p) with Some _, Some _ => true | _, _ => false end) (bids (bsize s)).

(* parent and slot data of two states agree on all live ids *)
Definition bsame_links (s t : bheap) : bool :=
  Nat.eqb (bsize s) (bsize t)
  && forallb (fun x => boid_eqb (bpar s x) (bpar t x) && bslots_eqb (bkids s x) (bkids t x))
             (bids (bsize s)).

(* -- per-step clauses, stated on (state before, operation, state after, accepted?) ---------- *)

(* x now sits in slot i of p, its parent is p, and every other slot that held x before is empty
   (no longer holds x, when it is the other slot of p itself) *)
Definition moved_ok (before after : bheap) (x p : id) (i : nat) : bool :=
  boid_eqb (slot_at after p i) (Some x)
  && boid_eqb (bpar after x) (Some p)
  && forallb (fun q =>
       forallb (fun j =>
         if boid_eqb (slot_at before q j) (Some x) && negb (Nat.eqb q p && Nat.eqb j i)
         then (if Nat.eqb q p then negb (boid_eqb (slot_at after q j) (Some x))   (* p's other slot may be re-filled by the same call *)
               else boid_eqb (slot_at after q j) None)
         else true)
         (seq 0 (length (bkids before q))))
       (bids (bsize before)).

(* the slot i of p is empty afterwards and the node that sat there (if any, and if it was not moved
   to the other slot) has no parent *)
Definition emptied_ok (before after : bheap) (p : id) (i : nat) : bool :=
  boid_eqb (slot_at after p i) None
  && match slot_at before p i with
     | Some y => if boid_eqb (slot_at after p (1 - i)) (Some y) then true
                 else boid_eqb (bpar after y) None
     | None => true
     end.

Definition assigned_ok (before after : bheap) (p : id) (i : nat) (a : arg) : bool :=
  match a with
  | ANode x => moved_ok before after x p i
  | ANone => emptied_ok before after p i
  | AJunk => false                       (* a non-node is never accepted into a slot *)
  end.

(* "Assigning a child to a slot empties the slot it came from" (left / right / children setters;
   the left setter leaves the right slot alone and vice versa) *)
Definition slot_moves_b (before : bheap) (o : bop) (after : bheap) (accepted : bool) : bool :=
  if negb accepted then true else
  match o with
  | BSetLeft p a _ =>
      assigned_ok before after p 0 a && boid_eqb (slot_at after p 1) (slot_at before p 1)
  | BSetRight p a _ =>
      assigned_ok before after p 1 a && boid_eqb (slot_at after p 0) (slot_at before p 0)
  | BSetChildren p _ args _ =>
      match args with
      | [] => emptied_ok before after p 0 && emptied_ok before after p 1
      | [a; b] => assigned_ok before after p 0 a && assigned_ok before after p 1 b
      | _ => false                       (* only length 0 or 2 may be accepted *)
      end
  | _ => true
  end.

(* "attaching by parent fills the first empty slot (left before right)"; the node's own old slot
   counts as empty when it is re-attached to the parent it already has.  Detaching (parent = None)
   leaves the node in no slot. *)
Definition parent_first_empty_b (before : bheap) (o : bop) (after : bheap) (accepted : bool) : bool :=
  if negb accepted then true else
  match o with
  | BSetParent c (ANode p) _ =>
      let un := fun o => if boid_eqb o (Some c) then None else o in
      let l0 := un (slot_at before p 0) in
      let l1 := un (slot_at before p 1) in
      boid_eqb (bpar after c) (Some p)
      && match l0 with
         | None => boid_eqb (slot_at after p 0) (Some c) && boid_eqb (slot_at after p 1) l1
         | Some _ => boid_eqb (slot_at after p 0) l0 && boid_eqb (slot_at after p 1) (Some c)
         end
      && moved_ok before after c p (match l0 with None => 0 | Some _ => 1 end)
  | BSetParent c ANone _ =>
      boid_eqb (bpar after c) None
      && forallb (fun q => Nat.eqb (occ c (bkids after q)) 0) (bids (bsize after))
  | BSetParent c AJunk _ => false
  | _ => true
  end.

(* a is a proper ancestor of x (walk of at most `fuel` parent links) *)
Fixpoint is_anc_b (s : bheap) (fuel : nat) (a x : id) : bool :=
  match fuel with
  | 0 => false
  | S f => match bpar s x with
           | None => false
           | Some q => Nat.eqb q a || is_anc_b s f a q
           end
  end.

(* "... or is refused when both are taken" (by two nodes other than the one being attached) — and,
   when no hook fails, only then or when the assignment would create a loop *)
Definition full_refused_b (before : bheap) (o : bop) (accepted : bool) : bool :=
  match o with
  | BSetParent c (ANode p) ft =>
      let taken := fun o => match o with Some x => negb (Nat.eqb x c) | None => false end in
      let full := taken (slot_at before p 0) && taken (slot_at before p 1) in
      let loop := Nat.eqb p c || is_anc_b before (bsize before) c p in
      if full then negb accepted
      else if fault_eqb ft NoFault && negb loop then accepted
      else true
  | _ => true
  end.

(* "deleting children empties both slots" (and is never refused; the former children are roots) *)
Definition del_empties_b (before : bheap) (o : bop) (after : bheap) (accepted : bool) : bool :=
  match o with
  | BDelChildren p =>
      accepted
      && bslots_eqb (bkids after p) [None; None]
      && forallb (fun o => match o with Some x => boid_eqb (bpar after x) None | None => true end)
                 (bkids before p)
  | _ => true
  end.

(* C11 on one step *)
Definition prop_C11_step (before : bheap) (o : bop) (after : bheap) (accepted : bool) : bool :=
  bwf_b after
  && slot_moves_b before o after accepted
  && parent_first_empty_b before o after accepted
  && full_refused_b before o accepted
  && del_empties_b before o after accepted.

(* C02 (BinaryNode share): a rejected / failing assignment leaves all parent / slot data identical.
   (extend and the constructor are sequences of assignments; their earlier, accepted assignments
   stay — they are covered assignment by assignment.) *)
Definition prop_C02_bstep (before : bheap) (o : bop) (after : bheap) (accepted : bool) : bool :=
  match o with
  | BExtend _ _ _ | BNew _ _ _ _ _ _ => true
  | _ => if accepted then true else bsame_links before after
  end.
