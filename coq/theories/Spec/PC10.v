(* Boolean forms of the DAG properties (C10, DAGNode share of C02).  Written from the property
   text: symmetry of the two link lists, no repeated member, acyclicity by the textbook peeling
   (Kahn) argument, edge-set effects of every operation, and which assignments have to be refused.
   Nothing here calls the model's setters or its `ancestors`; only the state record, the operation
   syntax and the projection `ids_of` are shared with Heap/Dag.v.

   The predicates are (a) proved of the model for every history (Props/C10.v) and (b) evaluated on
   the states the implementation actually produced (Corr/DagCorr.v). *)
From BT Require Import Base.Prelude Heap.Dag.

Definition dids (n : nat) : list id := seq 0 n.
Definition idl_eqb := list_eqb Nat.eqb.

(* the two states have the same objects and identical parents / children lists (order included) *)
Definition same_dlinks (s t : dag) : bool :=
  Nat.eqb (dsize s) (dsize t)
  && forallb (fun x => idl_eqb (parents s x) (parents t x) && idl_eqb (children s x) (children t x))
             (dids (dsize s)).

(* ---------------------------------------------------------------------------------------- *)
(* well-formedness *)

(* "p lists c as a child exactly when c lists p as a parent", links stay among the live objects,
   "no edge is listed twice" *)
Definition dlinks_ok_b (s : dag) : bool :=
  let n := dsize s in
  forallb (fun x =>
    nodupb (parents s x) && nodupb (children s x)
    && forallb (fun p => Nat.ltb p n && memb x (children s p)) (parents s x)
    && forallb (fun c => Nat.ltb c n && memb x (parents s c)) (children s x)) (dids n).

(* "no node is its own ancestor": repeatedly drop the nodes none of whose parents is still
   present; a finite graph is acyclic iff nothing is left (after at most n rounds) *)
Definition peel (s : dag) (live : list id) : list id :=
  filter (fun x => existsb (fun p => memb p live) (parents s x)) live.
Fixpoint peel_n (s : dag) (k : nat) (live : list id) : list id :=
  match k with 0 => live | S k' => peel_n s k' (peel s live) end.
Definition acyclic_b (s : dag) : bool :=
  match peel_n s (dsize s) (dids (dsize s)) with [] => true | _ => false end.

Definition dwf_b (s : dag) : bool := dlinks_ok_b s && acyclic_b s.

(* ---------------------------------------------------------------------------------------- *)
(* edges and reachability (downwards, through the children lists) *)

Definition edge_b (s : dag) (p c : id) : bool := memb c (children s p).

(* a is a proper ancestor of b: some child of a is b or reaches b *)
Fixpoint reach_b (s : dag) (fuel : nat) (a b : id) : bool :=
  match fuel with
  | 0 => false
  | S f => existsb (fun k => Nat.eqb k b || reach_b s f k b) (children s a)
  end.

(* adding the edge p -> c would create a self-loop or close a cycle *)
Definition closes_loop_b (s : dag) (p c : id) : bool :=
  Nat.eqb p c || reach_b s (dsize s) c p.

Definition pair_mem (p c : id) (l : list (id * id)) : bool :=
  existsb (fun e => Nat.eqb (fst e) p && Nat.eqb (snd e) c) l.

Definition all_pairs (n : nat) (f : id -> id -> bool) : bool :=
  forallb (fun p => forallb (f p) (dids n)) (dids n).

(* ---------------------------------------------------------------------------------------- *)
(* per-step clauses, stated on (state before, operation, state after) *)

Definition is_assignment (o : dop) : bool :=
  match o with DelKids _ | DelKid _ _ => false | _ => true end.

(* the edges an assignment asks for; the object a constructor call creates has id = dsize before *)
Definition requested (before : dag) (o : dop) : list (id * id) :=
  match o with
  | SetParents c _ args _ => map (fun p => (p, c)) (ids_of args)
  | SetKids p _ args _ => map (fun x => (p, x)) (ids_of args)
  | DRShift p c _ | DLShift c p _ => [(p, c)]
  | DNew _ pa ca _ _ =>
      let x := dsize before in
      map (fun p => (p, x)) (ids_of (carg_args pa)) ++ map (fun c => (x, c)) (ids_of (carg_args ca))
  | _ => []
  end.

(* "assignments only add edges" *)
Definition only_adds_b (before after : dag) : bool :=
  all_pairs (dsize before) (fun p c => implb (edge_b before p c) (edge_b after p c)).

(* an accepted assignment adds exactly the requested edges *)
Definition adds_exactly_b (before : dag) (req : list (id * id)) (after : dag) : bool :=
  all_pairs (dsize after) (fun p c => Bool.eqb (edge_b after p c) (edge_b before p c || pair_mem p c req)).

(* "deleting removes exactly the named edges" *)
Definition delete_exact_b (before : dag) (o : dop) (after : dag) : bool :=
  match o with
  | DelKids p =>
      all_pairs (dsize after) (fun q c => Bool.eqb (edge_b after q c) (edge_b before q c && negb (Nat.eqb q p)))
  | DelKid p nm =>
      match filter (fun k => str_eqb (dname before k) nm) (children before p) with
      | [] => all_pairs (dsize after) (fun q c => Bool.eqb (edge_b after q c) (edge_b before q c))
      | [k] => all_pairs (dsize after) (fun q c =>
                 Bool.eqb (edge_b after q c) (edge_b before q c && negb (Nat.eqb q p && Nat.eqb c k)))
      | _ => false            (* an ambiguous name names no edge: must not be accepted *)
      end
  | _ => true
  end.

Fixpoint has_junk (args : list darg) : bool :=
  match args with [] => false | DNode _ :: t => has_junk t | _ :: _ => true end.

(* "an assignment that would create a self-loop, a cycle or a repeated member is refused"
   (a member that is not a DAGNode counts as well) *)
Definition must_reject_b (before : dag) (o : dop) : bool :=
  match o with
  | SetParents c _ args _ =>
      has_junk args || negb (nodupb (ids_of args)) || existsb (fun p => closes_loop_b before p c) (ids_of args)
  | SetKids p _ args _ =>
      has_junk args || negb (nodupb (ids_of args)) || existsb (fun x => closes_loop_b before p x) (ids_of args)
  | DRShift p c _ | DLShift c p _ => closes_loop_b before p c
  | DNew _ pa ca _ _ =>
      let ps := ids_of (carg_args pa) in
      let cs := ids_of (carg_args ca) in
      has_junk (carg_args pa) || has_junk (carg_args ca) || negb (nodupb ps) || negb (nodupb cs)
      (* x fresh: p -> x -> c closes a cycle iff c is p or an ancestor of p *)
      || existsb (fun c => existsb (fun p => closes_loop_b before p c) ps) cs
  | _ => false
  end.

(* C10, one step: well-formed afterwards; an accepted assignment only adds edges, and adds exactly
   the requested ones; an accepted deletion removes exactly the named edges; with the checks on,
   an assignment that has to be refused is not accepted. *)
Definition prop_C10_step (cfg : dconfig) (before : dag) (o : dop) (after : dag) (accepted : bool) : bool :=
  dwf_b after &&
  (if accepted
   then (if is_assignment o
         then only_adds_b before after && adds_exactly_b before (requested before o) after
         else Nat.eqb (dsize after) (dsize before) && delete_exact_b before o after)
        && negb (dassertions cfg && must_reject_b before o)
   else true).

(* C02 (DAGNode): a rejected / failing assignment changes nothing.  A constructor call is two
   assignments (parents, then children): when it raises, either nothing is linked, or exactly the
   parents assignment is in place (the children assignment failed and was undone completely). *)
Definition prop_C02_dag_step (before : dag) (o : dop) (after : dag) (accepted : bool) : bool :=
  if accepted then true else
  match o with
  | DNew _ pa _ _ _ =>
      let x := dsize before in
      Nat.eqb (dsize after) (S x) && dlinks_ok_b after
      && (adds_exactly_b before [] after
          || adds_exactly_b before (map (fun p => (p, x)) (ids_of (carg_args pa))) after)
      && forallb (fun y => idl_eqb (children before y) (firstn (length (children before y)) (children after y))
                        && idl_eqb (parents before y) (parents after y)) (dids x)
  | _ => same_dlinks before after
  end.
