(* C13 as boolean predicates on (input, what the constructor returned).  Written from the property text:

   "A tree built from parent-child relations (list, pandas or polars) has exactly the given names as nodes and
    exactly the given pairs as edges, rooted at the one name that is never a child, with children in order of
    appearance and attributes on the rows' child nodes; inputs with no or several possible roots, or an ambiguous
    repeated non-leaf name, are refused.  A tree built from a nested dictionary mirrors the nesting exactly, and a
    binary tree built from a list places the element at position i as the child of the element at position
    (i-1)//2, left for odd i and right for even i."

   Only the *input types* (row, nd, hbt) and `is_null` are taken from Algo/Relation.v; no model function is used. *)
From BT Require Import Base.Prelude Base.Str Base.Rose Algo.Relation.

(* what a constructor did: returned a value, or raised (class code of Prelude.exn_code; never inspected here) *)
Inductive out (A : Type) := Acc (a : A) | Rej (code : nat).
Arguments Acc {A} a.
Arguments Rej {A} code.

(* ---------------------------------------------------------------------------------------------- *)
(* comparison of trees: names, shape, sibling order, attributes as a key -> value map *)

Definition attr_in (kv : str * val) (b : attrs) : bool :=
  existsb (fun kv' => str_eqb (fst kv) (fst kv') && val_eqb (snd kv) (snd kv')) b.
Definition attrs_equ (a b : attrs) : bool :=
  Nat.eqb (length a) (length b) && forallb (fun kv => attr_in kv b) a && forallb (fun kv => attr_in kv a) b.

Fixpoint forall2b {A B} (f : A -> B -> bool) (x : list A) (y : list B) : bool :=
  match x, y with
  | [], [] => true
  | a :: x', b :: y' => f a b && forall2b f x' y'
  | _, _ => false
  end.

Fixpoint tree_equ (a b : tree) : bool :=
  match a, b with
  | T _ n at1 ks, T _ m at2 ls =>
      str_eqb n m && attrs_equ at1 at2 &&
      (fix go (x y : list tree) : bool :=
         match x, y with
         | [], [] => true
         | p :: x', q :: y' => tree_equ p q && go x' y'
         | _, _ => false
         end) ks ls
  end.

(* ---------------------------------------------------------------------------------------------- *)
(* relations *)

Definition null_parent (r : row) : bool := match rparent r with None => true | Some _ => false end.
Definition has_parent (r : row) (p : str) : bool :=
  match rparent r with Some q => str_eqb q p | None => false end.
Definition same_parent (r1 r2 : row) : bool :=
  match rparent r1, rparent r2 with
  | None, None => true
  | Some p, Some q => str_eqb p q
  | _, _ => false
  end.

Definition occurs_as_child (rows : list row) (x : str) : bool := existsb (fun r => str_eqb (rchild r) x) rows.
Definition occurs_as_parent (rows : list row) (x : str) : bool := existsb (fun r => has_parent r x) rows.

(* "the one name that is never a child": a name given with an empty parent, or a parent name that no row has
   as its child *)
Definition root_candidate (rows : list row) (x : str) : bool :=
  existsb (fun r => str_eqb (rchild r) x && null_parent r) rows
  || (occurs_as_parent rows x && negb (occurs_as_child rows x)).

Definition all_names (rows : list row) : list str :=
  flat_map (fun r => rchild r :: match rparent r with Some p => [p] | None => [] end) rows.

(* Some r when r is the only root candidate *)
Definition the_root (rows : list row) : option str :=
  match filter (root_candidate rows) (all_names rows) with
  | [] => None
  | x :: t => if forallb (str_eqb x) t then Some x else None
  end.

(* an ambiguous repeated non-leaf name: a name listed under two different parents that is itself a parent *)
Definition ambiguous (rows : list row) : bool :=
  existsb (fun r1 =>
    occurs_as_parent rows (rchild r1)
    && existsb (fun r2 => str_eqb (rchild r1) (rchild r2) && negb (same_parent r1 r2)) rows) rows.

Definition nonnull_attrs (r : row) : attrs := filter (fun kv => negb (is_null (snd kv))) (rattrs r).

(* the children of node n are exactly the rows that name n as parent, in order of appearance, each carrying the
   non-null attributes of its own row *)
Definition node_ok (rows : list row) (n : tree) : bool :=
  forall2b (fun k r => str_eqb (tname k) (rchild r) && attrs_equ (tattrs k) (nonnull_attrs r))
           (tkids n) (filter (fun r => has_parent r (tname n)) rows).

Definition root_attrs_ok (rows : list row) (t : tree) : bool :=
  match filter (fun r => str_eqb (rchild r) (tname t)) rows with
  | r :: _ => attrs_equ (tattrs t) (nonnull_attrs r)
  | [] => match tattrs t with [] => true | _ => false end
  end.

(* following "the row whose child is x" upwards reaches the root *)
Fixpoint climbs (fuel : nat) (rows : list row) (root x : str) : bool :=
  str_eqb x root ||
  match fuel with
  | 0 => false
  | S f => match find (fun r => str_eqb (rchild r) x) rows with
           | Some r => match rparent r with Some p => climbs f rows root p | None => false end
           | None => false
           end
  end.

Fixpoint nodup_pairs (rows : list row) : bool :=
  match rows with
  | [] => true
  | r :: t => negb (existsb (fun r' => str_eqb (rchild r) (rchild r') && same_parent r r') t) && nodup_pairs t
  end.

(* the rows are the parent-child relations of a tree whose repeated names are all leaves, in some order *)
Definition presents_tree (rows : list row) : bool :=
  match rows, the_root rows with
  | _ :: _, Some root =>
      negb (ambiguous rows) && nodup_pairs rows
      && match root with [] => false | _ => true end               (* a Node has a non-empty name *)
      && forallb (fun r => match rchild r with [] => false | _ => true end) rows
      && forallb (fun r => match rparent r with
                           | None => str_eqb (rchild r) root
                           | Some p => climbs (length rows) rows root p
                           end) rows
  | _, _ => false
  end.

Definition prop_rel (allow_duplicates : bool) (rows : list row) (o : out tree) : bool :=
  match o with
  | Rej _ => negb (presents_tree rows)           (* a tree's relations must be accepted *)
  | Acc t =>
      match rows, the_root rows with
      | _ :: _, Some root =>                                       (* no / several roots: refused *)
          str_eqb (tname t) root
          && (allow_duplicates || negb (ambiguous rows))           (* ambiguous non-leaf name: refused *)
          && forallb (node_ok rows) (pre t)                        (* edges, sibling order, attributes *)
          && root_attrs_ok rows t
      | _, _ => false
      end
  end.

(* edges (parent name, child name) of a tree in pre-order / sibling order: the observation the property names *)
Definition edges (t : tree) : list (str * str) :=
  flat_map (fun n => map (fun k => (tname n, tname k)) (tkids n)) (pre t).

(* ---------------------------------------------------------------------------------------------- *)
(* nested dictionaries *)

Fixpoint lookup_key (k : str) (l : list (str * val)) : option val :=
  match l with
  | [] => None
  | (k', v) :: t => if str_eqb k k' then Some v else lookup_key k t
  end.

Fixpoint distinct_names (l : list str) : bool :=
  match l with
  | [] => true
  | x :: t => negb (existsb (str_eqb x) t) && distinct_names t
  end.

(* the tree a well-formed nested dictionary denotes: None when some dictionary lacks a (non-empty string) name,
   holds a non-list under the children key, or lists two children of the same name *)
Fixpoint mirror (name_key : str) (d : nd) : option tree :=
  match d with
  | ND entries kind kids =>
      match lookup_key name_key entries, kind with
      | Some (VStr (c :: nm)), CMissing =>
          Some (T None (c :: nm) (filter (fun kv => negb (str_eqb (fst kv) name_key)) entries) [])
      | Some (VStr (c :: nm)), CList =>
          match (fix go (l : list nd) : option (list tree) :=
                   match l with
                   | [] => Some []
                   | k :: r => match mirror name_key k, go r with
                               | Some t, Some ts => Some (t :: ts)
                               | _, _ => None
                               end
                   end) kids with
          | Some ts =>
              if distinct_names (map tname ts)
              then Some (T None (c :: nm) (filter (fun kv => negb (str_eqb (fst kv) name_key)) entries) ts)
              else None
          | None => None
          end
      | _, _ => None
      end
  end.

Definition prop_nested (name_key : str) (d : nd) (o : out tree) : bool :=
  match mirror name_key d with
  | Some t => match o with Acc t' => tree_equ t t' | Rej _ => false end
  | None => true                                 (* not a nested dictionary of the documented form *)
  end.

(* ---------------------------------------------------------------------------------------------- *)
(* heap lists *)

(* b is the tree of the elements of l rooted at position i: its value is l[i]; it has a left child exactly when
   position 2i+1 exists, and that child is the tree at 2i+1; likewise right and 2i+2.  (j is the left child of
   (j-1)/2 for odd j, the right child for even j.) *)
Fixpoint is_heap_of (l : list Z) (i : nat) (b : hbt) : bool :=
  match b with
  | BT v lo ro =>
      match nth_error l i with
      | Some x => Z.eqb x v
      | None => false
      end
      && match lo with
         | Some lb => Nat.ltb (2 * i + 1) (length l) && is_heap_of l (2 * i + 1) lb
         | None => Nat.leb (length l) (2 * i + 1)
         end
      && match ro with
         | Some rb => Nat.ltb (2 * i + 2) (length l) && is_heap_of l (2 * i + 2) rb
         | None => Nat.leb (length l) (2 * i + 2)
         end
  end.

Definition prop_heap (l : list Z) (o : out hbt) : bool :=
  match l, o with
  | [], Rej _ => true
  | [], Acc _ => false
  | _ :: _, Acc b => is_heap_of l 0 b
  | _ :: _, Rej _ => false
  end.
