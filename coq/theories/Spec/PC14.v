(* C14 — prune_tree and get_subtree return exactly the specified part of the tree.

   The property as a decision `prop_C14 : input -> observation -> bool`, written from the property
   text.  It uses the vocabulary of Algo/Helper.v (positions, `pre_pos`, `obs_tree`, the argument
   types) but none of its algorithms: no ancestor/target sets, no detaching, no level groups.

     * a prune path / node path `s` *addresses* the node at position p iff, after removing
       trailing separators, `s` is a trailing part of that node's path_name
       (sep + names from the root joined by sep) — the documented meaning of "full path, partial
       path (trailing part of path), or node name" (search.py find_path docstring);
     * kept nodes of prune_tree = nodes on a route root -> target, plus (unless exact) the nodes
       below a target; with max_depth additionally only nodes of depth <= max_depth;
     * the result lists the kept nodes in the original pre-order with the original depth, name
       and attributes (a pre-order list with depths determines the ordered tree);
     * get_subtree = the addressed node and its descendants down to relative depth max_depth,
       depths counted from the new root;
     * a path that addresses no node is answered by an exception; so is a call with neither
       path nor depth (ValueError).
   Outside the claim (predicate true): a path addressing several nodes, nested targets. *)
From BT Require Import Base.Prelude Base.Str Base.Rose Algo.Helper.

(* what the harness saw: the returned tree as pre-order labels, or the exception class code *)
Inductive hobs := OTree (l : list lbl) | OErr (code : nat).

(* remove trailing *whole* occurrences of sep (for a one-character sep this is rstrip(sep)) *)
Fixpoint drop_leading (fuel : nat) (s p : str) : str :=
  match fuel with
  | 0 => s
  | S f => if is_nil p then s
           else if startswith s p then drop_leading f (skipn (length p) s) p else s
  end.
Definition strip_trailing (s sep : str) : str :=
  rev (drop_leading (length s) (rev s) (rev sep)).

(* a is a trailing part of b *)
Fixpoint is_suffix_of (a b : str) : bool :=
  str_eqb a b || match b with [] => false | _ :: b' => is_suffix_of a b' end.

(* path_name of the node at p, from the definition: sep, then the names on the route joined *)
Fixpoint route (t : tree) (p : pos) : list str :=
  match p with
  | [] => [tname t]
  | i :: p' => tname t :: match nth_error (tkids t) i with Some k => route k p' | None => [] end
  end.
Definition spec_path_name (tsep : str) (t : tree) (p : pos) : str := tsep ++ join tsep (route t p).

Definition addressed (tsep : str) (t : tree) (s : str) : list pos :=
  filter (fun p => is_suffix_of (strip_trailing s tsep) (spec_path_name tsep t p)) (map fst (pre_pos t)).

(* no target is a proper ancestor of another *)
Definition nested (targets : list pos) : bool :=
  existsb (fun q1 => existsb (fun q2 => prefixb q1 q2 && negb (pos_eqb q1 q2)) targets) targets.

(* the kept-node set of prune_tree *)
Definition on_route (targets : list pos) (p : pos) : bool := existsb (fun q => prefixb p q) targets.
Definition below_target (targets : list pos) (p : pos) : bool := existsb (fun q => prefixb q p) targets.
Definition within_depth (d : nat) (depth : nat) : bool := Nat.eqb d 0 || Nat.leb depth d.

Definition keep (targets : list pos) (exact : bool) (p : pos) : bool :=
  on_route targets p || (negb exact && below_target targets p).

Definition expected_prune (t : tree) (paths_given : bool) (targets : list pos) (exact : bool) (d : nat)
  : list lbl :=
  map lbl_of (filter (fun ps => (negb paths_given || keep targets exact (fst ps))
                                && within_depth d (S (length (fst ps)))) (pre_pos t)).

(* the node at q with its descendants down to relative depth d, re-rooted *)
Definition expected_subtree (t : tree) (q : pos) (d : nat) : list lbl :=
  map (fun ps => (S (length (fst ps)) - length q, tname (snd ps), tattrs (snd ps)))
      (filter (fun ps => prefixb q (fst ps) && within_depth d (S (length (fst ps)) - length q)) (pre_pos t)).

Definition lbl_eqb (a b : lbl) : bool :=
  match a, b with (d1, n1, a1), (d2, n2, a2) => Nat.eqb d1 d2 && str_eqb n1 n2 && attrs_eqb a1 a2 end.

Definition is_tree (o : hobs) (l : list lbl) : bool :=
  match o with OTree l' => list_eqb lbl_eqb l' l | OErr _ => false end.
Definition is_err (o : hobs) : bool := match o with OErr _ => true | OTree _ => false end.
Definition is_exn (o : hobs) (e : exn) : bool :=
  match o with OErr c => Nat.eqb c (exn_code e) | OTree _ => false end.

Definition singletons {A} (ll : list (list A)) : bool :=
  forallb (fun l => match l with [_] => true | _ => false end) ll.

Definition prop_C14 (tsep : str) (t : tree) (c : hcall) (o : hobs) : bool :=
  match c with
  | CPrune pp exact sep d =>
      let paths := norm_paths pp in
      if is_nil paths && Nat.eqb d 0 then is_exn o ValueError else
      let hits := map (fun s => addressed tsep t (replace s sep tsep)) paths in
      if existsb is_nil hits then is_err o                        (* a path that matches nothing *)
      else if negb (singletons hits) then true                    (* ambiguous path: not claimed *)
      else let targets := concat hits in
           if nested targets then true                            (* nested targets: not claimed *)
           else is_tree o (expected_prune t (negb (is_nil paths)) targets exact d)
  | CSubtree s d =>
      if is_nil s then is_tree o (expected_subtree t [] d) else
      match addressed tsep t s with
      | [] => is_err o
      | [q] => is_tree o (expected_subtree t q d)
      | _ => true
      end
  end.

(* =============================================================================================
   General form: start node = the node at position st of t (a root when st = []); BinaryNode trees
   (bin = true; an empty child slot is the placeholder HOLE, every real node has two slots).

   Reading of the property for an inner start node: "the tree" is the subtree of the start node.
   Paths are matched against the nodes of that subtree by their (absolute) path_name; the returned
   tree must consist of the start node's subtree restricted to the kept nodes; depths — for the
   depth limit and in the result — are counted from the start node (as get_subtree and print_tree
   do).  The returned node of get_subtree must be a root (`top = 1`); for prune_tree the predicate
   does not constrain what is above the returned node (see the report: the code returns the copy of
   the start node still attached to the copied ancestors).
   BinaryNode: a node that is not kept leaves an empty slot in its kept parent, every other slot
   stays where it was.
   ============================================================================================= *)

Definition rel_lbl (base : pos) (ps : pos * tree) : lbl :=
  (S (length (fst ps)) - length base, tname (snd ps), tattrs (snd ps)).

Definition addressed_at (bin : bool) (tsep : str) (t : tree) (st : pos) (s : str) : list pos :=
  map fst
    (filter (fun ps => prefixb st (fst ps) && (negb bin || negb (is_hole (snd ps)))
                       && is_suffix_of (strip_trailing s tsep) (spec_path_name tsep t (fst ps)))
            (pre_pos t)).

(* the result: nodes below `base` whose position satisfies P (P must be closed under ancestors
   within the subtree of base), labelled with depths relative to base *)
Definition expected_gen (bin : bool) (t : tree) (base : pos) (P : pos -> bool) : list lbl :=
  if bin
  then flat_map (fun ps =>
         let p := fst ps in
         if prefixb base p && (pos_eqb p base || P (removelast p))
         then [if is_hole (snd ps) || negb (P p)
               then (S (length p) - length base, [], [])
               else rel_lbl base ps]
         else []) (pre_pos t)
  else map (rel_lbl base) (filter (fun ps => prefixb base (fst ps) && P (fst ps)) (pre_pos t)).

Definition prop_C14_at (bin : bool) (tsep : str) (t : tree) (st : pos) (c : hcall) (o : hobs) : bool :=
  match c with
  | CPrune pp exact sep d =>
      let paths := norm_paths pp in
      if is_nil paths && Nat.eqb d 0 then is_exn o ValueError else
      let hits := map (fun s => addressed_at bin tsep t st (replace s sep tsep)) paths in
      if existsb is_nil hits then is_err o
      else if negb (singletons hits) then true
      else let targets := concat hits in
           if nested targets then true
           else is_tree o (expected_gen bin t st
                             (fun p => (is_nil paths || keep targets exact p)
                                       && within_depth d (S (length p) - length st)))
  | CSubtree s d =>
      let sub q := is_tree o (expected_gen bin t q (fun p => within_depth d (S (length p) - length q))) in
      if is_nil s then sub st else
      match addressed_at bin tsep t st s with
      | [] => is_err o
      | [q] => sub q
      | _ => true
      end
  end.

(* get_subtree returns a new root *)
Definition prop_C14_top (c : hcall) (o : hobs) (top : nat) : bool :=
  match c, o with
  | CSubtree _ _, OTree _ => Nat.eqb top 1
  | _, _ => true
  end.

(* what print_tree(node, node_name_or_path, max_depth) shows = the real nodes of what get_subtree
   returns, by depth and name *)
Definition shown (l : list lbl) : list lbl :=
  map (fun x => match x with (d, n, _) => (d, n, []) end)
      (filter (fun x => match x with (_, n, _) => negb (is_nil n) end) l).

Definition prop_C14_print (bin : bool) (tsep : str) (t : tree) (st : pos) (c : hcall) (pr : option hobs) : bool :=
  match pr, c with
  | Some o, CSubtree s d =>
      let sub q := is_tree o (shown (expected_gen bin t q (fun p => within_depth d (S (length p) - length q)))) in
      if is_nil s then sub st else
      match addressed_at bin tsep t st s with
      | [] => is_err o
      | [q] => sub q
      | _ => true
      end
  | _, _ => true
  end.
