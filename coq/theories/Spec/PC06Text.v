(* C06, textual half: what "the Newick string / the printed tree lists every node exactly once,
   nested as the tree is, with its exact name and requested attribute values" and "re-importing the
   export reproduces the tree" mean, as boolean predicates.

   Written from the property text and the textbook definitions of the two formats, not from the code:
   - Newick: a recursive-descent READER of the New Hampshire (NHX) grammar
         subtree ::= [ "(" subtree { "," subtree } ")" ] label [ ":" digits ] [ "[" prefix kv { ":" kv } "]" ]
         label   ::= "'" { any character but ' } "'"  |  { any character but ( ) [ ] = ' : , }
         kv      ::= label "=" label
     (bigtree's parser is an index-driven character state machine with a depth table);
   - printed tree: the textbook recursive pretty-printer that passes the accumulated indentation
     prefix down (bigtree's yield_tree is a loop over the pre-order with a set of "unclosed depths").
   The alphabets (guards) are the inputs for which the documentation claims a round trip.  *)
From BT Require Import Base.Prelude Base.Str Base.Rose.

Local Open Scope N_scope.

Definition nilb {A} (l : list A) : bool := match l with [] => true | _ => false end.

(* ------------------------------------------------------------------------------------------ *)
(* views of a tree                                                                             *)

(* names and shape only (tags and attributes dropped) *)
Fixpoint erase (t : tree) : tree :=
  match t with T _ n _ ks => T None n [] (map erase ks) end.

Fixpoint ins_attr (kv : str * val) (l : attrs) : attrs :=
  match l with
  | [] => [kv]
  | x :: r => if str_ltb (fst x) (fst kv) then x :: ins_attr kv r else kv :: l
  end.
Definition sort_attrs (a : attrs) : attrs := fold_right ins_attr [] a.
Fixpoint sort_tree (t : tree) : tree :=
  match t with T g n a ks => T g n (sort_attrs a) (map sort_tree ks) end.

(* names of internal nodes blanked (Newick with intermediate_node_name = False does not carry them) *)
Fixpoint blank_internal (t : tree) : tree :=
  match t with
  | T g n a [] => T g n a []
  | T g _ a ks => T g [] a (map blank_internal ks)
  end.

Fixpoint names_nodup (l : list str) : bool :=
  match l with [] => true | x :: r => negb (existsb (str_eqb x) r) && names_nodup r end.
(* sibling names are distinct everywhere (an invariant of bigtree's Node class) *)
Fixpoint sib_distinct (t : tree) : bool :=
  match t with T _ _ _ ks => names_nodup (map tname ks) && forallb sib_distinct ks end.

Fixpoint all_nodes (p : tree -> bool) (t : tree) : bool :=
  match t with T _ _ _ ks => p t && forallb (all_nodes p) ks end.

Definition attr_get (k : str) (a : attrs) : option val :=
  match find (fun kv => str_eqb (fst kv) k) a with Some kv => Some (snd kv) | None => None end.

(* ------------------------------------------------------------------------------------------ *)
(* Newick                                                                                      *)

Definition q : N := 39.                                        (* the quote character ' *)
Definition newick_special (c : N) : bool := memN c [40; 41; 91; 93; 61; 39; 58; 44].   (* ( ) [ ] = ' : , *)
Definition no_quote (s : str) : bool := negb (memN q s).

(* options of the export as far as the property is concerned *)
Record nwopt := NwOpt {
  o_inter : bool;            (* intermediate node names written *)
  o_len : str;               (* length attribute, "" = none *)
  o_keys : list str;         (* attributes requested *)
  o_prefix : str;            (* attribute prefix inside [ ] *)
  o_seps_default : bool      (* length_sep and attr_sep are ":" (the only ones the importer knows) *)
}.

(* the tree the Newick text has to denote: exact names (blank where the option suppresses them),
   the length (all nodes but the real root) and the requested attributes the node has (not None) *)
Fixpoint nw_view (o : nwopt) (isroot : bool) (t : tree) : tree :=
  match t with
  | T _ n a ks =>
      let nm := if o_inter o || nilb ks then n else [] in
      let len := if nilb (o_len o) || isroot then []
                 else match attr_get (o_len o) a with Some v => [(o_len o, v)] | None => [] end in
      let ats := flat_map (fun k => match attr_get k a with
                                    | Some VNone | None => []
                                    | Some v => [(k, v)]
                                    end) (o_keys o) in
      T None nm (len ++ ats) (map (nw_view o false) ks)
  end.

(* --- the reader --- *)
Fixpoint span_p (p : N -> bool) (s : str) : str * str :=
  match s with
  | [] => ([], [])
  | c :: r => if p c then let (a, b) := span_p p r in (c :: a, b) else ([], s)
  end.

Fixpoint rd_quoted (s : str) : option (str * str) :=
  match s with
  | [] => None
  | c :: r => if N.eqb c q then Some ([], r)
              else match rd_quoted r with Some (a, b) => Some (c :: a, b) | None => None end
  end.

Definition rd_label (s : str) : option (str * str) :=
  match s with
  | c :: r => if N.eqb c q then rd_quoted r else Some (span_p (fun c => negb (newick_special c)) s)
  | [] => Some ([], [])
  end.

Definition digitb (c : N) : bool := (48 <=? c) && (c <=? 57).
Definition digits_value (s : str) : Z := Z.of_N (fold_left (fun a c => a * 10 + (c - 48)) s 0).

(* kv { ":" kv } "]" *)
Fixpoint rd_kvs (fuel : nat) (s : str) : option (attrs * str) :=
  match fuel with
  | O => None
  | S f =>
      match rd_label s with
      | Some (k, c :: r) =>
          if N.eqb c 61 then
            match rd_label r with
            | Some (v, c' :: r') =>
                if N.eqb c' 93 then Some ([(k, VStr v)], r')
                else if N.eqb c' 58 then
                  match rd_kvs f r' with
                  | Some (l, r'') => Some ((k, VStr v) :: l, r'')
                  | None => None
                  end
                else None
            | _ => None
            end
          else None
      | _ => None
      end
  end.

(* label [ ":" digits ] [ "[" prefix kvs ] ; the children are already read *)
Definition rd_node (la pf : str) (ks : list tree) (s : str) : option (tree * str) :=
  match rd_label s with
  | None => None
  | Some (name, r1) =>
      let len_r2 :=
        match r1 with
        | c :: r => if N.eqb c 58
                    then let (ds, r') := span_p digitb r in
                         if nilb ds then None else Some ([(la, VInt (digits_value ds))], r')
                    else Some ([], r1)
        | [] => Some ([], r1)
        end in
      match len_r2 with
      | None => None
      | Some (len, r2) =>
          match r2 with
          | c :: r =>
              if N.eqb c 91 then
                if startswith r pf then
                  match rd_kvs (S (length r)) (skipn (length pf) r) with
                  | Some (ats, r3) => Some (T None name (len ++ ats) ks, r3)
                  | None => None
                  end
                else None
              else Some (T None name len ks, r2)
          | [] => Some (T None name len ks, r2)
          end
      end
  end.

Fixpoint rd_tree (fuel : nat) (la pf : str) (s : str) : option (tree * str) :=
  match fuel with
  | O => None
  | S f =>
      match s with
      | c :: r => if N.eqb c 40
                  then match rd_forest f la pf r with
                       | Some (ks, r') => rd_node la pf ks r'
                       | None => None
                       end
                  else rd_node la pf [] s
      | [] => rd_node la pf [] s
      end
  end
with rd_forest (fuel : nat) (la pf : str) (s : str) : option (list tree * str) :=
  match fuel with
  | O => None
  | S f =>
      match rd_tree f la pf s with
      | Some (t, c :: r) =>
          if N.eqb c 44 then
            match rd_forest f la pf r with
            | Some (ts, r') => Some (t :: ts, r')
            | None => None
            end
          else if N.eqb c 41 then Some ([t], r)
          else None
      | _ => None
      end
  end.

(* the whole text is one subtree *)
Definition newick_read (la pf : str) (s : str) : option tree :=
  match rd_tree (S (length s)) la pf s with
  | Some (t, []) => Some t
  | _ => None
  end.

Definition default_len : str := [108; 101; 110; 103; 116; 104].     (* "length" *)
Definition la_of (o : nwopt) : str := if nilb (o_len o) then default_len else o_len o.

(* clause 1: the text lists every node exactly once, nested as the tree is, exact names,
   requested attribute values *)
Definition prop_newick_export (o : nwopt) (isroot : bool) (t : tree) (s : str) : bool :=
  match newick_read (la_of o) (o_prefix o) s with
  | Some t' => tree_eqb (nw_view o isroot t) t'
  | None => false
  end.

(* clause 2: the re-imported tree equals the original in names, shape, sibling order and exported
   attributes (tags ignored; attributes compared as sorted by key; without intermediate names the
   importer invents names for internal nodes, which are not compared) *)
Definition prop_newick_back (o : nwopt) (isroot : bool) (t back : tree) : bool :=
  let nz := fun x => if o_inter o then sort_tree x else blank_internal (sort_tree x) in
  tree_eqb (nz (nw_view o isroot t)) (nz back).

(* documented alphabet of the Newick pair:
   newick_to_tree: "Support special characters ([, ], (, ), :, ,) in node name, attribute name, and
   attribute values if they are enclosed in single quotes" -- hence no quote character inside;
   lengths are numbers (here: positive integers; the exporter treats a falsy length as missing),
   attribute values are non-empty non-quote strings (other types are written with str() and come
   back as str; falsy values are not written at all),
   the importer only knows ":" as separator. *)
Definition key_ok (k : str) : bool :=
  negb (nilb k) && no_quote k
  && negb (match k with c :: _ => N.eqb c 95 | [] => false end)       (* not _private *)
  && negb (str_eqb k [110; 97; 109; 101]).                             (* not "name" *)

Definition name_ok (n : str) : bool := negb (nilb n) && no_quote n.

(* "If there are no node names, it will be auto-filled with convention nodeN with N representing a
   number" (newick_to_tree): names of that form are reserved when intermediate names are omitted *)
Definition auto_name (n : str) : bool :=
  match n with
  | 110 :: 111 :: 100 :: 101 :: d :: r => forallb (fun c => (48 <=? c) && (c <=? 57)) (d :: r)
  | _ => false
  end.

Definition node_in_alphabet (o : nwopt) (t : tree) : bool :=
  name_ok (tname t)
  && forallb (fun k => match attr_get k (tattrs t) with
                       | None => true
                       | Some VNone => true
                       | Some (VStr s) => negb (nilb s) && no_quote s
                       | Some _ => false
                       end) (o_keys o).

Definition len_ok (o : nwopt) (t : tree) : bool :=
  match attr_get (o_len o) (tattrs t) with
  | Some (VInt z) => Z.ltb 0 z
  | _ => false
  end.

Definition newick_alphabet (o : nwopt) (isroot : bool) (t : tree) : bool :=
  all_nodes (node_in_alphabet o) t
  && (o_inter o || all_nodes (fun x => negb (auto_name (tname x))) t)
  && sib_distinct t
  && forallb key_ok (o_keys o) && names_nodup (o_keys o)
  && (nilb (o_len o)
      || (key_ok (o_len o) && negb (existsb (str_eqb (o_len o)) (o_keys o))
          && (isroot || len_ok o t) && forallb (all_nodes (len_ok o)) (tkids t)))
  && ((nilb (o_len o) && nilb (o_keys o)) || o_seps_default o).

(* the same with float lengths admitted (any non-zero number): used by the check for the round-trip
   clause only; the theorems are stated for newick_alphabet *)
Definition len_ok_ext (o : nwopt) (t : tree) : bool :=
  match attr_get (o_len o) (tattrs t) with
  | Some (VInt z) => Z.ltb 0 z
  | Some (VFloat n d) => negb (Z.eqb n 0) && negb (Z.eqb d 0)
  | _ => false
  end.
Definition newick_alphabet_ext (o : nwopt) (isroot : bool) (t : tree) : bool :=
  all_nodes (node_in_alphabet o) t
  && (o_inter o || all_nodes (fun x => negb (auto_name (tname x))) t)
  && sib_distinct t
  && forallb key_ok (o_keys o) && names_nodup (o_keys o)
  && (nilb (o_len o)
      || (key_ok (o_len o) && negb (existsb (str_eqb (o_len o)) (o_keys o))
          && (isroot || len_ok_ext o t) && forallb (all_nodes (len_ok_ext o)) (tkids t)))
  && ((nilb (o_len o) && nilb (o_keys o)) || o_seps_default o).


(* ------------------------------------------------------------------------------------------ *)
(* printed tree                                                                                *)

Definition pstyle := (str * str * str)%type.          (* stem, branch, final stem *)

(* lines below a node whose own line has been written; `pfx` = indentation inherited from above *)
Fixpoint ref_below (st : pstyle) (pfx : str) (t : tree) : list str :=
  match t with
  | T _ _ _ ks =>
      let '(stem, branch, final) := st in
      (fix go (l : list tree) : list str :=
         match l with
         | [] => []
         | k :: r =>
             let last := nilb r in
             (pfx ++ (if last then final else branch) ++ tname k)
               :: ref_below st (pfx ++ (if last then repeat 32 (length stem) else stem)) k ++ go r
         end) ks
  end.
Definition ref_print (st : pstyle) (t : tree) : str :=
  concat (map (fun l => l ++ [10]) (tname t :: ref_below st [] t)).

Definition prop_print_export (st : pstyle) (t : tree) (s : str) : bool := str_eqb (ref_print st t) s.

Definition prop_print_back (t back : tree) : bool := tree_eqb (erase t) back.

(* documented alphabet of print_tree / str_to_tree without tree_prefix_list ("it will infer unicode
   characters and whitespace as prefix"): the three style strings have one common positive length and
   consist of non-ASCII characters and blanks; names are non-empty printable ASCII not starting with
   a blank *)
Definition glyph (c : N) : bool := (128 <=? c) || N.eqb c 32.
Definition style_inferable (st : pstyle) : bool :=
  let '(stem, branch, final) := st in
  Nat.eqb (length stem) (length branch) && Nat.eqb (length branch) (length final)
  && negb (nilb stem)
  && forallb glyph stem && forallb glyph branch && forallb glyph final.

Definition printable (c : N) : bool := (32 <=? c) && (c <=? 126).
Definition print_name_ok (n : str) : bool :=
  forallb printable n && match n with c :: _ => negb (N.eqb c 32) | [] => false end.

Definition print_alphabet (st : pstyle) (t : tree) : bool :=
  style_inferable st && all_nodes (fun x => print_name_ok (tname x)) t && sib_distinct t.
