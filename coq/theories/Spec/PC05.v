(* C05 — path-based constructors build exactly the prefix closure of the given paths.

   The property as a decision procedure on (entry point, input, what came out).  It is written
   from the property text: a path string denotes the list of its components between separators
   (a leading / trailing separator adds nothing); the expected tree is the trie of
   (paths of the tree being extended) ∪ (all prefixes of the given paths), children in order of
   first appearance; attributes of a node = what it had, updated by the rows naming its path.
   Nothing here follows the loop structure of construct.py.

   Only types (kind/input/output/row), the Python-dict update `set_attrs`/`attr_get` and the
   position helper `names_along` are taken from the model file. *)
From BT Require Import Base.Prelude Base.Str Base.Rose Algo.Construct.

Definition path := list str.
Definition path_eqb : path -> path -> bool := list_eqb str_eqb.
Definition mem_path (p : path) (l : list path) : bool := existsb (path_eqb p) l.

(* ---- reading a path string --------------------------------------------------------------- *)
Fixpoint drop_empty (l : list str) : list str :=
  match l with [] :: r => drop_empty r | _ => l end.
(* components between separators, minus the empty ones produced by leading/trailing separators *)
Definition spec_parse (s sep : str) : path :=
  rev (drop_empty (rev (drop_empty (split s sep)))).

(* ---- prefix closure and the trie order ---------------------------------------------------- *)
(* non-empty prefixes, shortest first *)
Fixpoint prefixes (p : path) : list path :=
  match p with [] => [] | x :: r => [x] :: map (cons x) (prefixes r) end.
Definition closure (ps : list path) : list path := flat_map prefixes ps.

Fixpoint dedup (seen : list path) (l : list path) : list path :=
  match l with
  | [] => []
  | x :: r => if mem_path x seen then dedup seen r else x :: dedup (x :: seen) r
  end.

(* the paths extending p by one component, in the order of `all` *)
Definition children_of (all : list path) (p : path) : list path :=
  filter (fun q => negb (is_nil q) && path_eqb (removelast q) p) all.

(* pre-order of the trie spanned by `all` below p; fuel = number of levels still to descend *)
Fixpoint trie_pre (fuel : nat) (all : list path) (p : path) : list path :=
  match fuel with
  | 0 => [p]
  | S f => p :: flat_map (trie_pre f all) (children_of all p)
  end.

Definition max_len (l : list path) : nat := fold_right (fun p m => Nat.max (length p) m) 0 l.

Fixpoint nodup_str (l : list str) : bool :=
  match l with [] => true | x :: r => negb (existsb (str_eqb x) r) && nodup_str r end.
Fixpoint nodup_path (l : list path) : bool :=
  match l with [] => true | x :: r => negb (mem_path x r) && nodup_path r end.

Definition names_of (t : tree) : list str := map tname (pre t).

(* ---- attributes ---------------------------------------------------------------------------- *)
Definition attrs_sub (a b : attrs) : bool :=
  forallb (fun kv => match attr_get b (fst kv) with Some v => val_eqb v (snd kv) | None => false end) a.
Definition attrs_equiv (a b : attrs) : bool :=
  nodup_str (map fst a) && nodup_str (map fst b) && attrs_sub a b && attrs_sub b a.

Definition key_is (k : str) (kv : str * val) : bool := str_eqb (fst kv) k.
Definition not_null (kv : str * val) : bool := match snd kv with VNone => false | _ => true end.

(* which attributes of a row are documented to reach the node *)
Definition spec_filter (k : kind) (pcol : str) (a : attrs) : attrs :=
  match k with
  | KList => []
  | KAddPath | KAddDict => a
  | KDict | KNameDict => filter (fun kv => negb (key_is k_name kv)) a
  | _ => filter (fun kv => not_null kv && negb (key_is k_name kv) && negb (key_is pcol kv)) a
  end.

Definition is_new (k : kind) : bool :=
  match k with KList | KDict | KFrame | KPolars => true | _ => false end.
Definition is_frame (k : kind) : bool :=
  match k with KFrame | KPolars | KAddFrame | KAddPolars | KNameFrame | KNamePolars => true | _ => false end.
Definition is_byname (k : kind) : bool :=
  match k with KNameDict | KNameFrame | KNamePolars => true | _ => false end.

(* two rows naming the same node with different attribute values *)
Fixpoint conflict {K} (eqk : K -> K -> bool) (rows : list (K * attrs)) : bool :=
  match rows with
  | [] => false
  | (k, a) :: rest =>
      existsb (fun r => eqk k (fst r) && negb (attrs_eqb a (snd r))) rest || conflict eqk rest
  end.

(* lookup of what a pre-existing node at path p carried *)
Fixpoint assoc_path {A} (p : path) (l : list (path * A)) : option A :=
  match l with
  | [] => None
  | (q, a) :: r => if path_eqb q p then Some a else assoc_path p r
  end.

Fixpoint forallb2 {A B} (f : A -> B -> bool) (l : list A) (m : list B) : bool :=
  match l, m with
  | [], [] => true
  | x :: l', y :: m' => f x y && forallb2 f l' m'
  | _, _ => false
  end.

Definition opt_tag_eqb := opt_eqb Nat.eqb.

(* same node objects, names, shape and attribute maps *)
Definition same_tree (a b : tree) : bool :=
  list_eqb path_eqb (paths a) (paths b)
  && list_eqb opt_tag_eqb (map ttag (pre a)) (map ttag (pre b))
  && forallb2 (fun x y => attrs_equiv (tattrs x) (tattrs y)) (pre a) (pre b).

(* ---- guards: inputs the property speaks about --------------------------------------------- *)
(* separator of the tree while the paths are added *)
Definition working_sep (k : kind) (i : input) : str :=
  match k with
  | KList | KDict => i_sep i
  | KFrame | KPolars => default_sep
  | _ => i_tsep i
  end.

Definition keys_ok (k : kind) (i : input) : bool :=
  forallb (row_keys_ok (match k with
                        | KAddPath | KAddDict => []
                        | KFrame | KPolars | KAddFrame | KAddPolars => [k_name; i_pcol i]
                        | _ => [k_name]
                        end)) (i_rows i).

(* ---- the path entry points ----------------------------------------------------------------- *)
Section PathKinds.
  Variable k : kind.
  Variable i : input.
  Variable o : output.

  Definition prows : list (path * attrs) :=
    map (fun r => (spec_parse (fst r) (i_sep i), spec_filter k (i_pcol i) (snd r))) (i_rows i).
  Definition raw_prows : list (path * attrs) :=
    map (fun r => (spec_parse (fst r) (i_sep i), snd r)) (i_rows i).

  Definition root_name : str :=
    if is_new k then match prows with (r :: _, _) :: _ => r | _ => [] end else tname (i_tree i).
  Definition base : tree := if is_new k then T None root_name [] [] else i_tree i.

  Definition all_paths : list path := dedup [] (paths base ++ closure (map fst prows)).
  Definition expected_paths : list path := trie_pre (max_len all_paths) all_paths [root_name].

  Definition wrong_root (p : path) : bool :=
    match p with [] => true | r :: _ => negb (str_eqb r root_name) end.
  Definition path_ok (p : path) : bool :=
    negb (wrong_root p) && forallb (fun c => negb (is_nil c)) p.

  Definition names_distinct_after : bool := nodup_str (map (fun p => last p []) all_paths).

  (* add_path_to_tree is called once per row: with no rows nothing is called *)
  Definition no_call : bool :=
    match k with KAddPath => is_nil (i_rows i) | _ => false end.

  Definition expected_accept : bool :=
    no_call ||
    negb (is_nil (i_rows i))
    && negb (is_nil root_name)
    && forallb path_ok (map fst prows)
    && (if is_frame k then negb (conflict path_eqb raw_prows) else true)
    && (i_dup i || names_distinct_after).

  (* the call must leave the tree alone when it refuses the very first thing it looks at *)
  Definition refused_at_once : bool :=
    is_nil (i_rows i)
    || (is_frame k && conflict path_eqb raw_prows)
    || match prows with (p, _) :: _ => wrong_root p | [] => true end.

  Definition base_attrs (p : path) : attrs :=
    match assoc_path p (combine (paths base) (map tattrs (pre base))) with
    | Some a => a
    | None => []
    end.
  Definition expected_attrs (p : path) : attrs :=
    fold_left (fun a r => if path_eqb (fst r) p then set_attrs a (snd r) else a) prows (base_attrs p).
  Definition expected_tag (p : path) : option nat :=
    if is_new k then None else
    match assoc_path p (combine (paths base) (map ttag (pre base))) with
    | Some g => g
    | None => None
    end.

  Definition rets_ok (t' : tree) : bool :=
    match k with
    | KAddPath => forallb2 (fun r q => path_eqb (names_along t' q) (fst r)) prows (o_rets o)
    | _ => list_eqb (list_eqb Nat.eqb) (o_rets o) [[]]
    end.

  Definition guards : bool :=
    negb (is_nil (i_sep i))
    && keys_ok k i
    && nodup_path (paths base)
    && forallb (fun n => negb (is_nil n)) (names_of base)
    && (i_dup i
        || (nodup_str (names_of base)
            && forallb (fun p => forallb (fun c => negb (contains c (working_sep k i))) p)
                       (paths base ++ map fst prows))).

  Definition prop_paths : bool :=
    if negb guards then true else
    match o_res o with
    | None =>
        expected_accept &&
        match o_tree o with
        | None => false
        | Some t' =>
            (* nothing missing, nothing extra, nothing twice, children by first appearance *)
            list_eqb path_eqb (paths t') expected_paths
            (* existing node objects are reused, the rest are new objects *)
            && list_eqb opt_tag_eqb (map ttag (pre t')) (map expected_tag (paths t'))
            (* attributes land on exactly the nodes whose path was given with them *)
            && forallb2 (fun p nd => attrs_equiv (tattrs nd) (expected_attrs p)) (paths t') (pre t')
            (* the returned node is the node at the path *)
            && rets_ok t'
            (* duplicate names disallowed: all names distinct *)
            && (i_dup i || nodup_str (names_of t'))
        end
    | Some _ =>
        negb expected_accept &&
        (if is_new k then true
         else if refused_at_once
              then match o_tree o with Some t' => same_tree t' (i_tree i) | None => false end
              else true)
    end.
End PathKinds.

(* ---- attributes by node name ---------------------------------------------------------------- *)
Fixpoint has_prefix (pre p : pos) : bool :=
  match pre, p with
  | [], _ => true
  | x :: pre', y :: p' => Nat.eqb x y && has_prefix pre' p'
  | _ :: _, [] => false
  end.

Definition prop_byname (k : kind) (i : input) (o : output) : bool :=
  if negb (keys_ok k i && nodup_path (paths (i_tree i))) then true else
  let t0 := i_tree i in
  let accept := negb (is_nil (i_rows i))
                && (if is_frame k then negb (conflict str_eqb (i_rows i)) else true) in
  match o_res o, o_tree o with
  | None, Some t' =>
      accept
      && list_eqb path_eqb (paths t') (paths t0)
      && list_eqb opt_tag_eqb (map ttag (pre t')) (map ttag (pre t0))
      && list_eqb (list_eqb Nat.eqb) (o_rets o) [i_start i]
      && forallb2 (fun (q : pos) (nds : tree * tree) =>
                     let (nd0, nd) := nds in
                     attrs_equiv (tattrs nd)
                       (if has_prefix (i_start i) q
                        then fold_left (fun a r => if str_eqb (fst r) (tname nd0)
                                                   then set_attrs a (spec_filter k (i_pcol i) (snd r)) else a)
                                       (i_rows i) (tattrs nd0)
                        else tattrs nd0))
                  (all_pos t0) (combine (pre t0) (pre t'))
  | None, None => false
  | Some _, Some t' => negb accept && same_tree t' t0
  | Some _, None => false
  end.

Definition prop_C05 (k : kind) (i : input) (o : output) : bool :=
  if is_byname k then prop_byname k i o else prop_paths k i o.
