(* C04 — traversals visit each node once, in the documented order, honouring filters.
   Algorithm-independent statement of what the seven iterators of bigtree/utils/iterators.py must
   yield.  Nothing here looks at the model (Algo/Iter.v): the vocabulary is

     * route      : a node of the traversed subtree together with its proper ancestors (from the
                    start node downwards); `routes t` lists them in textbook pre-order,
                    `routes_post t` in textbook post-order;
     * visible    : no node on the route, the node included, satisfies the stop condition, and the
                    absolute depth of the node does not exceed max_depth (0 = no limit);
     * vis_level k: the visible nodes at relative depth k, left to right;
     * zig        : a level is reversed iff its (0-based) relative depth is odd;
     * reached k  : level 0 always; level k+1 iff its absolute depth is within max_depth and some
                    visible node of level k has a child (whether or not that child is stopped) —
                    "one group per depth reached";
     * binary trees: `btree` has two optional slots; `img` forgets the empty slots; in-order is the
                    textbook left / node / right.

   The same predicates are (a) proved of the model (Props/C04.v) and (b) evaluated on every output
   of the implementation (Corr/IterCorr.v). *)
From BT Require Import Base.Prelude Base.Rose.

Definition nilb {A} (l : list A) : bool := match l with [] => true | _ :: _ => false end.

(* max_depth = 0 means "no limit" (iterators.py: `not max_depth or not depth > max_depth`) *)
Definition within (m d : nat) : bool := Nat.eqb m 0 || Nat.leb d m.

(* ------------------------------------------------------------------------------------------ *)
(* routes *)

Definition route := (list tree * tree)%type.   (* (proper ancestors, start node first; the node) *)
Definition under (t : tree) (r : route) : route := (t :: fst r, snd r).

Fixpoint routes (t : tree) : list route :=
  match t with T _ _ _ ks => ([], t) :: map (under t) (flat_map routes ks) end.

Fixpoint routes_post (t : tree) : list route :=
  match t with T _ _ _ ks => map (under t) (flat_map routes_post ks) ++ [([], t)] end.

Definition rlevel (r : route) : nat := length (fst r).       (* depth relative to the start node *)

Section Spec.
  Variables (filt stop : tree -> bool).
  Variable m : nat.      (* max_depth, 0 = none *)
  Variable d0 : nat.     (* absolute depth (`node.depth`, root = 1) of the start node *)

  Definition visible (r : route) : bool :=
    forallb (fun x => negb (stop x)) (fst r) && negb (stop (snd r)) && within m (d0 + rlevel r).

  Definition wanted (r : route) : bool := visible r && filt (snd r).

  (* the set of nodes every traversal has to yield, here in pre-order *)
  Definition spec_pre (t : tree) : list tree := map snd (filter wanted (routes t)).
  Definition spec_post (t : tree) : list tree := map snd (filter wanted (routes_post t)).

  Definition vis_level (k : nat) (t : tree) : list tree :=
    map snd (filter (fun r => Nat.eqb (rlevel r) k && visible r) (routes t)).

  Definition zig {A} (k : nat) (l : list A) : list A := if Nat.odd k then rev l else l.

  Definition spec_levelorder (t : tree) : list tree :=
    filter filt (flat_map (fun k => vis_level k t) (seq 0 (height t))).

  Definition spec_zigzag (t : tree) : list tree :=
    filter filt (flat_map (fun k => zig k (vis_level k t)) (seq 0 (height t))).

  Definition reached (t : tree) (k : nat) : bool :=
    match k with
    | 0 => true
    | S j => within m (d0 + k) && negb (nilb (flat_map tkids (vis_level j t)))
    end.

  Definition group_levels (t : tree) : list nat := filter (reached t) (seq 0 (height t)).

  Definition spec_levelordergroup (t : tree) : list (list tree) :=
    map (fun k => filter filt (vis_level k t)) (group_levels t).

  Definition spec_zigzaggroup (t : tree) : list (list tree) :=
    map (fun k => filter filt (zig k (vis_level k t))) (group_levels t).
End Spec.

(* ------------------------------------------------------------------------------------------ *)
(* binary trees *)

Inductive btree := B (tag : option nat) (l r : option btree).

Definition btag (b : btree) := match b with B g _ _ => g end.
Definition bleft (b : btree) := match b with B _ l _ => l end.
Definition bright (b : btree) := match b with B _ _ r => r end.

Definition oslot {X} (f : btree -> list X) (o : option btree) : list X :=
  match o with Some x => f x | None => [] end.

(* the ordered tree a binary tree denotes once the empty slots are forgotten *)
Fixpoint img (b : btree) : tree :=
  match b with B g l r => T g [] [] (oslot (fun x => [img x]) l ++ oslot (fun x => [img x]) r) end.

(* textbook in-order with absolute depths *)
Fixpoint inord (d : nat) (b : btree) : list (nat * btree) :=
  match b with B _ l r => oslot (inord (S d)) l ++ [(d, b)] ++ oslot (inord (S d)) r end.

Definition spec_inorder (filt : btree -> bool) (m d0 : nat) (b : btree) : list btree :=
  filter filt (map snd (filter (fun p => within m (fst p)) (inord d0 b))).

(* ------------------------------------------------------------------------------------------ *)
(* the property as a decision on observed outputs (sequences of node numbers = tags) *)

Record iobs := IO {
  o_pre : list nat;  o_post : list nat;  o_lo : list nat;  o_zz : list nat;
  o_log : list (list nat);  o_zzg : list (list nat)
}.

Fixpoint all2 {X Y} (e : X -> Y -> bool) (a : list X) (b : list Y) : bool :=
  match a, b with
  | [], [] => true
  | x :: a', y :: b' => e x y && all2 e a' b'
  | _, _ => false
  end.

Definition tag_is (g : option nat) (i : nat) : bool :=
  match g with Some j => Nat.eqb j i | None => false end.

Definition same_seq (spec : list tree) (obs : list nat) : bool := all2 (fun t i => tag_is (ttag t) i) spec obs.
Definition same_groups (spec : list (list tree)) (obs : list (list nat)) : bool := all2 same_seq spec obs.
Definition same_bseq (spec : list btree) (obs : list nat) : bool := all2 (fun b i => tag_is (btag b) i) spec obs.

(* tags identify nodes *)
Definition tags_distinct (t : tree) : bool :=
  forallb (fun x => match ttag x with Some _ => true | None => false end) (pre t)
  && nodupb (flat_map (fun x => match ttag x with Some i => [i] | None => [] end) (pre t)).

Definition prop_C04_rose (filt stop : tree -> bool) (m d0 : nat) (t : tree) (o : iobs) : bool :=
  same_seq (spec_pre filt stop m d0 t) (o_pre o)
  && same_seq (spec_post filt stop m d0 t) (o_post o)
  && same_seq (spec_levelorder filt stop m d0 t) (o_lo o)
  && same_seq (spec_zigzag filt stop m d0 t) (o_zz o)
  && same_groups (spec_levelordergroup filt stop m d0 t) (o_log o)
  && same_groups (spec_zigzaggroup filt stop m d0 t) (o_zzg o).

(* binary trees: the six iterators behave as on the image without empty slots; in-order (which has
   no stop condition) is the textbook one *)
Definition prop_C04_bin (filt stop : tree -> bool) (bfilt : btree -> bool) (m d0 : nat) (b : btree)
           (o : iobs) (ino : list nat) : bool :=
  prop_C04_rose filt stop m d0 (img b) o
  && same_bseq (spec_inorder bfilt m d0 b) ino.
